/-
C05 slot level REFINES C05 key level.

`Pdb/Props/C05Slot.lean` (slot-level model `CSlot.SSt`: index chunk -> address -> value slot) and
`Pdb/Props/C05.lean` (key-level model `CRd.CSt`: one table cell per key) were proved separately.
Here they are tied by a forward simulation: every slot-level action is translated, from the pair
of current states, into a possibly empty list of key-level actions (`CSlot.trAct`):
  commit | pop | publish | cleanOverlay | flush | rBegin | rOverlay | rEnd   the same action
  enactWrite        nothing (the files in the middle of a record are not a key-level table)
  endRead           (when enabled) every `enactWrite` of the oldest key-level record, then `endRead`
  rIdxLog | rIdxFile | rValLog | rValFile
                    nothing, except the step that completes the slot-level lookup: `rLog, rTable`
and the relation `CSlot.Sim` (commit overlay, queue, in-flight commit, history, number of logged
records, flush mark, reader pcs through `absPc`, completed reads through `absEvt`) is preserved
(`C05_slot_refines`).  Hence every slot-level run has a key-level run with the same completed
reads and the same history, and the key-level theorems transfer (`C05_slot_observed_value`,
`C05_slot_monotone`, `C05_slot_atomic_visibility`, `C05_slot_handover`).  `Sim` does not relate
files to tables; the contents are related through the views (`C05_slot_view_abstraction`,
`C05_slot_handover_miss`).

Hypotheses: the real configuration for the lock discipline and `end_read` (`discipline`, `exactEnd`);
`keyCheck` is free.  The one non-mechanical step (the value the completed slot-level lookup returns
is the value the key-level lookups return) uses `C05_slot_read_linearizable` and
`C05_read_linearizable` on the runs extended by `rEnd`.
-/
import Pdb.Proofs.C05SlotRefine

namespace Pdb
open CSlot
variable {K V : Type} [DecidableEq K]

/-- Forward simulation: the slot-level run and the key-level run of its translation are related
    by `Sim`. -/
theorem C05_slot_refines (cfg : Cfg) (hd : cfg.discipline = true) (hx : cfg.exactEnd = true)
    (tier : V → Nat) (chunkOf : K → Nat) (N : Nat) (as : List (SAct K V)) :
    Sim (srun cfg tier chunkOf N SSt.init as)
      (CRd.crun plainK N CRd.CSt.init (trRun cfg tier chunkOf N SSt.init CRd.CSt.init as)) :=
  Sim.run cfg hd hx tier chunkOf N as

/-- The value a slot-level read returns is the one left by the transaction it observes (the last
    writer of the key inside its snapshot); `none` if nothing ever wrote the key. -/
theorem C05_slot_observed_value (cfg : Cfg) (hd : cfg.discipline = true)
    (hx : cfg.exactEnd = true) (tier : V → Nat) (chunkOf : K → Nat) (N : Nat)
    (as : List (SAct K V)) (e : ReadEvt K V)
    (he : e ∈ (srun cfg tier chunkOf N SSt.init as).reads) :
    (∀ j, CRd.lastWriter ((srun cfg tier chunkOf N SSt.init as).hist.take e.startSeq) e.key =
        some j →
      e.result = (spec plainK ((srun cfg tier chunkOf N SSt.init as).hist.take (j + 1))
        e.key).map Prod.fst) ∧
    (CRd.lastWriter ((srun cfg tier chunkOf N SSt.init as).hist.take e.startSeq) e.key = none →
      e.result = none) := by
  have hsim := C05_slot_refines cfg hd hx tier chunkOf N as
  have hm : absEvt e ∈ (CRd.crun plainK N CRd.CSt.init
      (trRun cfg tier chunkOf N SSt.init CRd.CSt.init as)).reads := by
    rw [hsim.reads]; exact List.mem_map_of_mem he
  have := C05_observed_value plainK N _ (absEvt e) hm rfl
  rw [hsim.hist] at this
  exact this

/-- Once a slot-level read has observed transaction `j`, every read that completes later, of any
    key that `j` writes, observes `j` or a later transaction. -/
theorem C05_slot_monotone (cfg : Cfg) (hd : cfg.discipline = true)
    (hx : cfg.exactEnd = true) (tier : V → Nat) (chunkOf : K → Nat) (N : Nat)
    (as : List (SAct K V)) (l1 l2 l3 : List (ReadEvt K V)) (e1 e2 : ReadEvt K V)
    (hr : (srun cfg tier chunkOf N SSt.init as).reads = l1 ++ e1 :: (l2 ++ e2 :: l3)) (j : Nat)
    (hobs : CRd.lastWriter ((srun cfg tier chunkOf N SSt.init as).hist.take e1.startSeq) e1.key =
      some j)
    (hw : CRd.writes ((srun cfg tier chunkOf N SSt.init as).hist.getD j []) e2.key = true) :
    ∃ j', j ≤ j' ∧
      CRd.lastWriter ((srun cfg tier chunkOf N SSt.init as).hist.take e2.startSeq) e2.key =
        some j' := by
  have hsim := C05_slot_refines cfg hd hx tier chunkOf N as
  have hr' : (CRd.crun plainK N CRd.CSt.init
      (trRun cfg tier chunkOf N SSt.init CRd.CSt.init as)).reads =
      l1.map absEvt ++ absEvt e1 :: (l2.map absEvt ++ absEvt e2 :: l3.map absEvt) := by
    rw [hsim.reads, hr]; simp only [List.map_append, List.map_cons]
  have := C05_monotone plainK N _ _ _ _ (absEvt e1) (absEvt e2) hr' j
  rw [hsim.hist] at this
  exact this hobs hw

/-- No transaction is seen partially by slot-level reads. -/
theorem C05_slot_atomic_visibility (cfg : Cfg) (hd : cfg.discipline = true)
    (hx : cfg.exactEnd = true) (tier : V → Nat) (chunkOf : K → Nat) (N : Nat)
    (as : List (SAct K V)) (l1 l2 l3 : List (ReadEvt K V)) (e1 e2 : ReadEvt K V)
    (hr : (srun cfg tier chunkOf N SSt.init as).reads = l1 ++ e1 :: (l2 ++ e2 :: l3)) (j : Nat)
    (hobs : CRd.lastWriter ((srun cfg tier chunkOf N SSt.init as).hist.take e1.startSeq) e1.key =
      some j)
    (hw : CRd.writes ((srun cfg tier chunkOf N SSt.init as).hist.getD j []) e2.key = true) :
    ∃ j', j ≤ j' ∧
      CRd.lastWriter ((srun cfg tier chunkOf N SSt.init as).hist.take e2.startSeq) e2.key =
        some j' ∧
      e2.result = (spec plainK ((srun cfg tier chunkOf N SSt.init as).hist.take (j' + 1))
        e2.key).map Prod.fst := by
  have hsim := C05_slot_refines cfg hd hx tier chunkOf N as
  have hr' : (CRd.crun plainK N CRd.CSt.init
      (trRun cfg tier chunkOf N SSt.init CRd.CSt.init as)).reads =
      l1.map absEvt ++ absEvt e1 :: (l2.map absEvt ++ absEvt e2 :: l3.map absEvt) := by
    rw [hsim.reads, hr]; simp only [List.map_append, List.map_cons]
  have := C05_atomic_visibility plainK N _ _ _ _ (absEvt e1) (absEvt e2) hr' j rfl
  rw [hsim.hist] at this
  exact this hobs hw

/-- HandOver at slot level: a commit-overlay hit returns the latest committed value. -/
theorem C05_slot_handover (cfg : Cfg) (hd : cfg.discipline = true)
    (hx : cfg.exactEnd = true) (tier : V → Nat) (chunkOf : K → Nat) (N : Nat)
    (as : List (SAct K V)) (k : K) :
    ∀ i v, (srun cfg tier chunkOf N SSt.init as).overlay k = some (i, v) →
      v = (spec plainK (srun cfg tier chunkOf N SSt.init as).hist k).map Prod.fst := by
  have hsim := C05_slot_refines cfg hd hx tier chunkOf N as
  have := (C05_handover plainK N (trRun cfg tier chunkOf N SSt.init CRd.CSt.init as) k rfl).1
  rw [hsim.overlay, hsim.hist] at this
  exact this

/-- The abstraction on contents: the simulation relation does not relate files to tables (in the
    middle of a record the files alone are not a key-level table), but the VIEWS agree: for every
    key the atomic slot-level lookup (index entry, slot, key check) through (log overlay over
    files) returns what the key-level view (log overlay over tables) holds. Both are the table of
    the published commits, and both levels have published the same number of commits. -/
theorem C05_slot_view_abstraction (cfg : Cfg) (hd : cfg.discipline = true)
    (hx : cfg.exactEnd = true) (tier : V → Nat) (chunkOf : K → Nat) (N : Nat)
    (as : List (SAct K V)) :
    (∀ k, (CRd.cview (CRd.crun plainK N CRd.CSt.init
        (trRun cfg tier chunkOf N SSt.init CRd.CSt.init as)) k).map Prod.fst =
      slookup chunkOf (sview (srun cfg tier chunkOf N SSt.init as)) k) ∧
    (CRd.crun plainK N CRd.CSt.init
        (trRun cfg tier chunkOf N SSt.init CRd.CSt.init as)).nEnacted +
      (CRd.crun plainK N CRd.CSt.init
        (trRun cfg tier chunkOf N SSt.init CRd.CSt.init as)).logged.length =
    (srun cfg tier chunkOf N SSt.init as).npub :=
  ⟨view_agree cfg hd hx tier chunkOf N as, npub_agree cfg hd hx tier chunkOf N as⟩

/-- HandOver at slot level, the miss side: after a commit-overlay miss the atomic lookup through
    the slot-level view returns the specification of ALL accepted commits. -/
theorem C05_slot_handover_miss (cfg : Cfg) (hd : cfg.discipline = true)
    (hx : cfg.exactEnd = true) (tier : V → Nat) (chunkOf : K → Nat) (N : Nat)
    (as : List (SAct K V)) (k : K)
    (hov : (srun cfg tier chunkOf N SSt.init as).overlay k = none) :
    slookup chunkOf (sview (srun cfg tier chunkOf N SSt.init as)) k =
      (spec plainK (srun cfg tier chunkOf N SSt.init as).hist k).map Prod.fst := by
  have hsim := C05_slot_refines cfg hd hx tier chunkOf N as
  have := (C05_handover plainK N (trRun cfg tier chunkOf N SSt.init CRd.CSt.init as) k rfl).2
  rw [hsim.overlay, hsim.hist, (C05_slot_view_abstraction cfg hd hx tier chunkOf N as).1 k] at this
  exact this hov

/-! ### non-vacuity -/
section Example
private def tierN : Nat → Nat := fun v => v / 100
private def chunkN : Nat → Nat := fun k => k % 2

/-- the schedule of Props/C05Slot.lean (two readers against the workers, real configuration) -/
private def sched : List (SAct Nat Nat) :=
  [.commit [.set 1 10, .set 3 30], .pop, .publish, .cleanOverlay, .flush,
   .rBegin 0 1, .rOverlay 0, .rIdxLog 0,
   .enactWrite, .enactWrite, .enactWrite, .enactWrite, .endRead,
   .rValLog 0, .rValFile 0, .rEnd 0,
   .commit [.set 1 110], .commit [.set 5 50],
   .rBegin 1 3, .rOverlay 1, .pop, .publish, .cleanOverlay, .commit [.deref 3],
   .rIdxLog 1, .flush, .enactWrite, .rValLog 1, .rValFile 1, .rEnd 1,
   .cleanOverlay, .pop, .publish,
   .rBegin 0 1, .rOverlay 0, .rIdxLog 0, .rValLog 0, .rEnd 0,
   .rBegin 1 5, .rOverlay 1, .rEnd 1,
   .cleanOverlay, .enactWrite, .enactWrite, .endRead, .flush, .enactWrite, .enactWrite, .endRead,
   .rBegin 0 5, .rOverlay 0, .rIdxLog 0, .rIdxFile 0, .rValLog 0, .rValFile 0, .rEnd 0,
   .rBegin 1 2, .rOverlay 1, .rIdxLog 1, .rIdxFile 1, .rEnd 1]

/-- a printable code of a key-level action (`CAct` has no decidable equality) -/
private def code : CRd.CAct Nat Nat → Nat
  | .commit _ => 1
  | .pop => 2
  | .publish => 3
  | .cleanOverlay => 4
  | .flush => 5
  | .enactWrite => 6
  | .endRead => 7
  | .rBegin t _ => 10 + t
  | .rOverlay t => 20 + t
  | .rLog t => 30 + t
  | .rTable t => 40 + t
  | .rEnd t => 50 + t

set_option maxRecDepth 100000 in
/-- the translated schedule: same actions for the workers' critical sections and rBegin / rOverlay
    / rEnd; the four slot-level `enactWrite` of record 1 are stutters and its `endRead` becomes
    `enactWrite, enactWrite, endRead` (6, 6, 7: the key-level record has two cells); `rIdxLog` is
    a stutter, the lookup step that completes a read becomes `rLog t, rTable t` (30+t, 40+t) -/
example : (trRun Cfg.real tierN chunkN 2 SSt.init CRd.CSt.init sched).map code =
    [1, 2, 3, 4, 5, 10, 20, 6, 6, 7, 30, 40, 50, 1, 1, 11, 21, 2, 3, 4, 1, 5, 31, 41, 51, 4, 2, 3,
     10, 20, 30, 40, 50, 11, 21, 51, 4, 6, 7, 5, 6, 7, 10, 20, 30, 40, 50, 11, 21, 31, 41, 51] := by
  decide

set_option maxRecDepth 100000 in
/-- the key-level run of the translation completes the same six reads with the same results as the
    slot-level run, accepts the same three commits and ends three records -/
example :
    (CRd.crun plainK 2 CRd.CSt.init
      (trRun Cfg.real tierN chunkN 2 SSt.init CRd.CSt.init sched)).reads =
      [⟨0, 1, some 10, 1, 1⟩, ⟨1, 3, some 30, 3, 3⟩, ⟨0, 1, some 110, 3, 3⟩, ⟨1, 5, some 50, 3, 3⟩,
       ⟨0, 5, some 50, 3, 3⟩, ⟨1, 2, none, 3, 3⟩] ∧
    (CRd.crun plainK 2 CRd.CSt.init
      (trRun Cfg.real tierN chunkN 2 SSt.init CRd.CSt.init sched)).reads =
      (srun Cfg.real tierN chunkN 2 SSt.init sched).reads.map absEvt ∧
    (CRd.crun plainK 2 CRd.CSt.init
      (trRun Cfg.real tierN chunkN 2 SSt.init CRd.CSt.init sched)).hist.length = 3 ∧
    (CRd.crun plainK 2 CRd.CSt.init
      (trRun Cfg.real tierN chunkN 2 SSt.init CRd.CSt.init sched)).nEnacted = 3 := by
  decide

set_option maxRecDepth 100000 in
/-- a single stutter and a single expansion: after the first 8 actions `enactWrite` translates to
    nothing; after the first 14 (`rValLog 0` missed the log overlay) `rValFile 0` translates to
    the two key-level lookups -/
example :
    (trAct Cfg.real tierN chunkN 2 (srun Cfg.real tierN chunkN 2 SSt.init (sched.take 8))
      (CRd.crun plainK 2 CRd.CSt.init
        (trRun Cfg.real tierN chunkN 2 SSt.init CRd.CSt.init (sched.take 8)))
      .enactWrite).map code = [] ∧
    (trAct Cfg.real tierN chunkN 2 (srun Cfg.real tierN chunkN 2 SSt.init (sched.take 14))
      (CRd.crun plainK 2 CRd.CSt.init
        (trRun Cfg.real tierN chunkN 2 SSt.init CRd.CSt.init (sched.take 14)))
      (.rValFile 0)).map code = [30, 40] ∧
    (trAct Cfg.real tierN chunkN 2 (srun Cfg.real tierN chunkN 2 SSt.init (sched.take 13))
      (CRd.crun plainK 2 CRd.CSt.init
        (trRun Cfg.real tierN chunkN 2 SSt.init CRd.CSt.init (sched.take 13)))
      (.rValLog 0)).map code = [] := by
  decide

set_option maxRecDepth 100000 in
/-- hypotheses of `C05_slot_observed_value`, `C05_slot_monotone`, `C05_slot_atomic_visibility`
    are satisfiable: the first read (key 1) observed transaction 0, which also writes key 3, the
    key of the second read; the third read (key 1) observed transaction 1 -/
example :
    (srun Cfg.real tierN chunkN 2 SSt.init sched).reads =
      [] ++ ⟨0, 1, some 10, 1, 1, some (0, 0), some (1, 10)⟩ ::
        ([] ++ ⟨1, 3, some 30, 3, 3, some (0, 1), some (3, 30)⟩ ::
          [⟨0, 1, some 110, 3, 3, some (1, 0), some (1, 110)⟩, ⟨1, 5, some 50, 3, 3, none, none⟩,
           ⟨0, 5, some 50, 3, 3, some (0, 0), some (5, 50)⟩, ⟨1, 2, none, 3, 3, none, none⟩]) ∧
    CRd.lastWriter ((srun Cfg.real tierN chunkN 2 SSt.init sched).hist.take 1) 1 = some 0 ∧
    CRd.writes ((srun Cfg.real tierN chunkN 2 SSt.init sched).hist.getD 0 []) 3 = true ∧
    CRd.lastWriter ((srun Cfg.real tierN chunkN 2 SSt.init sched).hist.take 3) 1 = some 1 ∧
    CRd.lastWriter ((srun Cfg.real tierN chunkN 2 SSt.init sched).hist.take 3) 2 = none := by
  decide

/-- hypothesis of `C05_slot_handover` is satisfiable: right after the first commit the overlay
    holds key 1 -/
example : (srun Cfg.real tierN chunkN 2 SSt.init (sched.take 1)).overlay 1 = some (1, some 10) := by
  decide

set_option maxRecDepth 100000 in
/-- `C05_slot_view_abstraction` is not vacuous: after the first 8 actions the record of commit 1 is
    published and flushed, nothing is enacted: files and tables are empty, both views hold key 1;
    `C05_slot_handover_miss`: the commit overlay was cleaned, key 1 misses it -/
example :
    (srun Cfg.real tierN chunkN 2 SSt.init (sched.take 8)).files.slot (0, 0) = none ∧
    (CRd.crun plainK 2 CRd.CSt.init
      (trRun Cfg.real tierN chunkN 2 SSt.init CRd.CSt.init (sched.take 8))).tables 1 = none ∧
    slookup chunkN (sview (srun Cfg.real tierN chunkN 2 SSt.init (sched.take 8))) 1 = some 10 ∧
    (CRd.cview (CRd.crun plainK 2 CRd.CSt.init
      (trRun Cfg.real tierN chunkN 2 SSt.init CRd.CSt.init (sched.take 8))) 1).map Prod.fst =
      some 10 ∧
    (srun Cfg.real tierN chunkN 2 SSt.init (sched.take 8)).npub = 1 ∧
    (srun Cfg.real tierN chunkN 2 SSt.init (sched.take 8)).overlay 1 = none := by
  decide

end Example

/-! ### what the refinement needs, and why `enactWrite` is a stutter -/
section Needed
private def tierM : Nat → Nat := fun v => v / 100
private def chunkM : Nat → Nat := fun k => k % 2

/-- `exactEnd` is needed: with `>=` in `Log::end_read` (seeded change C05-c05a) there is a slot-level
    run with a completed read that NO key-level run with the same history has. -/
theorem C05_slot_refines_needs_exact_end :
    ∃ (tier : Nat → Nat) (chunkOf : Nat → Nat) (as : List (SAct Nat Nat)) (e : ReadEvt Nat Nat),
      e ∈ (srun { discipline := true, keyCheck := true, exactEnd := false } tier chunkOf 1
            SSt.init as).reads ∧
      ∀ as' : List (CRd.CAct Nat Nat),
        (CRd.crun plainK 1 CRd.CSt.init as').hist =
          (srun { discipline := true, keyCheck := true, exactEnd := false } tier chunkOf 1
            SSt.init as).hist →
        absEvt e ∉ (CRd.crun plainK 1 CRd.CSt.init as').reads := by
  obtain ⟨as, e, he, hn, _, hs⟩ := C05_slot_end_read_exact
  refine ⟨_, _, as, e, he, fun as' hh hm => ?_⟩
  have h := (C05_read_linearizable plainK 1 as' (absEvt e) hm rfl).2.2.2
  rw [hh] at h
  simp only [absEvt, hn] at h
  rw [Option.isSome_iff_exists] at hs
  obtain ⟨x, hx⟩ := hs
  rw [hx] at h
  simp at h

/-- The lock discipline is needed: if the reader dropped `commit_overlay.read()` after the overlay
    miss there is a slot-level run (a slot REUSED by another key under the reader's feet) with a
    completed read that no key-level run with the same history has. -/
theorem C05_slot_refines_needs_discipline :
    ∃ (tier : Nat → Nat) (chunkOf : Nat → Nat) (as : List (SAct Nat Nat)) (e : ReadEvt Nat Nat),
      e ∈ (srun { discipline := false, keyCheck := true, exactEnd := true } tier chunkOf 1
            SSt.init as).reads ∧
      ∀ as' : List (CRd.CAct Nat Nat),
        (CRd.crun plainK 1 CRd.CSt.init as').hist =
          (srun { discipline := false, keyCheck := true, exactEnd := true } tier chunkOf 1
            SSt.init as).hist →
        absEvt e ∉ (CRd.crun plainK 1 CRd.CSt.init as').reads := by
  obtain ⟨as, e, he, hn, hle, _, hs⟩ := C05_slot_early_release_counterexample
  refine ⟨_, _, as, e, he, fun as' hh hm => ?_⟩
  have h := (C05_read_linearizable plainK 1 as' (absEvt e) hm rfl).2.2.2
  rw [hh] at h
  simp only [absEvt, hn] at h
  have hs' := hs e.startSeq (Nat.le_refl _) hle
  rw [Option.isSome_iff_exists] at hs'
  obtain ⟨x, hx⟩ := hs'
  rw [hx] at h
  simp at h

/-- key 1 is inserted (tier 0) and enacted; then it moves to tier 1: the record writes the new slot,
    frees the old slot, rewrites the index chunk; two of its three writes are enacted -/
private def moveSched : List (SAct Nat Nat) :=
  [.commit [.set 1 10], .pop, .publish, .cleanOverlay, .flush, .enactWrite, .enactWrite, .endRead,
   .commit [.set 1 110], .pop, .publish, .cleanOverlay, .flush, .enactWrite, .enactWrite]

set_option maxRecDepth 100000 in
/-- Why `enactWrite` has to be a stutter and the relation on contents goes through the VIEWS: in
    the middle of a record the files ALONE are not a key-level table.  Here key 1 has a value in
    the specification of every non-empty prefix of the history (10, then 110), the slot-level view
    holds 110 and a read started now returns 110, but the lookup through the FILES (index entry
    still pointing at the old slot, old slot already freed) finds nothing: a value that the
    key-level cell of key 1 (10, then 110, one `enactWrite`) never has. -/
theorem C05_slot_files_alone_not_a_table :
    ∃ as : List (SAct Nat Nat),
      slookup chunkM (srun Cfg.real tierM chunkM 1 SSt.init as).files 1 = none ∧
      (srun Cfg.real tierM chunkM 1 SSt.init as).enactPos = 2 ∧
      ((srun Cfg.real tierM chunkM 1 SSt.init as).logged.map (·.writes.length)) = [3] ∧
      (∀ q, 1 ≤ q → q ≤ (srun Cfg.real tierM chunkM 1 SSt.init as).hist.length →
        (spec plainK ((srun Cfg.real tierM chunkM 1 SSt.init as).hist.take q) 1).isSome = true) ∧
      slookup chunkM (sview (srun Cfg.real tierM chunkM 1 SSt.init as)) 1 = some 110 ∧
      ((srun Cfg.real tierM chunkM 1 SSt.init
          (as ++ [.rBegin 0 1, .rOverlay 0, .rIdxLog 0, .rIdxFile 0, .rValLog 0, .rValFile 0,
                  .rEnd 0])).reads.map (·.result)) = [some 110] := by
  refine ⟨moveSched, by decide, by decide, by decide, ?_, by decide, by decide⟩
  intro q h1 h2
  have hl : (srun Cfg.real tierM chunkM 1 SSt.init moveSched).hist.length = 2 := by decide
  rw [hl] at h2
  have : q = 1 ∨ q = 2 := by omega
  rcases this with rfl | rfl <;> decide

/-- SLOT REUSE across unenacted records + index chunk rewrites.  Keys 1 and 3 share index chunk 1.
    R1 inserts key 1 into slot (0,0); R2 removes key 1 (frees (0,0), rewrites the chunk); R3 inserts
    key 3 and gets slot (0,0) back from the free list, while neither R2 nor even R1 has reached
    the files.  Reads are placed inside the half-enacted R1 and inside the half-enacted R2. -/
private def reuseSched : List (SAct Nat Nat) :=
  [.commit [.set 1 10], .pop, .publish, .cleanOverlay,
   .commit [.deref 1], .pop, .publish, .cleanOverlay,
   .commit [.set 3 30], .pop, .publish, .cleanOverlay,
   .flush, .enactWrite,
   .rBegin 0 1, .rOverlay 0, .rIdxLog 0, .rIdxFile 0, .rValLog 0, .rValFile 0, .rEnd 0,
   .rBegin 0 3, .rOverlay 0, .rIdxLog 0, .rIdxFile 0, .rValLog 0, .rValFile 0, .rEnd 0,
   .enactWrite, .endRead,
   .rBegin 0 3, .rOverlay 0, .rIdxLog 0, .enactWrite, .rValLog 0, .rValFile 0, .rEnd 0]

set_option maxRecDepth 100000 in
/-- the slot-level run: key 1 absent, key 3 read twice out of the reused slot (0,0) (the second
    time the file slot has just been overwritten with R2's tombstone: the log overlay of R3 shadows
    it); the translated key-level run has the same reads -/
example :
    (srun Cfg.real tierM chunkM 1 SSt.init reuseSched).reads =
      [⟨0, 1, none, 3, 3, none, none⟩,
       ⟨0, 3, some 30, 3, 3, some (0, 0), some (3, 30)⟩,
       ⟨0, 3, some 30, 3, 3, some (0, 0), some (3, 30)⟩] ∧
    (srun Cfg.real tierM chunkM 1 SSt.init reuseSched).files.slot (0, 0) = none ∧
    (srun Cfg.real tierM chunkM 1 SSt.init reuseSched).files.chunk 1 = [(1, (0, 0))] ∧
    (sview (srun Cfg.real tierM chunkM 1 SSt.init reuseSched)).slot (0, 0) = some (3, 30) ∧
    (sview (srun Cfg.real tierM chunkM 1 SSt.init reuseSched)).chunk 1 = [(3, (0, 0))] ∧
    (CRd.crun plainK 1 CRd.CSt.init
      (trRun Cfg.real tierM chunkM 1 SSt.init CRd.CSt.init reuseSched)).reads =
      [⟨0, 1, none, 3, 3⟩, ⟨0, 3, some 30, 3, 3⟩, ⟨0, 3, some 30, 3, 3⟩] := by
  decide
end Needed

end Pdb

#print axioms Pdb.C05_slot_refines
#print axioms Pdb.C05_slot_observed_value
#print axioms Pdb.C05_slot_monotone
#print axioms Pdb.C05_slot_atomic_visibility
#print axioms Pdb.C05_slot_handover
#print axioms Pdb.C05_slot_view_abstraction
#print axioms Pdb.C05_slot_handover_miss
#print axioms Pdb.C05_slot_refines_needs_exact_end
#print axioms Pdb.C05_slot_refines_needs_discipline
#print axioms Pdb.C05_slot_files_alone_not_a_table
