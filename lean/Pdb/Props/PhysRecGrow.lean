/-
R7 with index growth (the case excluded by `NoGrow` in Pdb/Props/PhysRec.lean).

A record that grows the index contains INSERT_INDEX actions naming a table with one more index bit
than the current one.  `Db::enact_logs` validates the WHOLE record before it applies any action, and
the validation of the first such action calls `trigger_reindex`; so the apply pass - and a replay
after a crash in the middle of it - runs on `grow1 p`, the column after `trigger_reindex`: new
empty current table, the old one queued.  Growth changes the shape, not the memory (`mem_grow1`).
Hypothesis: the index bits of the tables after the transaction are pairwise distinct
(`IdxInv.order` of C09 for every reachable state).
-/
import Pdb.Proofs.PhysRecGrow
import Pdb.Props.PhysRec

namespace Pdb.PhysRec
open Pdb.Gen Pdb.Index Pdb.ValueTable Pdb.Refine

theorem shape_sub_grow1 (p : PCol) : ∀ b ∈ shape p, b ∈ shape (grow1 p) := by
  intro b hb
  rw [shape_grow1]
  simp only [shape, PCol.tables, List.map_cons, List.mem_cons] at hb
  simp only [List.mem_cons, List.mem_append, List.not_mem_nil, or_false]
  rcases hb with h | h
  · exact Or.inr (Or.inr h)
  · exact Or.inr (Or.inl h)

/-- R7_full with growth: the transaction `tx` grows the index by one step (its end state has the
tables of `grow1 p`).  All writes of its record, applied to the column as the validation pass leaves
it (`grow1 p`), give the state `pRun` reaches. -/
theorem R7_full_grow (cmp : Bytes → Bytes) (thr : Nat) (p p' : PCol) (tx : Tx)
    (hrun : runTx cmp thr p tx = some p') (hsh : shape p' = shape (grow1 p)) (hnd : (shape p').Nodup) :
    (∀ l, Loc.Ok l → mem (applyWrites (grow1 p) (planWrites cmp thr p tx)) l = mem p' l) ∧
    shape (applyWrites (grow1 p) (planWrites cmp thr p tx)) = shape p' := by
  rw [planWrites_eq cmp thr p p' tx hrun]
  obtain ⟨h, s⟩ := full_mem_shape _ p p' (grow1 p) (pRun_frame cmp thr tx p p' (runTx_pRun hrun))
    (fun b hb => hsh ▸ shape_sub_grow1 p b hb) hsh.symm
    (fun l _ => mem_grow1 p (hsh ▸ hnd) l)
  exact ⟨h, s.shape.trans hsh.symm⟩

/-- R7_redo with growth: the enactment of the growing record is torn after `j` writes; replay
(validation grows the index again, then the whole record is applied) reaches the state after the
transaction. -/
theorem R7_redo_grow (cmp : Bytes → Bytes) (thr : Nat) (p p' : PCol) (tx : Tx)
    (hrun : runTx cmp thr p tx = some p') (hsh : shape p' = shape (grow1 p)) (hnd : (shape p').Nodup)
    (j : Nat) (l : Loc) (hl : Loc.Ok l) :
    mem (applyWrites (applyWrites (grow1 p) ((planWrites cmp thr p tx).take j))
      (planWrites cmp thr p tx)) l = mem p' l := by
  have hok : ∀ w ∈ planWrites cmp thr p tx, Write.Ok (shape (grow1 p)) w := by
    rw [planWrites_eq cmp thr p p' tx hrun]
    exact fun w hw => diff_ok' _ p p' _ (shape_sub_grow1 p) (fun b hb => hsh ▸ hb) w hw
  rw [col_redo_torn (grow1 p) _ j hok l hl]
  exact (R7_full_grow cmp thr p p' tx hrun hsh hnd).1 l hl

/-! ## non-vacuity -/

section Example

/-- a transaction during which the index grows (`relaunch` = `trigger_reindex`), then an insert
that lands in the new 17-bit table and a removal from the queued 16-bit table -/
def exTxG : Tx := [.relaunch, .set exKc [7, 7], .del exKb]
def exPG : PCol := (runTx exCmp 0 exP2 exTxG).getD exP0

theorem exRunG : runTx exCmp 0 exP2 exTxG = some exPG := getD_of_isSome _ _ (by decide +kernel)
theorem exShG : shape exPG = shape (grow1 exP2) := by decide +kernel
theorem exNdG : (shape exPG).Nodup := by decide +kernel

example : shape exPG = [17, 16] ∧ shape exP2 = [16] := by
  refine ⟨by decide +kernel, by decide +kernel⟩
example := R7_full_grow exCmp 0 exP2 exPG exTxG exRunG exShG exNdG
example := R7_redo_grow exCmp 0 exP2 exPG exTxG exRunG exShG exNdG 2
example : ((planWrites exCmp 0 exP2 exTxG).map (·.1)).any
    (fun l => match l with | .idx 17 _ _ => true | _ => false) = true := by decide +kernel

end Example

end Pdb.PhysRec

#print axioms Pdb.PhysRec.R7_full_grow
#print axioms Pdb.PhysRec.R7_redo_grow
