/-
C04  Btree columns are an ordered map with correct bidirectional iteration.

Models: Pdb/Model/BTreeIter.lean (iterator merge machine of src/btree/iter.rs + the commit
overlay queries of src/db.rs, PATCHED by fixes/fix-c04-seek-to-last.diff and
fixes/fix-c04-start-end.diff), Pdb/Model/BTree.lean (separator codec, tree update).

(a) Iterator.  For every sequence of calls `seek k / seek_to_first / seek_to_last / next /
    prev`, where before every call the commit overlay `e.ov` and the column's last record id
    `e.rid` (hence the backend `beOf e.rid`: the tree seen through the log overlay) are
    arbitrary, every answer is the one the property demands on the map
    `merged e.ov (beOf e.rid)` = backend overridden by the overlay, removed keys dropped, at
    the time of that call.  Stage moves (process / flush / enact) only move data between
    overlay and backend and keep `merged`; commits change it; both are covered because the
    environment of each call is universally quantified.  THAT `merged` of the environments the
    pipeline really produces is the latest committed state (`specApply` of all accepted
    transactions), for every history, is proved in Props/C04c.lean (`C04_pipeline_merged`,
    `C04_pipeline_iter_spec`, `C04_pipeline_get_spec`) for the executable pipeline
    Pdb/Model/BTreePipe.lean (commit overlay, queue, record id, batched tree update, node-stack
    cursor); reference-counted columns: Props/C04r.lean.
    Assumptions visible in the statements: the overlay is key-sorted without duplicate keys
    (it is a `BTreeMap`), the backend enumerations are key-sorted (TreeInv, part (c)), and
    equal record ids mean equal backends (the function `beOf`).
    The abstraction "backend cursor = position in the sorted list" (see the Model file) is
    refined by the `BTreeIterState` node-stack cursor: Props/C04b.lean (`C04b_cursor_refines`).
    The UNPATCHED code violates the statement: `C04_F5a_counterexample`,
    `C04_F5b_counterexample`.
(b) `C04_separator_roundtrip`.
(c) `C04_sort_stable`, `C04_prepare_spec`, `C04_change_refines`, `C04_tree_inv` (full strength for
    the model's `write_plan`; modelling gap: one change per descent, see the section below).
-/
import Pdb.Proofs.C04Iter
import Pdb.Proofs.C04TreeOcc

namespace Pdb.C04
variable {V : Type}

/-! ## (a) the key order -/

/-- `keyLt` (lexicographic order of byte strings) is a strict total order in which a proper
    prefix precedes its extensions. -/
theorem C04_key_order :
    (∀ a : Key, keyLt a a = false) ∧
    (∀ a b c : Key, keyLt a b = true → keyLt b c = true → keyLt a c = true) ∧
    (∀ a b : Key, keyLt a b = true ∨ a = b ∨ keyLt b a = true) ∧
    (∀ (a : Key) (x : Nat) (xs : List Nat), keyLt a (a ++ x :: xs) = true) :=
  ⟨keyLt_irrefl, fun _ _ _ => keyLt_trans, keyLt_total, keyLt_prefix⟩

/-! ## (a) the iterator: whole call sequences -/

/-- Every sequence of iterator calls, with arbitrary overlay / backend changes between the
    calls, produces exactly the outputs of the reference semantics `specRun`, which tracks
    only the logical position (Start / End / after seek k / after returning K) and answers
    each step from the merged map at the time of the call. -/
theorem C04_iter_spec (beOf : Nat → List (Key × V)) (hbe : ∀ r, Sorted (beOf r))
    (rid0 : Nat) (cs : List (Env V × Call)) (hcs : ∀ c ∈ cs, Sorted c.1.ov) :
    (run beOf (IterSt.new rid0) cs).2 = (specRun beOf .start cs).2 :=
  (run_spec beOf hbe cs hcs (IterSt.new rid0) (Inv.new beOf rid0)).1

/-- The logical position of the implementation (`last_key`) is the position of the
    reference semantics after every call sequence. -/
theorem C04_position (beOf : Nat → List (Key × V)) (hbe : ∀ r, Sorted (beOf r))
    (rid0 : Nat) (cs : List (Env V × Call)) (hcs : ∀ c ∈ cs, Sorted c.1.ov) :
    (run beOf (IterSt.new rid0) cs).1.lastKey = (specRun beOf .start cs).1 :=
  (run_spec beOf hbe cs hcs (IterSt.new rid0) (Inv.new beOf rid0)).2.1

/-! ## (a) the iterator: the answers in min / max form -/

/-- `r` is the entry with the least key satisfying `p` of the map `m` (`none` if there is
    no such key). -/
def IsMin (m : Key → Option V) (p : Key → Bool) (r : Option (Key × V)) : Prop :=
  (∀ k v, r = some (k, v) → m k = some v ∧ p k = true ∧
      ∀ k' v', m k' = some v' → p k' = true → keyLt k' k = false) ∧
  (r = none → ∀ k' v', m k' = some v' → p k' = false)

/-- `r` is the entry with the greatest key satisfying `p`. -/
def IsMax (m : Key → Option V) (p : Key → Bool) (r : Option (Key × V)) : Prop :=
  (∀ k v, r = some (k, v) → m k = some v ∧ p k = true ∧
      ∀ k' v', m k' = some v' → p k' = true → keyLt k k' = false) ∧
  (r = none → ∀ k' v', m k' = some v' → p k' = false)

/-- The state reached from a new iterator by any call sequence. -/
def Reached (beOf : Nat → List (Key × V)) (s : IterSt V) : Prop :=
  ∃ rid0 cs, (∀ c ∈ cs, Sorted c.1.ov) ∧ s = (run beOf (IterSt.new rid0) cs).1

theorem Reached.inv {beOf : Nat → List (Key × V)} (hbe : ∀ r, Sorted (beOf r)) {s : IterSt V}
    (h : Reached beOf s) : Inv beOf s := by
  obtain ⟨rid0, cs, hcs, rfl⟩ := h
  exact (run_spec beOf hbe cs hcs _ (Inv.new beOf rid0)).2.2

/-- `next` at any reachable state, against the committed map at the time of the call:
    after `seek k` the least key ≥ k; after a step returned K the least key > K; at Start
    the first key; at End nothing.  The new position is the returned key, or End. -/
theorem C04_next_spec (beOf : Nat → List (Key × V)) (hbe : ∀ r, Sorted (beOf r))
    (s : IterSt V) (hs : Reached beOf s) (e : Env V) (he : Sorted e.ov) :
    ∃ r, (step beOf s e .next).2 = .item r ∧
      (step beOf s e .next).1.lastKey = posAfter .fwd s.lastKey r ∧
      (∀ k, s.lastKey = .seeked k → IsMin (mget e.ov (beOf e.rid)) (fun x => keyLe k x) r) ∧
      (∀ K, s.lastKey = .at K → IsMin (mget e.ov (beOf e.rid)) (fun x => keyLt K x) r) ∧
      (s.lastKey = .start → IsMin (mget e.ov (beOf e.rid)) (fun _ => true) r) ∧
      (s.lastKey = .end_ → r = none) := by
  obtain ⟨r, h1, h2, _, h4⟩ := iterInner_spec beOf e.ov e.rid .fwd he (hbe e.rid) s (hs.inv hbe)
  refine ⟨r, ?_, h4, ?_, ?_, ?_, ?_⟩
  · simp only [step, stepV, h1, outOf]
  · intro k hk; rw [hk] at h2; exact h2
  · intro K hK; rw [hK] at h2; exact h2
  · intro hk; rw [hk] at h2; exact h2
  · intro hk
    rw [hk] at h2
    cases r with
    | none => rfl
    | some x =>
      obtain ⟨_, hc, _⟩ := h2.1 x.1 x.2 rfl
      exact absurd hc (by simp [cand, after])

/-- `prev`: after `seek k` the greatest key ≤ k; after a step returned K the greatest key
    < K; at End the last key; at Start nothing.  The new position is the returned key, or
    Start. -/
theorem C04_prev_spec (beOf : Nat → List (Key × V)) (hbe : ∀ r, Sorted (beOf r))
    (s : IterSt V) (hs : Reached beOf s) (e : Env V) (he : Sorted e.ov) :
    ∃ r, (step beOf s e .prev).2 = .item r ∧
      (step beOf s e .prev).1.lastKey = posAfter .bwd s.lastKey r ∧
      (∀ k, s.lastKey = .seeked k → IsMax (mget e.ov (beOf e.rid)) (fun x => keyLe x k) r) ∧
      (∀ K, s.lastKey = .at K → IsMax (mget e.ov (beOf e.rid)) (fun x => keyLt x K) r) ∧
      (s.lastKey = .end_ → IsMax (mget e.ov (beOf e.rid)) (fun _ => true) r) ∧
      (s.lastKey = .start → r = none) := by
  obtain ⟨r, h1, h2, _, h4⟩ := iterInner_spec beOf e.ov e.rid .bwd he (hbe e.rid) s (hs.inv hbe)
  refine ⟨r, ?_, h4, ?_, ?_, ?_, ?_⟩
  · simp only [step, stepV, h1, outOf]
  · intro k hk; rw [hk] at h2; exact h2
  · intro K hK; rw [hK] at h2; exact h2
  · intro hk; rw [hk] at h2; exact h2
  · intro hk
    rw [hk] at h2
    cases r with
    | none => rfl
    | some x =>
      obtain ⟨_, hc, _⟩ := h2.1 x.1 x.2 rfl
      exact absurd hc (by simp [cand, before])

/-- The seek functions only set the logical position (whatever state they are called in):
    `seek k` -> after-seek k, `seek_to_first` -> after-seek of the empty key (every key is
    ≥ it), `seek_to_last` -> End; a new iterator stands at Start; reachability is kept, so
    `C04_next_spec` / `C04_prev_spec` apply to the following call. -/
theorem C04_seek_spec (beOf : Nat → List (Key × V)) (s : IterSt V) (hs : Reached beOf s)
    (e : Env V) (he : Sorted e.ov) (k : Key) (rid0 : Nat) :
    (step beOf s e (.seek k)).1.lastKey = .seeked k ∧
    (step beOf s e .seekFirst).1.lastKey = .seeked [] ∧
    (step beOf s e .seekLast).1.lastKey = .end_ ∧
    (IterSt.new rid0 : IterSt V).lastKey = .start ∧
    (∀ x : Key, keyLe [] x = true) ∧
    (∀ c, Reached beOf (step beOf s e c).1) ∧ Reached beOf (IterSt.new rid0 : IterSt V) := by
  refine ⟨rfl, rfl, rfl, rfl, fun x => by simp [keyLe, keyLt_nil_right], ?_, ⟨rid0, [], by simp, rfl⟩⟩
  intro c
  obtain ⟨r0, cs, hcs, rfl⟩ := hs
  refine ⟨r0, cs ++ [(e, c)], ?_, ?_⟩
  · intro x hx
    rcases List.mem_append.mp hx with h | h
    · exact hcs x h
    · simp only [List.mem_singleton] at h; subst h; exact he
  · have : ∀ (s0 : IterSt V) (l : List (Env V × Call)),
        (run beOf s0 (l ++ [(e, c)])).1 = (step beOf (run beOf s0 l).1 e c).1 := by
      intro s0 l
      induction l generalizing s0 with
      | nil => rfl
      | cons a l ih => exact ih _
    exact (this _ cs).symm

/-- Point reads (`Db::get` on a btree column): overlay first, then the backend; this is the
    lookup in the merged map the iterator enumerates. -/
theorem C04_get_spec (ov : List (Key × Option V)) (be : List (Key × V)) (ho : Sorted ov)
    (hb : Sorted be) (k : Key) : mget ov be k = lookup (merged ov be) k :=
  (lookup_merged ho hb k).symm

/-! ### non-vacuity: a concrete walk with data in both layers and a commit in between -/

private def exBe : Nat → List (Key × Nat)
  | 0 => [([1], 10), ([3], 30)]
  | _ => [([1], 10), ([2], 20), ([3], 30)]            -- record 1 inserted key [2]
private def exE0 : Env Nat := { ov := [([2], some 21), ([3], none)], rid := 0 }   -- [2] set, [3] removed
private def exE1 : Env Nat := { ov := [([3], none)], rid := 1 }                    -- first commit processed

example : (run exBe (IterSt.new 0)
    [(exE0, .next), (exE0, .next), (exE1, .prev), (exE1, .seekLast), (exE1, .prev),
     (exE1, .next), (exE1, .seek [2]), (exE1, .prev)]).2 =
    [.item (some ([1], 10)), .item (some ([2], 21)), .item (some ([1], 10)), .unit,
     .item (some ([2], 20)), .item none, .unit, .item (some ([2], 20))] := by decide

example : ∀ r, Sorted (exBe r) := by
  intro r; cases r <;> simp [exBe, Sorted, keyLt]

/-! ## (a) the unpatched code violates the property -/

private def f5Be : Nat → List (Key × Nat) := fun _ => [([1], 10)]
private def f5E : Env Nat := { ov := [], rid := 0 }
private def f5aCalls : List (Env Nat × Call) :=
  [(f5E, .seekLast), (f5E, .prev), (f5E, .prev), (f5E, .seekLast), (f5E, .prev)]

/-- F5a: `seek_to_last` keeps the cached backend item of the previous walk.  The tree holds
    the single key [1]; `seek_to_last; prev; prev; seek_to_last; prev`: the last call must
    return key [1] again but the unpatched machine returns nothing.  (Replayed on the real
    crate: the `F5a` oracle failures of harness c04, and scratch probe.) -/
theorem C04_F5a_counterexample :
    (runV unpatched f5Be (IterSt.new 0) f5aCalls).2 ≠ (specRun f5Be .start f5aCalls).2 ∧
    (runV unpatched f5Be (IterSt.new 0) f5aCalls).2.getLast? = some (.item none) ∧
    (specRun f5Be .start f5aCalls).2.getLast? = some (.item (some ([1], 10))) ∧
    (runV patched f5Be (IterSt.new 0) f5aCalls).2 = (specRun f5Be .start f5aCalls).2 := by
  decide

private def f5bInTree : Env Nat := { ov := [], rid := 0 }
private def f5bInOverlay : Env Nat := { ov := [([1], some 10)], rid := 0 }
private def f5bBeEmpty : Nat → List (Key × Nat) := fun _ => []

/-- F5b: on a new iterator `prev()` answers differently depending on the stage holding the
    data: the same map {[1] ↦ 10} held by the tree yields the key, held by the commit overlay
    yields nothing (the property demands nothing before Start). -/
theorem C04_F5b_counterexample :
    merged f5bInTree.ov (f5Be 0) = merged f5bInOverlay.ov (f5bBeEmpty 0) ∧
    (runV unpatched f5Be (IterSt.new 0) [(f5bInTree, .prev)]).2 = [.item (some ([1], 10))] ∧
    (runV unpatched f5bBeEmpty (IterSt.new 0) [(f5bInOverlay, .prev)]).2 = [.item none] ∧
    (specRun f5Be .start [(f5bInTree, .prev)]).2 = [.item none] ∧
    (runV patched f5Be (IterSt.new 0) [(f5bInTree, .prev)]).2 = [.item none] := by
  decide

/-! ## (b) separator codec -/

/-- `read_separator (write_separator key value ++ rest) = (key, value)` leaving `rest`, for
    every key shorter than 2^32 bytes (one length byte below 255, escape 0xFF + u32 from 255
    on) and every non-null 64-bit value address. -/
theorem C04_separator_roundtrip (key : List Nat) (value : Nat) (rest : List Nat)
    (hk : key.length < 2 ^ 32) (hv : 0 < value) (hv' : value < 2 ^ 64) :
    readSeparator (writeSeparator key value ++ rest) = .some key value rest :=
  separator_roundtrip key value rest hk hv hv'

example : readSeparator (writeSeparator [7, 8, 9] 99 ++ [1, 2]) = .some [7, 8, 9] 99 [1, 2] := by
  decide
example : readSeparator (writeSeparator (List.replicate 255 7) 99 ++ [1, 2]) =
    .some (List.replicate 255 7) 99 [1, 2] :=
  C04_separator_roundtrip _ 99 [1, 2] (by rw [List.length_replicate]; decide) (by decide) (by decide)

/-! ## (c) tree update -/

/-- `changes.sort()` is stable: the operations on every key keep their order, so the last
    operation on a key (the one `Node::change` applies) is the last one of the transaction;
    the result is sorted by key and a permutation of the input. -/
theorem C04_sort_stable (cs : List (Op V)) :
    (∀ k, (stableSort cs).filter (fun op => op.key = k) = cs.filter (fun op => op.key = k)) ∧
    (stableSort cs).Pairwise (fun a b => keyLt b.key a.key = false) ∧
    (stableSort cs).Perm cs :=
  ⟨stableSort_filter cs, stableSort_sorted cs, stableSort_perm cs⟩

/-- Sorting and dropping all but the last operation per key does not change the effect of a
    transaction on the ordered map. -/
theorem C04_prepare_spec (cs : List (Op V)) (l : List (Key × V)) (hl : Sorted l) :
    specApply (dedupLast (stableSort cs)) l = specApply cs l :=
  specApply_prepare cs l hl


/-- TreeInv (DESIGN 6.1), executable form `treeInvB`: in-order keys strictly increasing,
    every leaf at the recorded depth, children = separators + 1, every node at most ORDER
    separators, every non-root node at least ORDER/2 (what `rebalance` / `split` maintain:
    a node is rebalanced when it has fewer than ORDER/2 separators, a split leaves ORDER/2 on
    each side), an internal root at least one. -/
def TreeInv (t : Tree V) : Prop := treeInvB t = true

/-- `TreeInv` is order + shape (`TreeWF`) + occupancy (`TreeOcc`). -/
theorem C04_tree_inv_meaning (t : Tree V) :
    TreeInv t ↔ (WF t.depth t.root ∧ Sorted t.toList) ∧ Occ (rootLb t.depth) t.depth t.root :=
  treeInvB_iff t

/-- (c), full strength for the model's `write_plan`: every transaction (any list of
    insertions, replacements and removals, in any order, with repeated keys) applied to a tree
    satisfying TreeInv - stable sort by key, last operation per key, then one descent per
    change with node splits, rotations from the left / right sibling, merges, root growth and
    root removal at every depth -
      * never reaches a state the Rust code could only reach from a corrupt tree
        (`unwrap()` on a missing child / sibling, `at - 1` underflow: `Res.stuck`),
      * yields a tree whose in-order enumeration is `specApply cs` of the enumeration before
        (the operations applied in transaction order to the ordered map), and
      * satisfies TreeInv again.
    Remaining modelling gap (tied by correspondence, see Model/BTree.lean): the model applies
    one change per descent where `Node::change` applies several sorted changes in one descent
    when its range tests say they fall into the same node; values are carried in the
    separators instead of value-table addresses. -/
theorem C04_change_refines (t : Tree V) (cs : List (Op V)) (h : TreeInv t) :
    (applyChanges t cs).2 = true ∧
    (applyChanges t cs).1.toList = specApply cs t.toList ∧ TreeInv (applyChanges t cs).1 :=
  applyChanges_full t cs h

/-- TreeInv holds of the empty tree and after any sequence of transactions. -/
theorem C04_tree_inv (txs : List (List (Op V))) :
    TreeInv (txs.foldl (fun t cs => (applyChanges t cs).1) (Tree.empty : Tree V)) ∧
    (txs.foldl (fun t cs => (applyChanges t cs).1) (Tree.empty : Tree V)).toList =
      txs.foldl (fun l cs => specApply cs l) [] := by
  have hgen : ∀ (txs : List (List (Op V))) (t : Tree V), TreeInv t →
      TreeInv (txs.foldl (fun t cs => (applyChanges t cs).1) t) ∧
      (txs.foldl (fun t cs => (applyChanges t cs).1) t).toList =
        txs.foldl (fun l cs => specApply cs l) t.toList := by
    intro txs
    induction txs with
    | nil => intro t h; exact ⟨h, rfl⟩
    | cons cs txs ih =>
      intro t h
      obtain ⟨_, e, h'⟩ := C04_change_refines t cs h
      obtain ⟨i1, i2⟩ := ih _ h'
      exact ⟨i1, by rw [List.foldl_cons, List.foldl_cons, i2, e]⟩
  exact hgen txs Tree.empty (show treeInvB (Tree.empty : Tree V) = true from rfl)

/-- The same without the occupancy bounds: order and shape alone are preserved as long as no
    step is stuck (kept because it needs less of the invariant). -/
theorem C04_change_refines_partial (t : Tree V) (cs : List (Op V)) (hw : TreeWF t)
    (hok : (applyChanges t cs).2 = true) :
    (applyChanges t cs).1.toList = specApply cs t.toList ∧ TreeWF (applyChanges t cs).1 :=
  applyChanges_spec t cs hw hok

/-- A single insertion or replacement never gets stuck: unconditional refinement for Sets,
    through splits at every level and root growth. -/
theorem C04_insert_refines (t : Tree V) (k : Key) (v : V) (hw : TreeWF t) :
    (applyOne t (.set k v)).2 = true ∧
    (applyOne t (.set k v)).1.toList = put t.toList k v ∧ TreeWF (applyOne t (.set k v)).1 :=
  ⟨applyOne_set_ok t k v hw, (applyOne_spec t _ hw (applyOne_set_ok t k v hw)).1,
    (applyOne_spec t _ hw (applyOne_set_ok t k v hw)).2⟩

/-- `Node::rebalance` (rotation from the left sibling, from the right sibling, or merge)
    keeps the parent's enumeration and shape whenever it finds the siblings it needs. -/
theorem C04_rebalance_refines (d : Nat) (n : Node V) (hw : WF (d + 1) n) (i : Nat) (n' : Node V)
    (hr : rebalance n i = some n') : toList (d + 1) n' = toList (d + 1) n ∧ WF (d + 1) n' :=
  rebalance_spec d n hw i n' hr

/-! ### non-vacuity: growth to depth 1 by splits, then shrinking by merges and root removal -/

private def exKeys : List Nat := [5, 1, 9, 3, 7, 2, 8, 4, 6, 10, 12, 11]
private def exSets : List (Op Nat) := exKeys.map (fun i => .set [i] i)
private def exDels : List (Op Nat) := [1, 2, 3, 4, 5, 6, 7, 8].map (fun i => .del [i])

example : TreeWF (Tree.empty : Tree Nat) := TreeWF.empty
example : (applyChanges (Tree.empty : Tree Nat) exSets).2 = true ∧
    (applyChanges (Tree.empty : Tree Nat) exSets).1.depth = 1 ∧
    treeInvB (applyChanges (Tree.empty : Tree Nat) exSets).1 = true := by decide +kernel
example : let t := (applyChanges (Tree.empty : Tree Nat) exSets).1
    (applyChanges t exDels).2 = true ∧ (applyChanges t exDels).1.depth = 0 ∧
    (applyChanges t exDels).1.toList = [([9], 9), ([10], 10), ([11], 11), ([12], 12)] ∧
    treeInvB (applyChanges t exDels).1 = true := by decide +kernel


/-! ### audit -/

#print axioms C04_key_order
#print axioms C04_iter_spec
#print axioms C04_position
#print axioms Reached.inv
#print axioms C04_next_spec
#print axioms C04_prev_spec
#print axioms C04_seek_spec
#print axioms C04_get_spec
#print axioms C04_F5a_counterexample
#print axioms C04_F5b_counterexample
#print axioms C04_separator_roundtrip
#print axioms C04_sort_stable
#print axioms C04_prepare_spec
#print axioms C04_tree_inv_meaning
#print axioms C04_change_refines
#print axioms C04_tree_inv
#print axioms C04_change_refines_partial
#print axioms C04_insert_refines
#print axioms C04_rebalance_refines

end Pdb.C04
