/-
R7 for hash columns of every logical kind (plain / preimage / reference-counted): the physical
record `planWritesR` of a transaction on the physical column of R5 (`RefineRc.rRun`: Set /
Dereference / Reference, `write_inc_ref` / `write_dec_ref` rewriting the stored counter), with the
same statements as Pdb/Props/PhysRec.lean.  Tied to the code by the same `physrec` correspondence
run on ref-counted and preimage columns (`physrec initk`, `physrec ref`).
-/
import Pdb.Proofs.PhysRecRc
import Pdb.Props.PhysRec

namespace Pdb.PhysRec
open Pdb.Gen Pdb.Index Pdb.ValueTable Pdb.Refine Pdb.RefineRc

/-- R7_frame for every kind: a transaction that plans without error changes no location outside the
candidate locations (unconditional). -/
theorem R7rc_frame (kind : Pdb.Kind) (cmp : Bytes → Bytes) (thr : Nat) (p p' : PCol) (tx : TxR)
    (hrun : runTxR kind cmp thr p tx = some p') (l : Loc) (hl : Loc.Ok l)
    (hn : l ∉ cands (txTouchedR kind cmp thr p tx) p p') : mem p' l = mem p l :=
  frame_of_vframe _ p p' (runTxR_frame kind cmp thr p p' tx hrun) l hl hn

/-- R7_full for every kind: all writes of the record applied to (a state that reads like) the state
before give the state `rRun` reaches. -/
theorem R7rc_full (kind : Pdb.Kind) (cmp : Bytes → Bytes) (thr : Nat) (p p' q : PCol) (tx : TxR)
    (hrun : runTxR kind cmp thr p tx = some p') (hng : NoGrow p p')
    (hqs : shape q = shape p) (hqm : ∀ l, Loc.Ok l → mem q l = mem p l) :
    (∀ l, Loc.Ok l → mem (applyWrites q (planWritesR kind cmp thr p tx)) l = mem p' l) ∧
    shape (applyWrites q (planWritesR kind cmp thr p tx)) = shape p' ∧
    Static q (applyWrites q (planWritesR kind cmp thr p tx)) := by
  rw [planWritesR_eq kind cmp thr p p' tx hrun]
  obtain ⟨h, s⟩ := full_mem_gen _ p p' q (runTxR_frame kind cmp thr p p' tx hrun) hng hqs hqm
  exact ⟨h, s.shape.trans (hqs.trans hng.symm), s⟩

/-- R7_redo for every kind: enactment torn after `j` writes, then the whole record again. -/
theorem R7rc_redo (kind : Pdb.Kind) (cmp : Bytes → Bytes) (thr : Nat) (p p' : PCol) (tx : TxR)
    (hrun : runTxR kind cmp thr p tx = some p') (hng : NoGrow p p') (j : Nat) (l : Loc) (hl : Loc.Ok l) :
    mem (applyWrites (applyWrites p ((planWritesR kind cmp thr p tx).take j))
      (planWritesR kind cmp thr p tx)) l = mem p' l := by
  have hok : ∀ w ∈ planWritesR kind cmp thr p tx, Write.Ok (shape p) w := by
    rw [planWritesR_eq kind cmp thr p p' tx hrun]
    exact fun w hw => diff_ok _ p p' hng w hw
  rw [col_redo_torn p _ j hok l hl]
  exact (R7rc_full kind cmp thr p p' p tx hrun hng rfl (fun _ _ => rfl)).1 l hl

/-- R7_redo_history for every kind: records `pre ++ mid` enacted, `r` torn after `j` writes, replay
of the consecutive records `mid ++ r :: post`: the recovered column reads like the record boundary
after the last of them. -/
theorem R7rc_redo_history (kind : Pdb.Kind) (cmp : Bytes → Bytes) (thr : Nat) (p p' : PCol)
    (txs : List TxR) (pre mid post : List (List Write)) (r : List Write)
    (h : HistR kind cmp thr p txs (pre ++ mid ++ r :: post) p') (j : Nat) (l : Loc) (hl : Loc.Ok l) :
    mem (applyWrites (applyWrites (applyWrites p (pre ++ mid).flatten) (r.take j))
        (mid ++ r :: post).flatten) l = mem p' l :=
  h.gen.redo pre mid post r j l hl

/-! ## non-vacuity: a reference-counted column -/

section Example

def exR0 : PCol := rInit .rc ⟨true, true, true⟩ 16
def exRTx1 : TxR := [.set exKa [1, 2, 3], .set exKb (List.replicate 40 7), .set exKa [1, 2, 3]]
def exRTx2 : TxR := [.deref exKa, .ref exKb, .deref exKc, .set exKc (List.replicate 300 9)]
def exRTx3 : TxR := [.deref exKa, .deref exKb]
def exR1 : PCol := (runTxR .rc exCmp 0 exR0 exRTx1).getD exR0
def exR2 : PCol := (runTxR .rc exCmp 0 exR1 exRTx2).getD exR0
def exR3 : PCol := (runTxR .rc exCmp 0 exR2 exRTx3).getD exR0

theorem exRRun1 : runTxR .rc exCmp 0 exR0 exRTx1 = some exR1 := getD_of_isSome _ _ (by decide +kernel)
theorem exRRun2 : runTxR .rc exCmp 0 exR1 exRTx2 = some exR2 := getD_of_isSome _ _ (by decide +kernel)
theorem exRRun3 : runTxR .rc exCmp 0 exR2 exRTx3 = some exR3 := getD_of_isSome _ _ (by decide +kernel)
theorem exRNg1 : NoGrow exR0 exR1 := by unfold NoGrow; decide +kernel
theorem exRNg2 : NoGrow exR1 exR2 := by unfold NoGrow; decide +kernel
theorem exRNg3 : NoGrow exR2 exR3 := by unfold NoGrow; decide +kernel

/-- the second record rewrites two counters in place (one slot each, no header); the third removes
`exKa` (counter 1 -> gone: tombstone, index entry, header) and decrements `exKb` (2 -> 1) -/
example : ((planWritesR .rc exCmp 0 exR1 exRTx2).map (·.1)).length = 5 ∧
    (planWritesR .rc exCmp 0 exR2 exRTx3).length = 4 := by
  refine ⟨by decide +kernel, by decide +kernel⟩

example := R7rc_redo .rc exCmp 0 exR1 exR2 exRTx2 exRRun2 exRNg2 3

theorem exRHist : HistR .rc exCmp 0 exR0 [exRTx1, exRTx2, exRTx3]
    ([planWritesR .rc exCmp 0 exR0 exRTx1] ++ [] ++
      planWritesR .rc exCmp 0 exR1 exRTx2 :: [planWritesR .rc exCmp 0 exR2 exRTx3]) exR3 :=
  .cons exRRun1 exRNg1 (.cons exRRun2 exRNg2 (.cons exRRun3 exRNg3 (.nil _)))

example := R7rc_redo_history .rc exCmp 0 exR0 exR3 _ [planWritesR .rc exCmp 0 exR0 exRTx1] [] _ _
  exRHist 2

end Example

end Pdb.PhysRec

#print axioms Pdb.PhysRec.R7rc_frame
#print axioms Pdb.PhysRec.R7rc_full
#print axioms Pdb.PhysRec.R7rc_redo
#print axioms Pdb.PhysRec.R7rc_redo_history
