/-
C02x  A crash at any instant of the MULTITREE pipeline recovers to a prefix of the accepted tree
      transactions (extension of C02 to the model of C10).

Model: Pdb/Model/MultiTreeCrash.lean.  `CState` refines the pipeline model of C10 (`PState`:
addresses claimed and the commit overlay filled when a commit returns, every table effect in
process_commits) with logged-vs-enacted: `base` are the tables on disk after the ENACTED records,
`logged` the processed commits whose record is published but not enacted, `flushed` how many of
those are in synced log files, `hist` (ghost) the accepted operations in commit-return order.
Commands: commit of one tree operation | process ONE commit | flush | enact ONE record; the `p`
component runs exactly the C10 pipeline model (`C02x_runs_pipeline`).

A crash instant is described by
  * the reachable state `c` it happens in (any command list from any start tables `H0` satisfying
    the heap invariant `Inv`, in particular from the tables recovered by an earlier crash),
  * `n`: how many published records are intact in the log files; every flushed (synced) record
    survives, the unflushed tail may be cut anywhere: `max n c.flushed` records are kept,
  * the disk image `x` of the tables: ANY image that agrees with `base` on the locations that no
    kept record writes - whatever part of an interrupted enactment or of an interrupted earlier
    recovery reached the files is overwritten by the replay (`C02x_replay_absorbs`),
  * `nx`: the address counter the reopened database continues with.  The queue, the commit overlay
    and every address claimed by a lost transaction are gone; `nx` only has to lie above every
    address PRESENT in the recovered tables (`Below`): `nx = H.next` hands claimed-but-lost addresses
    out again, `nx = c.p.heap.next` leaks them; both are covered.
A commit whose call did not return is not in `hist`; a record half-written to the log is not among
the `n`.

Not covered here: byte-level validation of damaged logs (C13), page-granular power loss (C12), the
physical record layout (tied by the correspondence runs of C10/C02), concurrently locked tree
readers (C11).  Log records are abstract: a set of written locations with absolute after-images,
constrained by `RecOf` (it writes at least what processing the commit changes, with the values
after it).
-/
import Pdb.Proofs.C02xReplay
import Pdb.Proofs.C02xInv
import Pdb.Props.C10

namespace Pdb.MultiTree
set_option linter.unusedSectionVars false
variable {K D : Type} [DecidableEq K]

/-- (0) The refined model runs the C10 pipeline model: flush / enact do not touch the pipeline
state, commit / process are `cmdStep`.  So everything C10 proves about schedules (every root of
the atomic heap readable through the overlays, ...) holds of `c.p` before the crash. -/
theorem C02x_runs_pipeline (v : Variant) (H0 : Heap K D) (cmds : List (CCmd K D)) :
    (cmds.foldl cstep (CState.start v H0)).p =
      (toCmds cmds).foldl cmdStep (⟨v, H0, []⟩ : PState K D) :=
  toP_run cmds (CState.start v H0)

/-- (1) Every crash of every reachable state recovers to the atomic heap - the specification of
C10 - of a PREFIX of the accepted tree transactions: with `m = nEnacted + (records kept)`,
  (a) nothing enacted or synced is lost and `m` is a prefix length of the accepted history,
  (b) the recovered tables (nodes, ref-count table, roots) are exactly those of executing the
      first `m` accepted operations atomically: each transaction entirely present or absent, none
      present without all earlier ones - and this is what replaying ANY records `rs` of the kept
      commits over ANY admissible disk image `x` yields,
  (c) that prefix is a legal history and its heap satisfies `Inv` (RcInv: no dangling child,
      acyclic, counts = references with multiplicity), so all C10 theorems apply to it.
The ghost history consists of accepted operations only and executes to the same heap as all
committed operations (rejected commits are no-ops). -/
theorem C02x_multitree_recover_prefix (v : Variant) (H0 : Heap K D) (hi0 : Inv v H0)
    (cmds : List (CCmd K D)) (hl : LegalRun v H0 (committedOps (toCmds cmds))) (n : Nat) :
    let c := cmds.foldl cstep (CState.start v H0)
    let kept := c.logged.take (max n c.flushed)
    let m := c.nEnacted + kept.length
    let H := runOps v H0 (c.hist.take m)
    c.hist.Sublist (committedOps (toCmds cmds)) ∧
    runOps v H0 c.hist = runOps v H0 (committedOps (toCmds cmds)) ∧
    c.nEnacted + c.logged.length + c.p.queue.length = c.hist.length ∧
    c.nEnacted + c.flushed ≤ m ∧ m ≤ c.hist.length ∧
    core (recoverHeap c n) = core H ∧
    (∀ (rs : List (Rec K D)) (x : Tbl K D), RecsOf v c.base kept rs →
      (∀ loc, (∀ r ∈ rs, ¬ r.W loc) → x.agreeAt c.base.tbl loc) → replay x rs = H.tbl) ∧
    LegalRun v H0 (c.hist.take m) ∧ Inv v H := by
  intro c kept m H
  obtain ⟨hi, hr⟩ := cinv_run v H0 cmds _ (cinv_start v H0) hl
  obtain ⟨l, el, hsub⟩ := hist_sublist cmds (CState.start v H0)
  obtain ⟨ha, hb, hcore⟩ := cinv_recover v H0 c n hi
  have hlegal : LegalRun v H0 (c.hist.take m) := LegalRun_take v H0 c.hist m hi.legal
  refine ⟨?_, hr, hi.len, ha, hb, hcore, ?_, hlegal, runOps_inv v _ H0 hi0 hlegal⟩
  · have : c.hist = l := el
    rw [this]; exact hsub
  · intro rs x hrs hx
    rw [replay_absorbs v kept c.base rs x hrs hx]
    apply tbl_of_core
    have hv : c.p.variant = v := hi.sim.var
    have := hcore
    simp only [recoverHeap] at this
    rw [hv] at this
    exact this

/-- (2) Replay is an absolute overwrite.  If `rs` are records of processing the commits `ps`
one after the other on the tables `base`, and the image `x` agrees with `base` on every location
that NO record of `rs` writes, then replaying `rs` over `x` gives exactly the tables after
processing `ps`: whatever part of an interrupted enactment or of an interrupted earlier recovery
already reached the files is absorbed. -/
theorem C02x_replay_absorbs (v : Variant) (base : Heap K D) (ps : List (Pending K D))
    (rs : List (Rec K D)) (x : Tbl K D) (hrs : RecsOf v base ps rs)
    (hx : ∀ loc, (∀ r ∈ rs, ¬ r.W loc) → x.agreeAt base.tbl loc) :
    replay x rs = (drainHeap v base ps).tbl :=
  replay_absorbs v ps base rs x hrs hx

/-- (2') one record: enacting a record of `p` on the tables `h` gives the tables after `p`;
records exist (the smallest one writes exactly the locations that change). -/
theorem C02x_record_enacts (v : Variant) (h : Heap K D) (p : Pending K D) :
    (∀ r, RecOf v h p r → applyRec h.tbl r = (applyPending v h p).tbl) ∧
    RecOf v h p (minRec v h p) ∧ (∀ ps, RecsOf v h ps (minRecs v h ps)) :=
  ⟨fun r hr => applyRec_of v h p r hr, minRec_of v h p, fun ps => minRecs_of v ps h⟩

/-- (2b) Which records the log holds.  A record is made by `process` on the CURRENT tables of
the pipeline state (enacted base + everything logged before) and leaves the list when it is
enacted.  A list `rs` maintained that way - append the record made at process time, drop the head
at enact, untouched by commit and flush - always consists of records of the logged commits over
the enacted base (`RecsOf v c.base c.logged rs`), and so does every prefix that survives a crash:
this is the hypothesis on `rs` in (1). -/
theorem C02x_records_tracked (v : Variant) (H0 : Heap K D)
    (cmds : List (CCmd K D)) (hl : LegalRun v H0 (committedOps (toCmds cmds))) :
    let c := cmds.foldl cstep (CState.start v H0)
    RecsOf v (CState.start v H0).base (CState.start v H0).logged [] ∧
    ∀ rs : List (Rec K D), RecsOf v c.base c.logged rs →
      (∀ pd rest p' r, c.p.queue = pd :: rest → processOne c.p = .ok p' → RecOf v c.p.heap pd r →
        (cstep c .process).logged = c.logged ++ [pd] ∧
        RecsOf v (cstep c .process).base (cstep c .process).logged (rs ++ [r])) ∧
      (∀ f p0 rest, c.flushed = f + 1 → c.logged = p0 :: rest →
        (cstep c .enact).logged = rest ∧
        RecsOf v (cstep c .enact).base (cstep c .enact).logged rs.tail) ∧
      (∀ op, RecsOf v (cstep c (.commit op)).base (cstep c (.commit op)).logged rs) ∧
      RecsOf v (cstep c .flush).base (cstep c .flush).logged rs ∧
      (∀ j, RecsOf v c.base (c.logged.take j) (rs.take j)) := by
  intro c
  refine ⟨trivial, ?_⟩
  intro rs hrs
  obtain ⟨hi, _⟩ := cinv_run v H0 cmds _ (cinv_start v H0) hl
  have hv : c.p.variant = v := hi.sim.var
  refine ⟨?_, ?_, ?_, hrs, fun j => RecsOf_take v c.logged c.base rs j hrs⟩
  · intro pd rest p' r hq e hr
    have := recs_process v H0 c hi rs hrs pd rest p' r hq e (by rw [hv]; exact hr)
    exact ⟨this.1, this.2.2⟩
  · intro f p0 rest hf hlog
    exact recs_enact v H0 c hi rs hrs f p0 rest hf hlog
  · intro op
    simp only [cstep]
    cases commitOp c.p op <;> exact hrs

/-- (2'') Crash during enactment / during recovery, in the shape of C02's
`C02_crash_during_recovery`: the first `i` records applied completely and then an ARBITRARY subset
`S` of the writes of any one record `r` of the log; replaying all records over that image yields
the tables of the recovered prefix of (1). -/
theorem C02x_crash_during_recovery (v : Variant) (H0 : Heap K D) (hi0 : Inv v H0)
    (cmds : List (CCmd K D)) (hl : LegalRun v H0 (committedOps (toCmds cmds))) (n : Nat) :
    let c := cmds.foldl cstep (CState.start v H0)
    let kept := c.logged.take (max n c.flushed)
    let m := c.nEnacted + kept.length
    let H := runOps v H0 (c.hist.take m)
    ∀ (rs : List (Rec K D)), RecsOf v c.base kept rs →
      ∀ (i : Nat) (r : Rec K D) (S : Loc K → Prop), r ∈ rs →
        replay (applyRec (replay c.base.tbl (rs.take i)) (r.restrict S)) rs = H.tbl := by
  intro c kept m H rs hrs i r S hr
  have h1 := C02x_multitree_recover_prefix v H0 hi0 cmds hl n
  simp only at h1
  obtain ⟨_, _, _, _, _, _, hrep, _, _⟩ := h1
  have h2 := replay_after_partial v c.base kept rs hrs i r hr S
  rw [h2]
  have h3 := hrep rs c.base.tbl hrs (fun loc _ => Tbl.agreeAt_refl _ loc)
  rw [← h3]
  exact (replay_of v c.base kept rs hrs).symm

/-- (3) Every live tree of the recovered prefix reads back from the recovered database: through
the recovered pipeline state `s'` (empty queue and overlay) the root is found under its key and the
whole tree reads exactly as in the atomic heap `H`, the result exists (`isSome`: no missing node),
and `get_tree` on the recovered tables with their own counter `nx` gives the same. -/
theorem C02x_trees_read_back (v : Variant) (H0 : Heap K D) (hi0 : Inv v H0)
    (cmds : List (CCmd K D)) (hl : LegalRun v H0 (committedOps (toCmds cmds))) (n nx : Nat) :
    let c := cmds.foldl cstep (CState.start v H0)
    let m := c.nEnacted + (c.logged.take (max n c.flushed)).length
    let H := runOps v H0 (c.hist.take m)
    let s' := (crashRecover c n nx).p
    ∀ k r cnt, H.roots.get k = some (r, cnt) →
      viewRoot s' k = some r ∧
      (mapOpt (readNode (viewNode s') H.next) r.children).map (LTree.node r.data) = readTree H k ∧
      (readTree H k).isSome = true ∧
      (Below (recoverHeap c n) nx → readTree s'.heap k = readTree H k) := by
  intro c m H s' k r cnt hg
  have h1 := C02x_multitree_recover_prefix v H0 hi0 cmds hl n
  simp only at h1
  obtain ⟨_, _, _, _, _, hcore, _, _, hinv⟩ := h1
  have hc := hcore
  simp only [core, Prod.mk.injEq] at hc
  obtain ⟨hn, _, hro⟩ := hc
  have hv := start_views c.p.variant (withNext nx (recoverHeap c n))
  have hn' : (withNext nx (recoverHeap c n)).nodes = H.nodes := hn
  have hro' : (withNext nx (recoverHeap c n)).roots = H.roots := hro
  rw [hn'] at hv
  refine ⟨?_, ?_, readTree_isSome v H hinv k (r, cnt) hg, ?_⟩
  · show viewRoot (CState.start c.p.variant (withNext nx (recoverHeap c n))).p k = some r
    rw [hv.1 k, hro', hg]; rfl
  · show (mapOpt (readNode (viewNode (CState.start c.p.variant (withNext nx (recoverHeap c n))).p)
        H.next) r.children).map (LTree.node r.data) = readTree H k
    rw [hv.2]
    simp only [readTree, hg]
  · intro hb
    have hh : s'.heap = withNext nx H := by
      show withNext nx (recoverHeap c n) = withNext nx H
      rw [eq_withNext_of_core H (recoverHeap c n) hcore.symm]
      rfl
    rw [hh]
    exact readTree_withNext v H hinv nx (Below_of_core _ _ hcore nx hb) k

/-- (4) The history continues.  Both natural counters are admissible (`Below`): the atomic heap's
own counter (addresses claimed by lost transactions are handed out again) and the pre-crash counter
(they leak).  For every admissible `nx` the recovered state IS a freshly opened database on the
tables `withNext nx H`, these satisfy `Inv`, the recovered pipeline state simulates them, and hence
for every further schedule legal from there the conclusions of `C10_pipeline_refines` hold: the
atomic heap of the continued history satisfies `Inv`, each of its roots is readable through the
overlays with its whole tree, and once drained the tables are that heap. -/
theorem C02x_continues (v : Variant) (H0 : Heap K D) (hi0 : Inv v H0)
    (cmds : List (CCmd K D)) (hl : LegalRun v H0 (committedOps (toCmds cmds))) (n nx : Nat) :
    let c := cmds.foldl cstep (CState.start v H0)
    let m := c.nEnacted + (c.logged.take (max n c.flushed)).length
    let H := runOps v H0 (c.hist.take m)
    Below (recoverHeap c n) H.next ∧ Below (recoverHeap c n) c.p.heap.next ∧
    (Below (recoverHeap c n) nx →
      crashRecover c n nx = CState.start v (withNext nx H) ∧
      Inv v (withNext nx H) ∧ Sim v (crashRecover c n nx).p (withNext nx H) ∧
      ∀ cmds2 : List (Cmd K D), LegalRun v (withNext nx H) (committedOps cmds2) →
        let s2 := cmds2.foldl cmdStep (crashRecover c n nx).p
        let H2 := runOps v (withNext nx H) (committedOps cmds2)
        Inv v H2 ∧
        (∀ k r cc, H2.roots.get k = some (r, cc) →
          viewRoot s2 k = some r ∧
          (mapOpt (readNode (viewNode s2) H2.next) r.children).map (LTree.node r.data) =
            readTree H2 k) ∧
        (s2.queue = [] → s2.heap.nodes = H2.nodes ∧ s2.heap.rc = H2.rc ∧ s2.heap.roots = H2.roots)) := by
  intro c m H
  have h1 := C02x_multitree_recover_prefix v H0 hi0 cmds hl n
  simp only at h1
  obtain ⟨_, _, _, _, _, hcore, _, _, hinv⟩ := h1
  obtain ⟨hi, _⟩ := cinv_run v H0 cmds _ (cinv_start v H0) hl
  have hbH : Below (recoverHeap c n) H.next := Below_of_core _ _ hcore.symm _ hinv.below
  refine ⟨hbH, ?_, ?_⟩
  · apply hbH.mono
    rw [← hi.sim.next]
    have : runOps v H0 c.hist = runOps v H (c.hist.drop m) := by
      conv => lhs; rw [← List.take_append_drop m c.hist, runOps_append]
    rw [this]
    exact runOps_next_mono v _ H
  · intro hb
    have hh : withNext nx (recoverHeap c n) = withNext nx H := by
      rw [eq_withNext_of_core H (recoverHeap c n) hcore.symm]
      rfl
    have hv : c.p.variant = v := hi.sim.var
    have he : crashRecover c n nx = CState.start v (withNext nx H) := by
      simp only [crashRecover, hh, hv]
    have hinv' : Inv v (withNext nx H) :=
      inv_withNext v H hinv nx (Below_of_core _ _ hcore nx hb)
    refine ⟨he, hinv', ?_, ?_⟩
    · rw [he]; exact Sim.start v _
    · intro cmds2 hl2
      rw [he]
      exact pipeline_refines_from v (withNext nx H) hinv' _ (Sim.start v _) cmds2 hl2

/-- (5) Repeated crashes: the recovered state is a start state on tables satisfying `Inv`, so (1)
applies to every schedule run on it and to a second crash (and so on); stated for two epochs. -/
theorem C02x_crash_again (v : Variant) (H0 : Heap K D) (hi0 : Inv v H0)
    (cmds : List (CCmd K D)) (hl : LegalRun v H0 (committedOps (toCmds cmds))) (n nx : Nat)
    (cmds2 : List (CCmd K D)) (n2 : Nat) :
    let c := cmds.foldl cstep (CState.start v H0)
    let m := c.nEnacted + (c.logged.take (max n c.flushed)).length
    let H := runOps v H0 (c.hist.take m)
    Below (recoverHeap c n) nx →
    LegalRun v (withNext nx H) (committedOps (toCmds cmds2)) →
    let c2 := cmds2.foldl cstep (crashRecover c n nx)
    let m2 := c2.nEnacted + (c2.logged.take (max n2 c2.flushed)).length
    let H2 := runOps v (withNext nx H) (c2.hist.take m2)
    c2.nEnacted + c2.flushed ≤ m2 ∧ m2 ≤ c2.hist.length ∧
    core (recoverHeap c2 n2) = core H2 ∧
    LegalRun v (withNext nx H) (c2.hist.take m2) ∧ Inv v H2 := by
  intro c m H hb hl2
  have h1 := C02x_continues v H0 hi0 cmds hl n nx
  simp only at h1
  obtain ⟨he, hinv', _, _⟩ := h1.2.2 hb
  have h2 := C02x_multitree_recover_prefix v (withNext nx H) hinv' cmds2 hl2 n2
  simp only at h2
  rw [← he] at h2
  exact ⟨h2.2.2.2.1, h2.2.2.2.2.1, h2.2.2.2.2.2.1, h2.2.2.2.2.2.2.2.1, h2.2.2.2.2.2.2.2.2⟩

/-! ## Non-vacuity (K = D = Nat; the trees `exT1`, `exT2` of Props/C10.lean: tree 2 shares the
nodes 0 and 1 of tree 1)

  commit insert 1, commit insert 2, process, process, flush, commit dereference 1, process, enact
  -> one record enacted, two logged of which one is synced, nothing queued. -/

def exSched : List (CCmd Nat Nat) :=
  [.commit (.insert 1 exT1), .commit (.insert 2 exT2), .process, .process, .flush,
   .commit (.dereference 1), .process, .enact]

def exC : CState Nat Nat := exSched.foldl cstep (CState.start .plain Heap.empty)

private theorem ex_legal : LegalRun .plain (Heap.empty : Heap Nat Nat) (committedOps (toCmds exSched)) := by
  refine ⟨⟨rfl, ?_⟩, ⟨rfl, ?_⟩, trivial, trivial⟩
  · simp [exT1, NRefs.live, NRef.live]
  · simp only [exT2, NRefs.live, NRef.live, present]; decide

example : Inv .plain (Heap.empty : Heap Nat Nat) := Inv.empty _
example : committedOps (toCmds exSched) = exOps := rfl

-- the crash instant: one record enacted, two logged, one of them synced, queue empty
example : exC.nEnacted = 1 ∧ exC.logged.length = 2 ∧ exC.flushed = 1 ∧ exC.p.queue.length = 0 ∧
    exC.hist.length = 3 := by decide
-- the tables on disk hold tree 1 only; the pipeline state has already freed node 2
example : exC.base.nodes.size = 3 ∧ exC.base.roots.size = 1 ∧ exC.p.heap.nodes.size = 2 := by decide

-- crash with the unsynced tail lost (n = 0): m = 1 + 1, the recovered tables are those after
-- {insert 1, insert 2}: all three nodes, node 0 referenced three times, both trees readable
example : exC.nEnacted + (exC.logged.take (max 0 exC.flushed)).length = 2 := by decide
example : (recoverHeap exC 0).nodes.size = 3 ∧ (recoverHeap exC 0).count 0 = 3 ∧
    (recoverHeap exC 0).count 1 = 2 ∧ (recoverHeap exC 0).roots.size = 2 ∧
    (readTree (crashRecover exC 0 3).p.heap 1).isSome = true ∧
    (readTree (crashRecover exC 0 3).p.heap 2).isSome = true := by decide
-- crash with the whole log intact (n = 2): m = 3, tree 1 is gone, node 2 freed, tree 2 intact
example : exC.nEnacted + (exC.logged.take (max 2 exC.flushed)).length = 3 := by decide
example : (recoverHeap exC 2).nodes.get 2 = none ∧ (recoverHeap exC 2).nodes.size = 2 ∧
    (recoverHeap exC 2).roots.get 1 = none ∧
    (readTree (crashRecover exC 2 3).p.heap 2).isSome = true := by decide
-- the recovered database is empty-queued and accepts the next commit (addresses from nx = 3)
example : (crashRecover exC 0 3).p.queue.length = 0 ∧
    ((cstep (crashRecover exC 0 3) (.commit (.insert 3 exT1))).p.queue.length = 1) := by decide

-- an earlier crash instant: two commits accepted, one processed and synced, nothing enacted
example :
    let c := (exSched.take 3 ++ [CCmd.flush]).foldl cstep (CState.start .plain (Heap.empty : Heap Nat Nat))
    c.nEnacted = 0 ∧ c.flushed = 1 ∧ c.p.queue.length = 1 ∧
    (recoverHeap c 0).roots.size = 1 ∧ (recoverHeap c 0).nodes.size = 3 := by decide

-- (1) instantiated: all hypotheses hold for the schedule
example := C02x_multitree_recover_prefix .plain (Heap.empty : Heap Nat Nat) (Inv.empty _) exSched ex_legal 0

-- (2'') on the table level, by the theorem: the synced record of insert 2, enacted only on an
-- arbitrary subset `S` of its locations when the crash hit, is completed by the replay
example (S : Loc Nat → Prop) (r : Rec Nat Nat)
    (hr : r ∈ minRecs .plain exC.base (exC.logged.take (max 0 exC.flushed))) :
    replay (applyRec exC.base.tbl (r.restrict S))
        (minRecs .plain exC.base (exC.logged.take (max 0 exC.flushed))) =
      (runOps .plain (Heap.empty : Heap Nat Nat) (exC.hist.take
        (exC.nEnacted + (exC.logged.take (max 0 exC.flushed)).length))).tbl :=
  C02x_crash_during_recovery .plain (Heap.empty : Heap Nat Nat) (Inv.empty _) exSched ex_legal 0
    _ (minRecs_of _ _ _) 0 r S hr
-- ... and that record list is not empty
example : (minRecs .plain exC.base (exC.logged.take (max 0 exC.flushed))).length = 1 := by
  have : (exC.logged.take (max 0 exC.flushed)).length = 1 := by decide
  revert this
  generalize exC.logged.take (max 0 exC.flushed) = l
  generalize exC.base = b
  intro h
  match l, h with
  | [p], _ => rfl

-- (4) instantiated: the atomic heap's counter (3: the addresses claimed by nobody else) is admissible
example : Below (recoverHeap exC 0) 3 :=
  (C02x_continues .plain (Heap.empty : Heap Nat Nat) (Inv.empty _) exSched ex_legal 0 3).1
example : (runOps .plain (Heap.empty : Heap Nat Nat) (exC.hist.take 2)).next = 3 ∧
    exC.p.heap.next = 3 := by decide

-- (5) a second epoch: the recovered database takes a new tree (nodes at the addresses 3, 4, 5),
-- processes it, and a second crash with nothing synced loses exactly that tree again
def exSched2 : List (CCmd Nat Nat) := [.commit (.insert 3 exT1), .process]
private theorem ex_legal2 : LegalRun .plain
    (withNext 3 (runOps .plain (Heap.empty : Heap Nat Nat) (exC.hist.take 2)))
    (committedOps (toCmds exSched2)) :=
  ⟨⟨by decide, by simp [exT1, NRefs.live, NRef.live]⟩, trivial⟩
example := C02x_crash_again .plain (Heap.empty : Heap Nat Nat) (Inv.empty _) exSched ex_legal 0 3
  exSched2 0 (C02x_continues .plain (Heap.empty : Heap Nat Nat) (Inv.empty _) exSched ex_legal 0 3).1
  ex_legal2
example :
    let c2 := exSched2.foldl cstep (crashRecover exC 0 3)
    c2.hist.length = 1 ∧ c2.logged.length = 1 ∧ c2.flushed = 0 ∧
    (c2.p.heap.nodes.get 5).isSome = true ∧ c2.p.heap.roots.size = 3 ∧
    (recoverHeap c2 0).roots.size = 2 ∧ (recoverHeap c2 1).roots.size = 3 := by decide

-- ref-counted roots: a reference that was accepted and processed but not synced is lost by the
-- crash (count 1 again), after the sync it survives (count 2)
example :
    let c := ([.commit (.insert 1 exT1), .process, .flush, .commit (.reference 1), .process] :
      List (CCmd Nat Nat)).foldl cstep (CState.start .rcRoots Heap.empty)
    ((recoverHeap c 0).roots.get 1).map Prod.snd = some 1 ∧
    ((recoverHeap c 2).roots.get 1).map Prod.snd = some 2 ∧
    ((recoverHeap (cstep c .flush) 0).roots.get 1).map Prod.snd = some 2 := by decide

#print axioms C02x_runs_pipeline
#print axioms C02x_multitree_recover_prefix
#print axioms C02x_replay_absorbs
#print axioms C02x_record_enacts
#print axioms C02x_records_tracked
#print axioms C02x_crash_during_recovery
#print axioms C02x_trees_read_back
#print axioms C02x_continues
#print axioms C02x_crash_again

end Pdb.MultiTree
