/-
C06  "Values of every size and compressibility are returned bit-exact"
     (src/table.rs: overwrite_chain / for_parts / clear_chain / next_free / clear_slot,
      src/column.rs: Column::compress, SIZES)

Model: Pdb/Model/ValueTable.lean (one value table at byte level + tier selection).
Quantification of the theorems below - nothing is enumerated, chains are handled by induction:
  * every value `v : List Nat` (any length, any content; "compressible or not" is irrelevant to
    the table, the compressor is a parameter of `storedForm` / `tierFor`),
  * every table the column code creates (`VT.WF`: entry size any element of the generated `SIZES`,
    or the multipart table with `MULTIPART_ENTRY_SIZE`), with and without ref-count header,
  * both key kinds (`TKey.partialKey tail` with a 26-byte tail = hash columns, `TKey.noHash` =
    btree columns), both values of the compressed flag,
  * every table state satisfying `SlotInv t F L` (free list `F`, live chains `L`; the invariant is a
    decidable predicate and is shown to be preserved, so the theorems compose over any sequence of
    inserts / overwrites / removals: "overwritten any number of times by values of other sizes").
Hypotheses that are not part of the property but of the modelling:
  * `WriteOk t key v`: what `Column::compress` + the `assert!` in `overwrite_chain` guarantee when a
    value is sent to table `t`; `C06_tier_writeOk` proves it for the tier chosen by `tierFor`;
  * `t.filled + numParts ≤ 2^64`: the 64-bit slot index does not overflow.
Assumption A-compress appears only in `C06_stored_decodes`.
Database versions <= 6 (V4 markers) and `claimed = true` (multitree) are outside the model.
-/
import Pdb.Proofs.C06Remove

namespace Pdb.ValueTable
open Pdb.Gen

/-! ## (2) the size field is never a marker -/

/-- Every length the code can put into a size field (`remainder <= free_space = entry_size - 2 <=
MAX_ENTRY_SIZE - SIZE_SIZE`), with or without `COMPRESSED_MASK`, yields two bytes different from
TOMBSTONE / MULTIPART / MULTIHEAD / MULTIHEAD_COMPRESSED, and `read_size` recovers length and
flag.  So `is_tombstone` / `is_multi` cannot misfire on a sized entry. -/
theorem C06_size_field_never_a_marker (n : Nat) (compressed : Bool)
    (h : n ≤ MAX_ENTRY_SIZE - SIZE_SIZE) (rest : Bytes) :
    sizeBytes n compressed ≠ TOMBSTONE ∧ sizeBytes n compressed ≠ MULTIPART ∧
    sizeBytes n compressed ≠ MULTIHEAD ∧ sizeBytes n compressed ≠ MULTIHEAD_COMPRESSED ∧
    readSize (sizeBytes n compressed ++ rest) = (n, compressed) := by
  have hlt : n < 32765 := Nat.lt_of_le_of_lt h maxStoredLen_lt
  obtain ⟨a, b, c, d⟩ := sizeBytes_not_marker n compressed hlt
  exact ⟨a, b, c, d, readSize_sizeBytes n compressed (by omega) rest⟩

example : (1234 : Nat) ≤ MAX_ENTRY_SIZE - SIZE_SIZE ∧ sizeBytes 1234 true = [210, 132] := by decide

/-- Which lengths are admitted: in every table of a column (`VT.WF`) the size field of a part
never exceeds `free_space`, and `free_space <= MAX_ENTRY_SIZE - SIZE_SIZE`. -/
theorem C06_admitted_lengths (t : VT) (key : TKey) (v : Bytes) (hok : WriteOk t key v) :
    freeSpace t ≤ MAX_ENTRY_SIZE - SIZE_SIZE ∧
    GoodChunks (freeSpace t) (partCap t) (chunksOf t key v) :=
  ⟨hok.facts.2.1, (chunksOf_shape hok).1⟩

/-- The bound is sharp (header comment of table.rs: "Sizes up to 0x7ffc are allowed"): the next
lengths collide with the markers. -/
theorem C06_marker_collisions :
    sizeBytes 0x7ffd false = MULTIHEAD_COMPRESSED ∧ sizeBytes 0x7ffd true = MULTIHEAD ∧
    sizeBytes 0x7ffe true = MULTIPART ∧ sizeBytes 0x7fff true = TOMBSTONE := by decide

/-! ## (3) tiers -/

/-- `SIZES` is strictly increasing, inside `[MIN_ENTRY_SIZE, MAX_ENTRY_SIZE]`, and has
`SIZE_TIERS - 1` entries (the last table is the multipart one). -/
theorem C06_sizes_strict_mono :
    (∀ i j, i < j → j < SIZES.length → SIZES.getD i 0 < SIZES.getD j 0) ∧
    (∀ s ∈ SIZES, MIN_ENTRY_SIZE ≤ s ∧ s ≤ MAX_ENTRY_SIZE) ∧
    SIZES.length = SIZE_TIERS - 1 ∧ tableSizes.length = SIZE_TIERS :=
  ⟨sizes_strict_mono_getD, sizes_range, sizes_length, tableSizes_length⟩

/-- The tier chosen for a stored length is a valid table index; unless it is the multipart
table (the last one) the value fits: `value_size >= len`. -/
theorem C06_tier_fits (rc : Bool) (key : TKey) (len : Nat) :
    tierOfLen rc key len < SIZE_TIERS ∧
    (tierOfLen rc key len < SIZE_TIERS - 1 →
      ∃ s, valueSizeOf (SIZES.getD (tierOfLen rc key len) 0) rc key = some s ∧ len ≤ s) := by
  refine ⟨tierOfLen_lt rc key len, fun h => ?_⟩
  have := tierOfLen_fits rc key len h
  rw [tableSizes_getD_lt _ h] at this
  exact (tierFits_iff rc key len _).mp this

/-- No smaller tier fits. -/
theorem C06_tier_minimal (rc : Bool) (key : TKey) (len j : Nat) (hj : j < tierOfLen rc key len) :
    ¬ ∃ s, valueSizeOf (SIZES.getD j 0) rc key = some s ∧ len ≤ s := by
  have h := tierOfLen_minimal rc key len j hj
  have hlt := tierOfLen_lt rc key len
  rw [tableSizes_getD_lt j (by have : SIZE_TIERS = 256 := rfl; omega)] at h
  intro hex
  have := (tierFits_iff rc key len _).mpr hex
  rw [h] at this; exact absurd this (by simp)

set_option maxRecDepth 100000 in
example : tierOfLen false (.partialKey (List.replicate 26 0)) 4 = 0 ∧
    tierOfLen false (.partialKey (List.replicate 26 0)) 5 = 1 ∧
    tierOfLen true .noHash 32754 = 254 ∧ tierOfLen true .noHash 32755 = 255 := by decide

/-- a hash-column key (26-byte tail) used in the examples -/
def exKeyT : TKey := .partialKey (List.replicate 26 9)

/-- A value is sent to the multipart table only if it does not fit the largest fixed-size entry,
hence (`MULTIPART_ENTRY_SIZE <= MAX_ENTRY_SIZE`) it is split over at least two parts. -/
theorem C06_multipart_tier_is_long (rc : Bool) (key : TKey) (len : Nat)
    (h : tierOfLen rc key len = SIZE_TIERS - 1) :
    MAX_ENTRY_SIZE - SIZE_SIZE < (if rc = true then REFS_SIZE else 0) + key.encodedSize + len := by
  have hmin := tierOfLen_minimal rc key len (SIZE_TIERS - 2) (by rw [h]; decide)
  have hlast : tableSizes.getD (SIZE_TIERS - 2) 0 = MAX_ENTRY_SIZE := by decide
  rw [hlast] at hmin
  unfold tierFits valueSizeOf at hmin
  have hk := encodedSize_le key
  simp only [MAX_ENTRY_SIZE, SIZE_SIZE, REFS_SIZE, PARTIAL_SIZE] at hmin hk ⊢
  by_cases hlt : 32760 - 2 - (if rc = true then 4 else 0) < key.encodedSize
  · split at hlt <;> omega
  · simp only [hlt, if_false, decide_eq_false_iff_not] at hmin
    omega

/-- Tie between tier selection and the table writer: the stored form of any value may be
written to (any state of) the table of the tier `tierFor` selects. -/
theorem C06_tier_writeOk (cmp : Bytes → Bytes) (thr : Nat) (rc : Bool) (key : TKey) (v : Bytes)
    (hk : key.Ok) (t : VT) (hcfg : SameCfg (tableOfTier rc (tierFor cmp thr rc key v).2) t) :
    WriteOk t key (tierFor cmp thr rc key v).1.1 := by
  have hlt := tierOfLen_lt rc key (storedForm cmp thr v).1.length
  have hst : SIZE_TIERS = 256 := rfl
  have hsl := sizes_length
  simp only [tierFor] at hcfg ⊢
  by_cases hi : tierOfLen rc key (storedForm cmp thr v).1.length < SIZES.length
  · -- fixed-size tier
    have hcfg' : t.entrySize = SIZES.getD (tierOfLen rc key (storedForm cmp thr v).1.length) 0 ∧
        t.multipart = false ∧ t.refCounted = rc := by
      simp only [tableOfTier, hi, if_true] at hcfg; exact hcfg
    have hmem : t.entrySize ∈ SIZES := by
      rw [hcfg'.1, List.getD_eq_getElem?_getD, List.getElem?_eq_getElem hi]
      simp
    obtain ⟨s, hs, hle⟩ := (C06_tier_fits rc key (storedForm cmp thr v).1.length).2 (by omega)
    refine ⟨Or.inl ⟨hcfg'.2.1, hmem⟩, hk, Or.inr ⟨s, ?_, hle⟩, ?_⟩
    · unfold valueSize; rw [hcfg'.1, hcfg'.2.2]; exact hs
    · intro h; rw [hcfg'.2.1] at h; exact absurd h (by simp)
  · -- multipart tier
    have hcfg' : t.entrySize = MULTIPART_ENTRY_SIZE ∧ t.multipart = true ∧ t.refCounted = rc := by
      simp only [tableOfTier, hi, if_false] at hcfg; exact hcfg
    have hlong := C06_multipart_tier_is_long rc key (storedForm cmp thr v).1.length (by omega)
    refine ⟨Or.inr ⟨hcfg'.2.1, hcfg'.1⟩, hk, Or.inl hcfg'.2.1, ?_⟩
    intro _
    rw [bodyOf_length t key _ hk]
    unfold freeSpace refSize
    rw [hcfg'.1, hcfg'.2.2]
    simp only [MAX_ENTRY_SIZE, SIZE_SIZE, MULTIPART_ENTRY_SIZE] at hlong ⊢
    omega

set_option maxRecDepth 100000 in
example : tierOfLen true exKeyT 32729 = SIZE_TIERS - 1 ∧ exKeyT.Ok ∧
    SameCfg (tableOfTier true (tierFor (fun v => v) 0 true exKeyT (List.replicate 40 3)).2)
      (tableOfTier true 30) := by decide
example := C06_tier_writeOk (fun v => v) 0 true exKeyT (List.replicate 40 3) (by decide)

/-! ## (1) round trip of an insert -/

/-- C06_roundtrip.  Inserting `v` (already in stored form, flag `compressed`) into any table
state satisfying `SlotInv` succeeds, returns the head slot of the new chain, the value reads back
bit for bit together with the flag and the initial reference count 1, the invariant holds again
(the chain joined the live chains, the popped slots left the free list), and every other live
chain reads exactly as before. -/
theorem C06_roundtrip (t : VT) (key : TKey) (v : Bytes) (compressed : Bool)
    (F : List Nat) (L : List (List Nat)) (hok : WriteOk t key v) (hinv : SlotInv t F L)
    (hb : t.filled + numParts t key v ≤ 2 ^ 64) :
    ∃ r, writeChain t key v none compressed = .ok r ∧
      readChain r.table key r.addr = .ok (some (v, compressed, 1)) ∧
      r.addr = r.chain.headD 0 ∧ r.chain.length = numParts t key v ∧
      SlotInv r.table (F.drop (numParts t key v)) (r.chain :: L) ∧
      (∀ c ∈ L, ∀ key', readChain r.table key' (c.headD 0) = readChain t key' (c.headD 0)) := by
  obtain ⟨r, h1, h2, h3, h4, h5, h6, h7, h8⟩ := writeChain_spec t key v compressed F [] L hok
    hinv.free (by simpa using hinv.nodup) (by simpa using hinv.range)
    (by have := hinv.count; simp only [List.length_nil, Nat.zero_add]; exact this) hinv.chains (Or.inl rfl) hb
  have hnf : newFree F [] (numParts t key v) = F.drop (numParts t key v) := by simp [newFree]
  rw [hnf] at h6
  have hlen : r.chain.length = numParts t key v := by
    rw [h2]; unfold newChain; simp only [List.take_nil]
    exact extChain_length t F [] _ (by simp)
  refine ⟨r, by simpa using h1, h5, h3, hlen, h6, ?_⟩
  intro c hc key'
  have hcl := length_le_flatten L c hc
  have hc1 := hinv.count
  have hc2 := h6.count
  rw [List.flatten_cons, List.length_append] at hc2
  exact readChain_congr t r.table h8 key' c (hinv.chains c hc)
    (fun x hx => h7 x (List.mem_flatten.mpr ⟨c, hc, hx⟩)) (by omega) (by omega)

/-- a table with one live value in slot 1 and slot 2 on the free list -/
def exT : VT :=
  { (((VT.empty 32 false false).setSlot 1 (sizeBytes 1 false ++ [9])).setSlot 2
      (TOMBSTONE ++ leBytes 8 0)) with filled := 3, lastRemoved := 2 }

example : WriteOk exT .noHash [1, 2, 3] ∧ SlotInv exT [2] [[1]] ∧
    exT.filled + numParts exT .noHash [1, 2, 3] ≤ 2 ^ 64 :=
  ⟨⟨by decide, by decide, by decide, by decide⟩, by decide, by decide⟩
example := C06_roundtrip exT .noHash [1, 2, 3] true [2] [[1]]
  ⟨by decide, by decide, by decide, by decide⟩ (by decide) (by decide)

/-- the multipart table, ref-counted, hash key: a 5000 byte value takes two parts -/
def exM : VT := VT.empty MULTIPART_ENTRY_SIZE true true
def exKey : TKey := .partialKey (List.replicate 26 7)

set_option maxRecDepth 100000 in
example : WriteOk exM exKey (List.replicate 5000 1) ∧ SlotInv exM [] [] ∧
    numParts exM exKey (List.replicate 5000 1) = 2 :=
  ⟨⟨by decide, by decide, by decide, by decide⟩, by decide, by decide⟩

/-! ## (4) overwrite and removal -/

/-- C06_replace_roundtrip.  Overwriting the value held by the live chain `c0` (whatever it holds,
of whatever length: single slot or chain) by `v1`: the address is unchanged (`start` = old head),
`v1` reads back bit for bit, the invariant holds for the new free list / chain, every other
live chain reads as before. -/
theorem C06_replace_roundtrip (t : VT) (key : TKey) (v1 : Bytes) (compressed : Bool)
    (F c0 : List Nat) (Lr : List (List Nat)) (hok : WriteOk t key v1)
    (hinv : SlotInv t F (c0 :: Lr)) (hb : t.filled + numParts t key v1 ≤ 2 ^ 64) :
    ∃ r, writeChain t key v1 (some (c0.headD 0)) compressed = .ok r ∧
      r.addr = c0.headD 0 ∧
      readChain r.table key r.addr = .ok (some (v1, compressed, 1)) ∧
      r.chain = newChain t F c0 (numParts t key v1) ∧
      SlotInv r.table (newFree F c0 (numParts t key v1)) (r.chain :: Lr) ∧
      (∀ c ∈ Lr, ∀ key', readChain r.table key' (c.headD 0) = readChain t key' (c.headD 0)) := by
  have hc0 : IsChain t c0 := hinv.chains c0 (by simp)
  have hnd := hinv.nodup
  have hrange := hinv.range
  have hcount := hinv.count
  rw [List.flatten_cons] at hnd hrange hcount
  rw [List.length_append] at hcount
  obtain ⟨r, h1, h2, h3, h4, h5, h6, h7, h8⟩ := writeChain_spec t key v1 compressed F c0 Lr hok
    hinv.free hnd hrange hcount (fun c hc => hinv.chains c (by simp [hc])) (Or.inr hc0) hb
  have hkpos : 0 < numParts t key v1 := numParts_pos
  have hhead : c0.head? = some (c0.headD 0) := by
    cases c0 with
    | nil => exact absurd hc0 (by simp [IsChain])
    | cons a r => rfl
  have haddr : r.addr = c0.headD 0 := by
    rw [h3, h2]; unfold newChain extChain
    cases c0 with
    | nil => exact absurd hc0 (by simp [IsChain])
    | cons a r' =>
      cases hk : numParts t key v1 with
      | zero => omega
      | succ k => simp
  refine ⟨r, by rw [← hhead]; exact h1, haddr, h5, h2, h6, ?_⟩
  intro c hc key'
  have hcl := length_le_flatten Lr c hc
  have hc2 := h6.count
  rw [List.flatten_cons, List.length_append] at hc2
  exact readChain_congr t r.table h8 key' c (hinv.chains c (by simp [hc]))
    (fun x hx => h7 x (List.mem_flatten.mpr ⟨c, hc, hx⟩)) (by omega) (by omega)

/-- C06_replace_frees.  The slots of the old chain that the new value does not reuse
(`c0.drop k`) are exactly the slots freed, they are on the free list afterwards, `filled` grows
only by what neither the old chain nor the free list could supply, and
`free slots + live slots + 1 = filled` holds again. -/
theorem C06_replace_frees (t : VT) (key : TKey) (v1 : Bytes) (compressed : Bool)
    (F c0 : List Nat) (Lr : List (List Nat)) (hok : WriteOk t key v1)
    (hinv : SlotInv t F (c0 :: Lr)) (hb : t.filled + numParts t key v1 ≤ 2 ^ 64) :
    ∃ r, writeChain t key v1 (some (c0.headD 0)) compressed = .ok r ∧
      r.freed = c0.drop (numParts t key v1) ∧
      (∀ x ∈ r.freed, x ∈ newFree F c0 (numParts t key v1)) ∧
      FreeChain r.table r.table.lastRemoved (newFree F c0 (numParts t key v1)) ∧
      (newFree F c0 (numParts t key v1)).length + (r.chain :: Lr).flatten.length + 1 = r.table.filled ∧
      r.table.filled = t.filled + (numParts t key v1 - c0.length - F.length) := by
  have hc0 : IsChain t c0 := hinv.chains c0 (by simp)
  have hnd := hinv.nodup
  have hrange := hinv.range
  have hcount := hinv.count
  rw [List.flatten_cons] at hnd hrange hcount
  rw [List.length_append] at hcount
  obtain ⟨r, h1, h2, h3, h4, h5, h6, h7, h8⟩ := writeChain_spec t key v1 compressed F c0 Lr hok
    hinv.free hnd hrange hcount (fun c hc => hinv.chains c (by simp [hc])) (Or.inr hc0) hb
  have hhead : c0.head? = some (c0.headD 0) := by
    cases c0 with
    | nil => exact absurd hc0 (by simp [IsChain])
    | cons a r => rfl
  refine ⟨r, by rw [← hhead]; exact h1, h4, ?_, h6.free, h6.count, ?_⟩
  · intro x hx
    rw [h4] at hx
    unfold newFree
    exact List.mem_append_left _ (List.mem_reverse.mpr hx)
  · have hc2 := h6.count
    rw [List.flatten_cons, List.length_append, h2] at hc2
    unfold newFree newChain extChain at hc2
    simp only [List.length_append, List.length_reverse, List.length_drop, List.length_take,
      List.length_range'] at hc2
    omega

/-- a multipart table holding a three-part value in slots 1,2,3; overwriting it by a two-part
value frees slot 3 -/
def exM3 : VT :=
  match writeChain (VT.empty MULTIPART_ENTRY_SIZE true false) .noHash (List.replicate 9000 5) none false with
  | .ok r => r.table
  | .error _ => VT.empty MULTIPART_ENTRY_SIZE true false

set_option maxRecDepth 1000000 in
example : SlotInv exM3 [] [[1, 2, 3]] ∧ WriteOk exM3 .noHash (List.replicate 5000 6) ∧
    numParts exM3 .noHash (List.replicate 5000 6) = 2 ∧
    newFree [] [1, 2, 3] 2 = [3] ∧ newChain exM3 [] [1, 2, 3] 2 = [1, 2] :=
  ⟨by decide, ⟨by decide, by decide, by decide, by decide⟩, by decide, by decide, by decide⟩

/-- C06_remove_frees.  Removing a live value pushes every slot of its chain on the free list (the
last part becomes the new head), keeps the invariant, and leaves `filled` and all other live
chains alone. -/
theorem C06_remove_frees (t : VT) (F c0 : List Nat) (Lr : List (List Nat))
    (hinv : SlotInv t F (c0 :: Lr)) (hb : t.filled ≤ 2 ^ 64) :
    ∃ t', removePlan t (c0.headD 0) = .ok (t', c0) ∧ SlotInv t' (c0.reverse ++ F) Lr ∧
      t'.filled = t.filled ∧
      (∀ c ∈ Lr, ∀ key', readChain t' key' (c.headD 0) = readChain t key' (c.headD 0)) := by
  obtain ⟨t', h1, h2, h3, h4, h5⟩ := removePlan_spec t F c0 Lr hinv hb
  refine ⟨t', h1, h2, h5, ?_⟩
  intro c hc key'
  have hcl := length_le_flatten Lr c hc
  have hc1 := hinv.count
  rw [List.flatten_cons, List.length_append] at hc1
  exact readChain_congr t t' h4 key' c (hinv.chains c (by simp [hc]))
    (fun x hx => h3 x (List.mem_flatten.mpr ⟨c, hc, hx⟩)) (by omega) (by omega)

example : SlotInv exT [2] ([1] :: []) ∧ exT.filled ≤ 2 ^ 64 := ⟨by decide, by decide⟩

/-- C06_insert_reuses_free.  An insert pops the free list before extending `filled`: the new
chain consists of the first `k` free slots (most recently freed first), fresh slots are taken
only when the free list is exhausted, and `filled` grows by exactly that shortfall.  With
`C06_remove_frees`: removing everything and re-inserting values needing the same numbers of
slots never grows the table. -/
theorem C06_insert_reuses_free (t : VT) (key : TKey) (v : Bytes) (compressed : Bool)
    (F : List Nat) (L : List (List Nat)) (hok : WriteOk t key v) (hinv : SlotInv t F L)
    (hb : t.filled + numParts t key v ≤ 2 ^ 64) :
    ∃ r, writeChain t key v none compressed = .ok r ∧
      r.chain = F.take (numParts t key v) ++
        List.range' t.filled (numParts t key v - F.length) ∧
      r.table.filled = t.filled + (numParts t key v - F.length) := by
  obtain ⟨r, h1, h2, h3, h4, h5, h6, h7, h8⟩ := writeChain_spec t key v compressed F [] L hok
    hinv.free (by simpa using hinv.nodup) (by simpa using hinv.range)
    (by have := hinv.count; simp only [List.length_nil, Nat.zero_add]; exact this) hinv.chains (Or.inl rfl) hb
  have hch : r.chain = F.take (numParts t key v) ++
      List.range' t.filled (numParts t key v - F.length) := by
    rw [h2]; simp [newChain, extChain]
  refine ⟨r, by simpa using h1, hch, ?_⟩
  have hc1 := hinv.count
  have hc2 := h6.count
  rw [List.flatten_cons, List.length_append, hch] at hc2
  simp only [newFree, List.drop_nil, List.reverse_nil, List.nil_append, List.length_nil,
    Nat.sub_zero, List.length_append, List.length_drop, List.length_take, List.length_range'] at hc2
  omega

/-! ## (5) compression is kept only if it pays -/

/-- C06_compress_kept_only_if_smaller.  The stored form is the compressor's output iff the value
is longer than the threshold (`value.len() > threshold`, strict) and the output is strictly
shorter than the value; otherwise the value is stored as is and flagged uncompressed. -/
theorem C06_compress_kept_only_if_smaller (cmp : Bytes → Bytes) (thr : Nat) (v : Bytes) :
    ((storedForm cmp thr v).2 = true ↔ (thr < v.length ∧ (cmp v).length < v.length)) ∧
    ((storedForm cmp thr v).2 = true → (storedForm cmp thr v).1 = cmp v) ∧
    ((storedForm cmp thr v).2 = false → (storedForm cmp thr v).1 = v) ∧
    (storedForm cmp thr v).1.length ≤ v.length := by
  unfold storedForm
  by_cases h1 : thr < v.length
  · by_cases h2 : (cmp v).length < v.length
    · simp [h1, h2]; omega
    · simp [h1, h2]
  · simp [h1]

/-- Under A-compress (`decomp (cmp v) = some v`) decoding what was stored returns `v`. -/
theorem C06_stored_decodes (cmp : Bytes → Bytes) (decomp : Bytes → Option Bytes)
    (hA : ∀ v, decomp (cmp v) = some v) (thr : Nat) (v : Bytes) :
    decodeStored decomp (storedForm cmp thr v) = some v := by
  unfold decodeStored storedForm
  by_cases h1 : thr < v.length
  · by_cases h2 : (cmp v).length < v.length
    · simp [h1, h2, hA]
    · simp [h1, h2]
  · simp [h1]

example : storedForm (fun _ => [1]) 0 [5, 5, 5] = ([1], true) ∧
    storedForm (fun _ => [1]) 3 [5, 5, 5] = ([5, 5, 5], false) ∧
    storedForm (fun v => v ++ [0]) 0 [5, 5, 5] = ([5, 5, 5], false) := by decide

/-- End to end for one value: what `write_new_value_plan` stores in the table selected by
`Column::compress` is what `get_value` decodes back to `v`. -/
theorem C06_value_roundtrip (cmp : Bytes → Bytes) (decomp : Bytes → Option Bytes)
    (hA : ∀ v, decomp (cmp v) = some v) (thr : Nat) (rc : Bool) (key : TKey) (v : Bytes)
    (hk : key.Ok) (t : VT) (F : List Nat) (L : List (List Nat))
    (hcfg : SameCfg (tableOfTier rc (tierFor cmp thr rc key v).2) t) (hinv : SlotInv t F L)
    (hb : t.filled + numParts t key (tierFor cmp thr rc key v).1.1 ≤ 2 ^ 64) :
    ∃ r stored flag rcount,
      writeChain t key (tierFor cmp thr rc key v).1.1 none (tierFor cmp thr rc key v).1.2 = .ok r ∧
      readChain r.table key r.addr = .ok (some (stored, flag, rcount)) ∧
      decodeStored decomp (stored, flag) = some v := by
  obtain ⟨r, h1, h2, _⟩ := C06_roundtrip t key (tierFor cmp thr rc key v).1.1
    (tierFor cmp thr rc key v).1.2 F L (C06_tier_writeOk cmp thr rc key v hk t hcfg) hinv hb
  exact ⟨r, _, _, _, h1, h2, C06_stored_decodes cmp decomp hA thr v⟩

/-- a toy compressor satisfying A-compress that shrinks exactly one value -/
def exCmp (v : Bytes) : Bytes := if v = List.replicate 100 7 then [1] else 0 :: v
def exDecomp (b : Bytes) : Option Bytes := if b = [1] then some (List.replicate 100 7) else some b.tail

set_option maxRecDepth 100000 in
example : (tierFor exCmp 0 false .noHash (List.replicate 100 7)) = (([1], true), 0) ∧
    (tierFor exCmp 0 false .noHash (List.replicate 99 7)).1.2 = false := by decide

set_option maxRecDepth 100000 in
example := C06_value_roundtrip exCmp exDecomp
  (by
    intro v
    unfold exCmp exDecomp
    by_cases h : v = List.replicate 100 7
    · rw [if_pos h, if_pos rfl, h]
    · rw [if_neg h, if_neg (by simp)]; rfl)
  0 false .noHash (List.replicate 100 7)
  (by decide) (tableOfTier false 0) [] [] (by decide) (by decide) (by decide)

end Pdb.ValueTable

#print axioms Pdb.ValueTable.C06_size_field_never_a_marker
#print axioms Pdb.ValueTable.C06_admitted_lengths
#print axioms Pdb.ValueTable.C06_marker_collisions
#print axioms Pdb.ValueTable.C06_sizes_strict_mono
#print axioms Pdb.ValueTable.C06_tier_fits
#print axioms Pdb.ValueTable.C06_tier_minimal
#print axioms Pdb.ValueTable.C06_multipart_tier_is_long
#print axioms Pdb.ValueTable.C06_tier_writeOk
#print axioms Pdb.ValueTable.C06_roundtrip
#print axioms Pdb.ValueTable.C06_replace_roundtrip
#print axioms Pdb.ValueTable.C06_replace_frees
#print axioms Pdb.ValueTable.C06_remove_frees
#print axioms Pdb.ValueTable.C06_insert_reuses_free
#print axioms Pdb.ValueTable.C06_compress_kept_only_if_smaller
#print axioms Pdb.ValueTable.C06_stored_decodes
#print axioms Pdb.ValueTable.C06_value_roundtrip
