/-
C13  Damaged or stale write-ahead logs are rejected, never half-applied.

Property theorems over the byte-level model `Pdb.Model.Wal` (a model of the code with
fixes/fix-c13.diff applied).  `crc` is an arbitrary function of the bytes (A-crc); every
statement is for ALL byte strings, configurations and record lists, proved by induction.

Vocabulary (defined in Pdb/Model/Wal.lean and Pdb/Proofs/C13*.lean):
  WellFormed cfg r      the validators accept record `r` in configuration `cfg`
  cfgAfter cfg r        configuration after `r` was validated and applied
  ValidChain cfg l rs   `rs` well formed one after the other, ids `l+1, l+2, ...`
  NoValidNext .. tail   `tail` does not start with a well-formed encoded record numbered `l+1`
  Explains              report-by-report description of a replay (see C13Replay.lean)
  IntactPrefix crc rs fs  the ordered files begin with the undamaged encodings of `rs`
  stateAt hist k T0     abstract tables after the first `k` committed records
-/
import Pdb.Proofs.C13Intact
import Pdb.Proofs.C13Order

namespace Pdb.Wal
open Pdb.Gen

/-! ### instances used by the non-vacuity examples -/

/-- One hash column, index at 16 bits, no ref-count table, no reindex pending. -/
def exCfg : Cfg := ⟨false, [⟨false, 16, none, []⟩]⟩

def exRec : Record :=
  ⟨5, [.insertIndex 16 3 5 (List.replicate 16 7), .insertValue 4 7 [3, 0, 1, 2, 3], .dropTable 16]⟩

/-- A checksum good enough to notice the damage used below: sum of the bytes. -/
def crcSum (bs : Bytes) : Nat := (bs.map (·.toNat)).sum

def exEntry (v : UInt8) : Bytes := [1, 0, v]
def exR1 : Record := ⟨1, [.insertValue 4 1 (exEntry 0xAA)]⟩     -- k1 := a
def exR2 : Record := ⟨2, [.insertValue 4 1 (exEntry 0xBB)]⟩     -- k1 := b
def exR3 : Record := ⟨3, [.insertValue 4 2 (exEntry 0xCC)]⟩     -- k2 := c
def exHist : List Record := [exR1, exR2, exR3]
/-- Record 2 with one payload byte changed and the original checksum. -/
def exR2damaged : Bytes :=
  encodeBody ⟨2, [.insertValue 4 1 (exEntry 0xBC)]⟩ ++ leBytes 4 (crcSum (encodeBody exR2))
def exDamagedLog : Bytes := encodeRecord crcSum exR1 ++ exR2damaged ++ encodeRecord crcSum exR3

/-! ## 1. parse ∘ encode -/

theorem C13_parse_encode (crc : Bytes → Nat) (cfg : Cfg) (lastEnacted : Nat) (r : Record)
    (rest : Bytes) (hwf : WellFormed cfg r) (hid : r.id = lastEnacted + 1) :
    parseRecord crc cfg lastEnacted (encodeRecord crc r ++ rest) = .ok r rest (cfgAfter cfg r) :=
  parseRecord_encode crc hwf hid rest

example : WellFormed exCfg exRec ∧ exRec.id = 4 + 1 := by decide +kernel
example : parseRecord crcSum exCfg 4 (encodeRecord crcSum exRec ++ [9, 9]) =
    .ok exRec [9, 9] exCfg := by decide +kernel

/-! ## 2. totality: no panic, whatever the bytes -/

theorem C13_total (crc : Bytes → Nat) (cfg : Cfg) (lastEnacted : Nat) :
    (∀ bytes : Bytes, parseRecord crc cfg lastEnacted bytes ≠ .panic) ∧
    (∀ files : List Bytes, (replay crc cfg lastEnacted files).panicked = false) ∧
    (∀ files : List Bytes, (replayOpen crc cfg files).panicked = false) := by
  have key : ∀ last files, (replay crc cfg last files).panicked = false := by
    intro last files
    have h := (replaySorted_explains crc cfg last (orderFiles files)).not_stuck
    unfold ReplayResult.panicked replay
    rw [Bool.eq_false_iff]
    intro hany
    obtain ⟨rep, hr, hs⟩ := List.any_eq_true.mp hany
    exact h rep hr (by simpa using hs)
  exact ⟨parseRecord_ne_panic crc cfg lastEnacted, key lastEnacted, fun files => key _ files⟩

-- garbage, a bad opcode, a truncated record: rejected, not stuck
example : parseRecord crcSum exCfg 0 [0xde, 0xad] = .invalid .badHeader exCfg := by decide +kernel
example : parseRecord crcSum exCfg 0 ((encodeRecord crcSum exR1).take 20) =
    .invalid .validation exCfg := by decide +kernel
example : parseRecord crcSum exCfg 0 [1, 1, 0] = .endOfLog := by decide +kernel

/-! ## 3. only complete, valid, consecutively numbered records are applied -/

/-- Everything replay applies (a) is numbered `lastEnacted+1, lastEnacted+2, ...` without gap,
    also across log files, (b) ends at the reported `lastEnacted`, (c) stands whole in one of
    the log files: its body followed by the CRC of that body, and passed validation in the
    configuration then in force; (d) each visited file is literally
    `encode(accepted records) ++ unread tail`. -/
theorem C13_only_valid_consecutive (crc : Bytes → Nat) (cfg : Cfg) (lastEnacted : Nat)
    (files : List Bytes) :
    let res := replay crc cfg lastEnacted files
    res.applied.map (·.id) = List.range' (lastEnacted + 1) res.applied.length ∧
    res.lastEnacted = lastEnacted + res.applied.length ∧
    (∀ r ∈ res.applied, ∃ f ∈ files, ∃ pre post c,
        f = pre ++ (encodeBody r ++ leBytes 4 (crc (encodeBody r))) ++ post ∧ WellFormed c r) ∧
    (∀ i (hi : i < res.reports.length), ∃ hf : i < (orderFiles files).length,
        (orderFiles files)[i] = encodeRecords crc res.reports[i].applied ++ res.reports[i].tail ∧
        ∃ c l, ValidChain c l res.reports[i].applied) := by
  intro res
  have hex := replaySorted_explains crc cfg lastEnacted (orderFiles files)
  obtain ⟨hids, hlast⟩ := hex.ids
  obtain ⟨hlen, hfiles⟩ := hex.files
  refine ⟨hids, hlast, ?_, ?_⟩
  · intro r hr
    obtain ⟨rep, hrep, hrr⟩ := List.mem_flatMap.mp hr
    obtain ⟨c, hwf⟩ := hex.wf rep hrep r hrr
    obtain ⟨i, hi, hrepi⟩ := List.getElem_of_mem hrep
    have hf : i < (orderFiles files).length := by
      have : i < (replaySorted crc cfg lastEnacted (orderFiles files)).reports.length := hi
      omega
    have hfile := hfiles i hi hf
    have hrepi' : (replaySorted crc cfg lastEnacted (orderFiles files)).reports[i] = rep := hrepi
    rw [hrepi'] at hfile
    obtain ⟨pre, post, e⟩ := encodeRecords_mem crc hrr
    refine ⟨(orderFiles files)[i], mem_orderFiles (List.getElem_mem hf), pre, post ++ rep.tail, c,
      ?_, hwf⟩
    rw [hfile, e]; simp [encodeRecord]
  · intro i hi
    have hf : i < (orderFiles files).length := by
      have : i < (replaySorted crc cfg lastEnacted (orderFiles files)).reports.length := hi
      omega
    exact ⟨hf, hfiles i hi hf, hex.chains _ (List.getElem_mem hi)⟩

example : (replay crcSum exCfg 0 [encodeRecord crcSum exR1 ++ encodeRecord crcSum exR2]).applied =
    [exR1, exR2] := by decide +kernel
-- two files given in the wrong order, the second file continues the sequence
example : ((replay crcSum exCfg 0 [encodeRecord crcSum exR2, encodeRecord crcSum exR1]).applied,
    (replay crcSum exCfg 0 [encodeRecord crcSum exR2, encodeRecord crcSum exR1]).lastEnacted) =
    ([exR1, exR2], 2) := by decide +kernel

/-- How stale / out-of-sequence files are treated before any record is read: replay visits the
    files that hold at least a complete first header (9 bytes), each exactly once, in
    non-decreasing order of the id in that header; all other files are ignored (deleted). -/
theorem C13_file_order (files : List Bytes) :
    (orderFilesKeyed files).Perm (keyedFiles files) ∧
    (orderFilesKeyed files).Pairwise (fun a b => a.1 ≤ b.1) ∧
    orderFiles files = (orderFilesKeyed files).map (·.2) :=
  ⟨orderFilesKeyed_perm files, orderFilesKeyed_sorted files, rfl⟩

example : orderFiles [encodeRecord crcSum exR3, [1, 2, 3], [], encodeRecord crcSum exR1] =
    [encodeRecord crcSum exR1, encodeRecord crcSum exR3] := by decide +kernel

/-! ## 4. nothing after the first invalid record -/

/-- `Explains` is the exact account: for every visited file, in replay order, the file is
    `encode(accepted) ++ tail`; `StopsAt` says the model rejected what starts at `tail` (for the
    configuration and id expected at that point), hence (`NoValidNext`) `tail` does not begin
    with a well-formed encoded record continuing the sequence: the accepted records are the
    MAXIMAL valid consecutive prefix of the file.  A stop that clears (`bad header`, sequence
    error, unexpected BEGIN, validation error) is the last report: no later file contributes.
    A read error (truncation, bad opcode, CRC mismatch) or the end of the file moves on to the
    next file, whose first record must then continue the same sequence.
    The second conjunct spells this out for the first file. -/
theorem C13_nothing_after_first_invalid (crc : Bytes → Nat) (cfg : Cfg) (lastEnacted : Nat)
    (files : List Bytes) :
    let res := replay crc cfg lastEnacted files
    Explains crc cfg lastEnacted (orderFiles files) res.reports res.cfg res.lastEnacted ∧
    (∀ f fs, orderFiles files = f :: fs → ∃ rep reps, res.reports = rep :: reps ∧
        f = encodeRecords crc rep.applied ++ rep.tail ∧
        ValidChain cfg lastEnacted rep.applied ∧
        NoValidNext crc (chainCfg cfg rep.applied) (lastEnacted + rep.applied.length) rep.tail ∧
        (rep.stop.clears = true → reps = [])) ∧
    (∀ i (hi : i < res.reports.length), res.reports[i].stop.clears = true →
        i + 1 = res.reports.length) ∧
    ((∀ rep ∈ res.reports, rep.stop.clears = false) →
        res.reports.length = (orderFiles files).length) := by
  intro res
  have hex := replaySorted_explains crc cfg lastEnacted (orderFiles files)
  refine ⟨hex, ?_, hex.clears_last.1, hex.clears_last.2⟩
  intro f fs hfs
  have head' : ∀ {fs0 : List Bytes} {reps : List FileReport} {c : Cfg} {l : Nat},
      Explains crc cfg lastEnacted fs0 reps c l → fs0 = f :: fs →
      ∃ rep reps', reps = rep :: reps' ∧ f = encodeRecords crc rep.applied ++ rep.tail ∧
        ValidChain cfg lastEnacted rep.applied ∧
        NoValidNext crc (chainCfg cfg rep.applied) (lastEnacted + rep.applied.length) rep.tail ∧
        (rep.stop.clears = true → reps' = []) := by
    intro fs0 reps c l h e; subst e; exact h.head
  exact head' hex hfs

-- record 2 damaged (CRC mismatch): record 3, although intact, is not applied
example : ((replay crcSum exCfg 0 [exDamagedLog]).applied,
    (replay crcSum exCfg 0 [exDamagedLog]).reports.map (·.stop)) =
    ([exR1], [.invalid .readError]) := by decide +kernel
-- validation error in file 1 clears the queue: the intact file 2 (records 2, 3) is not read
example : (replay crcSum exCfg 0 [encodeRecord crcSum exR1 ++ [3, 0xff, 0xff] ++ List.replicate 8 0,
      encodeRecord crcSum exR2 ++ encodeRecord crcSum exR3]).reports.map
      (fun rep => (rep.applied.length, rep.stop)) = [(1, .invalid .badHeader)] := by decide +kernel

/-! ## 5. whole or nothing -/

/-- (a) One `enact_logs` call applies (`applyPass`) only after the validation pass accepted the
    whole record, CRC included; if the validation pass does not return `ok`, the call returns
    that result and nothing is applied.  (b) For ANY table state and ANY per-action write
    function, the tables after replay are the fold of the write function over the COMPLETE
    action lists of the applied records (each of which passed validation, theorem 3): no
    partial record ever contributes. -/
theorem C13_whole_or_nothing (crc : Bytes → Nat) (cfg : Cfg) (lastEnacted : Nat) :
    (∀ bytes r rest cfg', parseRecord crc cfg lastEnacted bytes = .ok r rest cfg' →
        ∃ cfgV, validatePass crc cfg lastEnacted bytes = .ok r rest cfgV ∧
          cfg' = applyPass cfgV r.actions) ∧
    (∀ bytes, (∀ r rest c, validatePass crc cfg lastEnacted bytes ≠ .ok r rest c) →
        parseRecord crc cfg lastEnacted bytes = validatePass crc cfg lastEnacted bytes) ∧
    (∀ (σ : Type) (step : σ → Action → σ) (T : σ) (files : List Bytes),
        (replaySortedWith step crc ⟨cfg, lastEnacted, T⟩ (orderFiles files)).1.tables =
          ((replay crc cfg lastEnacted files).applied.flatMap (·.actions)).foldl step T) := by
  refine ⟨?_, ?_, ?_⟩
  · intro bytes r rest cfg' h
    unfold parseRecord at h
    cases hv : validatePass crc cfg lastEnacted bytes with
    | ok r' rest' cfgV =>
      rw [hv] at h
      simp only [ParseResult.ok.injEq] at h
      obtain ⟨rfl, rfl, rfl⟩ := h
      exact ⟨cfgV, rfl, rfl⟩
    | endOfLog => rw [hv] at h; cases h
    | invalid why c => rw [hv] at h; cases h
    | panic => rw [hv] at h; cases h
  · intro bytes hne
    unfold parseRecord
    cases hv : validatePass crc cfg lastEnacted bytes with
    | ok r' rest' cfgV => exact absurd hv (hne r' rest' cfgV)
    | endOfLog => rfl
    | invalid why c => rfl
    | panic => rfl
  · intro σ step T files
    exact replaySorted_tables step crc cfg lastEnacted T (orderFiles files)

-- a record whose last action is cut off: nothing of it reaches the tables
example : (replaySortedWith stepTables crcSum ⟨exCfg, 4, fun _ => []⟩
      [(encodeRecord crcSum exRec).take 60]).1.tables (0, 4, 7, 0) = [] := by decide +kernel
example : (replaySortedWith stepTables crcSum ⟨exCfg, 4, fun _ => []⟩
      [encodeRecord crcSum exRec]).1.tables (0, 4, 7, 0) = [3, 0, 1, 2, 3] := by decide +kernel

/-! ## 6. prefix of the committed transactions, not older than the tables -/

/-- Abstract tables after opening: the applied records enacted over what the tables held. -/
def recovered (crc : Bytes → Nat) (cfg : Cfg) (lastEnacted : Nat) (files : List Bytes)
    (T : Tables) : Tables :=
  applyRecords (replay crc cfg lastEnacted files).applied T

/-- FULL-STRENGTH statement (FALSE, see `C13_prefix_counterexample`).
    `hist`: the committed records, numbered 1..n.  The tables hold the state after the first
    `a` of them.  The log files were written when records `f..n` were logged (`f ≤ a+1`:
    records `f..a` are already in the tables but their log is not yet reclaimed), so open
    starts with `last_enacted = f - 1`; now they contain arbitrary bytes.  Assumption A-crc in
    the only form needed: whatever replay accepts is a genuine committed record.
    Claim: the recovered state is the state after the first `k` committed records for some
    `k ≥ a`. -/
def C13_prefix_not_older : Prop :=
  ∀ (crc : Bytes → Nat) (cfg : Cfg) (hist : List Record) (f a : Nat) (T0 : Tables)
    (files : List Bytes),
    hist.map (·.id) = List.range' 1 hist.length →
    1 ≤ f → f ≤ a + 1 → a ≤ hist.length →
    (∀ r ∈ (replay crc cfg (f - 1) files).applied, r ∈ hist) →
    ∃ k, a ≤ k ∧ k ≤ hist.length ∧
      recovered crc cfg (f - 1) files (stateAt hist a T0) = stateAt hist k T0

/-- The statement holds when the damage lies only in records with id > `a` (or behind the
    last record): the ordered files still begin with the intact encodings of records `f..a`
    (`IntactPrefix`), which the writer produced well formed (`ValidChain`). -/
theorem C13_prefix_not_older_partial (crc : Bytes → Nat) (cfg : Cfg) (hist : List Record)
    (f a : Nat) (T0 : Tables) (files : List Bytes)
    (hh : hist.map (·.id) = List.range' 1 hist.length)
    (hf1 : 1 ≤ f) (hfa : f ≤ a + 1) (ha : a ≤ hist.length)
    (hgen : ∀ r ∈ (replay crc cfg (f - 1) files).applied, r ∈ hist)
    (hwf : ValidChain cfg (f - 1) ((hist.take a).drop (f - 1)))
    (hintact : IntactPrefix crc ((hist.take a).drop (f - 1)) (orderFiles files)) :
    ∃ k, a ≤ k ∧ k ≤ hist.length ∧
      recovered crc cfg (f - 1) files (stateAt hist a T0) = stateAt hist k T0 := by
  obtain ⟨more, happ⟩ := intact_applied crc hintact cfg (f - 1) hwf
  have happ' : (replay crc cfg (f - 1) files).applied = (hist.take a).drop (f - 1) ++ more := happ
  have hids := (replaySorted_explains crc cfg (f - 1) (orderFiles files)).ids.1
  have hids' : (replay crc cfg (f - 1) files).applied.map (·.id) =
      List.range' (f - 1 + 1) (replay crc cfg (f - 1) files).applied.length := hids
  obtain ⟨hseg, hle⟩ := genuine_segment hh hids' hgen
  have hn : a - (f - 1) ≤ (replay crc cfg (f - 1) files).applied.length := by
    have : ((hist.take a).drop (f - 1)).length = a - (f - 1) := by
      rw [List.length_drop, List.length_take]; omega
    rw [happ', List.length_append, this]; omega
  generalize hlen : (replay crc cfg (f - 1) files).applied.length = n at hseg hle hn
  refine ⟨f - 1 + n, by omega, ?_, ?_⟩
  · by_cases hne : (replay crc cfg (f - 1) files).applied = []
    · have hz : n = 0 := by rw [← hlen, hne]; rfl
      omega
    · exact hle hne
  · unfold recovered
    rw [hseg]
    exact redo_segment hist T0 (lo := f - 1) (a := a) (m := f - 1 + n) (by omega) (by omega)

-- the hypotheses are satisfiable: record 3 damaged while the tables hold records 1..2
example : ∃ (crc : Bytes → Nat) (cfg : Cfg) (hist : List Record) (f a : Nat) (files : List Bytes),
    hist.map (·.id) = List.range' 1 hist.length ∧ 1 ≤ f ∧ f ≤ a + 1 ∧ a ≤ hist.length ∧
    (∀ r ∈ (replay crc cfg (f - 1) files).applied, r ∈ hist) ∧
    ValidChain cfg (f - 1) ((hist.take a).drop (f - 1)) ∧
    IntactPrefix crc ((hist.take a).drop (f - 1)) (orderFiles files) ∧
    (replay crc cfg (f - 1) files).applied = [exR1, exR2] := by
  refine ⟨crcSum, exCfg, exHist, 1, 2,
    [encodeRecord crcSum exR1 ++ encodeRecord crcSum exR2 ++ (encodeRecord crcSum exR3).take 20],
    by decide, by decide, by decide, by decide, ?_, ?_, ?_, by decide +kernel⟩
  · have : (replay crcSum exCfg (1 - 1) [encodeRecord crcSum exR1 ++ encodeRecord crcSum exR2 ++
        (encodeRecord crcSum exR3).take 20]).applied = [exR1, exR2] := by decide +kernel
    rw [this]; decide
  · show ValidChain exCfg 0 [exR1, exR2]
    refine ⟨by decide, by decide +kernel, by decide, by decide +kernel, trivial⟩
  · have e : orderFiles [encodeRecord crcSum exR1 ++ encodeRecord crcSum exR2 ++
        (encodeRecord crcSum exR3).take 20] =
        [encodeRecords crcSum [exR1, exR2] ++ (encodeRecord crcSum exR3).take 20] := by
      decide +kernel
    rw [e]
    exact IntactPrefix.cut _ _ _

/-- Negation witness for the full statement (finding F3b): history k1:=a; k1:=b; k2:=c, all
    three records already in the tables and still in the log; one byte of record 2 is damaged.
    Replay re-applies record 1 only: the tables end as {k1=a, k2=c}, which is neither the state
    after 3 records nor any other prefix state. -/
theorem C13_prefix_counterexample : ¬ C13_prefix_not_older := by
  intro h
  have happ : (replay crcSum exCfg (1 - 1) [exDamagedLog]).applied = [exR1] := by decide +kernel
  obtain ⟨k, hk1, hk2, heq⟩ := h crcSum exCfg exHist 1 3 (fun _ => []) [exDamagedLog]
    (by decide) (by decide) (by decide) (by decide) (by rw [happ]; decide)
  have hk : k = 3 := by
    have : exHist.length = 3 := rfl
    omega
  subst hk
  have h1 := congrFun heq (0, 4, 1, 0)
  unfold recovered at h1
  rw [happ] at h1
  revert h1
  decide +kernel

-- the recovered state of the witness is not the state after ANY number of committed records
example : ∀ k, k ≤ 3 →
    recovered crcSum exCfg 0 [exDamagedLog] (stateAt exHist 3 (fun _ => [])) ≠
      stateAt exHist k (fun _ => []) := by
  have happ : (replay crcSum exCfg 0 [exDamagedLog]).applied = [exR1] := by decide +kernel
  intro k hk heq
  unfold recovered at heq
  rw [happ] at heq
  have h1 := congrFun heq (0, 4, 1, 0)
  have h2 := congrFun heq (0, 4, 2, 0)
  have : k = 0 ∨ k = 1 ∨ k = 2 ∨ k = 3 := by omega
  rcases this with rfl | rfl | rfl | rfl
  · revert h1; decide +kernel
  · revert h2; decide +kernel
  · revert h1; decide +kernel
  · revert h1; decide +kernel

#print axioms C13_parse_encode
#print axioms C13_total
#print axioms C13_only_valid_consecutive
#print axioms C13_file_order
#print axioms C13_nothing_after_first_invalid
#print axioms C13_whole_or_nothing
#print axioms C13_prefix_not_older_partial
#print axioms C13_prefix_counterexample

end Pdb.Wal
