/-
R6, whole change sets: the table effects of one committed transaction (`IndexedChangeSet::write_plan` in
`process_commits`) on a plain multitree column are simulated by C10's `applyChangeSetF41H` / `applyChangeSetH` (the heap
component of `applyChangeSet`, Pdb/Proofs/C10TxBasic.lean), under a STATIC side condition on the change set (`CsOk`).

  R6_node_changes     the `node_changes` loop: NewValue / IncrementReference / DereferenceChildren in any order
  R6_root_changes     the `changes` loop: `Set` of fresh keys (and `Reference`, a no-op on a plain column)
  R6_change_set       roots, then nodes = `applyChangeSetF41H`; = `applyChangeSetH` when no `Set` is postponed
  R6_process          `PDb.process`: the oldest queued change set reaches the tables
  R6_claim_tree_ok    `claim_tree_values` delivers a change set satisfying the static side condition (supply bookkeeping: per
                      tier the offsets are taken in order, every NewValue goes to a different claimed slot of its node's tier)
  R6_tx_insert        InsertTree as a whole transaction: `commit` (validate, claim, queue) then `process` = C10's `applyChangeSetH`
                      of the queued change set, which is C10's plan (`planRefs`) on the claimed addresses
  R6_tx_deref         DereferenceTree as a whole transaction
  R6_history          every legal history of such transactions from any represented quiescent state: `Rep` at the end;
  R6_history_reads / R6_history_slot_inv / R6_history_empty   reads of the physical column = C10 heap, `SlotInv` per tier, and
                      with an empty final heap every used slot of every table is free (every claimed slot is consumed by
                      the process phase: `planRef_used`)
Scope: plain multitree columns (`Variant.plain`), transactions of ONE operation, each processed before the next commit (empty
queue at commit).  Not done: several operations per transaction / several queued commits (the planning order across operations,
`DerefApart`), `ref_counted` / append-only columns at transaction level (the step theorems of Props/RefineMt.lean cover their
operations).  Saturation at LOCKED_REF: Pdb/Props/RefineMtSat.lean; replacement of a live root: Pdb/Props/RefineMtRepl.lean.
-/
import Pdb.Proofs.RefineMt16

namespace Pdb.MultiTreePhys
open Pdb.Gen Pdb.ValueTable Pdb.MultiTree

/-- R6_node_changes: on a plain multitree column, for every list of node changes satisfying `PlanOk` (every NewValue goes
    to a claimed slot of the tier `claim_node` selects, no address twice, room in the tables): whenever C10's fold
    `foldlM (applyNodeChangeH .plain)` succeeds, the physical fold succeeds and its result represents C10's. -/
theorem R6_node_changes (chs : List NChange) {p : PCol} {h h' : Heap Key Bytes} {ly : Layout} (r : Rep p h ly)
    (hv : p.variant = .plain) (hok : PlanOk p ly chs) (hw : chs.foldlM (applyNodeChangeH .plain) h = .ok h') :
    ∃ p' ly', chs.foldlM physApplyNode p = .ok p' ∧ Rep p' h' ly' ∧ p'.variant = p.variant ∧
      (∀ tier o, o ∈ ly'.claimed tier → o ∈ ly.claimed tier ∧
        ∀ a n, NodeChange.newValue a n ∈ chs → ¬ (Address.size_tier a = tier ∧ Address.offset a = o)) :=
  sim_nodeChanges chs p h h' ly r hv hok hw

/-- R6_root_changes: the root changes of a plain column (`Set` of distinct keys without root entry; `Reference` changes
    nothing there) are simulated by `foldl (applyRootChange .plain)`; claimed slots are untouched, the fill marks grow by at
    most `rootSlots`. -/
theorem R6_root_changes (chs : List RChange) {p : PCol} {h : Heap Key Bytes} {ly : Layout} (r : Rep p h ly)
    (hv : p.variant = .plain) (hok : RootsOk h chs)
    (hroom : ∀ tier, (p.vt tier).filled + rootSlots p.isRc chs ≤ 2 ^ 56) :
    ∃ p' ly', chs.foldlM physApplyRoot p = .ok p' ∧ Rep p' (chs.foldl (applyRootChange .plain) h) ly' ∧
      p'.variant = p.variant ∧ ly'.claimed = ly.claimed ∧
      (∀ tier, (p'.vt tier).filled ≤ (p.vt tier).filled + rootSlots p.isRc chs) :=
  sim_rootChanges chs p h ly r hv hok hroom

/-- R6_change_set: `write_plan` of a change set without postponed `Set` = C10's `applyChangeSetF41H`. -/
theorem R6_change_set {p : PCol} {h h' : Heap Key Bytes} {ly : Layout} (cs : ChangeSet Key Bytes) (r : Rep p h ly)
    (hv : p.variant = .plain) (hok : CsOk p h ly cs) (hw : applyChangeSetF41H .plain h cs = .ok h') :
    ∃ p' ly', physApplyChangeSet p cs = .ok p' ∧ Rep p' h' ly' ∧ p'.variant = p.variant ∧
      (∀ tier o, o ∈ ly'.claimed tier → o ∈ ly.claimed tier ∧
        ∀ a n, NodeChange.newValue a n ∈ cs.nodeChanges → ¬ (Address.size_tier a = tier ∧ Address.offset a = o)) :=
  sim_changeSet p h h' ly cs r hv hok hw

/-- without a postponed `Set` (no InsertTree of a key the same change set dereferences) the fixed planning order is the
    two-pass order -/
theorem applyChangeSetH_of_no_postponed (v : Variant) (h : Heap Key Bytes) (cs : ChangeSet Key Bytes)
    (hnp : ∀ c ∈ cs.changes, cs.postponed c = false) : applyChangeSetH v h cs = applyChangeSetF41H v h cs := by
  have h1 : cs.early = cs := by
    unfold ChangeSet.early
    have : cs.changes.filter (fun c => !cs.postponed c) = cs.changes :=
      List.filter_eq_self.mpr (fun c hc => by simp [hnp c hc])
    rw [this]
  have h2 : cs.late = [] := by
    unfold ChangeSet.late
    exact List.filter_eq_nil_iff.mpr (fun c hc => by simp [hnp c hc])
  unfold applyChangeSetH
  rw [h1, h2]
  cases applyChangeSetF41H v h cs <;> rfl

/-- R6_process: `process_commits` on the oldest queued change set, against C10's planning order `applyChangeSetH`. -/
theorem R6_process {db : PDb} {h h' : Heap Key Bytes} {ly : Layout} (cs : ChangeSet Key Bytes)
    (q : List (ChangeSet Key Bytes)) (hq : db.queue = cs :: q) (r : Rep db.col h ly) (hv : db.col.variant = .plain)
    (hok : CsOk db.col h ly cs) (hnp : ∀ c ∈ cs.changes, cs.postponed c = false)
    (hw : applyChangeSetH .plain h cs = .ok h') :
    ∃ p' ly', db.process = (⟨p', q⟩, .ok ()) ∧ Rep p' h' ly' ∧ p'.variant = db.col.variant := by
  rw [applyChangeSetH_of_no_postponed _ _ _ hnp] at hw
  obtain ⟨p', ly', hp, r', hv', _⟩ := R6_change_set cs r hv hok hw
  refine ⟨p', ly', ?_, r', hv'⟩
  simp only [PDb.process, hq, hp]


/-! ## whole transactions -/

/-- R6_claim_tree_ok: `claim_tree_values` keeps `Rep` with the same heap and delivers node changes that satisfy the static side
    condition of the process phase: every NewValue goes to a claimed slot (`NVOk`) of the tier selected for its node, addresses
    are pairwise different, no DereferenceChildren; the root is representable. -/
theorem R6_claim_tree_ok {p : PCol} {h : Heap Key Bytes} {ly : Layout} (r : Rep p h ly) (t : NewNode Bytes)
    (hfine : t.data.length < 2 ^ 63 ∧ t.children.length ≤ 255 ∧ fineRefs t.children)
    (hb : ∀ tier, (p.vt tier).filled +
      ((tierCounts (tiersRefs p.isRc t.children)).map Prod.snd).sum ≤ 2 ^ 56) :
    ∃ p' root chs ly', physClaimTree p t = .ok (p', root, chs) ∧ Rep p' h ly' ∧ p'.variant = p.variant ∧
      NodeOk root ∧ root.data = t.data ∧
      (∀ a n, NodeChange.newValue a n ∈ chs → NVOk p.isRc ly' a n) ∧ (newAddrs chs).Nodup ∧
      (∀ c ∈ chs, ∀ k cs, c ≠ NodeChange.derefChildren k cs) ∧
      (∀ tier o, o ∈ ly.claimed tier → o ∈ ly'.claimed tier) ∧
      (∀ tier, (p'.vt tier).filled ≤ (p.vt tier).filled +
        ((tierCounts (tiersRefs p.isRc t.children)).map Prod.snd).sum) ∧
      (∀ tier o, o ∈ ly'.claimed tier → o ∈ ly.claimed tier ∨
        ∃ a n, NodeChange.newValue a n ∈ chs ∧ Address.size_tier a = tier ∧ Address.offset a = o) :=
  sim_claimTree' p h ly r t hfine hb

/-- R6_tx_insert: InsertTree(k, t) as one transaction on a plain multitree column with an empty commit queue.
    Hypotheses = C10T's legality for this operation (fresh root key) + representability (`fineRefs`: <= 255 children per new node,
    data < 2^63 bytes, u64 `Existing` addresses) + physical limits (`hb`, `hroom`: room in the tables).
    `commit` accepts, claims (heap untouched: `Rep db1.col h`), queues `cs = ⟨[Set k root], chs⟩` where `chs` is C10's plan
    `planRefs` run on the claimed addresses; `process` succeeds and represents `applyChangeSetH .plain h cs`. -/
theorem R6_tx_insert (db : PDb) {h : Heap Key Bytes} {ly : Layout} (r : Rep db.col h ly)
    (hv : db.col.variant = .plain) (hq : db.queue = []) (k : Key) (t : NewNode Bytes)
    (hk : k.length = 32) (hfresh : h.roots.get k = none)
    (hfine : t.data.length < 2 ^ 63 ∧ t.children.length ≤ 255 ∧ fineRefs t.children)
    (hb : ∀ tier, (db.col.vt tier).filled +
      ((tierCounts (tiersRefs db.col.isRc t.children)).map Prod.snd).sum ≤ 2 ^ 56)
    (hroom : ∀ p1 root chs, physClaimTree db.col t = .ok (p1, root, chs) →
      ∀ tier, (p1.vt tier).filled + rootSlots p1.isRc [.set k root] + slotsNeeded p1.isRc chs ≤ 2 ^ 56) :
    ∃ (db1 : PDb) (root : Node Bytes) (chs : List NChange) (h' : Heap Key Bytes) (p' : PCol) (ly1 ly' : Layout),
      db.commit [.insert k t] = (db1, .ok (newAddrs chs)) ∧ db1.queue = [⟨[.set k root], chs⟩] ∧
      Rep db1.col h ly1 ∧
      root.data = t.data ∧
      planRefs (K := Key) false (newAddrs chs) t.children = (chs, [], root.children) ∧
      applyChangeSetH .plain h ⟨[.set k root], chs⟩ = .ok h' ∧
      db1.process = (⟨p', []⟩, .ok ()) ∧ Rep p' h' ly' ∧ p'.variant = .plain ∧
      ((∀ tier, ly.claimed tier = []) → ∀ tier, ly'.claimed tier = []) :=
  sim_tx_insert db h ly r hv hq k t hk hfresh hfine hb hroom

/-- R6_tx_deref: DereferenceTree(k) as one transaction on a plain multitree column with an empty commit queue (`DerefLive`: the
    root is live; `hw`: C10's `derefProcess` succeeds, which it does under `RcInv`). -/
theorem R6_tx_deref (db : PDb) {h h' : Heap Key Bytes} {ly : Layout} (r : Rep db.col h ly)
    (hv : db.col.variant = .plain) (hq : db.queue = []) (k : Key) (n : Node Bytes) (c : Nat)
    (hg : h.roots.get k = some (n, c)) (hw : derefProcess .plain h k n.children = .ok h') :
    ∃ (db1 : PDb) (p' : PCol) (ly' : Layout),
      db.commit [.dereference k] = (db1, .ok []) ∧ db1.col = db.col ∧
      db1.queue = [⟨[], [.derefChildren k n.children]⟩] ∧
      applyChangeSetH .plain h ⟨[], [.derefChildren k n.children]⟩ = .ok h' ∧
      db1.process = (⟨p', []⟩, .ok ()) ∧ Rep p' h' ly' ∧ p'.variant = .plain ∧ ly'.claimed = ly.claimed :=
  sim_tx_deref db h h' ly r hv hq k n c hg hw

/-- R6_history: every legal history (`HistLegal`: each transaction legal in the state it meets) of single-operation transactions,
    each committed and processed, from a represented quiescent state of a plain column, ends in a state representing C10's heap
    `absRun` (the fold of `applyChangeSetH` over the queued change sets). -/
theorem R6_history (ops : List POp) (db : PDb) {h : Heap Key Bytes} {ly : Layout} (r : Rep db.col h ly)
    (hv : db.col.variant = .plain) (hq : db.queue = []) (hce : ∀ tier, ly.claimed tier = [])
    (hl : HistLegal db h ops) :
    ∃ ly', Rep (runTx db ops).col (absRun db h ops) ly' ∧ (runTx db ops).col.variant = .plain ∧
      (runTx db ops).queue = [] ∧ ∀ tier, ly'.claimed tier = [] :=
  sim_history ops db h ly r hv hq hce hl

/-- R6_history_reads: after every legal history from the EMPTY column the reads of the physical column are the C10 heap's:
    `get_root` (with the count) for every key, `get_node` for every live address. -/
theorem R6_history_reads (ops : List POp) (hl : HistLegal (PDb.init .plain) Heap.empty ops) :
    (∀ k, physGetRoot (runTx (PDb.init .plain) ops).col k = (absRun (PDb.init .plain) Heap.empty ops).roots.get k) ∧
    (∀ a n, (absRun (PDb.init .plain) Heap.empty ops).nodes.get a = some n →
      physGetNode (runTx (PDb.init .plain) ops).col a = some n) := by
  obtain ⟨ly', r', _, _⟩ := R6_history ops (PDb.init .plain) (rep_init .plain) rfl rfl (fun _ => rfl) hl
  refine ⟨?_, fun a n hg => r'.getNode a n hg⟩
  intro k
  cases hg : (absRun (PDb.init .plain) Heap.empty ops).roots.get k with
  | none => exact r'.getRoot_none k hg
  | some x => obtain ⟨n, c⟩ := x; exact r'.getRoot k n c hg

/-- R6_history_slot_inv: C06's `SlotInv` (free list, claimed slots, live chains partition the used slots) holds in every table after
    every legal history from the empty column. -/
theorem R6_history_slot_inv (ops : List POp) (hl : HistLegal (PDb.init .plain) Heap.empty ops) (tier : Nat) :
    ∃ F L, SlotInv ((runTx (PDb.init .plain) ops).col.vt tier) F L := by
  obtain ⟨ly', r', _, _⟩ := R6_history ops (PDb.init .plain) (rep_init .plain) rfl rfl (fun _ => rfl) hl
  exact ⟨_, _, (r'.tiers tier).slot⟩

/-- R6_history_empty: when the history leaves C10's heap without node and root (all trees dereferenced: `C10_all_deref_empty`,
    `C10T_all_deref_reclaimed`), every used slot of every table of the column is on its free list: C10's "zero entries" clause at
    byte level (`get_num_entries` = `filled - 1 - free` = 0). -/
theorem R6_history_empty (ops : List POp) (hl : HistLegal (PDb.init .plain) Heap.empty ops)
    (hn : ∀ a, (absRun (PDb.init .plain) Heap.empty ops).nodes.get a = none)
    (hr : ∀ k, (absRun (PDb.init .plain) Heap.empty ops).roots.get k = none) (tier : Nat) :
    ∃ F, SlotInv ((runTx (PDb.init .plain) ops).col.vt tier) F [] ∧
      F.length + 1 = ((runTx (PDb.init .plain) ops).col.vt tier).filled := by
  obtain ⟨ly', r', _, _, hce⟩ := R6_history ops (PDb.init .plain) (rep_init .plain) rfl rfl (fun _ => rfl) hl
  exact ⟨ly'.free tier, rep_empty_all_free r' hn hr hce tier⟩

/-! ## non-vacuity -/

def exK : Key := List.replicate 32 5
/-- a tree that is a root without children -/
def exT0 : NewNode Bytes := ⟨[1, 2, 3], .nil⟩

set_option maxRecDepth 100000 in
/-- the legality hypotheses of `R6_tx_insert` / `R6_history` are satisfiable on the empty column -/
theorem exLegal : StepLegal (PDb.init .plain) Heap.empty (.insert exK exT0) := by
  refine ⟨by decide, rfl, ⟨by decide, by decide, trivial⟩, ?_, ?_⟩
  · intro tier
    show ((PCol.init .plain).vt tier).filled + _ ≤ _
    rw [init_filled]; decide
  · intro p1 root chs hct tier
    have e : physClaimTree (PDb.init .plain).col exT0 = .ok ((PDb.init .plain).col, ⟨[1, 2, 3], []⟩, []) := rfl
    rw [e] at hct
    simp only [Except.ok.injEq, Prod.mk.injEq] at hct
    obtain ⟨rfl, rfl, rfl⟩ := hct
    show ((PCol.init .plain).vt tier).filled + _ + _ ≤ _
    rw [init_filled]
    decide

example : ∃ ly', Rep (runTx (PDb.init .plain) [.insert exK exT0]).col
    (absRun (PDb.init .plain) Heap.empty [.insert exK exT0]) ly' := by
  obtain ⟨ly', r', _, _⟩ := R6_history [.insert exK exT0] (PDb.init .plain) (rep_init .plain) rfl rfl (fun _ => rfl)
    ⟨exLegal, trivial⟩
  exact ⟨ly', r'⟩

example := R6_history_reads [.insert exK exT0] ⟨exLegal, trivial⟩

set_option maxRecDepth 100000 in
/-- insert a tree, then dereference it: both transactions are legal, the history theorem applies, the final heap is empty and the
    zero-entries clause speaks about a table that HAS a used slot -/
theorem exLegal2 : HistLegal (PDb.init .plain) Heap.empty [.insert exK exT0, .dereference exK] := by
  refine ⟨exLegal, ⟨⟨[1, 2, 3], []⟩, 1, _, rfl, rfl⟩, trivial⟩

set_option maxRecDepth 1000000 in
example (tier : Nat) := R6_history_empty [.insert exK exT0, .dereference exK] exLegal2 (fun _ => rfl) (fun k => by
  show (absRun (PDb.init .plain) Heap.empty [.insert exK exT0, .dereference exK]).roots.get k = none
  have e : (absRun (PDb.init .plain) Heap.empty [.insert exK exT0, .dereference exK]).roots =
      ((Heap.empty : Heap Key Bytes).roots.set exK (some (⟨[1, 2, 3], []⟩, 1))).set exK none := rfl
  rw [e]
  simp only [FMap.get_set]
  split
  · rfl
  · simp [Heap.empty, FMap.get, FMap.empty, alLookup]) tier

/-- a root with one NEW child: the claim phase really claims a slot, the process phase writes a node -/
def exT1 : NewNode Bytes := ⟨[1], .cons (.new [7, 7] .nil) .nil⟩

set_option maxRecDepth 1000000 in
theorem exLegal1 : StepLegal (PDb.init .plain) Heap.empty (.insert exK exT1) := by
  have hsum : ((tierCounts (tiersRefs (PCol.init .plain).isRc exT1.children)).map Prod.snd).sum = 1 := by decide
  have hbnd : ∀ tier, ((PCol.init .plain).vt tier).filled +
      ((tierCounts (tiersRefs (PCol.init .plain).isRc exT1.children)).map Prod.snd).sum ≤ 2 ^ 56 := by
    intro tier
    rw [hsum, init_filled]; decide
  have hfine : exT1.data.length < 2 ^ 63 ∧ exT1.children.length ≤ 255 ∧ fineRefs exT1.children :=
    ⟨by decide, by decide, ⟨by decide, by decide, trivial⟩, trivial⟩
  refine ⟨by decide, rfl, hfine, hbnd, ?_⟩
  intro p1 root chs hct tier
  obtain ⟨p', root', chs', _, hct', _, _, _, _, _, _, _, _, hfl, _⟩ :=
    R6_claim_tree_ok (rep_init .plain) exT1 hfine hbnd
  rw [show (PDb.init .plain).col = PCol.init .plain from rfl] at hct
  rw [hct] at hct'
  simp only [Except.ok.injEq, Prod.mk.injEq] at hct'
  obtain ⟨rfl, rfl, rfl⟩ := hct'
  have e1 : (physClaimTree (PCol.init .plain) exT1).map (fun x => (x.1.isRc, x.2.1, x.2.2)) =
      .ok (false, ⟨[1], [Address.new 1 0]⟩, [.newValue (Address.new 1 0) ⟨[7, 7], []⟩]) := rfl
  rw [hct] at e1
  simp only [Except.map, Except.ok.injEq, Prod.mk.injEq] at e1
  obtain ⟨e1, e2, e3⟩ := e1
  rw [e1, e2, e3]
  have h1 := hfl tier
  rw [hsum, init_filled] at h1
  have h2 : rootSlots false [RootChange.set exK (⟨[1], [Address.new 1 0]⟩ : Node Bytes)] +
      slotsNeeded false [NodeChange.newValue (K := Key) (Address.new 1 0) ⟨[7, 7], []⟩] = 2 := by decide
  omega

example : ∃ ly', Rep (runTx (PDb.init .plain) [.insert exK exT1]).col
    (absRun (PDb.init .plain) Heap.empty [.insert exK exT1]) ly' := by
  obtain ⟨ly', r', _, _⟩ := R6_history [.insert exK exT1] (PDb.init .plain) (rep_init .plain) rfl rfl (fun _ => rfl)
    ⟨exLegal1, trivial⟩
  exact ⟨ly', r'⟩

end Pdb.MultiTreePhys

section Axioms
open Pdb.MultiTreePhys
#print axioms R6_node_changes
#print axioms R6_root_changes
#print axioms R6_change_set
#print axioms applyChangeSetH_of_no_postponed
#print axioms R6_process
#print axioms R6_claim_tree_ok
#print axioms R6_tx_insert
#print axioms R6_tx_deref
#print axioms R6_history
#print axioms R6_history_reads
#print axioms R6_history_slot_inv
#print axioms R6_history_empty
end Axioms
