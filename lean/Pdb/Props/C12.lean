/-
C12  Power loss cannot tear state: log synced before apply, data before log reuse.

Model: Pdb/Model/Dur.lean (file-system assumption A-os stated there; journals, the executable
discipline `accepts` = D1 ∧ D2 ∧ D3, power-loss images `Choice`, recovery `recoverImage`).
Records are P1 records (lists of absolute after-images, `Pdb.Rec`, `applyRec`), keyed by
physical locations; `tablesAfter t0 recs n` is the table content after records 1..n.
-/
import Pdb.Proofs.C12Gen
import Pdb.Proofs.C12Pos

namespace Pdb
open Dur
variable {V : Type}

/-- For every journal satisfying the discipline, every instant of it (= every prefix), every
    subset of unsynced pages of every table-ish file and every surviving length of the unsynced
    log tails: recovery yields exactly the tables after records 1..n for some n between the number
    of records whose log was synced at the crash and the number of records appended. `t0` is the
    (durable) table content at the start of the journal. -/
theorem C12_discipline_suffices [DecidableEq V] (t0 : Tbl Loc V) (j : Journal V)
    (hD : accepts j = true) (pre : Journal V) (hp : pre <+: j) (c : Choice) :
    ∃ n, syncedRecords pre ≤ n ∧ n ≤ appendedRecords pre ∧
      recoverImage (stateOf t0 pre) c = tablesAfter t0 (stateOf t0 pre).recs n := by
  have hI := Inv.stateOf t0 pre (accepts_prefix j pre hp hD)
  obtain ⟨n, h1, h2, h3⟩ := recover_of_inv hI c
  exact ⟨n, by rw [← syncedRecords_eq t0]; exact h1, by rw [← appendedRecords_eq t0]; exact h2, h3⟩

/-- Torn pages are harmless: the recovered tables do not depend on WHICH unsynced pages reached
    the disk (any subset, chosen page by page), only on how much of the log tail survived. -/
theorem C12_torn_page_harmless [DecidableEq V] (t0 : Tbl Loc V) (j : Journal V)
    (hD : accepts j = true) (pre : Journal V) (hp : pre <+: j) (c : Choice)
    (pick' : Nat → Nat → Bool) :
    recoverImage (stateOf t0 pre) { c with pick := pick' } = recoverImage (stateOf t0 pre) c := by
  have hI := Inv.stateOf t0 pre (accepts_prefix j pre hp hD)
  obtain ⟨keep, k1, k2, k3, k4⟩ := survivors_spec hI c
  have k4' : ∀ id ws, (id, ws) ∈ survivors (stateOf t0 pre) { c with pick := pick' } ↔
      ((stateOf t0 pre).cleaned < id ∧ id ≤ keep ∧ ws = recOf (stateOf t0 pre).recs id) := k4
  unfold recoverImage
  rw [recover_spec _ _ _ keep k3 k2 k4, recover_spec _ _ _ keep k3 k2 k4',
    image_core hI c keep k1 k2, image_core hI _ keep k1 k2]

/-- The lower bound of `C12_discipline_suffices` means what it says: in a journal satisfying the
    discipline the records counted by `syncedRecords` are exactly those whose append to a log
    file is followed, later in the journal, by a sync of that file. -/
theorem C12_synced_means_synced [DecidableEq V] (j : Journal V) (hD : accepts j = true) (id : Nat) :
    SyncedAt j id ↔ (1 ≤ id ∧ id ≤ syncedRecords j) :=
  (PosI.journal (fun _ => none) j hD).syn id

/-- Positional reading of D1: in a journal satisfying the discipline every table write on behalf
    of record r is preceded by a sync of the log file holding r, issued after r was appended. -/
theorem C12_D1_positional [DecidableEq V] (j : Journal V) (hD : accepts j = true) (i r : Nat)
    (loc : Loc) (val : Cell V) (hi : j[i]? = some (Ev.tableWrite r loc val)) :
    SyncedAt (j.take i) r := by
  obtain ⟨h1, h2⟩ := accepts_at j hD i _ hi
  rw [C12_synced_means_synced _ h1]
  simp only [check] at h2
  by_cases c1 : r ≠ (stateOf (fun _ => none) (j.take i)).done + 1
  · simp [c1] at h2
  · simp only [c1, if_false] at h2
    by_cases c2 : (stateOf (fun _ => none) (j.take i)).synced < r
    · simp [c2] at h2
    · unfold syncedRecords
      omega

/-- The abstract worker programs satisfy the discipline: every journal generated from a P1
    history (process = logAppend, flush = logSync, enact = the record's stores then enactEnd,
    clean = tableSync of every dirty table file then logTruncate of the oldest log file whose
    records are all applied; any interleaving of commit / process / flush / enact / clean /
    reindex, P1's stage order: enact needs `flushed > 0`) is accepted.
    The two ORDER facts this generator assumes about the code are exactly the obligations that
    Pdb/Gen/Order.lean + Pdb/Proofs/Order.lean (tools/skeleton.py) discharge on the extracted call
    skeletons: "sync_data precedes the push to the read queue in Log::flush_one" (so a record is
    readable by the enactor only after `logSync`: here `flush` emits the sync and only then does
    P1's `flushed` let `enact` run) and "column flush precedes log.clean_logs in
    DbInner::clean_logs / clean_all_logs" (here `clean` emits every `tableSync` before the
    `logTruncate`); together with `Log::clean_logs` draining `cleanup_queue` from the front
    (oldest first). -/
theorem C12_programs_satisfy_D [DecidableEq V] (kind : Loc → Kind) (as : List (Action Loc V))
    (hp : pipelineOnly as = true) : accepts (journalOf kind as) = true :=
  (GI.run kind as hp).acc

/-- End to end for the worker programs: at every instant of every pipeline history (every prefix of
    its journal), after any power loss, recovery yields P1's specification of a prefix of the
    committed transactions that contains every transaction whose log record was synced. -/
theorem C12_pipeline_power_loss [DecidableEq V] (kind : Loc → Kind) (as : List (Action Loc V))
    (hp : pipelineOnly as = true) (pre : Journal V) (hpre : pre <+: journalOf kind as)
    (c : Choice) :
    ∃ n, syncedRecords pre ≤ n ∧ n ≤ appendedRecords pre ∧
      n ≤ (Pdb.run kind Pdb.St.init as).hist.length ∧
      recoverImage (stateOf (fun _ => none) pre) c =
        spec kind ((Pdb.run kind (Pdb.St.init : Pdb.St Loc V) as).hist.take n) := by
  have hG := GI.run kind as hp
  obtain ⟨n, h1, h2, h3⟩ :=
    C12_discipline_suffices (fun _ => none) (journalOf kind as) hG.acc pre hpre c
  obtain ⟨rest, hrest⟩ := hpre
  obtain ⟨t, ht⟩ := recs_grow rest (stateOf (fun _ => none) pre)
  have hfin : (genRun kind as : GenSt V).g.recs = (stateOf (fun _ => none) pre).recs ++ t := by
    rw [hG.st, ← ht]
    show (stateFrom _ (journalOf kind as)).recs = _
    rw [← hrest, stateFrom_append]; rfl
  have h2' : n ≤ (stateOf (fun _ => none) pre).recs.length := h2
  have hlenP := hG.pinv.len
  have hlen := hG.len
  refine ⟨n, h1, h2, ?_, ?_⟩
  · rw [← genRun_p]
    have : n ≤ (genRun kind as : GenSt V).g.recs.length := by rw [hfin]; simp; omega
    omega
  · rw [h3, ← tablesAfter_prefix _ _ t n h2', ← hfin, hG.specs n (by rw [hfin]; simp; omega),
      genRun_p]

/-! ### each half of the discipline is needed (concrete negation witnesses) -/

/-- Executable test "the recovered tables are the tables after some allowed n", on a finite list
    of locations. -/
def allowedPrefixOn (locs : List Loc) (t0 : Tbl Loc Nat) (s : Dur.St Nat) (c : Choice) : Bool :=
  (List.range (s.recs.length + 1)).any (fun n =>
    decide (s.synced ≤ n) && locs.all (fun l => recoverImage s c l == tablesAfter t0 s.recs n l))

theorem allowedPrefixOn_of_exists (locs : List Loc) (t0 : Tbl Loc Nat) (s : Dur.St Nat) (c : Choice)
    (h : ∃ n, s.synced ≤ n ∧ n ≤ s.recs.length ∧ recoverImage s c = tablesAfter t0 s.recs n) :
    allowedPrefixOn locs t0 s c = true := by
  obtain ⟨n, h1, h2, h3⟩ := h
  unfold allowedPrefixOn
  rw [List.any_eq_true]
  refine ⟨n, by simp; omega, ?_⟩
  simp only [h1, decide_true, Bool.true_and, List.all_eq_true, h3]
  intro l _
  simp

private def l1 : Loc := { file := 0, page := 0, off := 8 }
private def l2 : Loc := { file := 0, page := 1, off := 16 }
private def ws12 : Rec Loc Nat := [(l1, some (11, 1)), (l2, some (22, 1))]
private def none0 : Tbl Loc Nat := fun _ => none
/-- page 0 of table file 0 reached the disk, page 1 did not; no unsynced log bytes survived -/
private def torn : Choice := { pick := fun _ p => p == 0, extra := fun _ => 0 }

/-- D1 violated: record 1 is stored into the table before its log file is synced. -/
private def jNoD1 : Journal Nat :=
  [.logAppend 1 0 ws12, .tableWrite 1 l1 (some (11, 1)), .tableWrite 1 l2 (some (22, 1)),
   .logSync 0, .enactEnd 1]

/-- D2 violated: the log file is truncated before the table file is synced. -/
private def jNoD2 : Journal Nat :=
  [.logAppend 1 0 ws12, .logSync 0, .tableWrite 1 l1 (some (11, 1)),
   .tableWrite 1 l2 (some (22, 1)), .enactEnd 1, .logTruncate 0, .tableSync 0]

/-- D3 violated: a newer log file is reclaimed before an older one. -/
private def jNoD3 : Journal Nat :=
  [.logAppend 1 0 [(l1, some (11, 1))], .logSync 0, .logAppend 2 1 [(l1, some (22, 1))], .logSync 1,
   .tableWrite 1 l1 (some (11, 1)), .enactEnd 1, .tableWrite 2 l1 (some (22, 1)), .enactEnd 2,
   .tableSync 0, .logTruncate 1, .logTruncate 0]

/-- Without D1 (table write before log sync) a power loss tears the state: after the two stores
    of `jNoD1` (3 events) the image with page 0 written and page 1 not recovers to tables that are
    neither the state before nor the state after record 1. -/
theorem C12_D1_needed :
    firstViolFrom (Dur.St.init none0) 0 jNoD1 = some (.D1, 1) ∧
    ¬ ∃ n, (stateOf none0 (jNoD1.take 3)).synced ≤ n ∧ n ≤ (stateOf none0 (jNoD1.take 3)).recs.length ∧
      recoverImage (stateOf none0 (jNoD1.take 3)) torn =
        tablesAfter none0 (stateOf none0 (jNoD1.take 3)).recs n := by
  refine ⟨by decide, fun h => ?_⟩
  have := allowedPrefixOn_of_exists [l1, l2] none0 _ torn h
  revert this
  decide

/-- Without D2 (truncate before table sync): after the truncation of `jNoD2` (6 events) the same
    torn image has lost record 1's log and holds half of its stores. -/
theorem C12_D2_needed :
    firstViolFrom (Dur.St.init none0) 0 jNoD2 = some (.D2, 5) ∧
    ¬ ∃ n, (stateOf none0 (jNoD2.take 6)).synced ≤ n ∧ n ≤ (stateOf none0 (jNoD2.take 6)).recs.length ∧
      recoverImage (stateOf none0 (jNoD2.take 6)) torn =
        tablesAfter none0 (stateOf none0 (jNoD2.take 6)).recs n := by
  refine ⟨by decide, fun h => ?_⟩
  have := allowedPrefixOn_of_exists [l1, l2] none0 _ torn h
  revert this
  decide

/-- Without the oldest-first clause of D3: after `jNoD3` reclaimed log file 1 (10 events) the
    logs hold record 1 only; replay puts its older value over the durable newer one, and the
    result is not a state containing both synced records. -/
theorem C12_D3_needed :
    firstViolFrom (Dur.St.init none0) 0 jNoD3 = some (.D3, 9) ∧
    ¬ ∃ n, (stateOf none0 (jNoD3.take 10)).synced ≤ n ∧ n ≤ (stateOf none0 (jNoD3.take 10)).recs.length ∧
      recoverImage (stateOf none0 (jNoD3.take 10)) torn =
        tablesAfter none0 (stateOf none0 (jNoD3.take 10)).recs n := by
  refine ⟨by decide, fun h => ?_⟩
  have := allowedPrefixOn_of_exists [l1, l2] none0 _ torn h
  revert this
  decide

/-! ### non-vacuity: a journal with two log files, a torn crash instant and a reuse -/
section Example
private def jOk : Journal Nat :=
  [.logAppend 1 0 ws12, .logSync 0, .logAppend 2 1 [(l1, some (33, 1))],
   .tableWrite 1 l1 (some (11, 1)), .tableWrite 1 l2 (some (22, 1)), .enactEnd 1,
   .tableSync 0, .logTruncate 0, .logSync 1, .tableWrite 2 l1 (some (33, 1)), .enactEnd 2,
   .logAppend 3 0 [(l2, none)]]

example : accepts jOk = true := by decide
example : SyncedAt jOk 1 := ⟨0, 1, 0, ws12, by decide, rfl, rfl⟩
-- crash after the first store of record 1 (4 events), page 0 on disk, unsynced record 2 lost:
-- replay of record 1 repairs the half-written state
example : syncedRecords (jOk.take 4) = 1 ∧ appendedRecords (jOk.take 4) = 2 ∧
    recoverImage (stateOf none0 (jOk.take 4)) torn l1 = some (11, 1) ∧
    recoverImage (stateOf none0 (jOk.take 4)) torn l2 = some (22, 1) := by decide
-- crash at the end: record 3 (unsynced, in the reused log file 0) may or may not survive
example : recoverImage (stateOf none0 jOk) torn l2 = some (22, 1) ∧
    recoverImage (stateOf none0 jOk) { torn with extra := fun _ => 1 } l2 = none := by decide

-- the generator on a P1 history with two commits: 2 appends, 2 syncs, 3 stores, 2 completions,
-- 2 msyncs, 2 truncates (A:1:1 S:1 A:2:2 W W E:1 S:2 M:0 T:1 W E:2 M:0 T:2)
private def kd : Loc → Kind := fun _ => .plain
private def acts : List (Action Loc Nat) :=
  [.commit [.set l1 10, .set l2 20], .process, .flush, .commit [.deref l2], .process, .enact,
   .flush, .clean, .enact, .clean]
example : pipelineOnly acts = true ∧ (journalOf kd acts).length = 13 ∧
    accepts (journalOf kd acts) = true ∧ appendedRecords (journalOf kd acts) = 2 := by decide
end Example

end Pdb

#print axioms Pdb.C12_discipline_suffices
#print axioms Pdb.C12_torn_page_harmless
#print axioms Pdb.C12_synced_means_synced
#print axioms Pdb.C12_D1_positional
#print axioms Pdb.C12_programs_satisfy_D
#print axioms Pdb.C12_pipeline_power_loss
#print axioms Pdb.C12_D1_needed
#print axioms Pdb.C12_D2_needed
#print axioms Pdb.C12_D3_needed
