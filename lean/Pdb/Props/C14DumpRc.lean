/-
C14 (multitree clause) / C10, tie T2: "node reference counts equal the number of referencing
parents", no dangling child, no leaked node, acyclic - evaluated IN LEAN on dumps of the node
forest of the real database (model file Pdb/Model/DumpCheckRc.lean, driver command `t2rc`, hook
`Db::verif_multitree_dump`), and the rank-generalised invariant `InvR` that makes the C10
theorems applicable to real (reused, unordered) addresses.

The harness (c10.rs after every drain / enact-to-quiescence / reopen, c02x.rs after every crash
recovery) sends the dump to the compiled driver, which answers `ok` iff `checkRc d = true`.

What `ok` means (all FULL strength, no `_partial`):

  C14DumpRc_sound        checkRc d → ForestInv d, stated on the dump lists themselves:
      (a) every child address of a live node or root entry is a live node
      (b) has_rc: for EVERY live node  count = #{(parent, position) references from live nodes}
          + #{(root entry, position) references},  count := table entry, else 1  (the crate
          stores the TOTAL count and only if ≥ 2: a node without entry has exactly one
          reference); entries are ≥ 2 and only for live nodes; cache = table
      (c) every dumped slot is reachable from a root entry or is one of the allowed orphans the
          harness predicted (finding F19; the list is empty in every c10 run); nothing refers to
          an allowed orphan; every live node has a referencing parent (ALL variants, so also on
          append-only columns, which have no counts: there sharing is allowed and uncounted,
          nothing is ever removed, and the guarantee is (a), (c), (d) + "no table, no entries")
      (d) acyclic: a rank function decreasing along every edge exists (computed by the checker
          by topological peeling; NOT the address order, which real dumps violate: `exPlain`)
      + root counts ≥ 1, and = 1 without `ref_counted`
  C14DumpRc_core_iff_model  (a), (b), (d) ⇔ InvR (variantOf d) (heapOf d): the model invariant
                         of C10 with acyclicity by rank, on the heap rebuilt from the dump
  C14DumpRc_model        checkRc d → InvR on `heapOf d`, present = dumped live node, every dumped
                         slot Reach-able in the model sense or allowed
  C14DumpRc_no_leak      no allowed orphans ⇒ no undecodable slot and every node slot reachable
  C14DumpRc_next_ops     the dumped heap is a legal starting state of the model operations:
                         DereferenceTree of any dumped root succeeds, keeps InvR and leaves exactly
                         the reachable nodes; InsertTree at any free addresses keeps InvR

RcInv by rank (namespace of the statements: K, D arbitrary):

  C10R_of_Inv            Inv v h → InvR v h      (the model's address order is one rank function;
                         every C10 preservation theorem therefore yields InvR: C10R_history)
  C10R_present_iff_reachable   InvR, counting variant → (present ↔ reachable from a root)
  C10R_reference / C10R_dereference / C10R_insert_reuse
                         the three operations preserve InvR when new nodes are stored at ANY
                         pairwise distinct free addresses (address reuse, any order)
  C10R_insert_counter    with the supply [n, n+1, ...] the address-reuse insertion stores exactly
                         what the model's `insertTreeAt` stores

Not claimed: node DATA (the dump carries addresses only; heapOf abstracts data to `()`; the
harness compares data through reads), completeness of the checker (a sound dump whose rank
computation failed would be rejected - never observed: the correspondence run expects `ok`).
-/
import Pdb.Proofs.DumpCheckRcForest
import Pdb.Proofs.DumpCheckRcOps
import Pdb.Props.C10

namespace Pdb.DumpCheckRc
open Pdb.MultiTree
set_option linter.unusedSectionVars false

/-! ## the checker on dumps -/

/-- Soundness of `t2rc`: an accepted dump satisfies C14's multitree clause (see `ForestInv` in
Pdb/Proofs/DumpCheckRcForest.lean and the header above). -/
theorem C14DumpRc_sound (d : RcDump) (h : checkRc d = true) : ForestInv d :=
  forestInv_of_ok d (checkRc_ok d h)

/-- The structural core (a), (b), (d) of the dump-level statement IS the rank-generalised model
invariant of the heap rebuilt from the dump. -/
theorem C14DumpRc_core_iff_model (d : RcDump) : ForestCore d ↔ InvR (variantOf d) (heapOf d) :=
  forestCore_iff_invR d

/-- An accepted dump in model terms. -/
theorem C14DumpRc_model (d : RcDump) (h : checkRc d = true) :
    InvR (variantOf d) (heapOf d) ∧
    (∀ a, present (heapOf d) a ↔ a ∈ liveAddrs d) ∧
    (∀ a ∈ slotsOf d, a ∈ d.allowed ∨ Reach (heapOf d) a) ∧
    (d.hasRc = true → ∀ a, present (heapOf d) a →
      (heapOf d).count a = nodeRefs (heapOf d) a + rootRefs (heapOf d) a) :=
  let ok := checkRc_ok d h
  ⟨ok.invR, present_iff_live d, ok.reach, fun hrc a ha => by
    have := (ok.counts hrc).rcEq a ha
    simpa [refs] using this⟩

/-- Without allowed orphans (every c10 run; c02x runs in which no slot was predicted to leak)
nothing is leaked: no undecodable slot, every dumped node slot is reachable from a root. -/
theorem C14DumpRc_no_leak (d : RcDump) (h : checkRc d = true) (ha : d.allowed = []) :
    d.bad = [] ∧ ∀ a ∈ d.nodes.map Prod.fst, ReachD d a := by
  have fi := C14DumpRc_sound d h
  constructor
  · cases hb : d.bad with
    | nil => rfl
    | cons x xs =>
      have := fi.bad x (by rw [hb]; simp)
      rw [ha] at this; cases this
  · intro a hm
    rcases fi.reach a (by simp only [slotsOf, List.mem_append]; exact Or.inl hm) with h1 | h1
    · rw [ha] at h1; cases h1
    · exact h1

/-- count = 1 exactly for the nodes without table entry, i.e. with ONE referencing
(parent, position): the "absent = exactly one parent" half of (b), spelled out. -/
theorem C14DumpRc_absent_is_one (d : RcDump) (h : checkRc d = true) (hrc : d.hasRc = true)
    (a : Nat) (ha : a ∈ liveAddrs d) :
    (alLookup a d.rc = none → nodeRefsD d a + rootRefsD d a = 1) ∧
    (∀ c, alLookup a d.rc = some c → nodeRefsD d a + rootRefsD d a = c ∧ 2 ≤ c) := by
  have fi := C14DumpRc_sound d h
  have hc := fi.core.counts hrc a ha
  constructor
  · intro hn
    simp only [countD, hn, Option.getD_none] at hc
    exact hc.symm
  · intro c hs
    simp only [countD, hs, Option.getD_some] at hc
    exact ⟨hc.symm, (fi.rcEntries (a, c) (mem_of_alLookup d.rc a c hs)).1⟩

/-! ## RcInv by rank -/

section Model
variable {K D : Type} [DecidableEq K]

/-- `RcInv → RcInvR`: the invariant of the C10 theorems implies the rank-generalised one. -/
theorem C10R_of_Inv (v : Variant) (h : Heap K D) (hi : Inv v h) : InvR v h := hi.toInvR

/-- ... hence every legal history of the model ends in a heap satisfying InvR. -/
theorem C10R_history (v : Variant) (ops : List (Op K D)) (hl : LegalRun v Heap.empty ops) :
    InvR v (runOps v (Heap.empty : Heap K D) ops) :=
  (C10_RcInv v ops hl).1.toInvR

/-- Presence = reachability needs no address order. -/
theorem C10R_present_iff_reachable (v : Variant) (h : Heap K D) (hi : InvR v h)
    (hv : v ≠ .appendOnly) (a : Nat) : present h a ↔ Reach h a :=
  present_iff_reachR v h hi hv a

/-- On EVERY variant (also append-only): acyclic by rank + every present node referenced at
least once ⇒ every present node reachable. -/
theorem C10R_reach_of_parents (rank : Nat → Nat) (h : Heap K D) (hs : ShapeR rank h)
    (hp : ∀ a, present h a → 0 < nodeRefs h a + rootRefs h a) (a : Nat) (ha : present h a) :
    Reach h a :=
  reach_of_presentR rank h hs hp a ha

theorem C10R_reference (v : Variant) (h h' : Heap K D) (k : K) (hi : InvR v h)
    (he : referenceTree v h k = .ok h') : InvR v h' :=
  referenceTree_invR v h h' k hi he

/-- DereferenceTree under InvR (addresses in any order): never fails nor runs out of fuel, keeps
InvR, changes the root entry as specified, only removes nodes, and leaves exactly the nodes
reachable from the remaining roots. -/
theorem C10R_dereference (v : Variant) (h : Heap K D) (k : K) (hv : v ≠ .appendOnly)
    (hi : InvR v h) (r : Node D) (c : Nat) (hk : h.roots.get k = some (r, c)) :
    ∃ h', dereferenceTree v h k = .ok h' ∧ InvR v h' ∧
      h'.roots = h.roots.set k (if v = .rcRoots ∧ c > 1 then some (r, c - 1) else none) ∧
      (∀ b n, h'.nodes.get b = some n → h.nodes.get b = some n) ∧
      (∀ a, present h' a ↔ Reach h' a) :=
  dereferenceTree_okR v h k hv hi r c hk

/-- InsertTree with the new nodes at ANY pairwise distinct free addresses (reused slots, in any
order relative to their children) keeps InvR, leaves every old node and every other root alone. -/
theorem C10R_insert_reuse (v : Variant) (h : Heap K D) (fresh : List Nat) (k : K) (t : NewNode D)
    (hi : InvR v h) (hl : t.children.live h) (hk : h.roots.get k = none) (hn : fresh.Nodup)
    (hf : ∀ b ∈ fresh, ¬ present h b) (hlen : t.children.newCount ≤ fresh.length) :
    InvR v (insertTreeA v h fresh k t) ∧
    (∀ b, present h b → (insertTreeA v h fresh k t).nodes.get b = h.nodes.get b) ∧
    (∀ k', k' ≠ k → (insertTreeA v h fresh k t).roots.get k' = h.roots.get k') :=
  ⟨insertTreeA_invR v h fresh k t hi hl hk hn hf hlen,
   insertTreeA_frame v h fresh k t hi hl hn hf hlen⟩

/-- The model's address counter is one admissible supply: `insertTreeA` then stores exactly what
`insertTreeAt` (the operation of the C10 theorems) stores. -/
theorem C10R_insert_counter (v : Variant) (h : Heap K D) (n0 m : Nat) (k : K) (t : NewNode D)
    (hm : t.children.newCount ≤ m) :
    (insertTreeA v h (List.range' n0 m) k t).nodes = (insertTreeAt v h n0 k t).nodes ∧
    (insertTreeA v h (List.range' n0 m) k t).rc = (insertTreeAt v h n0 k t).rc ∧
    (insertTreeA v h (List.range' n0 m) k t).roots = (insertTreeAt v h n0 k t).roots :=
  insertTreeA_range v h n0 m k t hm

end Model

/-- The heap of an accepted dump is a legal starting state of the model operations: on a counting
column DereferenceTree of any dumped root succeeds and leaves a heap satisfying InvR in which
exactly the reachable nodes are present; an InsertTree under a fresh key with existing children
among the dumped live nodes and new nodes at any free addresses keeps InvR. -/
theorem C14DumpRc_next_ops (d : RcDump) (h : checkRc d = true) :
    (d.hasRc = true → ∀ r ∈ d.roots,
      ∃ h', dereferenceTree (variantOf d) (heapOf d) r.1 = .ok h' ∧ InvR (variantOf d) h' ∧
        (∀ a, present h' a ↔ Reach h' a)) ∧
    (∀ (fresh : List Nat) (k : Nat) (t : NewNode Unit), t.children.live (heapOf d) →
      k ∉ d.roots.map (fun r => r.1) → fresh.Nodup → (∀ b ∈ fresh, b ∉ liveAddrs d) →
      t.children.newCount ≤ fresh.length →
      InvR (variantOf d) (insertTreeA (variantOf d) (heapOf d) fresh k t)) := by
  have ok := checkRc_ok d h
  have fc := (C14DumpRc_sound d h).core
  constructor
  · intro hrc r hr
    have hv := (variantOf_ne_appendOnly d).mpr hrc
    obtain ⟨h', e, hi', _, _, hreach⟩ := dereferenceTree_okR (variantOf d) (heapOf d) r.1 hv ok.invR
      ⟨(), r.2.2⟩ r.2.1 (get_of_root d fc.nodupR r hr)
    exact ⟨h', e, hi', hreach⟩
  · intro fresh k t hl hk hn hf hlen
    apply insertTreeA_invR (variantOf d) (heapOf d) fresh k t ok.invR hl ?_ hn ?_ hlen
    · cases hg : (heapOf d).roots.get k with
      | none => rfl
      | some e =>
        exfalso; apply hk
        have := root_of_get d k e hg
        exact List.mem_map.mpr ⟨_, this, rfl⟩
    · intro b hb hp
      exact hf b hb ((present_iff_live d b).mp hp)

/-! ## non-vacuity: dumps of the real crate (run of `pdbverif c10 --prop C10 --seed 1 --cases 200`)

The text lines are the op lines of the trace, the terms below what `parseDump` makes of them
(`#guard`: evaluated by the compiler, a changed parser fails the build). -/

/-- plain multitree column (case seed=191335194198649): 4 roots (one childless), 8 nodes, node 400
with three references (roots 383 and 460, node 453), nodes 512 and 461 with two.  Addresses are
NOT ordered parent > child: node 265 has the child 512, node 400 the children 461, 768, 472. -/
def exPlain : RcDump :=
  ⟨true, false,
    [(264, 1, [265]), (383, 1, [400]), (413, 1, []), (460, 1, [400, 453])],
    [(256, []), (512, []), (768, []), (265, [512]), (400, [256, 512, 461, 768, 472]),
      (453, [461, 400]), (461, []), (472, [])],
    [], [(512, 2), (400, 3), (461, 2)], [(400, 3), (461, 2), (512, 2)], []⟩

#guard parseDump ("1 0 R 264 1 265 R 383 1 400 R 413 1 R 460 1 400 453 N 256 N 512 N 768 N 265 512 N 400 256 512 461 768 472 N 453 461 400 N 461 N 472 C 512 2 400 3 461 2 M 400 3 461 2 512 2".splitOn " ") == some exPlain

/-- ref-counted roots (case seed=140343187951100): root 304 has count 2; node 327 lists four
children, three of them shared -/
def exRc : RcDump :=
  ⟨true, true,
    [(269, 1, []), (282, 1, [273]), (292, 1, [1024, 325, 406, 370]), (304, 2, [327])],
    [(256, []), (512, []), (1024, []), (273, [406]), (325, []), (327, [370, 325, 256, 512]),
      (370, []), (406, [])],
    [], [(370, 2), (325, 2), (406, 2)], [(325, 2), (370, 2), (406, 2)], []⟩

#guard parseDump ("1 1 R 269 1 R 282 1 273 R 292 1 1024 325 406 370 R 304 2 327 N 256 N 512 N 1024 N 273 406 N 325 N 327 370 325 256 512 N 370 N 406 C 370 2 325 2 406 2 M 325 2 370 2 406 2".splitOn " ") == some exRc

/-- append-only column (case seed=270735336556286): no table; node 309 is shared by the nodes 306
and 311 without any count -/
def exAppend : RcDump :=
  ⟨false, false,
    [(268, 1, [311]), (321, 1, [306])],
    [(256, []), (512, []), (306, [256, 309, 512]), (309, []), (311, [309])],
    [], [], [], []⟩

#guard parseDump ("0 0 R 268 1 311 R 321 1 306 N 256 N 512 N 306 256 309 512 N 309 N 311 309".splitOn " ") == some exAppend

example : checkRc exPlain = true := by decide +kernel
example : checkRc exRc = true := by decide +kernel
example : checkRc exAppend = true := by decide +kernel
example := C14DumpRc_sound exPlain (by decide +kernel)
example := C14DumpRc_model exRc (by decide +kernel)
example := C14DumpRc_no_leak exAppend (by decide +kernel) rfl
example := C14DumpRc_absent_is_one exPlain (by decide +kernel) rfl 400 (by decide +kernel)
example := C14DumpRc_next_ops exPlain (by decide +kernel)
-- the counts the theorem speaks about, on the real dump
example : countD exPlain 400 = 3 ∧ nodeRefsD exPlain 400 = 1 ∧ rootRefsD exPlain 400 = 2 ∧
    countD exPlain 472 = 1 ∧ nodeRefsD exPlain 472 + rootRefsD exPlain 472 = 1 := by decide +kernel
-- the rank witness the checker computed
example : rankOf exPlain 461 = 1 ∧ rankOf exPlain 400 = 2 ∧ rankOf exPlain 453 = 3 := by
  decide +kernel

/-- The address order of the model's `Shape` does NOT hold of real dumps (node 265 has the larger
child 512): `Inv` is not applicable to `heapOf exPlain`, `InvR` is. -/
theorem C14DumpRc_address_order_fails : ¬ Shape (heapOf exPlain) := by
  intro hs
  have := hs.acyclic 265 ⟨(), [512]⟩ rfl 512 (by simp)
  omega

/-! ### rejected variants of the real dumps -/

-- wrong count: node 400 recorded with 2 instead of 3 references (table and cache alike)
example : rcReason { exPlain with rc := [(512, 2), (400, 2), (461, 2)],
                                  cache := [(400, 2), (461, 2), (512, 2)] } = some "count" := by
  decide +kernel
-- a missing entry (absent = 1) for a node with two parents
example : rcReason { exPlain with rc := [(512, 2), (400, 3)], cache := [(400, 3), (512, 2)] } =
    some "count" := by decide +kernel
-- cache differs from the table
example : rcReason { exPlain with cache := [(400, 3), (461, 2)] } = some "cache" := by
  decide +kernel
-- dangling child: node slot 472 is gone but still listed by node 400
example : rcReason { exPlain with nodes := exPlain.nodes.filter (fun e => e.1 != 472) } =
    some "dangling" := by decide +kernel
-- an entry for an address that is no live node
example : rcReason { exRc with rc := exRc.rc ++ [(999, 2)], cache := exRc.cache ++ [(999, 2)] } =
    some "rc-entry" := by decide +kernel
-- leaked node: a live slot nobody refers to (append-only: "orphan"; counting: the count 1 ≠ 0)
example : rcReason { exAppend with nodes := exAppend.nodes ++ [(777, [])] } = some "orphan" := by
  decide +kernel
example : rcReason { exPlain with nodes := exPlain.nodes ++ [(777, [256])],
                                  rc := exPlain.rc ++ [(256, 2)],
                                  cache := exPlain.cache ++ [(256, 2)] } = some "count" := by
  decide +kernel
-- ... accepted exactly when the harness predicted that address as leaked (finding F19), and the
-- soundness theorem then says "reachable or allowed"
example : checkRc { exAppend with nodes := exAppend.nodes ++ [(777, [])], allowed := [777] } = true := by
  decide +kernel
example : checkRc { exAppend with bad := [778], allowed := [778] } = true ∧
    rcReason { exAppend with bad := [778] } = some "undecodable" := by decide +kernel
-- a cycle 306 -> 309 -> 306: every node still has a parent, but no rank exists
example : rcReason { exAppend with nodes := [(256, []), (512, []), (306, [256, 309, 512]),
    (309, [306]), (311, [309])] } = some "cycle" := by decide +kernel
-- root count 0 / a counted root on a column without ref_counted
example : rcReason { exPlain with roots := [(264, 2, [265]), (383, 1, [400]), (413, 1, []),
    (460, 1, [400, 453])] } = some "root-count" := by decide +kernel
-- table entries on an append-only column
example : rcReason { exAppend with rc := [(309, 2)], cache := [(309, 2)] } = some "no-rc-table" := by
  decide +kernel

/-! ### the operations on a dumped heap: address reuse -/

/-- insert under key 999 the tree  root -> [ new -> [@400, new], @461 ]  with the two new nodes
at the free addresses 1000 (child) and 5 (parent): the parent gets the SMALLER address -/
def exTree : NewNode Unit :=
  ⟨(), .cons (.new () (.cons (.existing 400) (.cons (.new () .nil) .nil)))
        (.cons (.existing 461) .nil)⟩

example : InvR .plain (insertTreeA .plain (heapOf exPlain) [1000, 5] 999 exTree) :=
  (C10R_insert_reuse .plain (heapOf exPlain) [1000, 5] 999 exTree
    (C14DumpRc_model exPlain (by decide +kernel)).1
    (by simp only [exTree, NRefs.live, NRef.live, present]; decide +kernel) (by decide +kernel)
    (by decide)
    (by
      intro b hb
      simp only [List.mem_cons, List.mem_nil_iff, or_false] at hb
      rcases hb with rfl | rfl <;> simp only [present] <;> decide +kernel)
    (by decide +kernel)).1
-- the stored result: node 5 = [400, 1000], counts of 400 and 461 raised
example : ((insertTreeA .plain (heapOf exPlain) [1000, 5] 999 exTree).nodes.get 5).map
      (·.children) = some [400, 1000] ∧
    (insertTreeA .plain (heapOf exPlain) [1000, 5] 999 exTree).count 400 = 4 ∧
    (insertTreeA .plain (heapOf exPlain) [1000, 5] 999 exTree).count 461 = 3 := by decide +kernel
-- dereferencing the dumped root 460 frees node 453 only: 400 (3 -> 2 by the root, -> 1 by the
-- freed node 453) and 461 (2 -> 1) stay, their table entries disappear
example : ((dereferenceTree .plain (heapOf exPlain) 460).toOption.map
    (fun h => (h.nodes.l.map Prod.fst, h.rc.l))) =
    some ([256, 512, 768, 265, 400, 461, 472], [(512, 2)]) := by decide +kernel

-- C10R_dereference on the dumped heap: hypotheses satisfiable, the result satisfies InvR
example := C10R_dereference .plain (heapOf exPlain) 460 (by decide)
  (C14DumpRc_model exPlain (by decide +kernel)).1 ⟨(), [400, 453]⟩ 1 rfl
-- C10R_reference on the dump of the ref-counted column: root 304 goes from count 2 to 3
example : InvR .rcRoots ({ heapOf exRc with
    roots := (heapOf exRc).roots.set 304 (some (⟨(), [327]⟩, 3)) } : Heap Nat Unit) :=
  C10R_reference .rcRoots (heapOf exRc) _ 304 (C14DumpRc_model exRc (by decide +kernel)).1 rfl
example := C10R_present_iff_reachable .plain (heapOf exPlain)
  (C14DumpRc_model exPlain (by decide +kernel)).1 (by decide) 472
example := C10R_reach_of_parents (rankOf exAppend) (heapOf exAppend)
  (checkRc_ok exAppend (by decide +kernel)).shape (checkRc_ok exAppend (by decide +kernel)).parent 309
  (by simp only [present]; decide +kernel)
-- the model side: the history of Props/C10.lean (sharing, counter addresses) satisfies InvR
example : InvR .plain exH2 :=
  C10R_history .plain [.insert 1 exT1, .insert 2 exT2] (by
    refine ⟨⟨rfl, ?_⟩, ⟨rfl, ?_⟩, trivial⟩
    · simp [exT1, NRefs.live, NRef.live]
    · simp only [exT2, NRefs.live, NRef.live, present]; decide)
example := C10R_of_Inv .plain (Heap.empty : Heap Nat Nat) (Inv.empty .plain)
-- the counter supply: inserting exT2 into exH1 at [3, 4, ...] = the model's insertTreeAt at 3
example := C10R_insert_counter .plain exH1 3 5 2 exT2 (by decide)
example : (insertTreeA .plain exH1 (List.range' 3 5) 2 exT2).nodes.l.map Prod.fst = exH2.nodes.l.map Prod.fst := by
  decide +kernel

end Pdb.DumpCheckRc

#print axioms Pdb.DumpCheckRc.C14DumpRc_sound
#print axioms Pdb.DumpCheckRc.C14DumpRc_core_iff_model
#print axioms Pdb.DumpCheckRc.C14DumpRc_model
#print axioms Pdb.DumpCheckRc.C14DumpRc_no_leak
#print axioms Pdb.DumpCheckRc.C14DumpRc_absent_is_one
#print axioms Pdb.DumpCheckRc.C10R_of_Inv
#print axioms Pdb.DumpCheckRc.C10R_history
#print axioms Pdb.DumpCheckRc.C10R_present_iff_reachable
#print axioms Pdb.DumpCheckRc.C10R_reach_of_parents
#print axioms Pdb.DumpCheckRc.C10R_reference
#print axioms Pdb.DumpCheckRc.C10R_dereference
#print axioms Pdb.DumpCheckRc.C10R_insert_reuse
#print axioms Pdb.DumpCheckRc.C10R_insert_counter
#print axioms Pdb.DumpCheckRc.C14DumpRc_next_ops
#print axioms Pdb.DumpCheckRc.C14DumpRc_address_order_fails
