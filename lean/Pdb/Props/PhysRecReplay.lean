/-
R7_codec and the composition C02_phys_replay_prefix: the byte-level replay of Pdb/Model/Wal.lean
(`Wal.replayOpen`, C13 / C02RealWal) run on the ENCODED PHYSICAL RECORDS of a history of transactions
on the physical column, over a crash state with a torn enactment, recovers a column that READS
(`pGet`) as `Pdb.spec` of the transactions up to the last accepted record - a prefix of the
committed transactions.

Chain:  bytes --C13_parse_encode / C02_real_is_wal_replay_actions--> fold of `stepAction` over the
actions of the accepted records --R7_codec (`ofAction ∘ toAction`)--> `applyWrites` of the physical
records --R7_redo_history--> memory of the record boundary `pm` --`pGet_congr`--> reads of `pm`
--R3_composed_full--> `Pdb.spec`.
-/
import Pdb.Props.PhysRec
import Pdb.Proofs.PhysRecRead
import Pdb.Proofs.PhysRecCodec
import Pdb.Props.Refine
import Pdb.Props.C02RealWal

namespace Pdb.PhysRec
open Pdb.Gen Pdb.Index Pdb.ValueTable Pdb.Refine

/-! ## R7_codec -/

theorem flatMap_ofAction (col : Nat) (hcol : col < 256) (ws : List Write)
    (h : ∀ w ∈ ws, Write.Enc w) : (ws.map (toAction col)).flatMap ofAction = ws := by
  induction ws with
  | nil => rfl
  | cons w ws ih =>
    simp only [List.map_cons, List.flatMap_cons,
      ofAction_toAction col hcol w (h w List.mem_cons_self),
      ih (fun x hx => h x (List.mem_cons_of_mem _ hx))]
    rfl

/-- R7_codec.  The writes of a physical record, encoded with the record format of the WAL model
(`Wal.encodeRecord` of `toRecord`: `BEGIN id`, one INSERT_INDEX / INSERT_VALUE action per write,
`END`, CRC) and parsed back by the WAL model's parser / validator (`Wal.parseRecord`: validation
pass + apply pass), are the same writes, in the same order; nothing of the following bytes is
consumed.  `WellFormed` is the validators' own acceptance condition (table ids that exist in `cfg`,
payload lengths consistent with their size fields); `Write.Enc`: bytes are bytes, numbers fit
their fields. -/
theorem R7_codec (crc : Wal.Bytes → Nat) (cfg : Wal.Cfg) (lastEnacted col id : Nat) (hcol : col < 256)
    (ws : List Write) (rest : Wal.Bytes) (hs : cfg.Sane) (henc : ∀ w ∈ ws, Write.Enc w)
    (hwf : Wal.WellFormed cfg (toRecord col id ws)) (hid : id = lastEnacted + 1) :
    Wal.parseRecord crc cfg lastEnacted (Wal.encodeRecord crc (toRecord col id ws) ++ rest) =
      .ok (toRecord col id ws) (Wal.recEffects cfg (toRecord col id ws)) rest
        (Wal.cfgAfter cfg (toRecord col id ws)) ∧
    (toRecord col id ws).actions.flatMap ofAction = ws ∧
    ∀ p : PCol, (toRecord col id ws).actions.foldl stepAction p = applyWrites p ws :=
  ⟨Wal.C13_parse_encode crc cfg lastEnacted _ rest hs hwf hid, flatMap_ofAction col hcol ws henc,
    foldl_stepAction col hcol ws henc⟩

/-! ## composition -/

theorem nodup_shape_of_order (p : PCol)
    (h : List.Pairwise (· < ·) ((p.older ++ [p.current]).map (·.bits))) : (shape p).Nodup := by
  have h1 : ((p.older ++ [p.current]).map (·.bits)).Nodup :=
    List.Pairwise.imp (fun hlt => Nat.ne_of_lt hlt) h
  have hp : ((p.older ++ [p.current]).map (·.bits)).Perm (shape p) := by
    simp only [shape, PCol.tables, List.map_append, List.map_cons, List.map_nil]
    exact List.perm_append_comm
  exact hp.nodup_iff.1 h1

/-- C02_phys_replay_prefix.  A plain hash column starts empty; the transactions `txs` (sets and
removals, no index growth) are planned one after the other (`Hist`: `pRun`), their physical records
are `pre ++ mid ++ r :: post`.  The crate enacted `pre ++ mid` completely and the first `j` location
writes of `r`, then lost power.  The log files `files` hold encoded records (each stable and well
formed for the validators, C13) of which `Db::open` accepts - by the id / file-order logic of
`realAccepted`, C02 - records whose actions are those of `mid ++ r :: post` (a replay that starts at
or before the torn record and runs to the last record that is intact).  Then the column that the
byte-level replay `Wal.replayOpenWith` leaves, with `Column::enact_plan` (`stepAction`) as write
function, answers every read of a key of the universe as `Pdb.spec` of `txs`: of the committed
transactions up to the last accepted record, a PREFIX of all committed transactions (those after
it have no intact record and do not occur here). -/
theorem C02_phys_replay_prefix
    (cmp : Bytes → Bytes) (decomp : Bytes → Option Bytes) (thr : Nat) (U : Key → Prop)
    (icfg : Index.Cfg) (b0 : Nat) (txs : List Tx) (pre mid post : List (List Write)) (r : List Write)
    (pm : PCol)
    (hA : ∀ v, decomp (cmp v) = some v)
    (hyp : PRunHypFull cmp thr U icfg b0 txs.flatten)
    (hist : Hist cmp thr (PCol.init icfg b0) txs (pre ++ mid ++ r :: post) pm)
    (henc : ∀ w ∈ (mid ++ r :: post).flatten, Write.Enc w)
    (crc : Wal.Bytes → Nat) (wcfg : Wal.Cfg) (hs : wcfg.Sane) (col : Nat) (hcol : col < 256)
    (files : List (List Wal.Record)) (hne : ∀ f ∈ files, f ≠ [])
    (hwf : ∀ f ∈ files, ∀ r ∈ f, Wal.StableWF wcfg r)
    (hacc : (realAccepted (files.map Wal.toLFile)).map (·.actions) =
      (mid ++ r :: post).map (fun ws => ws.map (toAction col)))
    (j : Nat) (ops : List (List (Op Key Bytes)))
    (hops : txs.flatten.flatMap PAction.ops = ops.flatten) (k : Key) (hk : U k) :
    (pGet decomp
      (Wal.replayOpenWith (fun T e => stepAction T e.action) crc wcfg
        (applyWrites (applyWrites (PCol.init icfg b0) (pre ++ mid).flatten) (r.take j))
        (files.map (Wal.encodeRecords crc))) k).map (fun v => (v, 1)) =
      spec (fun _ => Kind.plain) ops k := by
  -- 1. bytes -> actions -> writes
  have h1 : Wal.replayOpenWith (fun T e => stepAction T e.action) crc wcfg
      (applyWrites (applyWrites (PCol.init icfg b0) (pre ++ mid).flatten) (r.take j))
      (files.map (Wal.encodeRecords crc)) =
      applyWrites (applyWrites (applyWrites (PCol.init icfg b0) (pre ++ mid).flatten) (r.take j))
        (mid ++ r :: post).flatten := by
    unfold Wal.replayOpenWith
    rw [C02_real_is_wal_replay_actions crc wcfg hs files hne hwf PCol stepAction]
    have : (realAccepted (files.map Wal.toLFile)).flatMap (·.actions) =
        (mid ++ r :: post).flatMap (fun ws => ws.map (toAction col)) := by
      rw [List.flatMap_def, hacc, ← List.flatMap_def]
    rw [this]
    exact foldl_stepAction_records col hcol _ henc _
  rw [h1]
  -- 2. the replayed column and the record boundary
  have okAll := hist.flatten_ok
  have e1 : (pre ++ mid ++ r :: post).flatten =
      (pre ++ mid).flatten ++ (r ++ post.flatten) := by simp [List.append_assoc]
  have e2 : (pre ++ mid ++ r :: post).flatten =
      pre.flatten ++ (mid ++ r :: post).flatten := by simp [List.append_assoc]
  have okA : ∀ w ∈ (pre ++ mid).flatten, Write.Ok (shape (PCol.init icfg b0)) w :=
    fun w hw => okAll w (by rw [e1]; exact List.mem_append_left _ hw)
  have okT : ∀ w ∈ r.take j, Write.Ok (shape (PCol.init icfg b0)) w :=
    fun w hw => okAll w (by
      rw [e1]; exact List.mem_append_right _ (List.mem_append_left _ (List.mem_of_mem_take hw)))
  have okR : ∀ w ∈ (mid ++ r :: post).flatten, Write.Ok (shape (PCol.init icfg b0)) w :=
    fun w hw => okAll w (by rw [e2]; exact List.mem_append_right _ hw)
  obtain ⟨_, s1⟩ := mem_applyWrites _ (PCol.init icfg b0) okA
  obtain ⟨_, s2⟩ := mem_applyWrites (r.take j) _ (by rw [s1.shape]; exact okT)
  obtain ⟨_, s3⟩ := mem_applyWrites (mid ++ r :: post).flatten
    (applyWrites (applyWrites (PCol.init icfg b0) (pre ++ mid).flatten) (r.take j))
    (by rw [s2.shape, s1.shape]; exact okR)
  have st := (s1.trans s2).trans s3
  have hmem := fun l hl => R7_redo_history cmp thr _ pm txs pre mid post r hist j l hl
  -- 3. invariants of the record boundary (R3)
  obtain ⟨s', m, hsim, hgood, hcfg, _⟩ := reach_sim hyp pm hist.run
  have hcur : pm.current = s'.current := hsim.current
  have hold : pm.older = s'.older := hsim.older
  have hnd : (shape pm).Nodup := by
    apply nodup_shape_of_order
    rw [hcur, hold]; exact hgood.idx.order
  have hlp : PagesLen pm := by
    intro t ht c
    have : t ∈ s'.tables := by
      simp only [PCol.tables, hcur, hold] at ht
      exact ht
    exact ((hgood.idx.wf t this).pages c).1
  have hlq := pagesLen_applyWrites _ (pagesLen_applyWrites _ (pagesLen_applyWrites _
    (pagesLen_init icfg b0) okA) (by rw [s1.shape]; exact okT))
    (by rw [s2.shape, s1.shape]; exact okR)
  -- 4. reads
  rw [pGet_congr decomp _ pm (st.shape.trans hist.shape.symm) hnd hmem
    (by rw [st.cfg, hsim.cfg, hcfg]; rfl)
    (fun tier => by
      obtain ⟨a1, a2, a3⟩ := st.vtcfg tier
      obtain ⟨b1, b2, b3⟩ := hist.static tier
      exact ⟨a1.trans b1.symm, a2.trans b2.symm, a3.trans b3.symm⟩)
    hlq hlp k]
  exact R3_composed_full cmp decomp thr U icfg b0 txs.flatten pm ops k hA hyp.univ hyp.exact
    hyp.grow hyp.bits hyp.keys hyp.bounded hist.run hops hk


/-! ## non-vacuity: a concrete crash and replay -/

section Example

/-- Boolean form of `Write.Enc` -/
def encB (w : Write) : Bool :=
  match w.1, w.2 with
  | .idx b _ i, [e] => decide (b < 256) && decide (i < 64) && decide (e < 2 ^ 64)
  | .val tier s, bs => decide (tier < 256) && decide (s ≠ 0) && bs.all (fun x => decide (x < 256))
  | .hdr tier, [lr, f] => decide (tier < 256) && decide (lr < 2 ^ 64) && decide (f < 2 ^ 64)
  | _, _ => false

theorem encB_sound (w : Write) (h : encB w = true) : Write.Enc w := by
  obtain ⟨wl, wi⟩ := w
  cases wl with
  | idx b c i =>
    match wi, h with
    | [e], h =>
      simp only [encB, Bool.and_eq_true, decide_eq_true_eq] at h
      exact ⟨h.1.1, h.1.2, e, rfl, h.2⟩
  | val tier s =>
    simp only [encB, Bool.and_eq_true, decide_eq_true_eq, List.all_eq_true] at h
    exact ⟨h.1.1, h.1.2, fun x hx => h.2 x hx⟩
  | hdr tier =>
    match wi, h with
    | [lr, f], h =>
      simp only [encB, Bool.and_eq_true, decide_eq_true_eq] at h
      exact ⟨h.1.1, lr, f, rfl, h.1.2, h.2⟩

/-- the two physical records of the history `[exTx1, exTx2]` of Props/PhysRec.lean -/
def exRecA : List Write := planWrites exCmp 0 exP0 exTx1
def exRecB : List Write := planWrites exCmp 0 exP1 exTx2

/-- one log file holding both records, ids 1 and 2, column 0 -/
def exFiles : List (List Wal.Record) := [[toRecord 0 1 exRecA, toRecord 0 2 exRecB]]

theorem exHyp : PRunHypFull exCmp 0 Index.exU ⟨true, true, true⟩ 16 [exTx1, exTx2].flatten := by
  have hb : (pRunChecked exCmp 0 (PCol.init ⟨true, true, true⟩ 16) [exTx1, exTx2].flatten).isSome = true := by
    decide +kernel
  refine ⟨exPUniv, rfl, rfl, ⟨by decide, by decide⟩, ?_,
    (pRunChecked_sound _ _ _ _ _ (getD_of_isSome _ (PCol.init ⟨true, true, true⟩ 16) hb)).2⟩
  intro a ha
  simp only [exTx1, exTx2, List.flatten_cons, List.flatten_nil, List.append_nil, List.cons_append,
    List.nil_append, List.mem_cons, List.mem_nil_iff, or_false] at ha
  rcases ha with h | h | h | h | h <;> subst h
  · exact Or.inl rfl
  · exact Or.inr (Or.inl rfl)
  · exact Or.inl rfl
  · exact Or.inr (Or.inr rfl)
  · exact Or.inr (Or.inl rfl)

theorem exEnc : ∀ w ∈ ([exRecA] ++ exRecB :: []).flatten, Write.Enc w := by
  have : (([exRecA] ++ exRecB :: []).flatten).all encB = true := by decide +kernel
  intro w hw
  exact encB_sound w (List.all_eq_true.1 this w hw)

theorem exStable : ∀ f ∈ exFiles, ∀ r ∈ f, Wal.StableWF Wal.exCfg r := by
  have h1 : Wal.StableWF Wal.exCfg (toRecord 0 1 exRecA) := ⟨by decide +kernel, by decide +kernel⟩
  have h2 : Wal.StableWF Wal.exCfg (toRecord 0 2 exRecB) := ⟨by decide +kernel, by decide +kernel⟩
  intro f hf r hr
  simp only [exFiles, List.mem_cons, List.mem_nil_iff, or_false] at hf
  subst hf
  simp only [List.mem_cons, List.mem_nil_iff, or_false] at hr
  rcases hr with h | h <;> subst h <;> assumption

theorem exAcc : (realAccepted (exFiles.map Wal.toLFile)).map (·.actions) =
    ([exRecA] ++ exRecB :: []).map (fun ws => ws.map (toAction 0)) := by decide +kernel

/-- Record A enacted, record B torn after 5 of its 8 location writes, power loss; `Db::open`
replays the log file from record A: the recovered column reads key `exK1` (removed by the second
transaction) as `Pdb.spec` of both transactions says. -/
example := C02_phys_replay_prefix exCmp some 0 Index.exU ⟨true, true, true⟩ 16 [exTx1, exTx2]
  [] [exRecA] [] exRecB exP2 (fun _ => rfl) exHyp exHist exEnc Wal.crcSum Wal.exCfg (by decide) 0
  (by decide) exFiles (by decide) exStable exAcc 5
  [[.set Index.exK1 [1, 2, 3], .set Index.exK2 (List.replicate 40 7)],
   [.deref Index.exK1, .set Index.exK3 (List.replicate 300 9), .set Index.exK2 [5]]]
  rfl Index.exK1 (Or.inl rfl)

example : spec (fun _ => Kind.plain)
    [[.set Index.exK1 [1, 2, 3], .set Index.exK2 (List.replicate 40 7)],
     [.deref Index.exK1, .set Index.exK3 (List.replicate 300 9), .set Index.exK2 [5]]] Index.exK2 =
    some ([5], 1) := by decide +kernel

end Example

end Pdb.PhysRec

#print axioms Pdb.PhysRec.R7_codec
#print axioms Pdb.PhysRec.C02_phys_replay_prefix
