/-
C02 / C13 link: the id logic of the real-recovery function of Props/C02Real.lean is the byte-level
replay of Model/Wal.lean on encoded well-formed records (moved here from Props/C02Real.lean).
-/
import Pdb.Proofs.RecoverInv
import Pdb.Proofs.RecoverWal
import Pdb.Props.C13

namespace Pdb

/-! ### (iii) the id logic is the WAL replay of C13 -/

open Wal in
/-- For any list of non-empty record lists (ids arbitrary), every record well formed in `cfg`
    and leaving `cfg` unchanged: the records `Wal.replayOpen` applies to the ENCODED files are
    exactly `realAccepted` of the abstract files, the start id is `startId` of the same replay
    queue, and the tables are the fold of the accepted records' actions.  (Uses
    `C13_parse_encode`; what remains unproved - torn tails, configuration-changing records,
    the map from logical to physical records - is listed in Proofs/RecoverWal.lean.) -/
theorem C02_real_is_wal_replay (crc : Wal.Bytes → Nat) (cfg : Wal.Cfg) (files : List (List Wal.Record))
    (hne : ∀ f ∈ files, f ≠ []) (hwf : ∀ f ∈ files, ∀ r ∈ f, Wal.StableWF cfg r) :
    (Wal.replayOpen crc cfg (files.map (Wal.encodeRecords crc))).applied =
      realAccepted (files.map Wal.toLFile) ∧
    Wal.initialLastEnacted (files.map (Wal.encodeRecords crc)) =
      startId (replayOrder LFile.firstId (files.map Wal.toLFile)) ∧
    ∀ (σ : Type) (step : σ → Wal.Action → σ) (T : σ),
      (Wal.replaySortedWith step crc
        ⟨cfg, Wal.initialLastEnacted (files.map (Wal.encodeRecords crc)), T⟩
        (Wal.orderFiles (files.map (Wal.encodeRecords crc)))).1.tables =
      ((realAccepted (files.map Wal.toLFile)).flatMap (·.actions)).foldl step T :=
  Wal.replayOpen_eq_realAccepted crc cfg files hne hwf

section Example
open Wal in
example : StableWF exCfg exR1 ∧ StableWF exCfg exR2 ∧ StableWF exCfg exR3 := by
  refine ⟨⟨by decide +kernel, by decide +kernel⟩, ⟨by decide +kernel, by decide +kernel⟩,
    ⟨by decide +kernel, by decide +kernel⟩⟩
open Wal in
example : realAccepted ([[exR3], [exR1, exR2]].map toLFile) = [exR1, exR2, exR3] ∧
    realAccepted ([[exR3], [exR1]].map toLFile) = [exR1] ∧
    (replayOpen crcSum exCfg ([[exR3], [exR1, exR2]].map (encodeRecords crcSum))).applied =
      [exR1, exR2, exR3] := by
  refine ⟨by decide +kernel, by decide +kernel, by decide +kernel⟩
end Example

end Pdb

#print axioms Pdb.C02_real_is_wal_replay
