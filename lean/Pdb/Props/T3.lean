/-
T3  Journals of real multi-threaded runs are traces of the concurrency LTS of C05.

`T3.accepts kind n j` (Pdb/Model/Journal.lean) is the executable acceptor that the check runs
(driver command `t3`) on event journals recorded by harness/src/t3.rs from runs of the crate with
its four background workers, several committing clients and several readers.

  * T3_sound: an accepted journal IS a trace of the LTS `CRd.cstep` of Model/ConcRead.lean (the
    LTS of all `C05_*` theorems): there is a schedule `as` in which EVERY action is enabled at
    its turn (`AllEnabled`, nothing is a no-op), whose pipeline actions (commit | pop | publish |
    cleanOverlay | flush | endRead) are exactly the journal's pipeline events in journal order,
    whose history is the list of the journal's transactions, and in whose final state every read
    of the journal occurs as a completed LTS read of the same reader and key, WITH THE VALUE THE
    REAL RUN OBSERVED, its snapshot taken inside the window [commits before its start event,
    commits before its end event].  Hence every `C05_*` theorem applies to the observed run.
  * T3_linearizable (C05 on the observed run): every read of an accepted journal returned the
    sequential specification value of its key after the first q transactions of the journal, for
    some q inside its window.
  * T3_never_back_in_time: for two reads of an accepted journal, the first ended before the
    second began (in particular two reads of one reader), the snapshots can be chosen in order.
-/
import Pdb.Proofs.T3
import Pdb.Props.C05
import Pdb.Proofs.T3Pipe
import Pdb.Props.C15

namespace Pdb
open CRd CRdDriver T3

variable {K V : Type} [DecidableEq K] [DecidableEq V]

/-- Soundness of the acceptor. -/
theorem T3_sound (kind : K → Kind) (n : Nat) (j : List (Ev K V))
    (h : accepts kind n j = true) :
    ∃ as : List (CAct K V),
      AllEnabled kind n CSt.init as ∧
      pipeProj as = j.filterMap evAct ∧
      (crun kind n CSt.init as).hist = journalCommits j ∧
      ∀ r ∈ journalReads j, ∃ e ∈ (crun kind n CSt.init as).reads,
        e.tid = r.tid ∧ e.key = r.key ∧ e.result = r.obs ∧ r.lo ≤ e.startSeq ∧ e.endSeq ≤ r.hi := by
  simp only [accepts, check, Bool.and_eq_true, decide_eq_true_eq, Option.isNone_iff_eq_none,
    List.all_eq_true, List.contains_iff_mem] at h
  obtain ⟨_, ⟨⟨⟨⟨hen, hproj⟩, hhist⟩, hreads⟩, hcover⟩⟩ := h
  refine ⟨(elaborate kind n j).sched, allEnabled_of_firstDisabled _ _ _ _ hen, hproj, ?_, ?_⟩
  · rw [← crunX_eq]; exact hhist
  · intro r hr
    obtain ⟨e, he, hp⟩ := all2_mem readOk _ _ hreads r (hcover r hr)
    rw [← crunX_eq]
    simp only [readOk, Bool.and_eq_true, decide_eq_true_eq] at hp
    exact ⟨e, he, hp.1.1.1.1, hp.1.1.1.2, hp.1.1.2, hp.1.2, hp.2⟩

/-- C05 on the observed run: every read of an accepted journal is linearizable inside its
    window. -/
theorem T3_linearizable (kind : K → Kind) (n : Nat) (j : List (Ev K V))
    (h : accepts kind n j = true) (r : JRead K V) (hr : r ∈ journalReads j)
    (hk : kind r.key = .plain) :
    ∃ q, r.lo ≤ q ∧ q ≤ r.hi ∧
      r.obs = (spec kind ((journalCommits j).take q) r.key).map Prod.fst := by
  obtain ⟨as, _, _, hhist, hreads⟩ := T3_sound kind n j h
  obtain ⟨e, he, _, hkey, hres, hlo, hhi⟩ := hreads r hr
  have hl := C05_read_linearizable kind n as e he (by rw [hkey]; exact hk)
  refine ⟨e.startSeq, hlo, by have := hl.2.1; omega, ?_⟩
  rw [← hres, hl.2.2.2, hhist, hkey]

/-- Reads never go back in time: if one read ended before another one began (two reads of one
    reader, or of different readers), their snapshots can be chosen in that order. -/
theorem T3_never_back_in_time (kind : K → Kind) (n : Nat) (j : List (Ev K V))
    (h : accepts kind n j = true) (r1 r2 : JRead K V) (h1 : r1 ∈ journalReads j)
    (h2 : r2 ∈ journalReads j) (hk1 : kind r1.key = .plain) (hk2 : kind r2.key = .plain)
    (hord : r1.hi ≤ r2.lo) :
    ∃ q1 q2, q1 ≤ q2 ∧
      r1.obs = (spec kind ((journalCommits j).take q1) r1.key).map Prod.fst ∧
      r2.obs = (spec kind ((journalCommits j).take q2) r2.key).map Prod.fst := by
  obtain ⟨q1, _, hq1, e1⟩ := T3_linearizable kind n j h r1 h1 hk1
  obtain ⟨q2, hq2, _, e2⟩ := T3_linearizable kind n j h r2 h2 hk2
  exact ⟨q1, q2, by omega, e1, e2⟩

/-! ### non-vacuity -/
section Example
private def kd : Nat → Kind := fun _ => .plain

/-- Two clients, two readers, the workers in between: commit 2 is accepted while commit 1 is in
    flight and while reader 0 is inside its read of key 1; reader 0 returns the OLD value 10 (its
    snapshot lies before commit 2, inside its window), reader 1 reads key 2 across clean / flush
    / enact, reader 0 then reads key 1 across endread / pop / publish of the commit writing it. -/
private def jGood : List (Ev Nat Nat) :=
  [.commit 1 [.set 1 10, .set 2 20], .rs 0 1, .pop 1, .publish 1 1, .commit 2 [.set 1 11],
   .rs 1 2, .clean 1, .re 0 1 (some 10), .flush, .enact 1, .re 1 2 (some 20), .rs 0 1,
   .endread 1, .pop 2, .publish 2 2, .re 0 1 (some 11), .clean 2, .cleanlogs, .flush, .enact 2,
   .endread 2, .rs 1 1, .re 1 1 (some 11)]

example : accepts kd 2 jGood = true := by decide

example : journalReads jGood =
    [⟨0, 1, some 10, 1, 2⟩, ⟨1, 2, some 20, 2, 2⟩, ⟨0, 1, some 11, 2, 2⟩, ⟨1, 1, some 11, 2, 2⟩] := by
  decide

/-- The same run, but the last read goes BACK IN TIME: it returns 10 after both commits were
    accepted (and after 11 had been observed): rejected at that event. -/
private def jBad : List (Ev Nat Nat) :=
  jGood.take 22 ++ [.re 1 1 (some 10)]

example : accepts kd 2 jBad = false := by decide
example : ((elaborate kd 2 (jGood.take 22)).bad.isNone = true) ∧
    (elaborate kd 2 jBad).bad.isSome = true := by decide

/-- ... and rightly so: no snapshot inside its window explains the value -/
example : ¬ ∃ q, 2 ≤ q ∧ q ≤ 2 ∧
    (some 10 : Option Nat) = (spec kd ((journalCommits jBad).take q) 1).map Prod.fst := by
  rintro ⟨q, h1, h2, h⟩
  have : q = 2 := by omega
  subst this
  revert h
  decide

/-- Pipeline order is enforced too: `clean` before the record is published is not a transition. -/
example : accepts kd 1 ([.commit 1 [.set 1 10], .pop 1, .clean 1] : List (Ev Nat Nat)) = false := by
  decide
/-- `endread` of a record that was never flushed / enacted is not a transition. -/
example : accepts kd 1 ([.commit 1 [.set 1 10], .pop 1, .publish 1 1, .endread 1] : List (Ev Nat Nat))
    = false := by decide
end Example

end Pdb

/-! ### the same journals on the worker LTS of C15 -/
namespace Pdb
open Conc.Pipe T3P

/-- Soundness of the worker-LTS acceptor: an accepted journal is the visible part of a panic-free
    run of `Conc.Pipe` (the LTS of the `C15_*` theorems) from its initial state: the strict part
    of the journal (everything up to the drop of the handle: commits with their byte counts, pops
    in queue order with the same byte counts, publishes, flushes, enacted records) is a prefix of
    the visible steps of the schedule, every wait the LTS makes in between was followed by its
    wake-up (the schedule RUNS: no worker was parked when the real one acted), and the run ends
    with the handle dropped, all threads finished, no background error, as many accepted
    commits and written records as the journal has `commit` / `publish` events, and no condvar
    with a parked waiter. -/
theorem T3_pipe_sound (cfg : Conc.Pipe.Cfg) (j : List Vis) (h : acceptsP cfg j = true) :
    ∃ (sched : List Conc.Pipe.Act) (s : Conc.Pipe.St), (∀ a ∈ sched, a.isPanic = false) ∧
      Conc.Pipe.run cfg (Conc.Pipe.init cfg 1 0) sched = some s ∧
      strictPart j <+: visRun cfg (Conc.Pipe.init cfg 1 0) sched ∧
      Conc.Pipe.Reachable cfg 1 0 s ∧
      s.pd = .done ∧ s.bgErr = false ∧ s.accepted = countCommits j ∧
      s.nLogged = countPublish j + 1 ∧ waitingCount s = 0 := by
  simp only [acceptsP, checkP, Bool.and_eq_true] at h
  obtain ⟨_, ⟨hnp, hpre⟩, hrun⟩ := h
  split at hrun
  · rename_i s hs
    have hnp' : ∀ a ∈ (elaborateP cfg j).sched.reverse, a.isPanic = false := by
      intro a ha
      have := List.all_eq_true.1 hnp a ha
      simpa using this
    simp only [finalOk, Bool.and_eq_true, decide_eq_true_eq, Bool.not_eq_true'] at hrun
    exact ⟨_, s, hnp', hs, (T3P.isPrefix_iff _ _).1 hpre, ⟨_, hnp', hs⟩, hrun.1.1.1.1, hrun.1.1.1.2,
      hrun.1.1.2, hrun.1.2, hrun.2⟩
  · cases hrun

/-- ... hence, for the configurations of the current source tree (`C15_gen_fixed`), what C15
    proves of every dropped handle holds of the observed run: nothing is left in the queue or in
    the appending file, no log file is half read, every accepted commit was written, every
    record written is enacted or sits in a complete flushed file. -/
theorem T3_pipe_drop_persists (cfg : Conc.Pipe.Cfg) (hF : Fixed cfg) (j : List Vis)
    (h : acceptsP cfg j = true) :
    ∃ s : Conc.Pipe.St, Conc.Pipe.Reachable cfg 1 0 s ∧ s.accepted = countCommits j ∧ s.nLogged = countPublish j + 1 ∧
      s.dirty = 0 ∧ s.q = [] ∧ s.app = [] ∧ s.reading = none ∧ s.killLost = 0 ∧
      s.accepted + s.nBatches + 1 = s.nLogged ∧ s.nLogged = s.nEnacted + lenSum s.readQ := by
  obtain ⟨_, s, _, _, _, hr, hd, hb, ha, hl, _⟩ := T3_pipe_sound cfg j h
  exact ⟨s, hr, ha, hl, C15_drop_persists_all cfg hF 1 0 s hr hd hb⟩

section ExampleP
private def cfgAF : Cfg := cfgOfGen 0 false true
/-- three commits overlapping the workers, the third processed by the drain of the drop -/
private def jP : List Vis :=
  [.commit 10, .pop 10, .commit 7, .publish, .flush, .pop 7, .enact, .publish, .commit 3, .flush,
   .enact, .drop, .pop 3, .publish, .flush, .enact]
example : acceptsP cfgAF jP = true := by decide
example : Fixed cfgAF := fixed_of_patched rfl (by decide)
/-- commits are popped in queue order with their own byte counts -/
example : acceptsP cfgAF [.commit 10, .commit 7, .pop 7, .publish, .drop] = false := by decide
/-- a flush while the appending file is below the threshold (no always_flush) is not a step -/
example : acceptsP (cfgOfGen Gen.MIN_LOG_SIZE_BYTES false true)
    [.commit 10, .pop 10, .publish, .flush, .drop] = false := by decide
/-- an enact before any flush is not a step -/
example : acceptsP cfgAF [.commit 10, .pop 10, .publish, .enact, .drop] = false := by decide
end ExampleP
end Pdb

#print axioms Pdb.T3_sound
#print axioms Pdb.T3_linearizable
#print axioms Pdb.T3_never_back_in_time
#print axioms Pdb.T3_pipe_sound
#print axioms Pdb.T3_pipe_drop_persists
