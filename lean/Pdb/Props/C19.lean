/-
C19  "Index page search never misses a matching entry"   (src/index.rs)

  findBase ib kp p page  = position returned by `IndexTable::find_entry_base`
  findSse2 ib kp p page  = position returned by `IndexTable::find_entry_sse2`
                           (`none` = the Rust result `(Entry::empty(), 0)`)
  page.getD j 0          = entry stored in slot `j` (0 = empty entry)

Quantification of every theorem below:
  * every page content: any `List Nat` whose entries are < 2^64.  The length is NOT
    restricted: slots beyond the end of the list read as empty entries, so the real case
    (exactly 64 slots) is an instance; there is no enumeration over pages;
  * every key prefix `kp` (no bound needed: `<<` truncates to 64 bits);
  * every start position `p` (0..63 are the interesting ones; for p ≥ 64 both searches
    return "absent", see `C19_start_past_end`; callers pass at most 64);
  * every index size `ib ≤ 49`.  The real range is 16..49 (MIN_INDEX_BITS = 16).  The bound 49
    is stated explicitly: at ib = 50 `address_bits` = 64, the partial key has zero bits and
    the u64 shift `>> 64` is out of range in Rust (such an index file would be 2^59 bytes).

Trusted: the lane-level semantics of the seven SSE2 intrinsics in Pdb/Model/IndexPage.lean.
-/
import Pdb.Proofs.C19

namespace Pdb.IndexPage
open Pdb.Gen

/-- (1a) With a non-zero pattern the vector search returns the least slot `i` with
`p ≤ i < 64` whose entry, shifted by `shift = max(32, address_bits)` and truncated to 32
bits, equals `pk`; it reports "absent" only if there is no such slot. -/
theorem C19_sse2_result (ib kp p : Nat) (page : List Nat) (hib : ib ≤ 49)
    (hpage : ∀ e ∈ page, e < 2 ^ 64) (hpk : sse2_pk ib kp ≠ 0) :
    (∀ i, findSse2 ib kp p page = some i →
        p ≤ i ∧ i < 64 ∧ (page.getD i 0 >>> sse2_shift ib kp) % 2 ^ 32 = sse2_pk ib kp ∧
        ∀ j, p ≤ j → j < i → ¬ (page.getD j 0 >>> sse2_shift ib kp) % 2 ^ 32 = sse2_pk ib kp) ∧
    (findSse2 ib kp p page = none →
        ∀ j, p ≤ j → j < 64 → ¬ (page.getD j 0 >>> sse2_shift ib kp) % 2 ^ 32 = sse2_pk ib kp) :=
  findSse2_isFirst ib kp p page hib hpage hpk

/- non-vacuity (pageA: ib = 16, slot 2 differs from the key only in the dropped bits, slots 5 and
9 match exactly): hypotheses hold, both branches occur. -/
example : sse2_pk 16 kpA = 5 ∧ (∀ e ∈ pageA, e < 2 ^ 64) ∧ findSse2 16 kpA 0 pageA = some 2 ∧
    findSse2 16 kpA 3 pageA = some 5 ∧ findSse2 16 kpA 10 pageA = none := by decide
example := C19_sse2_result 16 kpA 3 pageA (by decide) (by decide) (by decide)

/-- (1b) With a zero pattern the vector search is the scalar search. -/
theorem C19_sse2_result_zero_pk (ib kp p : Nat) (page : List Nat) (hpk : sse2_pk ib kp = 0) :
    findSse2 ib kp p page = findBase ib kp p page :=
  findSse2_zero ib kp p page hpk

/- non-vacuity: a zero pattern with a non-zero partial key (2 >> 2 = 0 at ib = 16); the
non-empty entry in slot 4 is found, the empty slots 0..2 are not returned. -/
example : sse2_pk 16 (2 <<< 14) = 0 ∧ Entry.extract_key (2 <<< 14) 16 = 2 ∧
    findSse2 16 (2 <<< 14) 0 pageC = some 4 := by decide

/-- (1c) The bits compared by the vector path, on partial keys: slot `j` matches iff its stored
partial key and the key's partial key agree after dropping the low
`shift - address_bits` bits (2 bits at ib = 16, 1 bit at ib = 17, none for ib ≥ 18). -/
theorem C19_sse2_compared_bits (ib kp : Nat) (page : List Nat) (j : Nat) (hib : ib ≤ 49)
    (he : page.getD j 0 < 2 ^ 64) :
    ((page.getD j 0 >>> sse2_shift ib kp) % 2 ^ 32 = sse2_pk ib kp) ↔
      Entry.partial_key (page.getD j 0) ib >>> (sse2_shift ib kp - Entry.address_bits ib) =
        Entry.extract_key kp ib >>> (sse2_shift ib kp - Entry.address_bits ib) :=
  sse2Match_iff ib kp page j hib he

/- non-vacuity: slot 2 of pageA (partial key 20 vs. key 21) matches on the compared bits. -/
example : Entry.partial_key (pageA.getD 2 0) 16 = 20 ∧ Entry.extract_key kpA 16 = 21 ∧
    (pageA.getD 2 0 >>> sse2_shift 16 kpA) % 2 ^ 32 = sse2_pk 16 kpA := by decide

theorem C19_sse2_dropped_bits (ib kp : Nat) (hib : ib ≤ 49) :
    sse2_shift ib kp - Entry.address_bits ib = 18 - ib := by
  rw [sse2_shift_eq ib kp hib, address_bits_eq ib hib]
  have : Nat.max 32 (ib + 14) = max 32 (ib + 14) := rfl
  omega

example : sse2_shift 16 0 - Entry.address_bits 16 = 2 ∧ sse2_shift 17 0 - Entry.address_bits 17 = 1 ∧
    sse2_shift 18 0 - Entry.address_bits 18 = 0 ∧ sse2_shift 49 0 - Entry.address_bits 49 = 0 := by
  decide

/-- (5) The scalar search returns the least slot `i` with `p ≤ i < 64` that is non-empty and
whose partial key equals the key's partial key; "absent" only if there is none.
(No bound on `ib` is needed for this one.) -/
theorem C19_base_result (ib kp p : Nat) (page : List Nat) :
    (∀ i, findBase ib kp p page = some i →
        p ≤ i ∧ i < 64 ∧
        (Entry.partial_key (page.getD i 0) ib = Entry.extract_key kp ib ∧ page.getD i 0 ≠ 0) ∧
        ∀ j, p ≤ j → j < i →
          ¬ (Entry.partial_key (page.getD j 0) ib = Entry.extract_key kp ib ∧ page.getD j 0 ≠ 0)) ∧
    (findBase ib kp p page = none →
        ∀ j, p ≤ j → j < 64 →
          ¬ (Entry.partial_key (page.getD j 0) ib = Entry.extract_key kp ib ∧ page.getD j 0 ≠ 0)) :=
  findBase_isFirst ib kp p page

/- non-vacuity: duplicates (slots 5, 9), a near miss (slot 2), "absent" from slot 10 on. -/
example : findBase 16 kpA 0 pageA = some 5 ∧ findBase 16 kpA 6 pageA = some 9 ∧
    findBase 16 kpA 10 pageA = none := by decide

/-- (2a) The vector search never returns a slot before the start position (nor past the
page). -/
theorem C19_sse2_never_before_p (ib kp p : Nat) (page : List Nat) (hib : ib ≤ 49)
    (hpage : ∀ e ∈ page, e < 2 ^ 64) (i : Nat) (h : findSse2 ib kp p page = some i) :
    p ≤ i ∧ i < 64 := by
  by_cases hpk : sse2_pk ib kp = 0
  · rw [findSse2_zero ib kp p page hpk] at h
    have := (findBase_isFirst ib kp p page).1 i h
    exact ⟨this.1, this.2.1⟩
  · have := (findSse2_isFirst ib kp p page hib hpage hpk).1 i h
    exact ⟨this.1, this.2.1⟩

/- non-vacuity: misaligned start 3 (block 0, skip 3) with a matching lane 2 before it. -/
example : findSse2 16 kpA 3 pageA = some 5 ∧ (pageA.getD 2 0 >>> 32) % 2 ^ 32 = sse2_pk 16 kpA := by
  decide
example := C19_sse2_never_before_p 16 kpA 3 pageA (by decide) (by decide) 5 (by decide)

/-- (2b) The vector search never returns an empty slot. -/
theorem C19_sse2_never_empty (ib kp p : Nat) (page : List Nat) (hib : ib ≤ 49)
    (hpage : ∀ e ∈ page, e < 2 ^ 64) (i : Nat) (h : findSse2 ib kp p page = some i) :
    page.getD i 0 ≠ 0 := by
  by_cases hpk : sse2_pk ib kp = 0
  · rw [findSse2_zero ib kp p page hpk] at h
    exact ((findBase_isFirst ib kp p page).1 i h).2.2.1.2
  · have := ((findSse2_isFirst ib kp p page hib hpage hpk).1 i h).2.2.1
    intro h0
    unfold Sse2Match at this
    rw [h0] at this
    exact hpk (by simpa using this.symm)

/- non-vacuity: pageB is empty except slots 6 and 63; the hit is the last slot. -/
example : findSse2 20 kpB 7 pageB = some 63 ∧ pageB.getD 63 0 ≠ 0 ∧ pageB.getD 7 0 = 0 := by decide
example := C19_sse2_never_empty 20 kpB 7 pageB (by decide) (by decide) 63 (by decide)

/-- (3) No false "absent": whenever the exact scalar search finds a slot `b`, the vector
search finds a slot `s` with `p ≤ s ≤ b`. -/
theorem C19_sse2_finds_if_base_finds (ib kp p : Nat) (page : List Nat) (hib : ib ≤ 49)
    (hpage : ∀ e ∈ page, e < 2 ^ 64) (b : Nat) (h : findBase ib kp p page = some b) :
    ∃ s, findSse2 ib kp p page = some s ∧ p ≤ s ∧ s ≤ b := by
  by_cases hpk : sse2_pk ib kp = 0
  · rw [findSse2_zero ib kp p page hpk]
    exact ⟨b, h, ((findBase_isFirst ib kp p page).1 b h).1, Nat.le_refl b⟩
  · have hb := (findBase_isFirst ib kp p page).1 b h
    have hs := findSse2_isFirst ib kp p page hib hpage hpk
    have hm : Sse2Match ib kp page b :=
      baseMatch_imp_sse2Match ib kp page b hib (entryAt_lt page hpage b) hb.2.2.1
    cases hr : findSse2 ib kp p page with
    | none => exact absurd hm (hs.2 hr b hb.1 hb.2.1)
    | some s =>
      have := hs.1 s hr
      refine ⟨s, rfl, this.1, ?_⟩
      apply Nat.le_of_not_lt
      intro hlt
      exact this.2.2.2 b hb.1 hlt hm

/- non-vacuity: at ib = 16 the vector position can be strictly smaller (2 < 5). -/
example : findBase 16 kpA 0 pageA = some 5 ∧ findSse2 16 kpA 0 pageA = some 2 := by decide
example := C19_sse2_finds_if_base_finds 16 kpA 0 pageA (by decide) (by decide) 5 (by decide)

theorem C19_sse2_isSome_of_base_isSome (ib kp p : Nat) (page : List Nat) (hib : ib ≤ 49)
    (hpage : ∀ e ∈ page, e < 2 ^ 64) (h : (findBase ib kp p page).isSome) :
    (findSse2 ib kp p page).isSome := by
  cases hb : findBase ib kp p page with
  | none => rw [hb] at h; exact absurd h (by simp)
  | some b =>
    obtain ⟨s, hs, _⟩ := C19_sse2_finds_if_base_finds ib kp p page hib hpage b hb
    rw [hs]; rfl

example := C19_sse2_isSome_of_base_isSome 16 kpA 0 pageA (by decide) (by decide) (by decide)

/-- (4) For index sizes 18..49 (`address_bits ≥ 32`: the compared bits are the whole partial
key) the two searches agree on every input. -/
theorem C19_sse2_eq_base (ib kp p : Nat) (page : List Nat) (hib18 : 18 ≤ ib) (hib : ib ≤ 49)
    (hpage : ∀ e ∈ page, e < 2 ^ 64) :
    findSse2 ib kp p page = findBase ib kp p page := by
  by_cases hpk : sse2_pk ib kp = 0
  · exact findSse2_zero ib kp p page hpk
  · have hs := findSse2_isFirst ib kp p page hib hpage hpk
    have hs' : IsFirstFrom (BaseMatch ib kp page) p (findSse2 ib kp p page) :=
      IsFirstFrom.congr
        (fun j _ => sse2Match_iff_baseMatch ib kp page j hib hib18 hpk (entryAt_lt page hpage j)) hs
    exact hs'.unique (findBase_isFirst ib kp p page)

/- non-vacuity: ib = 20, a slot differing in the lowest partial-key bit is skipped by both.
The lower bound 18 is sharp: at ib = 16 (and 17) the two searches differ on pageA. -/
example : findSse2 20 kpB 0 pageB = some 63 ∧ findBase 20 kpB 0 pageB = some 63 ∧
    Entry.partial_key (pageB.getD 6 0) 20 = Entry.extract_key kpB 20 ^^^ 1 := by decide
example : findSse2 16 kpA 0 pageA ≠ findBase 16 kpA 0 pageA := by decide
example : findSse2 17 (5 <<< 14) 0 [(4 <<< 31) ||| 1, (5 <<< 31) ||| 1] = some 0 ∧
    findBase 17 (5 <<< 14) 0 [(4 <<< 31) ||| 1, (5 <<< 31) ||| 1] = some 1 := by decide

/-- Start positions at or past the end of the page (callers pass at most 64 =
`last sub_index + 1`): both searches report "absent". -/
theorem C19_start_past_end (ib kp p : Nat) (page : List Nat) (hib : ib ≤ 49)
    (hpage : ∀ e ∈ page, e < 2 ^ 64) (hp : 64 ≤ p) :
    findBase ib kp p page = none ∧ findSse2 ib kp p page = none := by
  constructor
  · cases h : findBase ib kp p page with
    | none => rfl
    | some i => have := (findBase_isFirst ib kp p page).1 i h; omega
  · cases h : findSse2 ib kp p page with
    | none => rfl
    | some i => have := C19_sse2_never_before_p ib kp p page hib hpage i h; omega

example : findSse2 20 kpB 63 pageB = some 63 ∧ findSse2 20 kpB 64 pageB = none ∧
    findBase 20 kpB 64 pageB = none := by decide

end Pdb.IndexPage

#print axioms Pdb.IndexPage.C19_sse2_result
#print axioms Pdb.IndexPage.C19_sse2_result_zero_pk
#print axioms Pdb.IndexPage.C19_sse2_compared_bits
#print axioms Pdb.IndexPage.C19_sse2_dropped_bits
#print axioms Pdb.IndexPage.C19_base_result
#print axioms Pdb.IndexPage.C19_sse2_never_before_p
#print axioms Pdb.IndexPage.C19_sse2_never_empty
#print axioms Pdb.IndexPage.C19_sse2_finds_if_base_finds
#print axioms Pdb.IndexPage.C19_sse2_isSome_of_base_isSome
#print axioms Pdb.IndexPage.C19_sse2_eq_base
#print axioms Pdb.IndexPage.C19_start_past_end
