/-
C04r  Iteration and point reads on REFERENCE-COUNTED btree columns.

Model: Pdb/Model/BTreePipe.lean, `Drv` with `rc = true` (driver `c04 init rc`): `Node::change`
without de-duplication - every operation of a transaction is applied, in key order, stably
(`sortByKey`, `rcOne`); `write_existing_value_plan(.., ref_counted)`: Set on a present key and
Reference raise the count (the first value is kept), Dereference lowers it and removes the
separator when it reaches zero (`applyCell .rc` of the P1 model); `copy_to_overlay` mirrors only
`Set` (`ovPutR`).

What holds (and what does not).  The clause of C04 "every step is answered against the latest
committed state" is FALSE on rc columns between a commit and its `process_commits`: a committed
`Dereference` that brings the count to zero is invisible to readers until the commit has been
processed (`C04r_lag_witness`; replayed on the real crate by harness c04, counter `rc.lag_visible`).
This is the documented behaviour of reference-counted columns (property C07: "once all accepted
commits have been written to the log a key is readable iff its count is positive").  Proved instead,
for all histories and all call sequences:
  * `C04r_pipeline_spec`: every answer (iterator calls on an iterator kept open across commits and
    stage steps, point reads) is the abstract cursor's / the lookup's answer on the VISIBLE map =
    the cells of the processed transactions overridden by the queued `Set`s (`specActR`);
  * `C04r_pipeline_visible`: that map is `merged overlay (toList tree)`; TreeInv; never stuck;
  * `C04r_cells`: the cells are the P1 specification `Pdb.spec` on byte keys (count semantics);
  * `C04r_live_visible`: a key with positive COMMITTED count is always shown;
  * `C04r_exact`: when nothing is queued, a key is shown iff its count is positive (value = the
    value of its first live Set);
  * `C04r_value`: a shown value is the value of a `Set` of that key in the history (the preimage,
    when values are a function of the key).
-/
import Pdb.Proofs.C04PipeRcSpec

namespace Pdb.C04

/-- The invariant holds after every history. -/
theorem pipeline_inv_rc (as : List PAct) :
    PInvR ((Drv.init patched true).run as).1 (specRunR SpecStR.init as).1 :=
  (run_spec_rc as PInvR.init).2

/-- Full strength: all histories (commits of Set / Dereference / Reference with repeated keys,
    process / flush / enact / clean / reopen), all call sequences. -/
theorem C04r_pipeline_spec (as : List PAct) :
    ((Drv.init patched true).run as).2 = (specRunR SpecStR.init as).2 :=
  (run_spec_rc as PInvR.init).1

/-- The map the iterator enumerates and point reads look up is the visible map of the
    specification; the tree satisfies TreeInv, holds exactly the processed cells' keys and first
    values, the count list their counts; no corrupt-tree state is reached. -/
theorem C04r_pipeline_visible (as : List PAct) :
    merged ((Drv.init patched true).run as).1.env.ov ((Drv.init patched true).run as).1.tree.toList =
      (specRunR SpecStR.init as).1.visible ∧
    TreeInv ((Drv.init patched true).run as).1.tree ∧
    ((Drv.init patched true).run as).1.stuck = false ∧
    ((Drv.init patched true).run as).1.tree.toList =
      valuesOf (cellsAfter (specRunR SpecStR.init as).1.done) ∧
    ((Drv.init patched true).run as).1.counts =
      countsOf (cellsAfter (specRunR SpecStR.init as).1.done) := by
  have h := (pipeline_inv_rc as).q
  exact ⟨h.merged, h.tinv, h.nstuck, h.vals, h.cnts⟩

/-- The cells of the specification are the cells of the P1 specification (every accepted
    operation folded in commit order over the empty map, `applyCell .rc`: Set = insert with count
    1 or count + 1, Reference = count + 1 if present, Dereference = count - 1, gone at 0). -/
theorem C04r_cells (txs : List (List ROp)) (k : Key) :
    lookup (cellsAfter txs) k = Pdb.spec (fun _ => Kind.rc) txs k :=
  lookup_cellsAfter txs k

/-- A key whose committed count is positive (all accepted transactions, processed or not) is
    shown. -/
theorem C04r_live_visible (sp : SpecStR) (k : Key) (v : String) (n : Nat)
    (h : Pdb.spec (fun _ => Kind.rc) (sp.done ++ sp.queued) k = some (v, n)) :
    ∃ v', lookup sp.visible k = some v' := by
  have := visible_of_live sp k (by rw [lookup_cellsAfter, h]; rfl)
  cases hl : lookup sp.visible k with
  | some v' => exact ⟨v', rfl⟩
  | none => rw [hl] at this; cases this

/-- With an empty queue (all accepted commits processed; in particular after a reopen) a key is
    shown iff its count is positive, with the value stored in its cell. -/
theorem C04r_exact (sp : SpecStR) (hq : sp.queued = []) (k : Key) :
    lookup sp.visible k = (Pdb.spec (fun _ => Kind.rc) sp.done k).map Prod.fst := by
  rw [visible_exact sp hq, lookup_cellsAfter]

/-- A shown value is the value of some `Set` of that key in the history. -/
theorem C04r_value (sp : SpecStR) (f : Key → String)
    (hf : ∀ k v, (Pdb.Op.set k v : ROp) ∈ (sp.done ++ sp.queued).flatten → v = f k)
    (k : Key) (v : String) (h : lookup sp.visible k = some v) : v = f k :=
  visible_value sp (fun k v => v = f k) hf k v h

/-! ### the lag: a committed dereference is not seen before its commit is processed -/

private def k1 : Key := [1]
private def k2 : Key := [2]

private def lagHist : List PAct :=
  [.commitRc [.set k1 "a", .set k2 "b"], .process,     -- both keys in the tree, count 1
   .commitRc [.deref k1],                               -- k1: committed count 0, still queued
   .call .next, .get k1,                                -- both still answer k1
   .process,
   .iterNew, .call .next, .get k1]                      -- now k1 is gone

/-- After `commit {Dereference k1}` and before its `process_commits`, the committed count of `k1` is
    zero (P1 specification), yet `next` on the open iterator returns `k1` and `get k1` its value;
    after `process_commits` both answer from the committed state.  So on rc columns the iterator does
    NOT enumerate the latest committed state (C04's clause fails), only the visible map. -/
theorem C04r_lag_witness :
    Pdb.spec (fun _ => Kind.rc) [[.set k1 "a", .set k2 "b"], [.deref k1]] k1 = none ∧
    ((Drv.init patched true).run lagHist).2 =
      [.ok, .ok, .ok, .out (.item (some (k1, "a"))), .got (some "a"), .ok, .ok,
       .out (.item (some (k2, "b"))), .got none] := by
  constructor
  · decide +kernel
  · decide +kernel

/-! ### non-vacuity: counts, repeated keys in one transaction, Reference, removal at zero, an
iterator kept open -/

private def rcHist : List PAct :=
  [.commitRc [.set k1 "a", .set k1 "a", .ref k2, .set k2 "b"],   -- k1 count 2; ref of absent k2 ignored; k2 count 1
   .call .next,                                                   -- k1 from the overlay
   .process,
   .commitRc [.deref k1, .ref k2], .process,                      -- k1 count 1, k2 count 2
   .call .next,                                                   -- k2
   .commitRc [.deref k1, .deref k2], .process,                    -- k1 gone, k2 count 1
   .call .prev, .call .prev,                                      -- nothing before k2 any more
   .reopen, .call .next, .call .next]

example : ((Drv.init patched true).run rcHist).2 =
    [.ok, .out (.item (some (k1, "a"))), .ok, .ok, .ok, .out (.item (some (k2, "b"))), .ok, .ok,
     .out (.item none), .out (.item none), .ok, .out (.item (some (k2, "b"))), .out (.item none)] := by
  decide +kernel

example : ((Drv.init patched true).run rcHist).1.counts = [(k2, 1)] := by decide +kernel

/-! ### audit -/

#print axioms C04r_pipeline_spec
#print axioms C04r_pipeline_visible
#print axioms C04r_cells
#print axioms C04r_live_visible
#print axioms C04r_exact
#print axioms C04r_value
#print axioms C04r_lag_witness

end Pdb.C04
