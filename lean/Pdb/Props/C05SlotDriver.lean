/-
C05, slot level, the executed tie: what `pdbdriver` command `c05s` (Pdb/Model/ConcSlotDriver.lean)
computes when it replays a trace of harness/src/c05s.rs IS a schedule of the slot-level LTS under the
real configuration, so the `C05_slot_*` theorems speak about the very states whose `get` answers,
index-entry addresses, fill marks, free-list heads and file slots were compared with the crate.
-/
import Pdb.Proofs.C05SlotDriver
import Pdb.Props.C05SlotRefine

namespace Pdb
open CSlot CSlotDriver

/-- A replayed trace is a schedule: the slot-level state after any list of op lines is
    `srun Cfg.real` of some action list from `SSt.init`. -/
theorem C05_slot_replay_is_schedule (ls : List (List String)) (d : Drv)
    (h : replay none ls = some d) :
    ∃ as, d.s = srun Cfg.real tierOf chunkOfKey d.n SSt.init as :=
  (Reach.none.replay ls) d h

/-- Every read completed during a replay (every `get` line: its answer is the `result` of the
    event it appends) is linearizable: it returns the specification of the commits accepted when it
    began, none is accepted meanwhile. -/
theorem C05_slot_replay_reads_linearizable (ls : List (List String)) (d : Drv)
    (h : replay none ls = some d) (e : ReadEvt K V) (he : e ∈ d.s.reads) :
    e.startSeq = e.endSeq ∧ e.endSeq ≤ d.s.hist.length ∧
    e.result = (spec plainK (d.s.hist.take e.startSeq) e.key).map Prod.fst := by
  obtain ⟨as, has⟩ := C05_slot_replay_is_schedule ls d h
  rw [has] at he ⊢
  exact (C05_slot_read_linearizable Cfg.real rfl rfl tierOf chunkOfKey d.n as e he).2

/-- ... and has a key-level run (`C05_slot_refines`): the key-level LTS run of the translated
    schedule completes the same reads over the same history. -/
theorem C05_slot_replay_refines (ls : List (List String)) (d : Drv)
    (h : replay none ls = some d) :
    ∃ as' : List (CRd.CAct K V),
      (CRd.crun plainK d.n CRd.CSt.init as').reads = d.s.reads.map absEvt ∧
      (CRd.crun plainK d.n CRd.CSt.init as').hist = d.s.hist := by
  obtain ⟨as, has⟩ := C05_slot_replay_is_schedule ls d h
  have hs := C05_slot_refines Cfg.real rfl rfl tierOf chunkOfKey d.n as
  rw [← has] at hs
  exact ⟨_, hs.reads, hs.hist⟩

/-! ### non-vacuity: a trace in the harness's syntax (slot reuse across an unenacted record) -/
section Example
private def trace : List (List String) :=
  [["init", "1"], ["commit", "set:1:28001"], ["process"], ["commit", "del:1"], ["process"],
   ["commit", "set:3:28002", "set:101:72003"], ["pop"], ["publish"], ["get", "3"], ["cleanOverlay"],
   ["flush"], ["ew"], ["get", "1"], ["get", "3"], ["ewAll"], ["endRead"], ["get", "101"]]

/- the hypothesis `replay none ls = some d` is satisfiable, the reads are the expected ones (key 3
    lives in slot 28:1, which key 1 held before; the record that freed it is not enacted), and the
    observation lines answer what the harness prints (evaluated by the compiler: string parsing does
    not reduce in the kernel) -/
#guard (replay none trace).map (fun d => d.s.reads.map (fun e => (e.key, e.result))) =
  some [(3, some 28002), (1, none), (3, some 28002), (101, some 72003)]
#guard (replay none trace).map (fun d => (output d d ["addr", "3"], output d d ["addr", "101"],
    output d d ["files", "28"], output d d ["freelist", "28"], output d d ["drained"])) =
  some ("28:1", "72:1", "filled=2 head=0 slots=[1]", "[]",
    "no queue=0 inflight=none logged=2 flushed=2 enactPos=0/2 hist=3 npub=3")
end Example

end Pdb

#print axioms Pdb.C05_slot_replay_is_schedule
#print axioms Pdb.C05_slot_replay_reads_linearizable
#print axioms Pdb.C05_slot_replay_refines
