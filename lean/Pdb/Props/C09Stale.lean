/-
C09 / C14 / C20: the fixed write path (fix-c09-stale-index-entries, `cfg.purge = true`).

When a value slot is freed - the key is removed, or its value moves to another size tier - the
fixed `write_plan_existing` removes every entry that maps the key's partial key to the freed
address from the QUEUED older index tables too (`Index.purgeOlder`, the model of
`HashColumn::remove_from_queued_indexes`).  Before the fix such entries stayed behind
  (S1) in the older table a moved key was found in, and
  (S2) in the queue front for keys a reindex batch had already copied to the current table,
and pointed to a freed / re-used slot: known findings F26 (C20), F29 (C09, C14) and the stale
variant of F28 (C09).

What is proved here
  * every C09 / C14 / R1..R5 theorem is stated for an arbitrary `cfg`, so it covers the fixed
    code (`purge = true`) and the code before the fix (`purge = false`) alike; the new lemmas
    are in Pdb/Proofs/C09Purge.lean (`purgeTable_ind`, `Sub`, `IdxInv.purgeOlder`, `writeExisting_ok`).
  * `C09_purge_keeps_good`        the removal keeps `Good` (index invariant, slot invariant,
                                  abstraction) as soon as no value lives at the freed address
  * `C09_purge_only_dead`         the removal only drops entries of the freed address: every
                                  entry of another address stays, nothing is added
  * `C09_twin_fixed`              the history of `C09_full_statement_false_twin` (finding F29) on
                                  the fixed code: the removed key reads `none`, its twin keeps its
                                  value, also after a second removal of the first key
  * `C09_twin_unfixed_vs_fixed`   the same history, both variants side by side

PROVED SINCE (Pdb/Props/C09NoStale.lean, f-nostale): the global invariant "no stale entry" for all
reachable states of the fixed model - `NoStale_run`: every entry of every table (current and queued,
whole tables) points to a live slot whose stored tail continues the recovered key bits, all entries
of a slot agree on key bits 63..14, one entry per slot and table - WITHOUT A-tail; with it the read
theorem `C09_lookup_latest_notail`, `C14_no_misattribution_nostale`, and for the index walk of C20
`PhysCol.InvN` (live, nodup, one slot per key) of `physOf s` for reachable states:
`C20_walk_exact_notail` (Pdb/Props/C20NoStale.lean).  The dump checker `t2 nostale`
(`checkNoStale`, sound by `T2_checkNoStale_sound`) evaluates `NoStale` on every structural dump of
the real crate.
-/
import Pdb.Props.C09F24

namespace Pdb.Index
open Pdb.Gen Pdb.IndexPage

/-- The removal of the stale entries keeps the invariants once the slot is dead. -/
theorem C09_purge_keeps_good {U : Key → Prop} {s : Col} {m : Key → Option Val} (hG : Good U s m)
    (kp a : Nat) (hdead : s.tailAt a = none) : Good U (purgeOlder s kp a) m :=
  hG.purgeOlder kp a hdead

/-- The removal touches the queued tables only, and there only entries whose address is the freed
one: table for table, every entry of another address is still there and no entry is new. -/
theorem C09_purge_only_dead {U : Key → Prop} {s : Col} (hI : IdxInv U s) (kp a : Nat) :
    (purgeOlder s kp a).current = s.current ∧
    (purgeOlder s kp a).older.length = s.older.length ∧
    ∀ t' ∈ (purgeOlder s kp a).older, ∃ t ∈ s.older, t'.bits = t.bits ∧
      (∀ kp' a', t'.Has kp' a' → t.Has kp' a') ∧
      (∀ kp' a', t.Has kp' a' → a' ≠ a → t'.Has kp' a') := by
  refine ⟨purgeOlder_current s kp a, purgeOlder_older_length s kp a, fun t' ht' => ?_⟩
  obtain ⟨t, ht, e⟩ := purgeOlder_mem s kp a t' ht'
  refine ⟨t, ht, ?_⟩
  have hwf : TableWF t := hI.wf t (by simp [Col.tables, ht])
  rcases e with e | e
  · rw [e]; exact ⟨rfl, fun _ _ h => h, fun _ _ h _ => h⟩
  · have hs := purgeTable_sub s.cfg.exact kp a t hwf SCAN_FUEL 0
    rw [e]; exact ⟨hs.bits, hs.sub, hs.keep⟩

set_option maxRecDepth 100000 in
/-- (about 15 s of kernel evaluation) the F29 history on the FIXED code -/
theorem twRunFixed :
    (runChecked (Col.init ⟨true, true, true⟩ 16) twActs).bind (fun s1 =>
      (runChecked s1 [Action.del twK1]).map (fun s2 =>
        (lookup s1 twK1, lookup s1 twK2, lookup s2 twK1, lookup s2 twK2))) =
    some (none, some "v2", none, some "v2") := by
  decide +kernel

/-- Finding F29 is gone on the fixed code: after the history `twActs` of
`C09_full_statement_false_twin` (twin keys: equal tails, A-tail violated) the removed key reads
`none` and its twin its own value, as the abstract map says; a second removal of the first key
changes nothing. -/
theorem C09_twin_fixed :
    twK1 ≠ twK2 ∧ twK1.tail = twK2.tail ∧
    ∃ s1 s2, runA (Col.init ⟨true, true, true⟩ 16) twActs = .ok s1 ∧
      AllBounded (Col.init ⟨true, true, true⟩ 16) twActs ∧ runA s1 [Action.del twK1] = .ok s2 ∧
      lookup s1 twK1 = spec (fun _ => none) twActs twK1 ∧
      lookup s1 twK2 = spec (fun _ => none) twActs twK2 ∧
      lookup s2 twK1 = spec (fun _ => none) (twActs ++ [Action.del twK1]) twK1 ∧
      lookup s2 twK2 = spec (fun _ => none) (twActs ++ [Action.del twK1]) twK2 ∧
      lookup s2 twK2 = some "v2" := by
  refine ⟨by decide, rfl, ?_⟩
  have h := twRunFixed
  cases h1 : runChecked (Col.init ⟨true, true, true⟩ 16) twActs with
  | none => rw [h1] at h; cases h
  | some s1 =>
    rw [h1] at h
    simp only [Option.bind_some] at h
    cases h2 : runChecked s1 [Action.del twK1] with
    | none => rw [h2] at h; cases h
    | some s2 =>
      rw [h2] at h
      simp only [Option.map_some, Option.some.injEq, Prod.mk.injEq] at h
      obtain ⟨e1, e2, e3, e4⟩ := h
      have r1 := runChecked_sound _ _ _ h1
      have r2 := runChecked_sound _ _ _ h2
      refine ⟨s1, s2, r1.1, r1.2, r2.1, ?_, ?_, ?_, ?_, e4⟩
      · rw [e1]; set_option maxRecDepth 100000 in decide +kernel
      · rw [e2]; set_option maxRecDepth 100000 in decide +kernel
      · rw [e3]; set_option maxRecDepth 100000 in decide +kernel
      · rw [e4]; set_option maxRecDepth 100000 in decide +kernel

/-- The two code variants on the F29 history: the code before the fix misattributes
(`C09_full_statement_false_twin`), the fixed code does not. -/
theorem C09_twin_unfixed_vs_fixed :
    (∃ s1, runA (Col.init ⟨true, true, false⟩ 16) twActs = .ok s1 ∧ lookup s1 twK1 = some "v2") ∧
    (∃ s1, runA (Col.init ⟨true, true, true⟩ 16) twActs = .ok s1 ∧ lookup s1 twK1 = none) := by
  obtain ⟨_, _, s1, _, h1, _, _, _, h2, _⟩ := C09_full_statement_false_twin
  obtain ⟨_, _, t1, _, g1, _, _, g2, _⟩ := C09_twin_fixed
  refine ⟨⟨s1, h1, h2⟩, ⟨t1, g1, ?_⟩⟩
  rw [g2]
  set_option maxRecDepth 100000 in decide +kernel

end Pdb.Index

#print axioms Pdb.Index.C09_purge_keeps_good
#print axioms Pdb.Index.C09_purge_only_dead
#print axioms Pdb.Index.C09_twin_fixed
#print axioms Pdb.Index.C09_twin_unfixed_vs_fixed
