/-
C03  Clean shutdown persists everything; synced log records survive crashes.

Model: P1.  `cleanReopen` = drop (the drain sequence of `kill_logs`: enact*, flush,
process*, enact*, flush, enact*) followed by open.  The real drop may leave flushed log
files unenacted (one log file per `enact_logs` loop); they are replayed by the next
open, which is the same logical result (tied by correspondence: drop with deep queues,
then reopen).  The second half (synced records survive) is the lower bound
`nEnacted + flushed ≤ m` of `C02_recover_prefix`, restated here.
-/
import Pdb.Props.C02

namespace Pdb
variable {K V : Type} [DecidableEq K]

/-- Whatever stage each commit had reached when the handle is dropped, after reopening the
    tables hold exactly the specification of ALL accepted transactions, in order, nothing is
    left in any overlay or queue, and reads return it. -/
theorem C03_drop_persists (kind : K → Kind) (as : List (Action K V)) :
    let s := run kind (St.init : St K V) as
    let s' := cleanReopen kind s
    s'.tables = spec kind s.hist ∧ s'.hist = s.hist ∧ s'.queue = [] ∧ s'.logged = [] ∧
    (∀ k, s'.overlay k = none) ∧
    (∀ k, kind k = .plain → get s' k = (spec kind s.hist k).map Prod.fst) := by
  intro s s'
  have hi : Inv kind s := (Inv.init kind).run as
  have h := hi.cleanReopen
  refine ⟨h.2.2, h.2.1, rfl, rfl, fun _ => rfl, ?_⟩
  intro k hk
  have := h.1.get_plain k hk
  rw [this, h.2.1]

/-- After a crash every transaction whose record had been flushed (synced) is present: the
    recovered prefix is at least `nEnacted + flushed` long. -/
theorem C03_synced_survive (kind : K → Kind) (as : List (Action K V)) (j n : Nat) :
    let s := run kind (St.init : St K V) as
    let s' := crashRecover s j (max n s.flushed)
    s.nEnacted + s.flushed ≤ s'.hist.length ∧ s'.tables = spec kind s'.hist := by
  intro s s'
  obtain ⟨m, h1, h2, h3, h4, _, _⟩ := C02_recover_prefix kind as j n
  refine ⟨?_, ?_⟩
  · show (run kind (St.init : St K V) as).nEnacted + (run kind (St.init : St K V) as).flushed ≤
      (crashRecover (run kind (St.init : St K V) as) j
        (max n (run kind (St.init : St K V) as).flushed)).hist.length
    rw [h4, List.length_take]
    omega
  · show (crashRecover s j (max n s.flushed)).tables = spec kind (crashRecover s j (max n s.flushed)).hist
    rw [h3, h4]

section Example
private def kd : Nat → Kind := fun _ => .plain
private def acts : List (Action Nat Nat) :=
  [.commit [.set 1 10], .process, .commit [.set 2 20], .flush, .commit [.set 1 12, .deref 2],
   .process, .commit [.set 3 30]]
example : (run kd St.init acts).queue.length = 2 ∧ (run kd St.init acts).logged.length = 2 ∧
    (cleanReopen kd (run kd St.init acts)).tables 1 = some (12, 1) ∧
    (cleanReopen kd (run kd St.init acts)).tables 2 = none ∧
    (cleanReopen kd (run kd St.init acts)).tables 3 = some (30, 1) := by decide
end Example

end Pdb

#print axioms Pdb.C03_drop_persists
#print axioms Pdb.C03_synced_survive
