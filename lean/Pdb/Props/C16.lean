/-
C16  An I/O error stops the writer cleanly and never corrupts the database.

Model: P1 plus `failStep` (the effect of `store_err` after a failing step, with `j` table
writes of the record being enacted already done) and `reopenAfterError` (drop with an
error present enacts nothing; the next open replays the logs).  The failure may strike
any reachable state (any history, any pipeline position).  "Reported": in the model the
error flag is set and every later commit returns `background`; on the implementation the
failing stepping call returns the error (harness) and the worker wrapper stores it.
"No panic" is not expressible at this layer (P1 has no partial operations); it is checked
on the implementation at every `try_io` index and by C13_total for replay.
-/
import Pdb.Proofs.PipelineRc
import Pdb.Props.C02

namespace Pdb
variable {K V : Type} [DecidableEq K]

theorem view_failStep (s : St K V) (j : Nat) : view (failStep s j) = view s := by
  rw [Pdb.view_eq, Pdb.view_eq]
  unfold failStep
  cases hf : s.flushed with
  | zero => rfl
  | succ f =>
    cases hl : s.logged with
    | nil => simp
    | cons r rs =>
      simp only [applyRecs, List.foldl_cons]
      rw [overwrite_idempotent]

theorem get_failStep (s : St K V) (j : Nat) (k : K) : get (failStep s j) k = get s k := by
  unfold get
  rw [view_failStep]
  rfl

/-- After the failure every further commit is refused and changes nothing. -/
theorem C16_commits_refused (kind : K → Kind) (s : St K V) (j : Nat) (tx : List (Op K V)) :
    (commit kind (failStep s j) tx).2 ≠ .ok ∧ (commit kind (failStep s j) tx).1 = failStep s j := by
  unfold commit
  by_cases hv : tx.all (opValid kind) <;> simp [hv, failStep]

/-- Reads keep returning committed data: exactly the latest write among ALL accepted
    transactions (in particular every commit that completed before the failure), for plain
    columns; positive count implies readable for reference-counted ones. -/
theorem C16_reads_committed (kind : K → Kind) (as : List (Action K V)) (j : Nat) (k : K) :
    let s := run kind (St.init : St K V) as
    (kind k = .plain → get (failStep s j) k = (spec kind s.hist k).map Prod.fst) ∧
    (∀ valueOf : K → V, kind k = .rc → Contract valueOf kind s.hist →
      (spec kind s.hist k).isSome → get (failStep s j) k = some (valueOf k)) := by
  intro s
  have hi : Inv kind s := (Inv.init kind).run as
  refine ⟨fun hk => ?_, fun valueOf hk hc hp => ?_⟩
  · rw [get_failStep]; exact hi.get_plain k hk
  · rw [get_failStep]; exact hi.get_rc_positive valueOf hc k hk hp

theorem reopenAfterError_failStep (s : St K V) (j : Nat) :
    reopenAfterError (failStep s j) = crashRecover s j s.logged.length := by
  unfold reopenAfterError failStep crashRecover
  cases hf : s.flushed with
  | zero => simp
  | succ f =>
    cases hl : s.logged with
    | nil => simp
    | cons r rs => simp [applyRecPrefix, applyRec]

/-- After the fault is gone, reopening yields the specification of a prefix of the committed
    transactions that includes everything logged (hence everything synced) before the
    failure, and the pipeline invariant holds again. -/
theorem C16_reopen_prefix (kind : K → Kind) (as : List (Action K V)) (j : Nat) :
    let s := run kind (St.init : St K V) as
    let r := reopenAfterError (failStep s j)
    let m := s.nEnacted + s.logged.length
    s.nEnacted + s.flushed ≤ m ∧ m ≤ s.hist.length ∧
    r.tables = spec kind (s.hist.take m) ∧ r.hist = s.hist.take m ∧ Inv kind r := by
  intro s r m
  have hi : Inv kind s := (Inv.init kind).run as
  have h := hi.crashRecover j s.logged.length hi.fl
  have e : r = crashRecover s j s.logged.length := reopenAfterError_failStep s j
  rw [e]
  simp only [Nat.min_self] at h
  exact ⟨h.2.1, h.2.2.1, h.2.2.2.2, h.2.2.2.1, h.1⟩

section Example
private def kd : Nat → Kind := fun _ => .plain
private def acts : List (Action Nat Nat) :=
  [.commit [.set 1 10, .set 2 20], .process, .flush, .commit [.set 1 11], .process, .commit [.set 3 30]]
-- failure while enacting record 1 after one of its two writes
example : get (failStep (run kd St.init acts) 1) 1 = some 11 ∧ get (failStep (run kd St.init acts) 1) 3 = some 30 ∧
    (commit kd (failStep (run kd St.init acts) 1) [.set 9 9]).2 = .background ∧
    (reopenAfterError (failStep (run kd St.init acts) 1)).tables 1 = some (11, 1) ∧
    (reopenAfterError (failStep (run kd St.init acts) 1)).tables 3 = none := by decide
end Example

end Pdb

#print axioms Pdb.C16_commits_refused
#print axioms Pdb.C16_reads_committed
#print axioms Pdb.C16_reopen_prefix
