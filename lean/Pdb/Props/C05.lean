/-
C05  Concurrent readers see commits atomically, in order, and never go back in time.

Model: Pdb/Model/ConcRead.lean, Part 1 (`CSt`, `cstep`): the sequential pipeline P1 split into the
critical sections of the source (commit | pop | publish | cleanOverlay | flush | enactWrite |
endRead) interleaved with any number `N` of reader threads whose point read is five steps
(rBegin: take the commit-overlay read lock | rOverlay | rLog | rTable | rEnd), under ALL
interleavings: a schedule is an arbitrary action list, a disabled action is a no-op.

What the theorems say (plain columns; keys are combined (column, key) keys):
  * every completed read returns `spec (the first q accepted commits) key` where q is the
    number of commits accepted when the reader took the overlay lock; and q is ALSO the
    number when it released it, because `commit_raw` needs the overlay write lock: a read is
    an atomic snapshot with respect to commits, the only real concurrency is with the four
    workers (C05_read_linearizable);
  * snapshots are ordered by completion, across ALL reader threads (C05_snapshot_order);
  * per reader (indeed for any two reads ordered by completion): once a read returned the
    value written by transaction T, a later read of any key written by T returns T's value
    or that of a later transaction (C05_monotone), hence no partially visible transaction
    (C05_atomic_visibility).
Proof: invariant `CInv` = P1's `Inv` on the refinement image (HandOver) + Shadow + per-reader
facts, preserved by every action (Proofs/C05Inv, C05Steps).

Ref-counted / preimage columns: the commit overlay holds no entry for a dereference of an rc
key and Set does not overwrite, so the statement weakens exactly as in C07 (positive count
=> readable); the theorems here are stated for `Kind.plain`.

Index layer: the value / index tables below the key-level cells are tied by correspondence,
except the one hand-over the index layer adds on its own, reindexing, modelled in Part 2
(`Idx`): the current code looks up the current index BEFORE taking `reindex.read()`, and
`drop_index` only needs `reindex.write()`: `C05_F11_counterexample` is a schedule on which a
reader reports a key absent that is live throughout; with the lock taken first
(`Idx.patched`, fixes/fix-c05-reindex-read-lock.diff) `C05_index_lookup_stable` holds for
all schedules.

Granularity (partial by nature): atomic actions are the lock-protected sections; mmap stores
and relaxed atomics inside them are not modelled.  The tie to the code is the order of those
sections (`end_record` before `clean_overlay`, table writes before `end_read`, overlay lock
held across `get`) + threaded runs with yield points at the hand-over sites (harness c05).
-/
import Pdb.Proofs.C05Obs
import Pdb.Proofs.C05Idx

namespace Pdb
open CRd
variable {K V : Type} [DecidableEq K]

/-- Every completed read of a plain-column key returns the specification value of the
    commits accepted when it began; no commit is accepted while it is in progress. -/
theorem C05_read_linearizable (kind : K → Kind) (N : Nat) (as : List (CAct K V))
    (e : ReadEvt K V) (he : e ∈ (crun kind N CSt.init as).reads) (hk : kind e.key = .plain) :
    (∃ q, e.startSeq ≤ q ∧ q ≤ e.endSeq ∧
      e.result = (spec kind ((crun kind N CSt.init as).hist.take q) e.key).map Prod.fst) ∧
    e.startSeq = e.endSeq ∧ e.endSeq ≤ (crun kind N CSt.init as).hist.length ∧
    e.result = (spec kind ((crun kind N CSt.init as).hist.take e.startSeq) e.key).map Prod.fst := by
  have hi := (CInv.init kind N (K := K) (V := V)).run as
  have := hi.evs e he
  simp only [EvOk] at this
  exact ⟨⟨e.startSeq, Nat.le_refl _, by omega, this.2.2 hk⟩, this.1, this.2.1, this.2.2 hk⟩

/-- Snapshots never go back in time, in completion order, across all reader threads. -/
theorem C05_snapshot_order (kind : K → Kind) (N : Nat) (as : List (CAct K V)) :
    (crun kind N CSt.init as).reads.Pairwise (fun a b => a.endSeq ≤ b.startSeq) :=
  ((CInv.init kind N (K := K) (V := V)).run as).mono

/-- The value a read returns is the one left by the transaction it observes (the last
    writer of the key inside its snapshot); `none` if nothing ever wrote the key. -/
theorem C05_observed_value (kind : K → Kind) (N : Nat) (as : List (CAct K V))
    (e : ReadEvt K V) (he : e ∈ (crun kind N CSt.init as).reads) (hk : kind e.key = .plain) :
    (∀ j, lastWriter ((crun kind N CSt.init as).hist.take e.startSeq) e.key = some j →
      e.result = (spec kind ((crun kind N CSt.init as).hist.take (j + 1)) e.key).map Prod.fst) ∧
    (lastWriter ((crun kind N CSt.init as).hist.take e.startSeq) e.key = none →
      e.result = none) := by
  have hl := (C05_read_linearizable kind N as e he hk).2.2.2
  have hs := spec_lastWriter kind e.key ((crun kind N CSt.init as).hist.take e.startSeq)
  constructor
  · intro j hj
    have hjl := (lastWriter_some e.key _ j hj).1
    rw [hl, hs.1 j hj, List.take_take]
    have : min (j + 1) e.startSeq = j + 1 := by
      simp only [List.length_take] at hjl
      omega
    rw [this]
  · intro hn
    rw [hl, hs.2 hn]; rfl

/-- Once a read has observed transaction `j`, every read that completes later, of any key
    that `j` writes, observes `j` or a later transaction. -/
theorem C05_monotone (kind : K → Kind) (N : Nat) (as : List (CAct K V))
    (l1 l2 l3 : List (ReadEvt K V)) (e1 e2 : ReadEvt K V)
    (hr : (crun kind N CSt.init as).reads = l1 ++ e1 :: (l2 ++ e2 :: l3)) (j : Nat)
    (hobs : lastWriter ((crun kind N CSt.init as).hist.take e1.startSeq) e1.key = some j)
    (hw : writes ((crun kind N CSt.init as).hist.getD j []) e2.key = true) :
    ∃ j', j ≤ j' ∧
      lastWriter ((crun kind N CSt.init as).hist.take e2.startSeq) e2.key = some j' := by
  have ho := reads_order kind N as l1 l2 l3 e1 e2 hr
  have hj := (lastWriter_some e1.key _ j hobs).1
  simp only [List.length_take] at hj
  exact lastWriter_ge e2.key _ j e2.startSeq (by omega) ho.2 hw

/-- No transaction is seen partially: after observing `j` on one key, a later read of another
    key written by `j` returns the value left by `j` or by a later transaction. -/
theorem C05_atomic_visibility (kind : K → Kind) (N : Nat) (as : List (CAct K V))
    (l1 l2 l3 : List (ReadEvt K V)) (e1 e2 : ReadEvt K V)
    (hr : (crun kind N CSt.init as).reads = l1 ++ e1 :: (l2 ++ e2 :: l3)) (j : Nat)
    (hk : kind e2.key = .plain)
    (hobs : lastWriter ((crun kind N CSt.init as).hist.take e1.startSeq) e1.key = some j)
    (hw : writes ((crun kind N CSt.init as).hist.getD j []) e2.key = true) :
    ∃ j', j ≤ j' ∧
      lastWriter ((crun kind N CSt.init as).hist.take e2.startSeq) e2.key = some j' ∧
      e2.result = (spec kind ((crun kind N CSt.init as).hist.take (j' + 1)) e2.key).map Prod.fst := by
  obtain ⟨j', hle, hl⟩ := C05_monotone kind N as l1 l2 l3 e1 e2 hr j hobs hw
  have hm2 : e2 ∈ (crun kind N CSt.init as).reads := by rw [hr]; simp
  exact ⟨j', hle, hl, (C05_observed_value kind N as e2 hm2 hk).1 j' hl⟩

/-- HandOver: whatever the workers are doing, the commit overlay covers every accepted commit
    that the layers below do not show yet: a hit returns the latest committed value (even the
    stale entry of a commit whose record is already published), and after a miss the view
    (log overlay over tables) is the specification of ALL accepted commits. -/
theorem C05_handover (kind : K → Kind) (N : Nat) (as : List (CAct K V)) (k : K)
    (hk : kind k = .plain) :
    (∀ i v, (crun kind N CSt.init as).overlay k = some (i, v) →
      v = (spec kind (crun kind N CSt.init as).hist k).map Prod.fst) ∧
    ((crun kind N CSt.init as).overlay k = none →
      (cview (crun kind N CSt.init as) k).map Prod.fst =
        (spec kind (crun kind N CSt.init as).hist k).map Prod.fst) := by
  have hi := (CInv.init kind N (K := K) (V := V)).run as
  refine ⟨fun i v h => overlay_hit hi k hk i v h, fun h => ?_⟩
  rw [cview_eq hi]
  exact overlay_miss hi k hk h

/-- Shadow: a table cell differs from its last ended image only while a log-overlay entry
    covers it; hence (log overlay, tables) always shows exactly the published records, and the
    sequential pipeline invariant holds on the refinement image. -/
theorem C05_shadow (kind : K → Kind) (N : Nat) (as : List (CAct K V)) :
    (∀ k, logLookup (crun kind N CSt.init as).logged k = none →
      (crun kind N CSt.init as).tables k = (crun kind N CSt.init as).base k) ∧
    cview (crun kind N CSt.init as) = view (CRd.abs (crun kind N CSt.init as)) ∧
    Inv kind (CRd.abs (crun kind N CSt.init as)) := by
  have hi := (CInv.init kind N (K := K) (V := V)).run as
  refine ⟨fun k h => ?_, cview_eq hi, hi.abs⟩
  rw [hi.tbl]
  exact shadow_key _ _ _ k h

/-! ### index hand-over during reindexing (F11) -/

/-- The current code (`HashColumn::get`: current index, THEN `reindex.read()`, then the older
    indexes): a reader parked between the two lookups while the last reindex batch is
    published and the old index dropped reports a live key as absent. -/
theorem C05_F11_counterexample :
    ∃ as : List (Idx.IAct Nat),
      let s0 : Idx.ISt Nat Nat :=
        Idx.ISt.init (fun _ => none) (fun k => if k = 7 then some 42 else none)
      let s := Idx.irun [7] Idx.unpatched 7 s0 as
      s.finished = true ∧ s.found = none ∧ s.current 7 = some 42 :=
  ⟨[.reader, .copy 7, .dropIndex, .reader, .reader, .reader, .reader], by decide⟩

/-- With `reindex.read()` taken before the first lookup a live key is always found (in
    `current` or in `older`), whatever the reindex worker does. -/
theorem C05_index_lookup_stable {A : Type} (keys : List K) (key : K) (a : A)
    (current older : K → Option A) (hk : key ∈ keys)
    (hc : ∀ x, current key = some x → x = a) (ho : ∀ x, older key = some x → x = a)
    (hl : current key = some a ∨ older key = some a) (as : List (Idx.IAct K)) :
    let s := Idx.irun keys Idx.patched key (Idx.ISt.init current older) as
    (s.finished = true → s.found = some a) ∧ (s.found = none ∨ s.found = some a) ∧
    (s.current key = some a ∨ ∃ o, s.older = some o ∧ o key = some a) := by
  intro s
  have hi := (Idx.IInv.init key a current older hc ho hl).run hk as
  exact ⟨fun hf => hi.pc3 (by have := hi.fin hf; omega), hi.found, hi.live⟩

/-! ### non-vacuity -/
section Example
private def kd : Nat → Kind := fun _ => .plain

/-- Two readers against one writer and the workers: reader 0 hits the STALE overlay entry of a
    published commit, reader 1 begins while the record is half enacted; later reads go through
    log overlay and tables. -/
private def sched : List (CAct Nat Nat) :=
  [.commit [.set 1 10, .set 2 20], .rBegin 0 1, .pop, .publish, .cleanOverlay, .rOverlay 0,
   .flush, .enactWrite, .rBegin 1 2, .rOverlay 1, .endRead, .enactWrite, .endRead, .rEnd 0,
   .rEnd 1, .cleanOverlay, .commit [.set 1 11], .rBegin 0 2, .rOverlay 0, .pop, .publish,
   .rLog 0, .flush, .enactWrite, .rTable 0, .rEnd 0, .rBegin 1 1, .rOverlay 1, .rEnd 1,
   .cleanOverlay, .rBegin 0 1, .rOverlay 0, .rLog 0, .rEnd 0]

example : (crun kd 2 CSt.init sched).reads =
    [⟨0, 1, some 10, 1, 1⟩, ⟨1, 2, some 20, 1, 1⟩, ⟨0, 2, some 20, 2, 2⟩, ⟨1, 1, some 11, 2, 2⟩,
     ⟨0, 1, some 11, 2, 2⟩] ∧
    (crun kd 2 CSt.init sched).hist.length = 2 ∧ (crun kd 2 CSt.init sched).nEnacted = 1 := by
  decide

/-- the hypotheses of C05_monotone / C05_atomic_visibility are satisfiable: reader 0 observed
    transaction 0 on key 1, transaction 0 also writes key 2 -/
example : lastWriter ((crun kd 2 CSt.init sched).hist.take 1) 1 = some 0 ∧
    writes ((crun kd 2 CSt.init sched).hist.getD 0 []) 2 = true := by decide

/-- the patched reader under the schedule that breaks the unpatched one: the drop is refused
    while the lock is held, the key is found -/
example :
    let s0 : Idx.ISt Nat Nat := Idx.ISt.init (fun _ => none) (fun k => if k = 7 then some 42 else none)
    let s := Idx.irun [7] Idx.patched 7 s0
      [.reader, .reader, .copy 7, .dropIndex, .reader, .reader, .dropIndex, .reader]
    s.finished = true ∧ s.found = some 42 ∧ s.older.isNone = true := by decide
end Example

end Pdb

#print axioms Pdb.C05_read_linearizable
#print axioms Pdb.C05_snapshot_order
#print axioms Pdb.C05_observed_value
#print axioms Pdb.C05_monotone
#print axioms Pdb.C05_atomic_visibility
#print axioms Pdb.C05_handover
#print axioms Pdb.C05_shadow
#print axioms Pdb.C05_F11_counterexample
#print axioms Pdb.C05_index_lookup_stable
