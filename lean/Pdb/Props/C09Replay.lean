/-
C09 (recovery part)  "Replaying index-layer log records over table files that already contain
the effects of a prefix of those records (or of half a record) yields the same state as
replaying them over the pre-crash files"   (physical redo is idempotent / absorbing)

Model: Pdb/Model/IndexReplay.lean (src/column.rs `enact_plan`, src/index.rs `enact_plan`,
`drop_index`, `trigger_reindex`).  Lemmas: Pdb/Proofs/C09Replay.lean.

  StructOK s   the queue of older index tables is strictly ascending in bits and every queued
               table has fewer bits than the current one
  WF s ops     what the planner guarantees, threaded through the states the ops are FIRST applied
               to: `drop b` only when `b` is the queue front; `idx b ..` only when `b` is live
               or `b = cur + 1` (the growth and the first write into the new table coincide)

Equality below is plain equality of states (`cur`, `queue`, all index contents, all value
slots), not an observational equivalence.

WHY THIS LEVEL.  The run theorems of Pdb/Props/C09.lean model a crash as `recover s = reopen
(enactDrop s)` on a record-boundary snapshot of the LOGICAL state: they say nothing about redoing
records over files that already hold later effects.  That is where the defect fixed by
fixes/fix-c09-replay-dropped-index.diff lived (a retained record writing into an index table that a
later, already enacted record had dropped: `validate_plan` rejected it and with it every later
record); the harness found it, the theorems could not.  `C09_replay_absorbs` is the statement that
covers it: records r_i..r_n replayed over the state after r_1..r_m (i ≤ m+1 ≤ n+1, split points at
arbitrary OP positions, so a half-enacted record is included) give the state after r_1..r_n,
including writes into a table dropped by a later record (skipped, `C09_replay_skips_dropped`),
`DropTable` of a table that is already gone (ignored) and growth records whose new table already
exists (plain write, no second `trigger_reindex`).
Scope: `WF` admits a first write into table `cur + 1` only, i.e. every table created by a growth is
written to by the same op (so "the table exists in the structure" = "its file exists", which is what
`open_index` reads).  A growth by two bits inside one record (address above `last_address`, needs
more than 2^22 slots in one value table at 16 index bits) leaves a table without file and is not
covered; the model of the logical level handles it by `Table.hasFile` in `reopen`.
Tie to the crate: harness cases `directed-replay-over-enacted` (growth record enacted, log file
retained, later records flushed only), `directed-half-enacted-growth` (image with the new index file
as the enactment leaves it, value tables and old index as before it), `directed-crash-after-drop`
(retained record writing into a dropped table), and the counters `crash.retained_enacted_*` of the
random cases (crash images in which 1..3 enacted log files are still present).
The last section ties the structure moves of the replay to the index model
(`triggerReindex` = `relaunch`, `enactDrop`), which is what `c09 crashto <n> <g>` of the driver runs.
-/
import Pdb.Proofs.C09Replay
import Pdb.Model.Index

namespace Pdb.IndexReplay

/-! ### example data -/

/-- Empty 16-bit index, nothing queued. -/
def exS0 : St := { cur := 16, queue := [], idx := fun _ _ _ => 0, vals := fun _ => 0 }

def exPre : List Op := [.idx 16 0 0 11, .val 5 100]

/-- growth to 17 bits, a write into OLD table 16 while it is queued, the drop of table 16,
later writes into 17; value slot 5 and entry (17,0,1) are overwritten with different images. -/
def exMid : List Op :=
  [.idx 17 0 1 21, .idx 16 0 0 12, .val 5 101, .idx 17 0 1 22, .drop 16, .val 5 102,
   .idx 17 0 1 23]

def exPost : List Op := [.idx 17 3 2 31, .val 6 7, .idx 18 0 0 41, .drop 17]

def exILocs : List (Nat × Nat × Nat) := [(16, 0, 0), (17, 0, 1), (17, 3, 2), (18, 0, 0), (16, 0, 1)]
def exVLocs : List Nat := [5, 6]

/-- Ill-formed: `drop 17` while the front is 16. -/
def exBadS : St := { cur := 18, queue := [16, 17], idx := fun _ _ _ => 0, vals := fun _ => 0 }
def exBad : List Op := [.drop 17, .drop 16]

/-! ### structure invariant -/

theorem C09_structOK_applyOp (s : St) (o : Op) (h : StructOK s) : StructOK (applyOp s o) :=
  structOK_applyOp h o

example : StructOK exS0 ∧ StructOK (applyOp exS0 (.idx 19 0 0 1)) ∧
    (applyOp exS0 (.idx 19 0 0 1)).cur = 19 ∧ (applyOp exS0 (.idx 19 0 0 1)).queue = [16, 17, 18] := by
  decide

theorem C09_structOK_replayOps (s : St) (ops : List Op) (h : StructOK s) :
    StructOK (replayOps s ops) :=
  structOK_replayOps h ops

example : StructOK (replayOps exS0 (exPre ++ exMid ++ exPost)) := by decide

/-! ### (T1) replay is idempotent -/

theorem C09_replay_idempotent (X : St) (mid : List Op) (hX : StructOK X) (hw : WF X mid) :
    replayOps (replayOps X mid) mid = replayOps X mid :=
  replay_idempotent hX hw

-- hypotheses are satisfiable, and the second pass really passes through different states
example : StructOK exS0 ∧ WF exS0 (exPre ++ exMid) ∧
    (replayOps (replayOps exS0 (exPre ++ exMid)) [.idx 16 0 0 11, .val 5 100]).observe exILocs exVLocs
      ≠ (replayOps exS0 (exPre ++ exMid)).observe exILocs exVLocs := by
  decide

example : replayOps (replayOps exS0 (exPre ++ exMid)) (exPre ++ exMid)
    = replayOps exS0 (exPre ++ exMid) :=
  C09_replay_idempotent _ _ (by decide) (by decide)

/-! ### (T2) replay absorbs an already enacted prefix (arbitrary op positions) -/

theorem C09_replay_absorbs (S0 : St) (pre mid post : List Op) (h0 : StructOK S0)
    (hw : WF S0 (pre ++ mid ++ post)) :
    replayOps (replayOps S0 (pre ++ mid)) (mid ++ post) = replayOps S0 (pre ++ mid ++ post) :=
  replay_absorbs h0 pre mid post hw

-- (E1) `exMid` contains the write into table 16 AND its later `drop 16` (so the write is skipped
-- on replay), and writes value slot 5 / entry (17,0,1) several times.
example : StructOK exS0 ∧ WF exS0 (exPre ++ exMid ++ exPost) := by decide

-- both sides of T2, evaluated
example :
    (replayOps (replayOps exS0 (exPre ++ exMid)) (exMid ++ exPost)).observe exILocs exVLocs
      = (18, [], [12, 23, 31, 41, 0], [102, 7])
    ∧ (replayOps exS0 (exPre ++ exMid ++ exPost)).observe exILocs exVLocs
      = (18, [], [12, 23, 31, 41, 0], [102, 7]) := by
  decide

-- the state the replay starts from (table 16 already dropped) ...
example : (replayOps exS0 (exPre ++ exMid)).observe exILocs exVLocs
    = (17, [], [12, 23, 0, 0, 0], [102, 0]) := by decide

-- ... during the replay old images are written over newer ones (slot 5: 101 over 102, entry
-- (17,0,1): 22 over 23) and restored later; the write into dropped table 16 is skipped, table
-- 16 is not re-created, `drop 16` is ignored.
example : (replayOps (replayOps exS0 (exPre ++ exMid)) (exMid.take 5)).observe exILocs exVLocs
    = (17, [], [12, 22, 0, 0, 0], [101, 0]) := by decide

example : replayOps (replayOps exS0 (exPre ++ exMid)) (exMid ++ exPost)
    = replayOps exS0 (exPre ++ exMid ++ exPost) :=
  C09_replay_absorbs _ _ _ _ (by decide) (by decide)

-- a split in the middle of a "record": only the first three ops of `exMid` were enacted
example : replayOps (replayOps exS0 (exPre ++ exMid.take 3)) (exMid.take 3 ++ (exMid.drop 3 ++ exPost))
    = replayOps exS0 (exPre ++ exMid.take 3 ++ (exMid.drop 3 ++ exPost)) :=
  C09_replay_absorbs _ _ _ _ (by decide) (by decide)

/-- Record level: replaying records `mid ++ post` over the files after `pre ++ mid`. -/
theorem C09_replayRecords_absorbs (S0 : St) (pre mid post : List Record) (h0 : StructOK S0)
    (hw : WF S0 (pre ++ mid ++ post).flatten) :
    replayRecords (replayRecords S0 (pre ++ mid)) (mid ++ post)
      = replayRecords S0 (pre ++ mid ++ post) := by
  unfold replayRecords
  rw [List.flatten_append, List.flatten_append] at hw
  rw [List.flatten_append, List.flatten_append, List.flatten_append, List.flatten_append]
  exact replay_absorbs h0 _ _ _ hw

example : replayRecords (replayRecords exS0 ([exPre] ++ [exMid.take 4, exMid.drop 4]))
      ([exMid.take 4, exMid.drop 4] ++ [exPost])
    = replayRecords exS0 ([exPre] ++ [exMid.take 4, exMid.drop 4] ++ [exPost]) :=
  C09_replayRecords_absorbs _ _ _ _ (by decide) (by decide)

/-- `replayRecords` (flattened) is the record-by-record loop of `Db::open`. -/
theorem C09_replayRecords_fold (s : St) (rs : List Record) :
    replayRecordsFold s rs = replayRecords s rs :=
  replayRecordsFold_eq s rs

example : (replayRecordsFold exS0 [exPre, exMid, exPost]).observe exILocs exVLocs
    = (18, [], [12, 23, 31, 41, 0], [102, 7]) := by decide

/-! ### (T3) the dropped-table and invalid-drop cases are exercised -/

theorem C09_replay_skips_dropped (s : St) (b : Nat) :
    (live s b = false → b < s.cur → ∀ c i e, applyOp s (.idx b c i e) = s)
    ∧ (s.queue.head? ≠ some b → applyOp s (.drop b) = s) :=
  ⟨fun hl hlt c i e => applyIdx_dropped hl hlt c i e, fun h => dropFront_notfront h⟩

-- in E1, after `exPre ++ exMid` table 16 is gone: the replayed write into it and the replayed
-- `drop 16` are no-ops
example : live (replayOps exS0 (exPre ++ exMid)) 16 = false
    ∧ 16 < (replayOps exS0 (exPre ++ exMid)).cur
    ∧ (replayOps exS0 (exPre ++ exMid)).queue.head? ≠ some 16
    ∧ Op.idx 16 0 0 12 ∈ exMid ∧ Op.drop 16 ∈ exMid := by decide

example : applyOp (replayOps exS0 (exPre ++ exMid)) (.idx 16 0 0 12)
    = replayOps exS0 (exPre ++ exMid) :=
  (C09_replay_skips_dropped _ 16).1 (by decide) (by decide) 0 0 12

/-- The growth case: with enough fuel `growTo` stops exactly at `b` (all new tables zeroed). -/
theorem C09_growTo_cur (s : St) (b : Nat) (h : s.cur ≤ b) :
    (growTo (b - s.cur) s b).cur = b :=
  growTo_cur _ s b h (Nat.le_refl _)

example : (growTo (19 - exS0.cur) exS0 19).cur = 19 ∧ (growTo (19 - exS0.cur) exS0 19).queue = [16, 17, 18] := by
  decide

/-! ### (E2) well-formedness matters -/

-- `drop 17` while the front is 16 is ignored the first time (then `drop 16` makes 17 the front),
-- but takes effect the second time.
example : StructOK exBadS ∧ ¬ WF exBadS exBad
    ∧ (replayOps exBadS exBad).queue = [17]
    ∧ (replayOps (replayOps exBadS exBad) exBad).queue = []
    ∧ replayOps (replayOps exBadS exBad) exBad ≠ replayOps exBadS exBad := by
  refine ⟨by decide, by decide, by decide, by decide, ?_⟩
  intro h
  have : (replayOps (replayOps exBadS exBad) exBad).queue = (replayOps exBadS exBad).queue := by
    rw [h]
  revert this
  decide

/-! ### tie to the index model: the structure moves of the replay are `triggerReindex` (the
`relaunch` of `crashto`) and `enactDrop` of Pdb/Model/Index.lean -/

/-- bits of the current table and of the queued tables of a column of the index model -/
def structOf (s : Pdb.Index.Col) : Nat × List Nat := (s.current.bits, s.older.map (·.bits))

theorem C09_replay_reindex_is_trigger (r : St) (s : Pdb.Index.Col)
    (h : (r.cur, r.queue) = structOf s) :
    ((reindex r).cur, (reindex r).queue) = structOf (Pdb.Index.triggerReindex s) := by
  simp only [structOf, Prod.mk.injEq] at h
  simp [reindex, structOf, Pdb.Index.triggerReindex, Pdb.Index.Table.new, h.1, h.2]

theorem C09_replay_drop_is_enactDrop (r : St) (s : Pdb.Index.Col) (t0 : Pdb.Index.Table)
    (rest : List Pdb.Index.Table) (hol : s.older = t0 :: rest)
    (hp : s.progress = Pdb.Gen.total_chunks t0.bits) (h : (r.cur, r.queue) = structOf s) :
    ((dropFront r t0.bits).cur, (dropFront r t0.bits).queue) = structOf (Pdb.Index.enactDrop s) := by
  simp only [structOf, Prod.mk.injEq] at h
  have hd : Pdb.Index.dropPending s = true := by
    simp [Pdb.Index.dropPending, hol, hp]
  simp [dropFront, structOf, Pdb.Index.enactDrop, hd, h.1, h.2, hol]

end Pdb.IndexReplay

#print axioms Pdb.IndexReplay.C09_replay_reindex_is_trigger
#print axioms Pdb.IndexReplay.C09_replay_drop_is_enactDrop
#print axioms Pdb.IndexReplay.C09_structOK_applyOp
#print axioms Pdb.IndexReplay.C09_structOK_replayOps
#print axioms Pdb.IndexReplay.C09_replay_idempotent
#print axioms Pdb.IndexReplay.C09_replay_absorbs
#print axioms Pdb.IndexReplay.C09_replayRecords_absorbs
#print axioms Pdb.IndexReplay.C09_replayRecords_fold
#print axioms Pdb.IndexReplay.C09_replay_skips_dropped
#print axioms Pdb.IndexReplay.C09_growTo_cur
