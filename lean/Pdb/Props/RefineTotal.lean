/-
R3 / R4, TOTALITY of the physical plain hash column (closes the item "the physical column has no
totality theorem" of DESIGN 13.5 for plain hash columns).

`R3_composed_full` (Pdb/Props/Refine.lean) is conditional on the model's own trajectory:
`pRun .. = .ok p'` (no value-table error `WrErr`, no panic, no exhausted loop fuel) and
`PAllBounded ..` (physical limits in every state the run goes through).  Here both are DERIVED
from hypotheses on the INPUT alone:

`PInputOK cmp thr U cfg K b0 acts`
    tail      the 26-byte key tails are 26-byte numbers (`k.tail < 2^208`)
    input     `Index.InputOK U cfg K b0 (acts.map (mirror cmp thr))`: C09's input hypotheses
              (Pdb/Props/C09Total.lean) on the MIRRORED action list, which is a function of the
              action list, the compressor and the threshold alone (`mirror`: a `set k v` becomes
              `set k tier ext code` with `tier = (tierFor cmp thr false (tkey k) v).2` and
              `ext` = number of parts of the stored value minus one):
                A-tail (`Univ U`), the fixed code, 16 ≤ b0 ≤ K, K + #relaunch ≤ 49,
                Σ_set parts + 1 ≤ 2^(K+6)  (slot numbers fit the address bits of an index entry
                of a table with K bits: the "physical limit"; it also bounds the length of every
                value: a value of `n` parts costs `n`),
                at most 64 index-inserting `set`s per K-bit class of key prefixes (`nIns`).
No hypothesis mentions a state of the model.  `pInputB` is the executable form of the whole
hypothesis for `U` = the keys that occur in the history (`pInputB_sound`).

Results:
  `R3_total`            `pRun cmp thr (PCol.init cfg b0) acts = .ok p'` for some `p'`, and
                        `PAllBounded` holds: no `WrErr`, no panic outcome, no divergence
  `R3_no_error_total`   the three error outcomes spelled out
  `R3_runHyp_of_input`  the run hypotheses `PRunHypFull` of Pdb/Props/Refine.lean follow
  `R3_composed_total`   `pGet = Pdb.spec` for every key of `U`, no hypothesis about the trajectory
  `R3_simulation_total` the final physical state represents the final state of the index model's
                        (total) run; C09 / C14 invariants hold of it
  `R4_record_total`     record boundaries: history, then one more transaction

Where an error outcome would be reachable from legal inputs this would be a finding; there is
none: the proof is the backward direction of the simulation (`prog_step`,
Pdb/Proofs/RefineTotal.lean: a step of the index model that succeeds within `Bounded` is
matched by a successful physical step), composed with `Index.runA_total`.

Tie to the code: `pRun` / `pGet` are the executable definitions of Pdb/Model/Refine.lean that the
`c06` correspondence (driver command `c06 r3 ..`) runs against the real crate; with this
delivery the driver prints `err:model-<outcome>` for a physical run that is not `.ok`
(see INTEGRATE.md), so that a totality failure on a harness-generated history is a disagreement.
-/
import Pdb.Proofs.RefineTotal
import Pdb.Props.Refine
import Pdb.Props.C09Total

namespace Pdb.Refine
open Pdb.Gen Pdb.Index Pdb.ValueTable

/-- Hypotheses on the INPUT (universe, configuration, compressor, action list) from which the
run of the physical plain hash column is total. -/
structure PInputOK (cmp : Bytes → Bytes) (thr : Nat) (U : Key → Prop) (cfg : Cfg) (K b0 : Nat)
    (acts : List PAction) : Prop where
  tail : ∀ k, U k → k.tail < 2 ^ 208
  input : InputOK U cfg K b0 (acts.map (mirror cmp thr))

theorem PInputOK.puniv {cmp thr} {U : Key → Prop} {cfg : Cfg} {K b0 : Nat} {acts : List PAction}
    (h : PInputOK cmp thr U cfg K b0 acts) : PUniv U := ⟨h.input.univ, h.tail⟩

theorem PInputOK.keys {cmp thr} {U : Key → Prop} {cfg : Cfg} {K b0 : Nat} {acts : List PAction}
    (h : PInputOK cmp thr U cfg K b0 acts) : ∀ a ∈ acts, PActKeys U a := by
  intro a ha
  have := h.input.actsOK (mirror cmp thr a) (List.mem_map_of_mem ha)
  cases a with
  | set k v => exact this.1
  | del k => exact this
  | reindex => trivial
  | enact => trivial
  | reopen => trivial
  | relaunch => trivial

theorem PInputOK.bits49 {cmp thr} {U : Key → Prop} {cfg : Cfg} {K b0 : Nat} {acts : List PAction}
    (h : PInputOK cmp thr U cfg K b0 acts) : 16 ≤ b0 ∧ b0 ≤ 49 := by
  have h1 := h.input.bits
  have h2 := h.input.room
  omega

/-- the simulation, total: from the input hypotheses the physical run succeeds, stays within the
physical limits, and its final state represents the final state of the index model's run -/
theorem total_sim {cmp thr} {U : Key → Prop} {cfg : Cfg} {K b0 : Nat} {acts : List PAction}
    (h : PInputOK cmp thr U cfg K b0 acts) :
    ∃ p' s', pRun cmp thr (PCol.init cfg b0) acts = .ok p' ∧
      PAllBounded cmp thr (PCol.init cfg b0) acts ∧
      runA (Col.init cfg b0) (acts.map (mirror cmp thr)) = .ok s' ∧
      Sim cmp thr p' s' ∧
      Good U s' (Index.spec (fun _ => none) (acts.map (mirror cmp thr))) := by
  obtain ⟨s', hr, hb⟩ := C09_run_total U cfg K b0 _ h.input
  have hK : K ≤ 49 := by have := h.input.room; omega
  obtain ⟨p', e1, e2, e3, e4⟩ := prog_run h.puniv acts (PCol.init cfg b0) (Col.init cfg b0) s'
    (fun _ => none) (init_sim cmp thr cfg b0) (init_good U cfg b0 h.bits49.1 h.bits49.2)
    h.input.exact h.input.grow h.keys (PSmall_of_slots acts K hK h.input.slots)
    (init_pbounded cfg b0 h.bits49.2) hr hb
  exact ⟨p', s', e1, e2, hr, e3, e4⟩

/-- R3, TOTALITY: from hypotheses on the input alone the run of the physical column from the empty
column is `.ok` - no `WrErr` of a value table, no panic outcome, no divergence - and every state
it goes through is within the physical limits. -/
theorem R3_total (cmp : Bytes → Bytes) (thr : Nat) (U : Key → Prop) (cfg : Cfg) (K b0 : Nat)
    (acts : List PAction) (h : PInputOK cmp thr U cfg K b0 acts) :
    ∃ p', pRun cmp thr (PCol.init cfg b0) acts = .ok p' ∧
      PAllBounded cmp thr (PCol.init cfg b0) acts := by
  obtain ⟨p', _, e1, e2, _⟩ := total_sim h
  exact ⟨p', e1, e2⟩

/-- the error outcomes of `PRes` are unreachable from legal inputs -/
theorem R3_no_error_total (cmp : Bytes → Bytes) (thr : Nat) (U : Key → Prop) (cfg : Cfg)
    (K b0 : Nat) (acts : List PAction) (h : PInputOK cmp thr U cfg K b0 acts) :
    pRun cmp thr (PCol.init cfg b0) acts ≠ .panic ∧
    pRun cmp thr (PCol.init cfg b0) acts ≠ .diverge ∧
    ∀ e, pRun cmp thr (PCol.init cfg b0) acts ≠ .vtErr e := by
  obtain ⟨p', e1, _⟩ := R3_total cmp thr U cfg K b0 acts h
  rw [e1]
  exact ⟨fun e => (by cases e), fun e => (by cases e), fun _ e => (by cases e)⟩

/-- the run hypotheses of Pdb/Props/Refine.lean follow from the input hypotheses -/
theorem R3_runHyp_of_input (cmp : Bytes → Bytes) (thr : Nat) (U : Key → Prop) (cfg : Cfg)
    (K b0 : Nat) (acts : List PAction) (h : PInputOK cmp thr U cfg K b0 acts) :
    PRunHypFull cmp thr U cfg b0 acts := by
  obtain ⟨_, _, hb⟩ := R3_total cmp thr U cfg K b0 acts h
  exact ⟨h.puniv, h.input.exact, h.input.grow, h.bits49, h.keys, hb⟩

/-- R3 composed with totality: a plain hash column whose index is the page model and whose value
tables are byte-level `VT`s HAS a final state after every legal history, and in it every key
returns the value `Pdb.spec` says.  No hypothesis about the model's own trajectory. -/
theorem R3_composed_total (cmp : Bytes → Bytes) (decomp : Bytes → Option Bytes) (thr : Nat)
    (U : Key → Prop) (cfg : Cfg) (K b0 : Nat) (acts : List PAction)
    (hA : ∀ v, decomp (cmp v) = some v)
    (h : PInputOK cmp thr U cfg K b0 acts)
    (txs : List (List (Pdb.Op Key Bytes))) (hops : acts.flatMap PAction.ops = txs.flatten) :
    ∃ p', pRun cmp thr (PCol.init cfg b0) acts = .ok p' ∧
      ∀ k, U k → (pGet decomp p' k).map (fun v => (v, 1)) = Pdb.spec (fun _ => Pdb.Kind.plain) txs k := by
  obtain ⟨p', hr, _⟩ := R3_total cmp thr U cfg K b0 acts h
  exact ⟨p', hr, fun k hk => R3_composed_full' cmp decomp thr U cfg b0 acts hA
    (R3_runHyp_of_input cmp thr U cfg K b0 acts h) p' hr txs hops k hk⟩

/-- the total run is, state by state, the mirrored run of the index model; the C09 / C14
invariants hold of the state the final physical state represents -/
theorem R3_simulation_total (cmp : Bytes → Bytes) (thr : Nat) (U : Key → Prop) (cfg : Cfg)
    (K b0 : Nat) (acts : List PAction) (h : PInputOK cmp thr U cfg K b0 acts) :
    ∃ p' s' m, pRun cmp thr (PCol.init cfg b0) acts = .ok p' ∧
      runA (Col.init cfg b0) (acts.map (mirror cmp thr)) = .ok s' ∧
      Sim cmp thr p' s' ∧ IdxInv U s' ∧ Index.SlotInv s' ∧ Abs U s' m := by
  obtain ⟨p', s', e1, _, e3, e4, e5⟩ := total_sim h
  exact ⟨p', s', _, e1, e3, e4, e5.idx, e5.slots, e5.abs⟩

/-- R4 with totality: for a legal history followed by the actions of one more transaction both
runs exist, and the abstraction of the second state is `applyRec` of P1's logical record of the
transaction applied to the abstraction of the first. -/
theorem R4_record_total (cmp : Bytes → Bytes) (decomp : Bytes → Option Bytes) (thr : Nat)
    (U : Key → Prop) (cfg : Cfg) (K b0 : Nat) (hist txActs : List PAction)
    (hA : ∀ v, decomp (cmp v) = some v)
    (h : PInputOK cmp thr U cfg K b0 (hist ++ txActs)) :
    ∃ p p', pRun cmp thr (PCol.init cfg b0) hist = .ok p ∧ pRun cmp thr p txActs = .ok p' ∧
      ∀ k, U k → pAbs decomp p' k =
        Pdb.applyRec (pAbs decomp p)
          (Pdb.planRec (fun _ => Pdb.Kind.plain) (pAbs decomp p) (txActs.flatMap PAction.ops)) k := by
  obtain ⟨p', hr, _⟩ := R3_total cmp thr U cfg K b0 _ h
  obtain ⟨p, h1, h2⟩ := pRun_append cmp thr hist txActs _ p' hr
  exact ⟨p, p', h1, h2, fun k hk => R4_record_refines_full cmp decomp thr U cfg b0 hist txActs hA
    (R3_runHyp_of_input cmp thr U cfg K b0 _ h) p p' h1 h2 k hk⟩

/-! ## the input hypotheses as an executable check on the action list -/

/-- the keys that occur in a history -/
def pKeys : List PAction → List Key
  | [] => []
  | .set k _ :: as => k :: pKeys as
  | .del k :: as => k :: pKeys as
  | _ :: as => pKeys as

/-- u64 prefixes, 26-byte tails, distinct keys have distinct tails (A-tail) -/
def keysOKB (ks : List Key) : Bool :=
  ks.all (fun k => decide (k.pre < 2 ^ 64) && decide (k.tail < 2 ^ 208)) &&
  ks.all (fun k1 => ks.all (fun k2 => decide (k1.tail = k2.tail → k1 = k2)))

/-- THE INPUT HYPOTHESIS as a Bool function of (compressor, threshold, `K`, initial index bits,
action list), for the universe of the keys that occur in the list: key shape and A-tail, index
bits, room for the re-launched growths, slot numbers fit the address bits (`nSlots`), at most 64
index-inserting `set`s per `K`-bit class (`classesB`). -/
def pInputB (cmp : Bytes → Bytes) (thr : Nat) (K b0 : Nat) (acts : List PAction) : Bool :=
  keysOKB (pKeys acts) &&
  decide (16 ≤ b0 ∧ b0 ≤ K) &&
  decide (K + nRelaunch (acts.map (mirror cmp thr)) ≤ 49) &&
  decide (nSlots (acts.map (mirror cmp thr)) + 1 ≤ 2 ^ (K + 6)) &&
  classesB K (acts.map (mirror cmp thr))

theorem mem_pKeys_set : ∀ (acts : List PAction) (k : Key) (v : Bytes), .set k v ∈ acts → k ∈ pKeys acts := by
  intro acts
  induction acts with
  | nil => intro k v h; cases h
  | cons a as ih =>
    intro k v h
    rcases List.mem_cons.mp h with e | e
    · subst e; simp [pKeys]
    · have := ih k v e
      cases a <;> simp [pKeys, this]

theorem mem_pKeys_del : ∀ (acts : List PAction) (k : Key), .del k ∈ acts → k ∈ pKeys acts := by
  intro acts
  induction acts with
  | nil => intro k h; cases h
  | cons a as ih =>
    intro k h
    rcases List.mem_cons.mp h with e | e
    · subst e; simp [pKeys]
    · have := ih k e
      cases a <;> simp [pKeys, this]

/-- soundness of the executable check: for the fixed code (`exact`, `growOnMove`) an action list
that passes `pInputB` satisfies `PInputOK` with `U` = the keys of the list -/
theorem pInputB_sound (cmp : Bytes → Bytes) (thr : Nat) (cfg : Cfg) (K b0 : Nat)
    (acts : List PAction) (hex : cfg.exact = true) (hgrow : cfg.growOnMove = true)
    (h : pInputB cmp thr K b0 acts = true) :
    PInputOK cmp thr (fun k => k ∈ pKeys acts) cfg K b0 acts := by
  simp only [pInputB, keysOKB, Bool.and_eq_true, decide_eq_true_eq, List.all_eq_true] at h
  obtain ⟨⟨⟨⟨⟨hk1, hk2⟩, hbits⟩, hroom⟩, hslots⟩, hcls⟩ := h
  refine ⟨fun k hk => (hk1 k hk).2, ⟨⟨fun k hk => (hk1 k hk).1, fun k1 k2 h1 h2 => hk2 k1 h1 k2 h2⟩,
    hex, hgrow, hbits, hroom, ?_, hslots, classesB_sound K _ hcls⟩⟩
  intro a ha
  obtain ⟨b, hb, rfl⟩ := List.mem_map.mp ha
  cases b with
  | set k v => exact ⟨mem_pKeys_set acts k v hb, tier_lt cmp thr (tkey k) v⟩
  | del k => exact mem_pKeys_del acts k hb
  | reindex => trivial
  | enact => trivial
  | reopen => trivial
  | relaunch => trivial

/-- totality from the executable check -/
theorem R3_total_of_check (cmp : Bytes → Bytes) (thr : Nat) (cfg : Cfg) (K b0 : Nat)
    (acts : List PAction) (hex : cfg.exact = true) (hgrow : cfg.growOnMove = true)
    (h : pInputB cmp thr K b0 acts = true) :
    ∃ p', pRun cmp thr (PCol.init cfg b0) acts = .ok p' ∧
      PAllBounded cmp thr (PCol.init cfg b0) acts :=
  R3_total cmp thr _ cfg K b0 acts (pInputB_sound cmp thr cfg K b0 acts hex hgrow h)

/-! ## non-vacuity

`exHist ++ exTx` (Pdb/Props/Refine.lean): three inserts, two keys colliding on all 50 index-visible
bits, a compressed value, a tier move, a removal, a reindex batch, a re-launched growth, a
re-insert, enact, reopen.  `exHistM`: the same kind of history with values of 33000 and 40000
bytes (multipart tier 255, chains of 9 and 10 slots), an overwrite in place that shortens the
chain and a tier move out of the multipart tier. -/

theorem exPInputB : pInputB exCmpR 0 20 16 (exHist ++ exTx) = true := by
  set_option maxRecDepth 100000 in decide +kernel

theorem exPInput : PInputOK exCmpR 0 (fun k => k ∈ pKeys (exHist ++ exTx)) ⟨true, true, false⟩ 20 16
    (exHist ++ exTx) :=
  pInputB_sound exCmpR 0 _ 20 16 _ rfl rfl exPInputB

example := R3_total exCmpR 0 _ ⟨true, true, false⟩ 20 16 (exHist ++ exTx) exPInput
example := R3_no_error_total exCmpR 0 _ ⟨true, true, false⟩ 20 16 (exHist ++ exTx) exPInput
example := R3_composed_total exCmpR exDecompR 0 _ ⟨true, true, false⟩ 20 16 (exHist ++ exTx)
  exCmpR_ok exPInput exPTxs rfl
example := R4_record_total exCmpR exDecompR 0 _ ⟨true, true, false⟩ 20 16 exHist exTx exCmpR_ok exPInput
/- the universe is not empty and the conclusion not trivial: the state the theorem produces is
`exPFinal`, and `exK1` (moved to a larger tier) reads its last value there -/
example : Index.exK1 ∈ pKeys (exHist ++ exTx) ∧ Index.exK2 ∈ pKeys (exHist ++ exTx) := by
  constructor <;> decide +kernel
set_option maxRecDepth 100000 in
example : ∃ p', pRun exCmpR 0 (PCol.init ⟨true, true, false⟩ 16) (exHist ++ exTx) = .ok p' ∧
    pGet exDecompR p' Index.exK1 = some (List.replicate 20 5) := by
  obtain ⟨p', hr, _⟩ := R3_total exCmpR 0 _ ⟨true, true, false⟩ 20 16 (exHist ++ exTx) exPInput
  refine ⟨p', hr, ?_⟩
  have e := (pRunChecked_sound _ _ _ _ _ exPRun).1
  rw [e] at hr
  injection hr with hr
  subst hr
  decide +kernel

/-- multipart values (tier 255) satisfy the input hypotheses too -/
theorem exPInputBM : pInputB exCmpR 0 20 16 exHistM = true := by
  set_option maxRecDepth 100000 in decide +kernel

theorem exPInputM : PInputOK exCmpR 0 (fun k => k ∈ pKeys exHistM) ⟨true, true, false⟩ 20 16 exHistM :=
  pInputB_sound exCmpR 0 _ 20 16 _ rfl rfl exPInputBM

example := R3_total exCmpR 0 _ ⟨true, true, false⟩ 20 16 exHistM exPInputM
example := R3_composed_total exCmpR exDecompR 0 _ ⟨true, true, false⟩ 20 16 exHistM
  exCmpR_ok exPInputM exPTxsM rfl
example : nSlots (exHistM.map (mirror exCmpR 0)) = 20 := by
  set_option maxRecDepth 100000 in decide +kernel

/-- the check is not trivially true: 65 distinct keys of one 49-bit class, written once each, are
refused for every `K ≤ 49` by the class bound (this is C09 finding F28's shape) -/
def exTooMany : List PAction :=
  (List.range 65).map (fun i => PAction.set ⟨0x1234000000000000 + i, 5000 + i⟩ [1])

example : pInputB exCmpR 0 49 16 exTooMany = false := by
  set_option maxRecDepth 100000 in decide +kernel

end Pdb.Refine

#print axioms Pdb.Refine.prog_step
#print axioms Pdb.Refine.prog_run
#print axioms Pdb.Refine.total_sim
#print axioms Pdb.Refine.R3_total
#print axioms Pdb.Refine.R3_no_error_total
#print axioms Pdb.Refine.R3_runHyp_of_input
#print axioms Pdb.Refine.R3_composed_total
#print axioms Pdb.Refine.R3_simulation_total
#print axioms Pdb.Refine.R4_record_total
#print axioms Pdb.Refine.pInputB_sound
#print axioms Pdb.Refine.R3_total_of_check
#print axioms Pdb.Refine.exPInput
#print axioms Pdb.Refine.exPInputM
