/-
R5, TOTALITY of the physical hash column of every kind (plain / preimage / ref-counted): closes
"R5 and the physical column have no totality theorem" (DESIGN 13.5) for R5.

`R5_rc_refines` / `R5_record_refines` / `R5_simulation` (Pdb/Props/RefineRc.lean) are conditional
on the model's own trajectory (`hrun : rRun .. = .ok p'`, `hb : RAllBounded ..`).  Here both are
DERIVED from hypotheses on the INPUT alone:

`RInputOK kind cmp thr U cfg K b0 acts`
    tail    the key tails are 26-byte numbers
    keys    the keys of the actions lie in `U`
    input   `Index.InputOK U cfg K b0 (rMirror kind cmp thr (fun _ => none) acts)`: C09's input
            hypotheses (A-tail, the fixed code, 16 ≤ b0 ≤ K, K + #relaunch ≤ 49, slot numbers fit
            the address bits, at most 64 index-inserting `set`s per K-bit class) on the MIRRORED
            action list.  `rMirror` (Pdb/Proofs/RefineRcTotal.lean) is a function of the action
            list and P1's SPECIFICATION table (`Pdb.applyOps` threaded along the list): a `Set`
            of an absent key is an index insertion, a `Set` / `Reference` of a present key is
            none (counter bump or `Skipped`), a `Dereference` is an index removal on a preimage
            column, and on a ref-counted column only when the specified counter is 1 (and not
            locked).  No state of the model is mentioned.
`rInputB` is the executable form for `U` = the keys that occur in the history (`rInputB_sound`).

Results (kinds preimage and rc; for the plain kind `R5_total_plain` reduces to `R3_total`):
  `R5_total`             `rRun kind cmp thr (rInit kind cfg b0) acts = .ok p'` for some `p'` and
                         `RAllBounded`: no `WrErr`, no panic outcome, no divergence
  `R5_no_error_total`    the three error outcomes spelled out
  `R5_composed_total`    `rGet` (value AND stored counter) `= Pdb.spec` on `U`, no hypothesis
                         about the model's trajectory
  `R5_record_total`      record boundaries (R4 for every kind) with totality
  `R5_simulation_total`  the final state represents a good state of the index model

No error outcome is reachable from legal inputs (no finding): the proof is the backward
simulation `rprog_step` carrying the invariants of C09's totality proof; a counter update is a
stutter step of the index model.

Tie to the code: `rRun` / `rGet` are the definitions the `r5` correspondence runs against the real
crate (kinds plain, preimage, rc; stored counters read from the real slots); the driver command
`r5 total` (this delivery) prints `err:model-<outcome>` when any step of the model's physical run
was not `.ok`, and the harness emits it at the end of every case with observed `ok`.
-/
import Pdb.Proofs.RefineRcTotal
import Pdb.Props.RefineRc
import Pdb.Props.RefineTotal

namespace Pdb.RefineRc
open Pdb.Gen Pdb.Index Pdb.ValueTable Pdb.Refine

/-- Hypotheses on the INPUT from which the run of the physical hash column of kind `kind` is
total. -/
structure RInputOK (kind : Pdb.Kind) (cmp : Bytes → Bytes) (thr : Nat) (U : Key → Prop) (cfg : Cfg)
    (K b0 : Nat) (acts : List RAction) : Prop where
  tail : ∀ k, U k → k.tail < 2 ^ 208
  keys : ∀ a ∈ acts, RActKeys U a
  input : InputOK U cfg K b0 (rMirror kind cmp thr (fun _ => none) acts)

theorem RInputOK.puniv {kind cmp thr} {U : Key → Prop} {cfg : Cfg} {K b0 : Nat} {acts : List RAction}
    (h : RInputOK kind cmp thr U cfg K b0 acts) : PUniv U := ⟨h.input.univ, h.tail⟩

theorem RInputOK.bits49 {kind cmp thr} {U : Key → Prop} {cfg : Cfg} {K b0 : Nat} {acts : List RAction}
    (h : RInputOK kind cmp thr U cfg K b0 acts) : 16 ≤ b0 ∧ b0 ≤ 49 := by
  have h1 := h.input.bits
  have h2 := h.input.room
  omega

/-- the simulation, total (kinds preimage and rc) -/
theorem rtotal_sim {kind : Pdb.Kind} {cmp thr} {U : Key → Prop} {cfg : Cfg} {K b0 : Nat}
    {acts : List RAction} (hkind : kind ≠ .plain) (h : RInputOK kind cmp thr U cfg K b0 acts) :
    ∃ p' s' m', rRun kind cmp thr (rInit kind cfg b0) acts = .ok p' ∧
      RAllBounded kind cmp thr (rInit kind cfg b0) acts ∧
      SimR (refCounted kind) cmp thr p' s' ∧ Good U s' m' ∧
      liftC m' = Pdb.applyOps (fun _ => kind) (fun _ => none) (acts.flatMap RAction.ops) := by
  have hK : K ≤ 49 := by have := h.input.room; omega
  have hK16 : 16 ≤ K := by have := h.input.bits; omega
  have e : liftC (fun _ => none) = fun _ => none := rfl
  have hT := init_totL cfg K b0 (rMirror kind cmp thr (fun _ => none) acts) h.input.bits.2
    h.input.room h.input.slots h.input.classes
  have hI : RInv kind cmp thr U K (rInit kind cfg b0) (Col.init cfg b0) (fun _ => none)
      (fun _ => none) [] (rMirror kind cmp thr (liftC (fun _ => none)) acts) := by
    rw [e]
    exact ⟨rInit_sim kind cmp thr cfg b0, init_good U cfg b0 h.bits49.1 h.bits49.2,
      TierLink.init U cfg b0, hT, h.input.exact, h.input.grow⟩
  obtain ⟨p', s', m', e1, e2, e3, e4, e5⟩ := rprog_run hkind h.puniv hK16 hK acts _ _ _ _ _ h.keys hI
  rw [e] at e5
  exact ⟨p', s', m', e1, e2, e3, e4, e5⟩

/-- R5, TOTALITY (kinds preimage and rc): from hypotheses on the input alone the run of the
physical column is `.ok` - no `WrErr` of a value table, no panic outcome, no divergence - and
every state it goes through is within the physical limits. -/
theorem R5_total (kind : Pdb.Kind) (hkind : kind ≠ .plain) (cmp : Bytes → Bytes) (thr : Nat)
    (U : Key → Prop) (cfg : Cfg) (K b0 : Nat) (acts : List RAction)
    (h : RInputOK kind cmp thr U cfg K b0 acts) :
    ∃ p', rRun kind cmp thr (rInit kind cfg b0) acts = .ok p' ∧
      RAllBounded kind cmp thr (rInit kind cfg b0) acts := by
  obtain ⟨p', _, _, e1, e2, _⟩ := rtotal_sim hkind h
  exact ⟨p', e1, e2⟩

theorem R5_no_error_total (kind : Pdb.Kind) (hkind : kind ≠ .plain) (cmp : Bytes → Bytes)
    (thr : Nat) (U : Key → Prop) (cfg : Cfg) (K b0 : Nat) (acts : List RAction)
    (h : RInputOK kind cmp thr U cfg K b0 acts) :
    rRun kind cmp thr (rInit kind cfg b0) acts ≠ .panic ∧
    rRun kind cmp thr (rInit kind cfg b0) acts ≠ .diverge ∧
    ∀ e, rRun kind cmp thr (rInit kind cfg b0) acts ≠ .vtErr e := by
  obtain ⟨p', e1, _⟩ := R5_total kind hkind cmp thr U cfg K b0 acts h
  rw [e1]
  exact ⟨fun e => (by cases e), fun e => (by cases e), fun _ e => (by cases e)⟩

/-- R5 composed with totality: the column HAS a final state after every legal history, and in it
every key of `U` returns the value AND the stored reference count `Pdb.spec` says. -/
theorem R5_composed_total (kind : Pdb.Kind) (hkind : kind ≠ .plain) (cmp : Bytes → Bytes)
    (decomp : Bytes → Option Bytes) (thr : Nat) (U : Key → Prop) (cfg : Cfg) (K b0 : Nat)
    (acts : List RAction) (hA : ∀ v, decomp (cmp v) = some v)
    (h : RInputOK kind cmp thr U cfg K b0 acts)
    (txs : List (List (Pdb.Op Key Bytes))) (hops : acts.flatMap RAction.ops = txs.flatten) :
    ∃ p', rRun kind cmp thr (rInit kind cfg b0) acts = .ok p' ∧
      ∀ k, U k → rGet decomp p' k = Pdb.spec (fun _ => kind) txs k := by
  obtain ⟨p', hr, hb⟩ := R5_total kind hkind cmp thr U cfg K b0 acts h
  exact ⟨p', hr, fun k hk => R5_rc_refines kind cmp decomp thr U cfg b0 acts p' txs k hA h.puniv
    h.input.exact h.input.grow h.bits49 h.keys hb hr hops hk⟩

/-- R4 for the kinds preimage and rc with totality: for a legal history followed by the actions
of one more transaction both runs exist and the reads after are `applyRec` of P1's logical record
of the transaction applied to the reads before. -/
theorem R5_record_total (kind : Pdb.Kind) (hkind : kind ≠ .plain) (cmp : Bytes → Bytes)
    (decomp : Bytes → Option Bytes) (thr : Nat) (U : Key → Prop) (cfg : Cfg) (K b0 : Nat)
    (hist txActs : List RAction) (hA : ∀ v, decomp (cmp v) = some v)
    (h : RInputOK kind cmp thr U cfg K b0 (hist ++ txActs)) :
    ∃ p p', rRun kind cmp thr (rInit kind cfg b0) hist = .ok p ∧ rRun kind cmp thr p txActs = .ok p' ∧
      ∀ k, U k → rGet decomp p' k =
        Pdb.applyRec (rGet decomp p)
          (Pdb.planRec (fun _ => kind) (rGet decomp p) (txActs.flatMap RAction.ops)) k := by
  obtain ⟨p', hr, hb⟩ := R5_total kind hkind cmp thr U cfg K b0 _ h
  obtain ⟨p, h1, h2⟩ := rRun_append kind cmp thr hist txActs _ p' hr
  exact ⟨p, p', h1, h2, fun k hk => R5_record_refines kind cmp decomp thr U cfg b0 hist txActs p p' k
    hA h.puniv h.input.exact h.input.grow h.bits49 h.keys hb h1 h2 hk⟩

/-- the final state of the total run represents a good state of the index model (values = codes
of P1 cells) whose coded table is P1's fold of the operations -/
theorem R5_simulation_total (kind : Pdb.Kind) (hkind : kind ≠ .plain) (cmp : Bytes → Bytes)
    (thr : Nat) (U : Key → Prop) (cfg : Cfg) (K b0 : Nat) (acts : List RAction)
    (h : RInputOK kind cmp thr U cfg K b0 acts) :
    ∃ p' s' m', rRun kind cmp thr (rInit kind cfg b0) acts = .ok p' ∧
      SimR (refCounted kind) cmp thr p' s' ∧ IdxInv U s' ∧ Index.SlotInv s' ∧ Abs U s' m' ∧
      liftC m' = Pdb.applyOps (fun _ => kind) (fun _ => none) (acts.flatMap RAction.ops) := by
  obtain ⟨p', s', m', e1, _, e3, e4, e5⟩ := rtotal_sim hkind h
  exact ⟨p', s', m', e1, e3, e4.idx, e4.slots, e4.abs, e5⟩

/-! ## the plain kind is R3 -/

theorem rAllBounded_of_plain (cmp : Bytes → Bytes) (thr : Nat) : ∀ (acts : List RAction) (p : PCol),
    PBounded p → PAllBounded cmp thr p (acts.filterMap toP) → RAllBounded .plain cmp thr p acts := by
  intro acts
  induction acts with
  | nil => intro p _ _; trivial
  | cons a as ih =>
    intro p hB h
    simp only [RAllBounded, rStep_plain]
    cases hp : toP a with
    | none =>
      simp only [List.filterMap_cons, hp] at h
      intro p1 h1
      simp only [Option.elim] at h1
      injection h1 with h1
      subst h1
      exact ⟨hB, ih p hB h⟩
    | some pa =>
      simp only [List.filterMap_cons, hp, PAllBounded] at h
      intro p1 h1
      simp only [Option.elim] at h1
      obtain ⟨g1, g2⟩ := h p1 h1
      exact ⟨g1, ih p1 g1 g2⟩

/-- R5 totality for the plain kind: `Reference`s are no-ops, the rest is `R3_total`. -/
theorem R5_total_plain (cmp : Bytes → Bytes) (thr : Nat) (U : Key → Prop) (cfg : Cfg) (K b0 : Nat)
    (acts : List RAction) (h : PInputOK cmp thr U cfg K b0 (acts.filterMap toP)) :
    ∃ p', rRun .plain cmp thr (rInit .plain cfg b0) acts = .ok p' ∧
      RAllBounded .plain cmp thr (rInit .plain cfg b0) acts := by
  obtain ⟨p', hr, hb⟩ := R3_total cmp thr U cfg K b0 _ h
  refine ⟨p', ?_, ?_⟩
  · rw [rRun_plain, init_eq]; exact hr
  · rw [init_eq]
    exact rAllBounded_of_plain cmp thr acts _ (init_pbounded cfg b0 h.bits49.2) hb

/-! ## the input hypotheses as an executable check on the action list -/

/-- the keys that occur in a history -/
def rKeys : List RAction → List Key
  | [] => []
  | .set k _ :: as => k :: rKeys as
  | .deref k :: as => k :: rKeys as
  | .ref k :: as => k :: rKeys as
  | _ :: as => rKeys as

theorem rKeys_ok : ∀ (acts : List RAction), ∀ a ∈ acts, RActKeys (fun k => k ∈ rKeys acts) a := by
  intro acts
  induction acts with
  | nil => intro a h; cases h
  | cons b bs ih =>
    intro a h
    rcases List.mem_cons.mp h with e | e
    · subst e
      cases a <;> simp [RActKeys, rKeys]
    · have := ih a e
      cases a <;> cases b <;> simp_all [RActKeys, rKeys]

/-- every mirrored action is a legal action of the index model when the keys lie in `U` -/
theorem rMirror_ok (kind : Pdb.Kind) (cmp : Bytes → Bytes) (thr : Nat) (U : Key → Prop) :
    ∀ (acts : List RAction), (∀ a ∈ acts, RActKeys U a) → ∀ (T : Pdb.Tbl Key Bytes),
      ∀ ia ∈ rMirror kind cmp thr T acts, ActOK U ia := by
  intro acts
  induction acts with
  | nil => intro _ T ia h; cases h
  | cons a as ih =>
    intro hk T ia h
    simp only [rMirror, List.mem_append] at h
    rcases h with h | h
    · have hka := hk a (by simp)
      have hw : ∀ (c : Pdb.Cell Bytes) (k : Key) (op : ROp), U k →
          ia ∈ wMirror kind cmp thr c k op → ActOK U ia := by
        intro c k op hUk hm
        cases c with
        | none =>
          cases op with
          | set v =>
            simp only [wMirror, List.mem_singleton] at hm
            subst hm
            exact ⟨hUk, tier_ltR cmp thr _ (tkey k) v⟩
          | deref => simp [wMirror] at hm
          | ref => simp [wMirror] at hm
        | some c =>
          cases op with
          | set v => simp [wMirror] at hm
          | ref => simp [wMirror] at hm
          | deref =>
            simp only [wMirror] at hm
            split at hm
            · cases hm
            · simp only [List.mem_singleton] at hm
              subst hm
              exact hUk
      cases a with
      | set k v => exact hw _ k _ hka h
      | deref k => exact hw _ k _ hka h
      | ref k => exact hw _ k _ hka h
      | reindex => simp only [rMirror1, List.mem_singleton] at h; subst h; trivial
      | enact => simp only [rMirror1, List.mem_singleton] at h; subst h; trivial
      | reopen => simp only [rMirror1, List.mem_singleton] at h; subst h; trivial
      | relaunch => simp only [rMirror1, List.mem_singleton] at h; subst h; trivial
    · exact ih (fun a' ha' => hk a' (List.mem_cons_of_mem _ ha')) _ ia h

/-- THE INPUT HYPOTHESIS as a Bool function of (kind, compressor, threshold, `K`, initial index
bits, action list), for the universe of the keys that occur in the list. -/
def rInputB (kind : Pdb.Kind) (cmp : Bytes → Bytes) (thr : Nat) (K b0 : Nat) (acts : List RAction) :
    Bool :=
  keysOKB (rKeys acts) &&
  decide (16 ≤ b0 ∧ b0 ≤ K) &&
  decide (K + nRelaunch (rMirror kind cmp thr (fun _ => none) acts) ≤ 49) &&
  decide (nSlots (rMirror kind cmp thr (fun _ => none) acts) + 1 ≤ 2 ^ (K + 6)) &&
  classesB K (rMirror kind cmp thr (fun _ => none) acts)

theorem rInputB_sound (kind : Pdb.Kind) (cmp : Bytes → Bytes) (thr : Nat) (cfg : Cfg) (K b0 : Nat)
    (acts : List RAction) (hex : cfg.exact = true) (hgrow : cfg.growOnMove = true)
    (h : rInputB kind cmp thr K b0 acts = true) :
    RInputOK kind cmp thr (fun k => k ∈ rKeys acts) cfg K b0 acts := by
  simp only [rInputB, keysOKB, Bool.and_eq_true, decide_eq_true_eq, List.all_eq_true] at h
  obtain ⟨⟨⟨⟨⟨hk1, hk2⟩, hbits⟩, hroom⟩, hslots⟩, hcls⟩ := h
  exact ⟨fun k hk => (hk1 k hk).2, rKeys_ok acts,
    ⟨⟨fun k hk => (hk1 k hk).1, fun k1 k2 h1 h2 => hk2 k1 h1 k2 h2⟩, hex, hgrow, hbits, hroom,
      rMirror_ok kind cmp thr _ acts (rKeys_ok acts) _, hslots, classesB_sound K _ hcls⟩⟩

/-- totality from the executable check -/
theorem R5_total_of_check (kind : Pdb.Kind) (hkind : kind ≠ .plain) (cmp : Bytes → Bytes) (thr : Nat)
    (cfg : Cfg) (K b0 : Nat) (acts : List RAction) (hex : cfg.exact = true)
    (hgrow : cfg.growOnMove = true) (h : rInputB kind cmp thr K b0 acts = true) :
    ∃ p', rRun kind cmp thr (rInit kind cfg b0) acts = .ok p' ∧
      RAllBounded kind cmp thr (rInit kind cfg b0) acts :=
  R5_total kind hkind cmp thr _ cfg K b0 acts (rInputB_sound kind cmp thr cfg K b0 acts hex hgrow h)

/-! ## non-vacuity: the histories of Pdb/Props/RefineRc.lean

`exRcHist ++ exRcMore` (ref-counted: inserts, a `Set` of a present key = increment, references,
dereferences down to the removal, a re-insert, maintenance), `exPiHist` (preimage: a skipped
`Set`, a removal), `exMpHist ++ exMpMore` (ref-counted, multipart values of tier 255). -/

theorem exRcInputB : rInputB .rc exCmpR 0 20 16 (exRcHist ++ exRcMore) = true := by
  set_option maxRecDepth 100000 in decide +kernel

theorem exRcInput : RInputOK .rc exCmpR 0 (fun k => k ∈ rKeys (exRcHist ++ exRcMore))
    ⟨true, true, false⟩ 20 16 (exRcHist ++ exRcMore) :=
  rInputB_sound .rc exCmpR 0 _ 20 16 _ rfl rfl exRcInputB

example := R5_total .rc (by decide) exCmpR 0 _ ⟨true, true, false⟩ 20 16 _ exRcInput
example := R5_no_error_total .rc (by decide) exCmpR 0 _ ⟨true, true, false⟩ 20 16 _ exRcInput
example := R5_composed_total .rc (by decide) exCmpR exDecompR 0 _ ⟨true, true, false⟩ 20 16 _
  exCmpR_ok exRcInput exRcTxs rfl
example := R5_record_total .rc (by decide) exCmpR exDecompR 0 _ ⟨true, true, false⟩ 20 16
  exRcHist exRcMore exCmpR_ok exRcInput
/- the mirrored list is not the action list: of the writes of the history only the insertions of
absent keys and the dereferences that reach zero are index actions -/
set_option maxRecDepth 100000 in
example : (rMirror .rc exCmpR 0 (fun _ => none) (exRcHist ++ exRcMore)).length <
    (exRcHist ++ exRcMore).length ∧ Index.exK1 ∈ rKeys (exRcHist ++ exRcMore) := by
  decide +kernel

theorem exPiInputB : rInputB .preimage exCmpR 0 20 16 exPiHist = true := by
  set_option maxRecDepth 100000 in decide +kernel

theorem exPiInput : RInputOK .preimage exCmpR 0 (fun k => k ∈ rKeys exPiHist)
    ⟨true, true, false⟩ 20 16 exPiHist :=
  rInputB_sound .preimage exCmpR 0 _ 20 16 _ rfl rfl exPiInputB

example := R5_total .preimage (by decide) exCmpR 0 _ ⟨true, true, false⟩ 20 16 _ exPiInput
example := R5_composed_total .preimage (by decide) exCmpR exDecompR 0 _ ⟨true, true, false⟩ 20 16 _
  exCmpR_ok exPiInput exPiTxs rfl

theorem exMpInputB : rInputB .rc exCmpR 0 20 16 (exMpHist ++ exMpMore) = true := by
  set_option maxRecDepth 100000 in decide +kernel

theorem exMpInput : RInputOK .rc exCmpR 0 (fun k => k ∈ rKeys (exMpHist ++ exMpMore))
    ⟨true, true, false⟩ 20 16 (exMpHist ++ exMpMore) :=
  rInputB_sound .rc exCmpR 0 _ 20 16 _ rfl rfl exMpInputB

example := R5_total .rc (by decide) exCmpR 0 _ ⟨true, true, false⟩ 20 16 _ exMpInput
example := R5_composed_total .rc (by decide) exCmpR exDecompR 0 _ ⟨true, true, false⟩ 20 16 _
  exCmpR_ok exMpInput exMpTxs rfl

end Pdb.RefineRc

#print axioms Pdb.RefineRc.rprog_write
#print axioms Pdb.RefineRc.rprog_step
#print axioms Pdb.RefineRc.rprog_run
#print axioms Pdb.RefineRc.rtotal_sim
#print axioms Pdb.RefineRc.R5_total
#print axioms Pdb.RefineRc.R5_no_error_total
#print axioms Pdb.RefineRc.R5_composed_total
#print axioms Pdb.RefineRc.R5_record_total
#print axioms Pdb.RefineRc.R5_simulation_total
#print axioms Pdb.RefineRc.R5_total_plain
#print axioms Pdb.RefineRc.rInputB_sound
#print axioms Pdb.RefineRc.R5_total_of_check
#print axioms Pdb.RefineRc.exRcInput
#print axioms Pdb.RefineRc.exPiInput
#print axioms Pdb.RefineRc.exMpInput
