/-
C05 at SLOT level: point reads of a plain hash column through index chunk -> address -> value slot,
racing with the log worker and the commit worker.

`Pdb/Props/C05.lean` proves read linearizability for a KEY-level model (one table cell per key).
Two of the property's mechanisms have no counterpart there and are the subject of this file:
  * "value entries carry the key tail so a reused slot can never be returned for another key"
    (src/table.rs `for_parts`, `TableKeyQuery::Check`);
  * "table bytes being rewritten are always shadowed by a log-overlay entry", at the granularity
    of index chunks and value slots (src/index.rs, src/table.rs, src/log.rs `end_record` /
    `end_read`).

Model: Pdb/Model/ConcSlot.lean (`CSlot.SSt`, `CSlot.sstep`).  The reader is seven atomic steps
(rBegin | rOverlay | rIdxLog | rIdxFile | rValLog | rValFile | rEnd): the index lookup and the
value lookup are separate, and within each the log-overlay lookup and the file read are separate.
The commit worker writes ONE location (chunk or slot) per `enactWrite`; `endRead` removes the
record from the log overlay; the planner (`publish`) moves a value to another size tier by
allocating a new slot and FREEING the old one, and later records reuse freed slots (most recently
freed first).  All interleavings = all action lists.  `Cfg` selects the code variant:
`discipline` (reader holds `commit_overlay.read()` to the end | drops it after the overlay miss),
`keyCheck` (stored key compared | not), `exactEnd` (`end_read` removes entries `== record id`
| `>=`, the seeded change C05-c05a).

Theorems:
  C05_slot_read_linearizable   discipline + exact end_read: every completed read returns
        `spec (first q commits) key`, q = commits accepted at rBegin = at rEnd.
  C05_slot_snapshot_order      ... and snapshots are ordered by completion across all readers.
  C05_slot_never_absent        corollary: a key present in that specification is never reported
        absent (and the value is the specified one).
  C05_slot_key_check           BOTH disciplines, both end_read variants, key check on: a value a
        read returns was committed under the reader's key, and if it came out of slot A the
        content read from A carried the reader's key: a reused slot is never returned for
        another key.
  C05_slot_shadow              BOTH disciplines: a file location differs from the image of the
        published records only while a logged record covers it; the view (log overlay over
        files) IS that image, and it is unchanged by flush / enactWrite / endRead.
  C05_slot_view_represents     BOTH disciplines: the atomic lookup through the view returns the
        key-level specification of the published commits (index entries and slots are
        consistent, distinct keys own distinct slots, the allocator never hands out an occupied
        slot: `CSlot.Rep`).
  C05_slot_early_release_counterexample   discipline dropped after the overlay miss: the schedule
        "reader gets slot A from the index; T2 moves the key to another tier; T3 reuses A for
        another key; reader reads A" reports a key absent that is present in the specification
        of EVERY prefix of the history between the read's start and end.
  C05_slot_no_key_check_counterexample    same schedule without the stored-key check: the read
        returns ANOTHER key's value.
  C05_slot_end_read_exact      `>=` in `end_read`: a later record's index-overlay entry is
        dropped with the ended record, a reader (holding the lock throughout) misses a key that
        is present.

What the discipline proof rests on (Proofs/C05SlotInv.lean `RdOk`): after the commit-overlay miss
for k no record published before rEnd writes k (its commit would have been in the overlay), so
k's index ENTRY and k's SLOT are stable in the view although other entries of the same chunk,
other slots, and the files underneath keep changing: every write of such a record leaves them
alone (`CSlot.Stab`, frame property of the planner), hence whichever of (log overlay, file) the
reader happens to read, before or after an `enactWrite` / `endRead`, agrees with them.  Under the
discipline the key check is never the deciding test (the statement holds for `keyCheck = false`
too); it is what keeps the damage of a lost guard to "absent" instead of "another key's value".

Simplifications of the model (and why):
  * index entries carry the whole key: no partial-key false positives, a reader has one
    candidate entry per chunk (the real loop over further candidates only matters for hash
    collisions, which C09 covers);
  * chunks are unbounded lists: no chunk overflow, hence no reindex (the index hand-over during
    reindexing is `C05_index_lookup_stable` / `C05_F11_counterexample` in Props/C05.lean; the
    composition of the two is not done here);
  * a value occupies one slot (multipart chains: C06), one column, plain kind only (`plainK`);
  * the allocator state changes when the record is planned (`publish`), as in the crate
    (`ValueTable::next_free` / `write_remove_plan` read and log the free-list head).
-/
import Pdb.Proofs.C05SlotThm

namespace Pdb
open CSlot
variable {K V : Type} [DecidableEq K]

/-- Under the lock discipline every completed read returns the specification value of the
    commits accepted when it began; no commit is accepted while it is in progress. -/
theorem C05_slot_read_linearizable (cfg : Cfg) (hd : cfg.discipline = true)
    (hx : cfg.exactEnd = true) (tier : V → Nat) (chunkOf : K → Nat) (N : Nat)
    (as : List (SAct K V)) (e : ReadEvt K V)
    (he : e ∈ (srun cfg tier chunkOf N SSt.init as).reads) :
    (∃ q, e.startSeq ≤ q ∧ q ≤ e.endSeq ∧
      e.result = (spec plainK ((srun cfg tier chunkOf N SSt.init as).hist.take q) e.key).map
        Prod.fst) ∧
    e.startSeq = e.endSeq ∧ e.endSeq ≤ (srun cfg tier chunkOf N SSt.init as).hist.length ∧
    e.result = (spec plainK ((srun cfg tier chunkOf N SSt.init as).hist.take e.startSeq)
      e.key).map Prod.fst := by
  have hi := (AllInv.init (K := K) (V := V) chunkOf N).run hd hx tier chunkOf N as
  have := hi.rd.evs e he
  simp only [EvOk] at this
  exact ⟨⟨e.startSeq, Nat.le_refl _, by omega, this.2.2⟩, this.1, this.2.1, this.2.2⟩

/-- A key that has a value in the read's snapshot is never reported absent: the read returns
    exactly that value. -/
theorem C05_slot_never_absent (cfg : Cfg) (hd : cfg.discipline = true)
    (hx : cfg.exactEnd = true) (tier : V → Nat) (chunkOf : K → Nat) (N : Nat)
    (as : List (SAct K V)) (e : ReadEvt K V)
    (he : e ∈ (srun cfg tier chunkOf N SSt.init as).reads) (v : V) (n : Nat)
    (hp : spec plainK ((srun cfg tier chunkOf N SSt.init as).hist.take e.startSeq) e.key =
      some (v, n)) :
    e.result = some v ∧ e.result ≠ none := by
  have := (C05_slot_read_linearizable cfg hd hx tier chunkOf N as e he).2.2.2
  rw [hp] at this
  rw [this]
  simp

/-- Snapshots never go back in time, in completion order, across all reader threads. -/
theorem C05_slot_snapshot_order (cfg : Cfg) (hd : cfg.discipline = true)
    (hx : cfg.exactEnd = true) (tier : V → Nat) (chunkOf : K → Nat) (N : Nat)
    (as : List (SAct K V)) :
    (srun cfg tier chunkOf N SSt.init as).reads.Pairwise (fun a b => a.endSeq ≤ b.startSeq) :=
  ((AllInv.init (K := K) (V := V) chunkOf N).run hd hx tier chunkOf N as).rd.mono

/-- The stored-key check, in BOTH disciplines: a returned value was committed under the reader's
    key, and the slot content it was taken from carried the reader's key. -/
theorem C05_slot_key_check (cfg : Cfg) (hk : cfg.keyCheck = true) (tier : V → Nat)
    (chunkOf : K → Nat) (N : Nat) (as : List (SAct K V)) (e : ReadEvt K V)
    (he : e ∈ (srun cfg tier chunkOf N SSt.init as).reads) (v : V) (hr : e.result = some v) :
    (∃ tx ∈ (srun cfg tier chunkOf N SSt.init as).hist, Op.set e.key v ∈ tx) ∧
    (∀ a, e.slot = some a → e.stored = some (e.key, v)) := by
  have hi := (WInv.init (K := K) (V := V)).run hk tier chunkOf N as
  exact hi.evs e he v hr

/-- Slot-level Shadow, in BOTH disciplines.  `pub` is the ghost image of the published records:
    `publish` sets `pub := applyLocs pub (writes of the new record)`, nothing else touches it.
    A file location differs from that image only while a logged record covers it; the view (log
    overlay over files) IS that image; no action but `publish` changes the view, in particular not
    the commit worker's flush / enactWrite / endRead. -/
theorem C05_slot_shadow (cfg : Cfg) (hx : cfg.exactEnd = true) (tier : V → Nat)
    (chunkOf : K → Nat) (N : Nat) (as : List (SAct K V)) :
    (∀ c, ovChunk (srun cfg tier chunkOf N SSt.init as).logged c = none →
      (srun cfg tier chunkOf N SSt.init as).files.chunk c =
        (srun cfg tier chunkOf N SSt.init as).pub.chunk c) ∧
    (∀ a, ovSlot (srun cfg tier chunkOf N SSt.init as).logged a = none →
      (srun cfg tier chunkOf N SSt.init as).files.slot a =
        (srun cfg tier chunkOf N SSt.init as).pub.slot a) ∧
    sview (srun cfg tier chunkOf N SSt.init as) = (srun cfg tier chunkOf N SSt.init as).pub ∧
    (∀ a : SAct K V, a ≠ .publish →
      sview (sstep cfg tier chunkOf N (srun cfg tier chunkOf N SSt.init as) a) =
        sview (srun cfg tier chunkOf N SSt.init as)) ∧
    (∀ a : SAct K V, a = .flush ∨ a = .enactWrite ∨ a = .endRead →
      sview (sstep cfg tier chunkOf N (srun cfg tier chunkOf N SSt.init as) a) =
        sview (srun cfg tier chunkOf N SSt.init as)) := by
  have hi := (ShInv.init (K := K) (V := V)).run hx tier chunkOf N as
  refine ⟨hi.file_chunk, hi.file_slot, hi.sview_eq,
    fun a ha => sview_nonpublish_step hx tier chunkOf N hi a ha, fun a ha => ?_⟩
  apply sview_nonpublish_step hx tier chunkOf N hi a
  rcases ha with rfl | rfl | rfl <;> simp

/-- In BOTH disciplines the view represents the key-level table of the published commits: the
    atomic lookup (index entry, slot, key check) through the view returns its value. -/
theorem C05_slot_view_represents (cfg : Cfg) (hx : cfg.exactEnd = true) (tier : V → Nat)
    (chunkOf : K → Nat) (N : Nat) (as : List (SAct K V)) (k : K) :
    slookup chunkOf (sview (srun cfg tier chunkOf N SSt.init as)) k =
      (spec plainK ((srun cfg tier chunkOf N SSt.init as).hist.take
        (srun cfg tier chunkOf N SSt.init as).npub) k).map Prod.fst ∧
    Rep chunkOf (sview (srun cfg tier chunkOf N SSt.init as))
      (srun cfg tier chunkOf N SSt.init as).alloc
      (spec plainK ((srun cfg tier chunkOf N SSt.init as).hist.take
        (srun cfg tier chunkOf N SSt.init as).npub)) := by
  have hi := (BaseInv.init (K := K) (V := V) chunkOf).run hx tier chunkOf N as
  have hr : Rep chunkOf (sview (srun cfg tier chunkOf N SSt.init as))
      (srun cfg tier chunkOf N SSt.init as).alloc
      (spec plainK ((srun cfg tier chunkOf N SSt.init as).hist.take
        (srun cfg tier chunkOf N SSt.init as).npub)) := by
    rw [hi.sh.sview_eq]; exact hi.rp
  exact ⟨hr.slookup k, hr⟩

/-! ### what goes wrong without the mechanisms -/

section Counter
private def tierN : Nat → Nat := fun v => v / 100
private def chunkN : Nat → Nat := fun k => k % 2

/-- reader 0 looks key 1 up: overlay miss, index lookup gives slot (0,0); T2 moves key 1 to
    tier 1 (frees (0,0)); T3 inserts key 3 and gets (0,0); the reader's value lookup finds
    (3, 30) in the log overlay -/
private def raceSched : List (SAct Nat Nat) :=
  [.commit [.set 1 10], .pop, .publish, .cleanOverlay,
   .rBegin 0 1, .rOverlay 0, .rIdxLog 0,
   .commit [.set 1 110], .pop, .publish, .cleanOverlay,
   .commit [.set 3 30], .pop, .publish, .cleanOverlay,
   .rValLog 0, .rEnd 0]

/-- If the commit-overlay guard were dropped right after the overlay miss: a key that is present
    in the specification of every prefix of the history from the read's start to its end is
    reported ABSENT (the stored-key check turns the reused slot into a miss). -/
theorem C05_slot_early_release_counterexample :
    ∃ (as : List (SAct Nat Nat)) (e : ReadEvt Nat Nat),
      e ∈ (srun { discipline := false, keyCheck := true, exactEnd := true } tierN chunkN 1
            SSt.init as).reads ∧
      e.result = none ∧ e.startSeq ≤ e.endSeq ∧
      e.endSeq ≤ (srun { discipline := false, keyCheck := true, exactEnd := true } tierN chunkN 1
            SSt.init as).hist.length ∧
      ∀ q, e.startSeq ≤ q → q ≤ e.endSeq →
        (spec plainK ((srun { discipline := false, keyCheck := true, exactEnd := true } tierN
          chunkN 1 SSt.init as).hist.take q) e.key).isSome = true := by
  refine ⟨raceSched, ⟨0, 1, none, 1, 3, some (0, 0), some (3, 30)⟩, by decide, rfl, by decide,
    by decide, ?_⟩
  intro q h1 h2
  have : q = 1 ∨ q = 2 ∨ q = 3 := by
    simp only at h1 h2
    omega
  rcases this with rfl | rfl | rfl <;> decide

/-- Same schedule without the stored-key check: the read returns the value of ANOTHER key, a
    value that key 1 has in no prefix of the history. -/
theorem C05_slot_no_key_check_counterexample :
    ∃ (as : List (SAct Nat Nat)) (e : ReadEvt Nat Nat),
      e ∈ (srun { discipline := false, keyCheck := false, exactEnd := true } tierN chunkN 1
            SSt.init as).reads ∧
      e.key = 1 ∧ e.result = some 30 ∧ e.stored = some (3, 30) ∧
      ∀ q, q ≤ (srun { discipline := false, keyCheck := false, exactEnd := true } tierN chunkN 1
            SSt.init as).hist.length →
        (spec plainK ((srun { discipline := false, keyCheck := false, exactEnd := true } tierN
          chunkN 1 SSt.init as).hist.take q) e.key).map Prod.fst ≠ e.result := by
  refine ⟨raceSched, ⟨0, 1, some 30, 1, 3, some (0, 0), some (3, 30)⟩, by decide, rfl, rfl, rfl,
    ?_⟩
  intro q hq
  have hl : (srun { discipline := false, keyCheck := false, exactEnd := true } tierN chunkN 1
      SSt.init raceSched).hist.length = 3 := by decide
  rw [hl] at hq
  have : q = 0 ∨ q = 1 ∨ q = 2 ∨ q = 3 := by omega
  rcases this with rfl | rfl | rfl | rfl <;> decide

/-- two inserts into the same index chunk; the first record is enacted and ended while the
    second is still only in the log overlay -/
private def endSched : List (SAct Nat Nat) :=
  [.commit [.set 1 10], .pop, .publish, .cleanOverlay,
   .commit [.set 3 30], .pop, .publish, .cleanOverlay, .flush, .enactWrite, .enactWrite, .endRead,
   .rBegin 0 3, .rOverlay 0, .rIdxLog 0, .rIdxFile 0, .rEnd 0]

/-- `end_read` must remove EXACTLY the overlay entries of the ended record.  With `>=` (seeded
    change C05-c05a) the chunk entry of the later record goes too while the file still has the
    older content: a reader that holds the lock throughout misses a present key. -/
theorem C05_slot_end_read_exact :
    ∃ (as : List (SAct Nat Nat)) (e : ReadEvt Nat Nat),
      e ∈ (srun { discipline := true, keyCheck := true, exactEnd := false } tierN chunkN 1
            SSt.init as).reads ∧
      e.result = none ∧ e.startSeq = e.endSeq ∧
      (spec plainK ((srun { discipline := true, keyCheck := true, exactEnd := false } tierN
          chunkN 1 SSt.init as).hist.take e.startSeq) e.key).isSome = true := by
  exact ⟨endSched, ⟨0, 3, none, 2, 2, none, none⟩, by decide, rfl, rfl, by decide⟩

/-! ### non-vacuity -/

/-- Two readers against the workers, real configuration.  Read 1 (key 1): index entry from the log
    overlay, then the record is enacted location by location and ended, value from the FILE.
    Read 2 (key 3): begins, then the record that MOVES key 1 out of the same chunk is published
    (clean_overlay and a commit are refused meanwhile), entry from the new overlay content, one
    location enacted in between, value from the file.  Read 3 (key 1, moved): entry and value from
    the log overlay.  Read 4 (key 5): stale commit-overlay entry of a published commit.  Read 5
    (key 5, after everything is enacted): chunk and slot from the files; key 5 lives in slot (0,0)
    that belonged to key 1 before.  Read 6: a key never written. -/
private def sched : List (SAct Nat Nat) :=
  [.commit [.set 1 10, .set 3 30], .pop, .publish, .cleanOverlay, .flush,
   .rBegin 0 1, .rOverlay 0, .rIdxLog 0,
   .enactWrite, .enactWrite, .enactWrite, .enactWrite, .endRead,
   .rValLog 0, .rValFile 0, .rEnd 0,
   .commit [.set 1 110], .commit [.set 5 50],
   .rBegin 1 3, .rOverlay 1, .pop, .publish, .cleanOverlay, .commit [.deref 3],
   .rIdxLog 1, .flush, .enactWrite, .rValLog 1, .rValFile 1, .rEnd 1,
   .cleanOverlay, .pop, .publish,
   .rBegin 0 1, .rOverlay 0, .rIdxLog 0, .rValLog 0, .rEnd 0,
   .rBegin 1 5, .rOverlay 1, .rEnd 1,
   .cleanOverlay, .enactWrite, .enactWrite, .endRead, .flush, .enactWrite, .enactWrite, .endRead,
   .rBegin 0 5, .rOverlay 0, .rIdxLog 0, .rIdxFile 0, .rValLog 0, .rValFile 0, .rEnd 0,
   .rBegin 1 2, .rOverlay 1, .rIdxLog 1, .rIdxFile 1, .rEnd 1]

set_option maxRecDepth 100000 in
example : (srun Cfg.real tierN chunkN 2 SSt.init sched).reads =
    [⟨0, 1, some 10, 1, 1, some (0, 0), some (1, 10)⟩,
     ⟨1, 3, some 30, 3, 3, some (0, 1), some (3, 30)⟩,
     ⟨0, 1, some 110, 3, 3, some (1, 0), some (1, 110)⟩,
     ⟨1, 5, some 50, 3, 3, none, none⟩,
     ⟨0, 5, some 50, 3, 3, some (0, 0), some (5, 50)⟩,
     ⟨1, 2, none, 3, 3, none, none⟩] ∧
    (srun Cfg.real tierN chunkN 2 SSt.init sched).hist.length = 3 ∧
    (srun Cfg.real tierN chunkN 2 SSt.init sched).npub = 3 ∧
    (srun Cfg.real tierN chunkN 2 SSt.init sched).files.chunk 1 =
      [(1, (1, 0)), (3, (0, 1)), (5, (0, 0))] := by
  decide

set_option maxRecDepth 100000 in
/-- hypothesis of `C05_slot_never_absent` is satisfiable: key 3 is present in read 2's snapshot -/
example : spec plainK ((srun Cfg.real tierN chunkN 2 SSt.init sched).hist.take 3) 3 =
    some (30, 1) := by decide

/-- the race schedule under the real configuration: the two commits are refused while the reader
    is inside, the read returns the committed value -/
example : (srun Cfg.real tierN chunkN 1 SSt.init raceSched).reads =
    [⟨0, 1, some 10, 1, 1, some (0, 0), some (1, 10)⟩] := by decide

/-- the `end_read` schedule with the exact `end_read`: the later record's chunk entry stays in
    the overlay, the key is found -/
example : (srun Cfg.real tierN chunkN 1 SSt.init
      (endSched ++ [.rValLog 0, .rEnd 0])).reads =
    [⟨0, 3, some 30, 2, 2, some (0, 1), some (3, 30)⟩] := by decide

/-- key check with the guard dropped early, on a schedule without a race: the value comes out of
    slot (0,0), whose content carries the reader's key -/
example : (srun { discipline := false, keyCheck := true, exactEnd := true } tierN chunkN 1
      SSt.init ([.commit [.set 1 10], .pop, .publish, .cleanOverlay, .rBegin 0 1, .rOverlay 0,
        .rIdxLog 0, .rValLog 0, .rEnd 0] : List (SAct Nat Nat))).reads =
    [⟨0, 1, some 10, 1, 1, some (0, 0), some (1, 10)⟩] := by decide

/-- Shadow is not vacuous: an in-place rewrite is published but not enacted; the file slot holds
    the old value, the view the new one, and a log-overlay entry covers the slot -/
example :
    let s := srun Cfg.real tierN chunkN 1 SSt.init
      ([.commit [.set 1 10], .pop, .publish, .cleanOverlay, .flush, .enactWrite, .enactWrite,
        .endRead, .commit [.set 1 20], .pop, .publish] : List (SAct Nat Nat))
    s.files.slot (0, 0) = some (1, 10) ∧ (sview s).slot (0, 0) = some (1, 20) ∧
    ovSlot s.logged (0, 0) = some (some (1, 20)) ∧ slookup chunkN (sview s) 1 = some 20 := by
  decide
end Counter

end Pdb

#print axioms Pdb.C05_slot_read_linearizable
#print axioms Pdb.C05_slot_never_absent
#print axioms Pdb.C05_slot_snapshot_order
#print axioms Pdb.C05_slot_key_check
#print axioms Pdb.C05_slot_shadow
#print axioms Pdb.C05_slot_view_represents
#print axioms Pdb.C05_slot_early_release_counterexample
#print axioms Pdb.C05_slot_no_key_check_counterexample
#print axioms Pdb.C05_slot_end_read_exact
