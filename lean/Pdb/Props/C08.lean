/-
C08  A rejected transaction leaves no trace.

Two layers:
 * `Pdb.Validate` mirrors `DbInner::validate_change`: which (column options, operation)
   pairs are rejected, with which error.  `commit_changes` validates the whole
   transaction with this side-effect free check BEFORE it claims tree-node slots, bumps
   queued-dereference counters or touches the overlay (fix ba82c54; before it, `Set a;
   Reference b` on a column without reference counting left `a` in the overlay for ever).
 * P1 (`Pdb.commit`): a commit that does not return ok returns the state unchanged, so by
   the other theorems nothing of it is ever visible, logged or persisted, and removing
   all rejected commits from a history changes nothing.
Errors raised after validation (I/O errors while claiming slots or reading a tree root)
are outside this property's list and outside the model.
-/
import Pdb.Model.Validate
import Pdb.Props.C01

namespace Pdb
variable {K V : Type} [DecidableEq K]

/-- A commit call that returns an error leaves the state exactly as it was: overlay, queue,
    id counter, history. -/
theorem C08_rejected_noop (kind : K → Kind) (s : St K V) (tx : List (Op K V))
    (h : (commit kind s tx).2 ≠ .ok) : (commit kind s tx).1 = s := by
  unfold commit at h ⊢
  by_cases hv : tx.all (opValid kind)
  · by_cases he : s.bgErr
    · simp [hv, he]
    · simp [hv, he] at h
  · simp [hv]

/-- A transaction with at least one operation that is invalid for its column is rejected,
    wherever the invalid operation sits among valid ones. -/
theorem C08_invalid_rejected (kind : K → Kind) (s : St K V) (tx : List (Op K V)) (op : Op K V)
    (hm : op ∈ tx) (hinv : opValid kind op = false) :
    (commit kind s tx).2 = .invalidInput ∧ (commit kind s tx).1 = s := by
  have : tx.all (opValid kind) = false := by
    rw [List.all_eq_false]
    exact ⟨op, hm, by simp [hinv]⟩
  simp [commit, this]

def isInvalidCommit (kind : K → Kind) : Action K V → Bool
  | .commit tx => !tx.all (opValid kind)
  | _ => false

/-- Nothing of a rejected transaction becomes visible or persistent later: deleting every
    rejected commit from any history (whatever follows it: further commits, pipeline
    progress, restarts, crashes) yields exactly the same state. -/
theorem C08_no_trace (kind : K → Kind) (s : St K V) (as : List (Action K V)) :
    run kind s as = run kind s (as.filter (fun a => !isInvalidCommit kind a)) := by
  induction as generalizing s with
  | nil => rfl
  | cons a as ih =>
    have hrun : run kind s (a :: as) = run kind (step kind s a) as := rfl
    by_cases hi : isInvalidCommit kind a
    · cases a with
      | commit tx =>
        have hv : tx.all (opValid kind) = false := by simpa [isInvalidCommit] using hi
        have : step kind s (.commit tx) = s := by simp [step, commit, hv]
        rw [hrun, this, List.filter_cons]
        simp [hi, ih]
      | _ => simp [isInvalidCommit] at hi
    · rw [hrun, List.filter_cons]
      simp only [hi, Bool.not_false, if_true]
      exact ih (step kind s a)

open Validate in
/-- The validation matrix: exactly the combinations the property lists are rejected. -/
theorem C08_validation_matrix (o : ColOpts) :
    let mt := o.multitree && !o.btree
    -- key-value operations on a multitree column
    (mt = true → validateChange o .set ≠ .ok ∧ validateChange o .deref ≠ .ok ∧ validateChange o .ref ≠ .ok) ∧
    -- reference on a column without counting
    (mt = false → o.refCounted = false → validateChange o .ref = .invalidInput) ∧
    (mt = false → validateChange o .set = .ok ∧ validateChange o .deref = .ok) ∧
    (mt = false → o.refCounted = true → validateChange o .ref = .ok) ∧
    -- tree operations on non-tree columns
    (mt = false → ∀ f e, validateChange o (.insertTree f) = .invalidInput ∧
        validateChange o .refTree = .invalidInput ∧ validateChange o (.derefTree e) = .invalidInput) ∧
    -- unrepresentable nodes, append-only and missing roots
    (mt = true → ∀ f, (validateChange o (.insertTree f) = .ok ↔ f ≤ 255)) ∧
    (mt = true → (validateChange o .refTree = .ok ↔ (o.appendOnly = true ∨ o.refCounted = true))) ∧
    (mt = true → ∀ e, (validateChange o (.derefTree e) = .ok ↔ (o.appendOnly = false ∧ e = true))) := by
  obtain ⟨bt, mt, rc, ao⟩ := o
  cases bt <;> cases mt <;> cases rc <;> cases ao <;> simp [validateChange] <;> omega

open Validate in
/-- The transaction verdict is ok iff every operation is ok; otherwise it is the verdict of
    the first offending operation, whatever its position. -/
theorem C08_validateTx (cols : List ColOpts) (tx : List (Nat × OpKind)) :
    (validateTx cols tx = .ok ↔ ∀ cop ∈ tx, validateAt cols cop.1 cop.2 = .ok) := by
  induction tx with
  | nil => simp [validateTx]
  | cons cop tx ih =>
    obtain ⟨c, op⟩ := cop
    simp only [validateTx, List.mem_cons, forall_eq_or_imp]
    cases h : validateAt cols c op <;> simp [ih]

section Example
private def kd : Nat → Kind := fun k => if k < 10 then .plain else .rc
private def acts : List (Action Nat Nat) :=
  [.commit [.set 1 10], .commit [.set 2 20, .ref 3, .set 11 5], .process, .commit [.ref 11]]
example : (run kd St.init acts).hist.length = 2 ∧ get (run kd St.init acts) 2 = none ∧
    get (run kd St.init acts) 11 = none ∧ (run kd St.init acts).nextId = 2 := by decide
example : Validate.validateTx [⟨false, false, false, false⟩, ⟨false, true, false, false⟩]
    [(0, .set), (1, .insertTree 3), (0, .ref), (1, .derefTree true)] = .invalidInput := by decide
end Example

end Pdb

#print axioms Pdb.C08_rejected_noop
#print axioms Pdb.C08_invalid_rejected
#print axioms Pdb.C08_no_trace
#print axioms Pdb.C08_validation_matrix
#print axioms Pdb.C08_validateTx
