/-
C04c  The btree column as a pipeline: the map the iterator enumerates IS the latest committed
state, at every pipeline stage, for every history.

Model: Pdb/Model/BTreePipe.lean, `Drv` - the state the driver command `c04` executes: commit
overlay (`copy_to_overlay` / `clean_overlay`), commit queue, `process_commits` = batched
`write_plan` (`applyChangesB`, the literal `Node::change` loop), the column's last record id,
the iterator merge machine running on the NODE-STACK cursor (`stepCV`: `iter_inner`,
`pending_backend`, `next_backend` with re-seek on record-id change, `BTreeIterState` stack),
point reads through `Node::get`; flush / enact / clean (no logical effect), clean reopen.

Closes the composition gap of Props/C04.lean: there `C04_iter_spec` / `C04_next_spec` /
`C04_prev_spec` speak about `merged e.ov (beOf e.rid)` for an arbitrary environment per call.
Here the environment is the one the pipeline produces, and
  (a) `C04_pipeline_merged`: after EVERY history of commits and stage steps (process / flush /
      enact / clean / reopen), interleaved in any way with point reads and iterator calls,
      `merged overlay (toList tree) = specApply` of all accepted transactions in commit order
      (`committedAfter`), the tree satisfies TreeInv and the model is never stuck;
  (b) `C04_pipeline_iter_spec`: every answer of every history (iterator kept open across commits
      and stage steps, seeks, direction changes, re-seek after a processed commit, new iterators,
      point reads) is the answer of the specification machine `specAct`, which knows only the
      committed map and the logical position (Start / End / after seek k / after returning K);
      `C04_pipeline_call_spec`, `C04_pipeline_next_spec`, `C04_pipeline_prev_spec` (min / max
      form), `C04_pipeline_get_spec` (point read = latest committed value).
Proof: Proofs/C04Pipe*.lean, from `C04_iter_spec`'s step lemma (`step_spec`), `C04b_next_backend`
/ `C04b_cursor_seek` (stack cursor = abstract cursor), `C04b_batch_refines_tx` (batched descent
= one change per descent) and `C04_change_refines` (tree update refines `specApply`, TreeInv).
-/
import Pdb.Proofs.C04Pipe
import Pdb.Proofs.C04PipeCore

namespace Pdb.C04

/-- The transactions of a history that the column accepts, in commit order (`Reference` is
    invalid on a column without reference counting: the whole transaction is refused). -/
def accepted : List PAct → List (List (Op String))
  | [] => []
  | .commit ops :: as => ops :: accepted as
  | .commitRc ops :: as => if ops.any isRef then accepted as else ops.map ofROp :: accepted as
  | .process :: as => accepted as
  | .flush :: as => accepted as
  | .enact :: as => accepted as
  | .clean :: as => accepted as
  | .reopen :: as => accepted as
  | .get _ :: as => accepted as
  | .iterNew :: as => accepted as
  | .call _ :: as => accepted as

/-- The latest committed state after the history `as`: all accepted transactions applied, in
    commit order, to the empty ordered map. -/
def committedAfter (as : List PAct) : List (Key × String) :=
  (accepted as).foldl (fun l cs => specApply cs l) []

/-- The logical position of the iterator after the history (Start after `Db::iter` / reopen,
    `seeked k` after a seek, `at K` after a step returned K, End / Start after a step found
    nothing). -/
def positionAfter (as : List PAct) : LastKey := (specRunP SpecSt.init as).1.pos

theorem specRunP_m (as : List PAct) (sp : SpecSt) :
    (specRunP sp as).1.m = (accepted as).foldl (fun l cs => specApply cs l) sp.m := by
  induction as generalizing sp with
  | nil => rfl
  | cons a as ih =>
    simp only [specRunP]
    rw [ih]
    cases a with
    | commitRc ops =>
      simp only [specAct, accepted]
      split <;> rfl
    | _ => rfl

theorem committedAfter_eq (as : List PAct) : committedAfter as = (specRunP SpecSt.init as).1.m :=
  (specRunP_m as SpecSt.init).symm

/-- The invariant holds after every history. -/
theorem pipeline_inv (as : List PAct) :
    PInv ((Drv.init patched false).run as).1 (specRunP SpecSt.init as).1 :=
  (run_spec_pipe as PInv.init).2

/-! ## (a) the enumerated map is the committed state -/

/-- For every history: the commit overlay merged over the enumeration of the tree (what the
    iterator enumerates and point reads look up, `C04_iter_spec` / `C04_get_spec`) is the
    committed state; the tree satisfies TreeInv; no corrupt-tree state was reached. -/
theorem C04_pipeline_merged (as : List PAct) :
    merged ((Drv.init patched false).run as).1.env.ov ((Drv.init patched false).run as).1.tree.toList =
      committedAfter as ∧
    TreeInv ((Drv.init patched false).run as).1.tree ∧
    ((Drv.init patched false).run as).1.stuck = false ∧
    Sorted (committedAfter as) := by
  have h := pipeline_inv as
  have hm := h.q.merged
  rw [← h.m, ← committedAfter_eq] at hm
  refine ⟨hm, h.q.tinv, h.q.nstuck, ?_⟩
  rw [committedAfter_eq, h.m]
  exact h.q.sorted_committed

/-- The processed part alone: the tree enumerates the committed state minus the queued
    transactions; when the queue is empty the tree alone holds the committed state. -/
theorem C04_pipeline_tree (as : List PAct) :
    committedAfter as = specApply (flatQ ((Drv.init patched false).run as).1.queue)
      ((Drv.init patched false).run as).1.tree.toList := by
  rw [committedAfter_eq]; exact (pipeline_inv as).m

/-! ## (b) every answer is the answer of the specification -/

/-- Full strength: all histories, all call sequences.  The answers of the pipeline (commits,
    stage steps, reopen, point reads, iterator calls - an iterator kept open across commits and
    stage steps included) are the answers of the specification machine. -/
theorem C04_pipeline_iter_spec (as : List PAct) :
    ((Drv.init patched false).run as).2 = (specRunP SpecSt.init as).2 :=
  (run_spec_pipe as PInv.init).1

/-- One iterator call after any history: the answer the abstract cursor gives on the sorted map
    of the LATEST committed state from the logical position. -/
theorem C04_pipeline_call_spec (as : List PAct) (c : Call) :
    (((Drv.init patched false).run as).1.act (.call c)).2 =
      .out (outC (specStep (committedAfter as) (positionAfter as) c).2) := by
  have h := act_spec (pipeline_inv as) (.call c)
  rw [h.1, committedAfter_eq]
  rfl

/-- `specAns` in min form. -/
theorem specAns_fwd_min {m : List (Key × String)} (hm : Sorted m) (p : LastKey) :
    IsMin (lookup m) (fun k => after p k) (specAns .fwd m p) := by
  constructor
  · intro k v hr
    have := (first_some (p := fun e => after p e.1) hm).mp hr
    refine ⟨(mem_iff_lookup hm k v).mp this.1, this.2.1, ?_⟩
    intro k' v' hk' hp
    exact this.2.2 (k', v') ((mem_iff_lookup hm k' v').mpr hk') hp
  · intro hr k' v' hk'
    exact (first_none.mp hr) (k', v') ((mem_iff_lookup hm k' v').mpr hk')

/-- `specAns` in max form. -/
theorem specAns_bwd_max {m : List (Key × String)} (hm : Sorted m) (p : LastKey) :
    IsMax (lookup m) (fun k => before p k) (specAns .bwd m p) := by
  constructor
  · intro k v hr
    have := (last_some (p := fun e => before p e.1) hm).mp hr
    refine ⟨(mem_iff_lookup hm k v).mp this.1, this.2.1, ?_⟩
    intro k' v' hk' hp
    exact this.2.2 (k', v') ((mem_iff_lookup hm k' v').mpr hk') hp
  · intro hr k' v' hk'
    exact (last_none.mp hr) (k', v') ((mem_iff_lookup hm k' v').mpr hk')

/-- `next` after any history, in the words of the property: the entry of the latest committed
    state with the least key `≥ k` after `seek k`, `> K` after a step returned `K`, the first
    entry at Start, nothing at End. -/
theorem C04_pipeline_next_spec (as : List PAct) :
    ∃ r, (((Drv.init patched false).run as).1.act (.call .next)).2 = .out (.item r) ∧
      IsMin (lookup (committedAfter as)) (fun k => after (positionAfter as) k) r ∧
      (∀ k, positionAfter as = .seeked k →
        IsMin (lookup (committedAfter as)) (fun x => keyLe k x) r) ∧
      (∀ K, positionAfter as = .at K → IsMin (lookup (committedAfter as)) (fun x => keyLt K x) r) ∧
      (positionAfter as = .start → IsMin (lookup (committedAfter as)) (fun _ => true) r) ∧
      (positionAfter as = .end_ → r = none) := by
  have hs := (C04_pipeline_merged as).2.2.2
  have hmin := specAns_fwd_min hs (positionAfter as)
  refine ⟨specAns .fwd (committedAfter as) (positionAfter as), C04_pipeline_call_spec as .next,
    hmin, ?_, ?_, ?_, ?_⟩
  · intro k hk; rw [hk] at hmin ⊢; exact hmin
  · intro K hK; rw [hK] at hmin ⊢; exact hmin
  · intro hk; rw [hk] at hmin ⊢; exact hmin
  · intro hk
    rw [hk]
    exact first_none.mpr (fun _ _ => rfl)

/-- `prev` after any history: greatest key `≤ k` after `seek k`, `< K` after a step returned
    `K`, the last entry at End, nothing at Start. -/
theorem C04_pipeline_prev_spec (as : List PAct) :
    ∃ r, (((Drv.init patched false).run as).1.act (.call .prev)).2 = .out (.item r) ∧
      IsMax (lookup (committedAfter as)) (fun k => before (positionAfter as) k) r ∧
      (∀ k, positionAfter as = .seeked k →
        IsMax (lookup (committedAfter as)) (fun x => keyLe x k) r) ∧
      (∀ K, positionAfter as = .at K → IsMax (lookup (committedAfter as)) (fun x => keyLt x K) r) ∧
      (positionAfter as = .end_ → IsMax (lookup (committedAfter as)) (fun _ => true) r) ∧
      (positionAfter as = .start → r = none) := by
  have hs := (C04_pipeline_merged as).2.2.2
  have hmax := specAns_bwd_max hs (positionAfter as)
  refine ⟨specAns .bwd (committedAfter as) (positionAfter as), C04_pipeline_call_spec as .prev,
    hmax, ?_, ?_, ?_, ?_⟩
  · intro k hk; rw [hk] at hmax ⊢; exact hmax
  · intro K hK; rw [hK] at hmax ⊢; exact hmax
  · intro hk; rw [hk] at hmax ⊢; exact hmax
  · intro hk
    rw [hk]
    exact last_none.mpr (fun _ _ => rfl)

theorem fold_specApply (txs : List (List (Op String))) (l : List (Key × String)) :
    txs.foldl (fun l cs => specApply cs l) l = specApply txs.flatten l := by
  induction txs generalizing l with
  | nil => rfl
  | cons cs txs ih => rw [List.foldl_cons, ih, List.flatten_cons, specApply_append]

/-- Point reads after any history return the value of the most recent committed write to the
    key (operations of one transaction in the order given), nothing if that write was a removal
    or the key was never written - whatever mixture of commit overlay and tree holds it. -/
theorem C04_pipeline_get_spec (as : List PAct) (k : Key) :
    (((Drv.init patched false).run as).1.act (.get k)).2 = .got (lookup (committedAfter as) k) ∧
    lookup (committedAfter as) k = effect (lastOp (accepted as).flatten k) none := by
  constructor
  · have h := act_spec (pipeline_inv as) (.get k)
    rw [h.1, committedAfter_eq]
    rfl
  · unfold committedAfter
    rw [fold_specApply, lookup_specApply _ sorted_nil]
    rfl

/-- The driver interleaves `c04b cursor ..` lines (run-time check of the stack cursor on dumped
    real trees, `Drv.cursor`) with the actions: they touch only the fields `real` / `rit`
    (`Drv.core` forgets them), which no action reads - answers and pipeline state are the same
    with or without such a line, so the theorems above are about the runs the driver executes. -/
theorem C04_pipeline_check_lines_inert (s : Drv) (ws : List String) (a : PAct) :
    ((s.cursor ws).1.act a).2 = (s.act a).2 ∧
    ((s.cursor ws).1.act a).1.core = (s.act a).1.core := by
  have h1 := act_core (s.cursor ws).1 a
  have h2 := act_core s a
  rw [cursor_core] at h1
  exact ⟨h1.2.trans h2.2.symm, h1.1.trans h2.1.symm⟩

/-! ### non-vacuity: data split between overlay and tree, an iterator kept open across a commit,
a processed commit (record id change, re-seek), a direction change, a removal in the overlay, reopen -/

private def k1 : Key := [1]
private def k2 : Key := [2]
private def k3 : Key := [3]

private def exHist : List PAct :=
  [.commit [.set k1 "a", .set k3 "c"], .process,         -- k1, k3 in the tree
   .call .next,                                           -- k1 (iterator opened before the next commit)
   .commit [.set k2 "b", .del k3],                        -- k2 set, k3 removed: commit overlay only
   .call .next,                                           -- k2, from the overlay
   .call .next,                                           -- none: k3 is removed in the overlay
   .process, .flush, .enact,                              -- now everything is in the tree
   .call .prev,                                           -- k2 again, after the re-seek from End
   .get k3, .get k2,
   .commit [.set k3 "c2"], .call (.seek k2), .call .prev, .call .next, .call .next,
   .reopen, .call .next, .call .prev]

example : ((Drv.init patched false).run exHist).2 =
    [.ok, .ok, .out (.item (some (k1, "a"))), .ok, .out (.item (some (k2, "b"))), .out (.item none),
     .ok, .ok, .ok, .out (.item (some (k2, "b"))), .got none, .got (some "b"),
     .ok, .out .unit, .out (.item (some (k2, "b"))), .out (.item (some (k3, "c2"))), .out (.item none),
     .ok, .out (.item (some (k1, "a"))), .out (.item none)] := by decide +kernel

example : committedAfter exHist = [(k1, "a"), (k2, "b"), (k3, "c2")] := by decide +kernel

/-! ### audit -/

#print axioms C04_pipeline_merged
#print axioms C04_pipeline_tree
#print axioms C04_pipeline_iter_spec
#print axioms C04_pipeline_call_spec
#print axioms C04_pipeline_next_spec
#print axioms C04_pipeline_prev_spec
#print axioms C04_pipeline_get_spec
#print axioms C04_pipeline_check_lines_inert

end Pdb.C04
