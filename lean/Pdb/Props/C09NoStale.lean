/-
C09 / C14 / C20: NO STALE INDEX ENTRY - the global invariant of the fixed write path
(fix-c09-stale-index-entries, `cfg.purge = true`; closes the gap named in DESIGN 13.5).

Definitions: `Pdb.Index.NoStale` (Pdb/Proofs/C09NoStale.lean), `vis kp = kp >>> 14` (the key bits
63..14, all an index table of any size stores of a key), `KeyWF` (a key is ONE 32-byte string:
`pre` = bytes 0..8 and `tail` = bytes 6..32 agree on bytes 6, 7).

  * `NoStale_run`            for EVERY history of the fixed code (exact page search, growth on a
                             move into a full page, removal from the queued tables) from an empty
                             column - sets, overwrites with and without a change of the size tier,
                             removals, reindex batches, enacted `DropTable`s, reopen / crash
                             recovery, re-launched growths, in any order - the reached state has no
                             stale index entry.  NO assumption that distinct keys differ in their
                             tails (A-tail is NOT used); hypotheses: keys well-formed, size tiers
                             < 256, physical limits (`AllBounded`, as in every C09 theorem).
  * `NoStale_step`           the same for one action from any state satisfying the invariants
  * (the code before the fix: `C09_twin_unfixed_vs_fixed`, `C09_full_statement_false_twin` in
    Pdb/Props/C09Stale.lean / C09F24.lean show the misattribution a stale entry causes; the dump
    checker `t2 nostale` answers `bad:stale` on dumps of the crate with the fix reverted)
  * `C14_no_misattribution_nostale`  (A-tail-free) in a state without stale entries two different
                             well-formed keys never resolve to the same value slot: no index entry
                             resolves to a value of another key
  * `C09_lookup_owner_nostale` (A-tail-free) what `get k` returns is the value of a slot OWNED by
                             `k`: every entry of every table that points to it carries the
                             index-visible bits of `k`, and its stored tail is `k`'s
  * `C09_twin_tails_readable` keys that agree on the stored tail (A-tail violated) are read
                             individually in a reachable state (concrete history, kernel-evaluated)
  * `C09_lookup_latest_notail`  (A-tail-free) `get` = latest value for EVERY well-formed key after
                             every history of the fixed code: the C09 read theorem WITHOUT the
                             hypothesis that distinct keys differ in their stored tails.  Only keys
                             equal on all 256 bits are identified (`KeyWF.ext`).
  * `C09_collision_individual_notail`  any two different keys - same page and partial key in every
                             table (they differ in the tail), or EQUAL tails (they differ in the
                             index-visible bits) - are individually readable, replaceable, removable
  * `C09_run_inv_notail`     the invariants behind it: `NoStale`, the universe-free abstraction
                             `AbsN` (a slot belongs to the key whose index-visible bits its entries
                             carry; one slot per key) and the reindex-progress invariant `Prog`
-/
import Pdb.Proofs.C09NoStaleProg
import Pdb.Props.C09Stale

namespace Pdb.Index
open Pdb.Gen Pdb.IndexPage

/-- NO STALE INDEX ENTRY after every history of the fixed code. -/
theorem NoStale_run (cfg : Cfg) (hex : cfg.exact = true) (hgrow : cfg.growOnMove = true)
    (hpurge : cfg.purge = true) (b0 : Nat) (hb : 16 ≤ b0 ∧ b0 ≤ 49) (acts : List Action)
    (hact : ∀ a ∈ acts, ActWF a) (hbound : AllBounded (Col.init cfg b0) acts) (s' : Col)
    (hrun : runA (Col.init cfg b0) acts = .ok s') : NoStale s' :=
  (runA_ns acts (Col.init cfg b0) s' (init_goodN cfg b0 hb.1 hb.2) ⟨hex, hgrow, hpurge⟩ hact hbound
    hrun).ns

/-- One action of the fixed code keeps well-formed tables, the slot invariant and "no stale
index entry". -/
theorem NoStale_step (s s' : Col) (hG : GoodN s) (hc : FixedCfg s) (a : Action) (ha : ActWF a)
    (h : stepA s a = .ok s') (hB : Bounded s') : GoodN s' :=
  stepA_ns hG hc a ha h hB

/-- Histories continue: from any state with the invariants. -/
theorem NoStale_run_from (s s' : Col) (hG : GoodN s) (hc : FixedCfg s) (acts : List Action)
    (hact : ∀ a ∈ acts, ActWF a) (hbound : AllBounded s acts) (hrun : runA s acts = .ok s') :
    GoodN s' :=
  runA_ns acts s s' hG hc hact hbound hrun

/-! ## consequences that do not need A-tail -/

/-- The slot `get k` ends at is owned by `k`: its stored tail is `k`'s and every index entry (of
any table) that points to it carries the index-visible bits of `k`. -/
theorem C09_lookup_owner_nostale (s : Col) (hS : Shape s) (hN : NoStale s) (hex : s.cfg.exact = true)
    (k : Key) (hk : KeyWF k) (v : Val) (h : lookup s k = some v) :
    ∃ a, s.valAt a = some ⟨k.tail, v⟩ ∧ (∃ t ∈ s.tables, t.Has k.pre a) ∧
      ∀ t ∈ s.tables, ∀ kp, kp < 2 ^ 64 → t.Has kp a → vis kp = vis k.pre := by
  unfold lookup at h
  cases hs : searchAll s k with
  | none => rw [hs] at h; cases h
  | some r =>
    obtain ⟨j, i, a⟩ := r
    rw [hs] at h
    simp only [Option.bind_some] at h
    obtain ⟨tj, hF⟩ := found_of_search_shape hS k j i a hs
    obtain ⟨v', hv'⟩ := (tailAt_eq_some s a k.tail).1 hF.live
    rw [hv'] at h
    simp only [Option.map_some, Option.some.injEq] at h
    subst h
    exact ⟨a, hv', ⟨tj, hF.mem, hF.has hex⟩,
      fun t ht kp hkp hh => hN.agree t ht tj hF.mem kp k.pre a hkp hk.pre_lt hh (hF.has hex)⟩

/-- C14 without A-tail: no index entry resolves to a value of another key.  In a state without
stale entries two well-formed keys that `search_all_indexes` resolves to the same value slot are
the same 256-bit key (only keys equal on all 256 bits are identified). -/
theorem C14_no_misattribution_nostale (s : Col) (hS : Shape s) (hN : NoStale s)
    (hex : s.cfg.exact = true) (k1 k2 : Key) (h1 : KeyWF k1) (h2 : KeyWF k2) (j1 i1 j2 i2 a : Nat)
    (hs1 : searchAll s k1 = some (j1, i1, a)) (hs2 : searchAll s k2 = some (j2, i2, a)) : k1 = k2 := by
  obtain ⟨t1, hF1⟩ := found_of_search_shape hS k1 j1 i1 a hs1
  obtain ⟨t2, hF2⟩ := found_of_search_shape hS k2 j2 i2 a hs2
  have hv := hN.agree t1 hF1.mem t2 hF2.mem k1.pre k2.pre a h1.pre_lt h2.pre_lt (hF1.has hex) (hF2.has hex)
  have ht : some k1.tail = some k2.tail := hF1.live.symm.trans hF2.live
  injection ht with ht
  exact h1.ext h2 hv ht

/-- Every entry of every table resolves: the slot is live, and the key recovered from the entry
(bits 63..14) and the stored tail (bits 15..0 and bytes 8..32) is consistent - the entry sits in
the page and carries the partial key that this key hashes to, in a table of any size. -/
theorem NoStale_entry_resolves (s : Col) (hS : Shape s) (hN : NoStale s) (t : Table) (ht : t ∈ s.tables)
    (c i : Nat) (hc : c < total_chunks t.bits) (hi : i < 64) (hne : (t.page c).getD i 0 ≠ 0) :
    ∃ tl v, s.valAt (Entry.address ((t.page c).getD i 0) t.bits) = some ⟨tl, v⟩ ∧
      vis (recover_index_key t.bits c ((t.page c).getD i 0)) % 4 = tl / 2 ^ 206 := by
  have hwf := hS.wf t ht
  have helt : (t.page c).getD i 0 < 2 ^ 64 := by
    apply (hwf.pages c).2
    have hlen : i < (t.page c).length := by rw [(hwf.pages c).1]; exact hi
    rw [List.getD_eq_getElem?_getD, List.getElem?_eq_getElem hlen]
    exact List.getElem_mem hlen
  obtain ⟨r1, r2, r3⟩ := recover_inv t.bits c _ hwf.lo hwf.hi hc helt
  have hh : t.Has (recover_index_key t.bits c ((t.page c).getD i 0))
      (Entry.address ((t.page c).getD i 0) t.bits) := by
    refine ⟨i, hi, ?_, ?_⟩
    · show BaseMatch t.bits _ (t.page (chunk_index t.bits _)) i
      rw [r2]; exact ⟨r3.symm, hne⟩
    · show Entry.address ((t.page (chunk_index t.bits _)).getD i 0) t.bits = _
      rw [r2]
  obtain ⟨tl, htl, hb⟩ := hN.live t ht _ _ r1 hh
  obtain ⟨v, hv⟩ := (tailAt_eq_some s _ tl).1 htl
  exact ⟨tl, v, hv, hb⟩

/-! ## the history-level read theorem without A-tail -/

theorem runA_fixedCfg : ∀ (acts : List Action) (s s' : Col), FixedCfg s → runA s acts = .ok s' →
    FixedCfg s' := by
  intro acts
  induction acts with
  | nil => intro s s' hc h; simp only [runA] at h; injection h with h; subst h; exact hc
  | cons a as ih =>
    intro s s' hc h
    simp only [runA] at h
    obtain ⟨s1, h1, h2⟩ := Res.bind_ok h
    exact ih s1 s' (hc.step a h1) h2

/-- The invariants after every history of the fixed code: no stale entry, the state represents
the abstract map (`AbsN`: no key universe, no assumption on tails), reindex progress. -/
theorem C09_run_inv_notail (cfg : Cfg) (hex : cfg.exact = true) (hgrow : cfg.growOnMove = true)
    (hpurge : cfg.purge = true) (b0 : Nat) (hb : 16 ≤ b0 ∧ b0 ≤ 49) (acts : List Action)
    (hact : ∀ a ∈ acts, ActWF a) (hbound : AllBounded (Col.init cfg b0) acts) (s' : Col)
    (hrun : runA (Col.init cfg b0) acts = .ok s') : GoodR s' (spec (fun _ => none) acts) :=
  runA_full acts (Col.init cfg b0) s' _ (init_goodR cfg b0 hb.1 hb.2) ⟨hex, hgrow, hpurge⟩ hact hbound hrun

/-- C09 read theorem WITHOUT A-tail: every well-formed key returns its latest value after any
interleaving of commits, reindex batches, drops, reopens / recoveries and re-launched growths of
the fixed code.  Keys may share their stored 26-byte tails. -/
theorem C09_lookup_latest_notail (cfg : Cfg) (hex : cfg.exact = true) (hgrow : cfg.growOnMove = true)
    (hpurge : cfg.purge = true) (b0 : Nat) (hb : 16 ≤ b0 ∧ b0 ≤ 49) (acts : List Action)
    (hact : ∀ a ∈ acts, ActWF a) (hbound : AllBounded (Col.init cfg b0) acts) (s' : Col)
    (hrun : runA (Col.init cfg b0) acts = .ok s') (k : Key) (hk : KeyWF k) :
    lookup s' k = spec (fun _ => none) acts k := by
  have hR := C09_run_inv_notail cfg hex hgrow hpurge b0 hb acts hact hbound s' hrun
  have hc := runA_fixedCfg acts (Col.init cfg b0) s' ⟨hex, hgrow, hpurge⟩ hrun
  exact lookup_eq_N hR.good.shape hc.1 hR.abs k hk

/-- Any two different well-formed keys - also keys that share page and partial key in every
table, and also twins with EQUAL stored tails that differ in the index-visible bits only - stay
individually readable, replaceable and removable: whatever was done before, a write to `k1` is
read back and does not change what `k2` returns. -/
theorem C09_collision_individual_notail (cfg : Cfg) (hex : cfg.exact = true)
    (hgrow : cfg.growOnMove = true) (hpurge : cfg.purge = true) (b0 : Nat) (hb : 16 ≤ b0 ∧ b0 ≤ 49)
    (acts : List Action) (k1 k2 : Key) (hk1 : KeyWF k1) (hk2 : KeyWF k2) (hne : k1 ≠ k2) (op : Action)
    (hop : (∃ t e v, op = .set k1 t e v) ∨ op = .del k1)
    (hact : ∀ a ∈ acts ++ [op], ActWF a) (hbound : AllBounded (Col.init cfg b0) (acts ++ [op]))
    (s' : Col) (hrun : runA (Col.init cfg b0) (acts ++ [op]) = .ok s') :
    lookup s' k2 = spec (fun _ => none) acts k2 ∧
    lookup s' k1 = specStep (spec (fun _ => none) acts) op k1 := by
  have h1 := C09_lookup_latest_notail cfg hex hgrow hpurge b0 hb _ hact hbound s' hrun k1 hk1
  have h2 := C09_lookup_latest_notail cfg hex hgrow hpurge b0 hb _ hact hbound s' hrun k2 hk2
  rw [spec_append] at h1 h2
  refine ⟨?_, h1⟩
  rw [h2]
  rcases hop with ⟨t, e, v, rfl⟩ | rfl
  · simp only [specStep, upd]; rw [if_neg (fun e => hne e.symm)]
  · simp only [specStep, upd]; rw [if_neg (fun e => hne e.symm)]

/-! ## non-vacuity: the F29 history with WELL-FORMED twin keys (equal tails, A-tail violated) -/

def keyWFB (k : Key) : Bool :=
  decide (k.pre < 2 ^ 64) && decide (k.tail < 2 ^ 208) && decide (k.pre % 2 ^ 16 = k.tail / 2 ^ 192)

theorem keyWFB_sound (k : Key) (h : keyWFB k = true) : KeyWF k := by
  simp only [keyWFB, Bool.and_eq_true, decide_eq_true_eq] at h
  exact ⟨h.1.1, h.1.2, h.2⟩

def actWFB : Action → Bool
  | .set k tier _ _ => keyWFB k && decide (tier < 256)
  | .del k => keyWFB k
  | _ => true

theorem actWFB_sound (a : Action) (h : actWFB a = true) : ActWF a := by
  cases a with
  | set k tier ext v =>
    simp only [actWFB, Bool.and_eq_true, decide_eq_true_eq] at h
    exact ⟨keyWFB_sound k h.1, h.2⟩
  | del k => exact keyWFB_sound k h
  | reindex => trivial
  | enact => trivial
  | reopen => trivial
  | relaunch => trivial

/-- twin keys: they differ in bytes 0..5 only, the stored 26-byte tails are equal -/
def nsK1 : Key := ⟨(0x1234 <<< 48) ||| (0x5555 <<< 16) ||| 0x1abc, 0x1abc * 2 ^ 192 + 7⟩
def nsK2 : Key := ⟨(0x9999 <<< 48) ||| (0x7777 <<< 16) ||| 0x1abc, 0x1abc * 2 ^ 192 + 7⟩

/-- `nsK1` written, its page filled (63 more keys), a growth triggered, `nsK1` moved to another
size tier while found in the queued table, the twin `nsK2` written (it takes the freed slot),
`nsK1` removed, reopen with the queued table, the twin overwritten with a tier move, a fill key
removed -/
def nsActs : List Action :=
  Action.set nsK1 0 0 "v1" :: (List.range 63).map (fun i => Action.set (twFill i) 0 0 "f") ++
    [Action.set twTrigger 0 0 "t", Action.set nsK1 5 0 "big", Action.set nsK2 0 0 "v2",
     Action.del nsK1, Action.reopen, Action.set nsK2 7 0 "v3", Action.del (twFill 3)]

set_option maxRecDepth 100000 in
theorem nsRun : ∃ s1, runChecked (Col.init ⟨true, true, true⟩ 16) nsActs = some s1 ∧
    lookup s1 nsK1 = none ∧ lookup s1 nsK2 = some "v3" ∧ lookup s1 (twFill 3) = none ∧
    lookup s1 (twFill 4) = some "f" := by
  have h : ((runChecked (Col.init ⟨true, true, true⟩ 16) nsActs).map (fun s1 =>
      (lookup s1 nsK1, lookup s1 nsK2, lookup s1 (twFill 3), lookup s1 (twFill 4)))) =
      some (none, some "v3", none, some "f") := by decide +kernel
  cases h1 : runChecked (Col.init ⟨true, true, true⟩ 16) nsActs with
  | none => rw [h1] at h; cases h
  | some s1 =>
    rw [h1] at h
    simp only [Option.map_some, Option.some.injEq, Prod.mk.injEq] at h
    exact ⟨s1, rfl, h.1, h.2.1, h.2.2.1, h.2.2.2⟩

theorem nsActs_wf : ∀ a ∈ nsActs, ActWF a := by
  have h : nsActs.all actWFB = true := by decide +kernel
  intro a ha
  exact actWFB_sound a (List.all_eq_true.1 h a ha)

/-- Non-vacuity of `NoStale_run`, and the pay-off on keys with EQUAL tails: after a history with
growth, a tier move out of a queued table, removals and a reopen with a queued table, the reached
state has no stale entry and the twins are read individually. -/
theorem C09_twin_tails_readable :
    nsK1 ≠ nsK2 ∧ nsK1.tail = nsK2.tail ∧ KeyWF nsK1 ∧ KeyWF nsK2 ∧
    ∃ s1, runA (Col.init ⟨true, true, true⟩ 16) nsActs = .ok s1 ∧ NoStale s1 ∧
      lookup s1 nsK1 = none ∧ lookup s1 nsK2 = some "v3" := by
  obtain ⟨s1, h1, e1, e2, _, _⟩ := nsRun
  have r := runChecked_sound _ _ _ h1
  refine ⟨by decide, rfl, keyWFB_sound _ (by decide), keyWFB_sound _ (by decide), s1, r.1, ?_, e1, e2⟩
  exact NoStale_run ⟨true, true, true⟩ rfl rfl rfl 16 ⟨by decide, by decide⟩ nsActs nsActs_wf r.2 s1 r.1

/-- non-vacuity of `C09_lookup_latest_notail`: the twin history, every key of it -/
example : ∃ s1, runA (Col.init ⟨true, true, true⟩ 16) nsActs = .ok s1 ∧
    lookup s1 nsK1 = spec (fun _ => none) nsActs nsK1 ∧
    lookup s1 nsK2 = spec (fun _ => none) nsActs nsK2 ∧ lookup s1 nsK2 = some "v3" := by
  obtain ⟨s1, h1, _, e2, _, _⟩ := nsRun
  have r := runChecked_sound _ _ _ h1
  exact ⟨s1, r.1,
    C09_lookup_latest_notail ⟨true, true, true⟩ rfl rfl rfl 16 ⟨by decide, by decide⟩ nsActs nsActs_wf
      r.2 s1 r.1 nsK1 (keyWFB_sound _ (by decide)),
    C09_lookup_latest_notail ⟨true, true, true⟩ rfl rfl rfl 16 ⟨by decide, by decide⟩ nsActs nsActs_wf
      r.2 s1 r.1 nsK2 (keyWFB_sound _ (by decide)), e2⟩

end Pdb.Index

#print axioms Pdb.Index.NoStale_run
#print axioms Pdb.Index.NoStale_step
#print axioms Pdb.Index.NoStale_run_from
#print axioms Pdb.Index.C09_lookup_owner_nostale
#print axioms Pdb.Index.C14_no_misattribution_nostale
#print axioms Pdb.Index.NoStale_entry_resolves
#print axioms Pdb.Index.C09_twin_tails_readable
#print axioms Pdb.Index.C09_run_inv_notail
#print axioms Pdb.Index.C09_lookup_latest_notail
#print axioms Pdb.Index.C09_collision_individual_notail
