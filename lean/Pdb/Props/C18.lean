/-
C18  At most one live handle per database directory.

Model: Pdb.Conc.Lock (Pdb/Model/Conc.lean).  Any number of threads in any number of processes
run `Db::open` / drop on ONE directory; a thread executes its program marker by marker, every
interleaving is allowed, a process may be killed at any moment, an open may fail at any
point.  The programs are parameters; every theorem is proved for all programs satisfying the
decidable obligation `Prog.ok` (only content-free markers before `tryLock`; `unlockFile` is
the last marker of drop) and then instantiated with the programs regenerated from
src/db.rs (`genProg`, obligation discharged by `decide` in Pdb/Proofs/Order.lean).

Assumption A-os (flock(2) as used by fs2): per lock file at most one open file description
holds the exclusive lock; `try_lock` fails iff another one holds it; the lock is released by
`unlock`, by closing the description, or by the death of the process.
Strength: proof of the model + T0 order obligations; OS semantics are assumed (partial by nature).
-/
import Pdb.Proofs.C18
import Pdb.Proofs.Order

namespace Pdb.Conc.Lock
open Pdb.Gen.Order

theorem filter_unique_length {α : Type} (p : α → Bool) :
    ∀ (l : List α), l.Nodup → (∀ a b, p a = true → p b = true → a = b) → (l.filter p).length ≤ 1
  | [], _, _ => by simp
  | x :: l, hn, hu => by
    have hn' := List.nodup_cons.1 hn
    by_cases hx : p x = true
    · have : l.filter p = [] := by
        apply List.filter_eq_nil_iff.2
        intro a ha hpa
        have := hu a x hpa hx
        subst this
        exact hn'.1 ha
      simp [List.filter, hx, this]
    · have := filter_unique_length p l hn'.2 hu
      simpa [List.filter, hx] using this

/-- **C18_mutex.**  In every reachable state at most one thread (of any process) is between a
    successful `tryLock` and its `unlock` / death; in particular there are never two live
    handles, a live handle always is the lock holder, and no metadata / replay / table step
    was ever executed by a thread that did not hold the lock. -/
theorem C18_mutex (P : Prog) (hP : P.ok = true) (pid : Nat → Nat) (s : St) (h : Reachable P pid s) :
    (∀ t u, (s.th t).holds = true → (s.th u).holds = true → t = u) ∧
    (∀ t, (s.th t).phase = .live → s.holder = some t) ∧
    (∀ t u, (s.th t).phase = .live → (s.th u).phase = .live → t = u) ∧
    (∀ ts : List Nat, ts.Nodup → (liveHandles s ts).length ≤ 1) ∧
    s.bad = false := by
  have hI := inv_reachable hP h
  have huniq : ∀ t u, (s.th t).holds = true → (s.th u).holds = true → t = u := by
    intro t u ht hu
    have a := (hI.own t).1 ht
    have b := (hI.own u).1 hu
    rw [a] at b; exact Option.some.inj b
  have hlive : ∀ t, (s.th t).phase = .live → (s.th t).holds = true := by
    intro t ht
    have := hI.ph t
    rw [ht] at this
    simpa [phaseOk] using this
  refine ⟨huniq, fun t ht => (hI.own t).1 (hlive t ht), fun t u ht hu => huniq t u (hlive t ht) (hlive u hu), ?_, hI.good⟩
  intro ts hn
  exact filter_unique_length _ ts hn huniq

/-- Step form of the last clause: a step that changes database content is taken by the lock
    holder (all content-touching markers of `open` come after `tryLock`, those of drop before
    `unlock`). -/
theorem C18_content_only_under_lock (P : Prog) (hP : P.ok = true) (pid : Nat → Nat) (s s' : St)
    (h : Reachable P pid s) (a : Act) (hs : step P pid s a = some s') (hc : s'.content ≠ s.content) :
    ∃ t, a = .run t ∧ s.holder = some t := by
  have hI := inv_reachable hP h
  have hI' : Inv s' := inv_step hP hI hs
  have hexec : ∀ t m r k, s' = exec s t m r k → s.holder = some t := by
    intro t m r k he
    have hg := hI'.good
    rw [he] at hg hc
    unfold exec at hg hc
    by_cases h1 : m = .tryLock
    · subst h1
      simp only [beq_self_eq_true, if_true] at hc
      cases hh : s.holder <;> simp [hh] at hc
    · have h1' : (m == Marker.tryLock) = false := by simpa using h1
      simp only [h1', Bool.false_eq_true, if_false] at hc hg
      by_cases h2 : m = .unlockFile
      · subst h2
        simp only [beq_self_eq_true, if_true] at hc
        split at hc <;> simp at hc
      · have h2' : (m == Marker.unlockFile) = false := by simpa using h2
        simp only [h2', Bool.false_eq_true, if_false] at hc hg
        split at hc
        · simp at hc
        · split at hc
          · simp at hc
          · split at hc
            · simp at hc
            · rename_i hf1 hf2 hf3
              simp only [hf1, hf2, hf3, Bool.false_eq_true, if_false] at hg
              simp [hI.good] at hg
              exact (hI.own t).1 hg
  cases a with
  | start t => simp only [step] at hs; split at hs <;> cases hs; simp at hc
  | drop t => simp only [step] at hs; split at hs <;> cases hs; simp at hc
  | failOpen t =>
    simp only [step] at hs
    split at hs <;> cases hs
    unfold release at hc; split at hc <;> simp at hc
  | die p => simp only [step] at hs; cases hs; simp at hc
  | run t =>
    refine ⟨t, rfl, ?_⟩
    simp only [step] at hs
    split at hs
    · cases hs; simp at hc
    · cases hs; exact hexec t _ _ _ rfl
    · cases hs; unfold release at hc; split at hc <;> simp at hc
    · cases hs; exact hexec t _ _ _ rfl
    · cases hs

/-- **C18_failed_open_noop.**  An `open` that finds the lock held returns (Locked) at its
    `tryLock` step and that step changes nothing but the caller's own state. -/
theorem C18_failed_open_noop (P : Prog) (pid : Nat → Nat) (s : St) (t h : Nat) (r : List Marker)
    (hp : (s.th t).phase = .opening (.tryLock :: r)) (hh : s.holder = some h) :
    ∃ s', step P pid s (.run t) = some s' ∧ (s'.th t).phase = .idle ∧ (s'.th t).holds = false ∧
      s'.holder = s.holder ∧ s'.content = s.content ∧ s'.dirExists = s.dirExists ∧
      s'.lockFile = s.lockFile ∧ s'.bad = s.bad ∧ ∀ u, u ≠ t → s'.th u = s.th u := by
  refine ⟨exec s t .tryLock r .opening, by simp [step, hp], ?_⟩
  simp [exec, hh, setTh]
  intro u hu; simp [hu]

/-- What a failed open may leave behind: before its `tryLock` succeeds an opener changes
    nothing except possibly creating the directory and the (empty) `lock` file
    (`create_dir_all` in create mode, `OpenOptions::create(true)`): content, the lock holder
    and all other threads are untouched by every step it takes while not holding the lock. -/
theorem C18_prelock_frame (P : Prog) (hP : P.ok = true) (pid : Nat → Nat) (s s' : St) (t : Nat)
    (h : Reachable P pid s) (hnh : (s.th t).holds = false) (hs : step P pid s (.run t) = some s') :
    s'.content = s.content ∧ (s'.holder = s.holder ∨ (s.holder = none ∧ s'.holder = some t)) ∧
    (s.dirExists = true → s'.dirExists = true) ∧ (s.lockFile = true → s'.lockFile = true) ∧
    ∀ u, u ≠ t → s'.th u = s.th u := by
  have hI := inv_reachable hP h
  have hph := hI.ph t
  simp only [step] at hs
  split at hs
  · cases hs; simp [setTh]; intro u hu; simp [hu]
  · rename_i m r hp
    cases hs
    rw [hp, hnh] at hph
    have hpre : openPre (m :: r) = true := by simpa [phaseOk] using hph
    unfold exec
    by_cases h1 : m = .tryLock
    · subst h1
      simp only [beq_self_eq_true, if_true]
      cases hho : s.holder with
      | none => simp [setTh]; intro u hu; simp [hu]
      | some v => simp [setTh]; exact ⟨hho, fun u hu h' => absurd h' hu⟩
    · have h1' : (m == Marker.tryLock) = false := by simpa using h1
      have hf := openPre_cons_ne hpre h1
      have h2' : (m == Marker.unlockFile) = false := by simpa using hf.2.1
      simp only [h1', h2', Bool.false_eq_true, if_false, hf.1, if_true]
      split
      · simp [setTh]; intro u hu; simp [hu]
      · split <;> (simp [setTh]; intro u hu; simp [hu])
  · cases hs; unfold release; simp [hnh, setTh]; intro u hu; simp [hu]
  · rename_i m r hp
    rw [hp, hnh] at hph
    simp [phaseOk] at hph
  · cases hs

theorem exec_plain (s : St) (t : Nat) (m : Marker) (r : List Marker) (k : List Marker → Phase)
    (h1 : m ≠ .tryLock) (h2 : m ≠ .unlockFile) :
    (exec s t m r k).th t = { (s.th t) with phase := k r } ∧ (exec s t m r k).holder = s.holder := by
  have h1' : (m == Marker.tryLock) = false := by simpa using h1
  have h2' : (m == Marker.unlockFile) = false := by simpa using h2
  unfold exec
  simp only [h1', h2', Bool.false_eq_true, if_false]
  split
  · simp
  · split
    · simp
    · split <;> simp

/-- running thread `t` alone for `n` steps -/
def solo (t n : Nat) : List Act := List.replicate n (.run t)

theorem solo_post (P : Prog) (pid : Nat → Nat) (t : Nat) :
    ∀ (r : List Marker) (s : St), (s.th t).phase = .opening r → openPost r = true →
      ∃ s', run P pid s (solo t (r.length + 1)) = some s' ∧ (s'.th t).phase = .live ∧
        (s'.th t).holds = (s.th t).holds ∧ s'.holder = s.holder
  | [], s, hp, _ => by
    refine ⟨setTh s t { (s.th t) with phase := .live }, ?_, by simp, by simp, by simp⟩
    simp [solo, List.replicate, run, step, hp]
  | m :: r, s, hp, ho => by
    have hc := openPost_cons ho
    have he := exec_plain s t m r .opening hc.1 hc.2.1
    obtain ⟨s', h1, h2, h3, h4⟩ := solo_post P pid t r (exec s t m r .opening) (by rw [he.1]) hc.2.2
    refine ⟨s', ?_, h2, by rw [h3, he.1], by rw [h4, he.2]⟩
    have : solo t ((m :: r).length + 1) = .run t :: solo t (r.length + 1) := by
      simp [solo, List.replicate_succ]
    rw [this]
    simp only [run, step, hp]
    exact h1

theorem solo_pre (P : Prog) (pid : Nat → Nat) (t : Nat) :
    ∀ (r : List Marker) (s : St), (s.th t).phase = .opening r → (s.th t).holds = false →
      s.holder = none → openPre r = true →
      ∃ s', run P pid s (solo t (r.length + 1)) = some s' ∧ (s'.th t).phase = .live ∧
        s'.holder = some t
  | [], s, _, _, _, ho => by simp [openPre] at ho
  | m :: r, s, hp, hh, hn, ho => by
    have hsolo : solo t ((m :: r).length + 1) = .run t :: solo t (r.length + 1) := by
      simp [solo, List.replicate_succ]
    rw [hsolo]
    simp only [run, step, hp]
    by_cases h1 : m = .tryLock
    · subst h1
      have hpost := openPre_tryLock ho
      have hex : (exec s t .tryLock r .opening) =
          { setTh s t { phase := .opening r, holds := true } with holder := some t } := by
        simp [exec, hn]
      obtain ⟨s', a, b, c, d⟩ := solo_post P pid t r (exec s t .tryLock r .opening) (by rw [hex]; simp) hpost
      exact ⟨s', a, b, by rw [d, hex]⟩
    · have hf := openPre_cons_ne ho h1
      have he := exec_plain s t m r .opening h1 hf.2.1
      exact solo_pre P pid t r (exec s t m r .opening) (by rw [he.1]) (by rw [he.1]; exact hh)
        (by rw [he.2]; exact hn) hf.2.2

/-- **C18_reopen_after_drop_or_death.**  (a) the `unlock` step of drop and (b) the death of
    the holder's process both free the lock; (c) whenever the lock is free, an `open` by any
    idle thread of any live process succeeds when left to run (here: alone) and becomes the
    new holder. -/
theorem C18_reopen_after_drop_or_death (P : Prog) (hP : P.ok = true) (pid : Nat → Nat) (s : St)
    (h : Reachable P pid s) :
    (∀ t, (s.th t).phase = .dropping [.unlockFile] →
        ∃ s', step P pid s (.run t) = some s' ∧ s'.holder = none) ∧
    (∀ hd, s.holder = some hd → ∃ s', step P pid s (.die (pid hd)) = some s' ∧ s'.holder = none) ∧
    (∀ t, s.holder = none → (s.th t).phase = .idle →
        ∃ s', run P pid s (.start t :: solo t (P.openP.length + 1)) = some s' ∧
          (s'.th t).phase = .live ∧ s'.holder = some t ∧ Reachable P pid s') := by
  have hI := inv_reachable hP h
  refine ⟨?_, ?_, ?_⟩
  · intro t hp
    have := hI.ph t
    rw [hp] at this
    have hh : (s.th t).holds = true := by
      cases hb : (s.th t).holds with
      | true => rfl
      | false => rw [hb] at this; simp [phaseOk] at this
    exact ⟨exec s t .unlockFile [] .dropping, by simp [step, hp], by simp [exec, hh]⟩
  · intro hd hh
    refine ⟨_, rfl, ?_⟩
    simp [hh]
  · intro t hn hp
    have hPo : openPre P.openP = true := by
      have : openPre P.openP = true ∧ dropOk P.dropP = true := by simpa [Prog.ok] using hP
      exact this.1
    have hh : (s.th t).holds = false := by
      have := hI.ph t; rw [hp] at this; simpa [phaseOk] using this
    obtain ⟨s', a, b, c⟩ := solo_pre P pid t P.openP (setTh s t { (s.th t) with phase := .opening P.openP })
      (by simp) (by simpa using hh) (by simpa using hn) hPo
    refine ⟨s', ?_, b, c, ?_⟩
    · simp only [run, step, hp, if_true]; exact a
    · obtain ⟨as, has⟩ := h
      refine ⟨as ++ (.start t :: solo t (P.openP.length + 1)), ?_⟩
      have happ : ∀ (l1 l2 : List Act) (x y : St), run P pid x l1 = some y →
          run P pid x (l1 ++ l2) = run P pid y l2 := by
        intro l1
        induction l1 with
        | nil => intro l2 x y hxy; simp [run] at hxy; subst hxy; rfl
        | cons a l ih =>
          intro l2 x y hxy
          simp only [run, List.cons_append] at hxy ⊢
          cases hst : step P pid x a with
          | none => rw [hst] at hxy; cases hxy
          | some z => rw [hst] at hxy; exact ih l2 z y hxy
      rw [happ _ _ _ _ has]
      simp only [run, step, hp, if_true]; exact a

/-! ### Instances for the programs regenerated from src/db.rs -/

theorem C18_mutex_gen (pid : Nat → Nat) (s : St) (h : Reachable genProg pid s) :
    (∀ t u, (s.th t).phase = .live → (s.th u).phase = .live → t = u) ∧ s.bad = false :=
  let r := C18_mutex genProg Ord.genProg_ok pid s h
  ⟨r.2.2.1, r.2.2.2.2⟩

theorem C18_reopen_gen (pid : Nat → Nat) (s : St) (h : Reachable genProg pid s) (t : Nat)
    (hn : s.holder = none) (hp : (s.th t).phase = .idle) :
    ∃ s', Reachable genProg pid s' ∧ (s'.th t).phase = .live :=
  let ⟨s', _, b, _, d⟩ := (C18_reopen_after_drop_or_death genProg Ord.genProg_ok pid s h).2.2 t hn hp
  ⟨s', d, b⟩

/-! ### Non-vacuity: concrete runs of the generated programs -/

/-- number of markers of the generated open program up to and including `tryLock` -/
def preLock : Nat := genProg.openP.idxOf .tryLock + 1
def openLen : Nat := genProg.openP.length
def dropLen : Nat := genProg.dropP.length

/-- two threads of two processes: thread 0 takes the lock; thread 1 races, gets Locked and is
    idle again while thread 0 is still replaying; thread 0 finishes its open, then drops;
    thread 1 opens successfully.  (Step counts are computed from the generated programs.) -/
def demo : List Act :=
  [.start 0, .start 1] ++ solo 0 preLock ++ solo 1 preLock ++ solo 0 (openLen - preLock + 1) ++ [.drop 0] ++
  solo 0 (dropLen + 1) ++ [.start 1] ++ solo 1 (openLen + 1)

example : (run genProg (fun t => t) init demo).isSome = true := by decide
example : ((run genProg (fun t => t) init demo).map (fun s => ((s.th 0).phase, (s.th 1).phase, s.holder, s.bad)))
    = some (.idle, .live, some 1, false) := by decide
/-- the racing open of thread 1 ended with Locked while thread 0 was still replaying -/
example : ((run genProg (fun t => t) init ([.start 0, .start 1] ++ solo 0 preLock ++ solo 1 preLock)).map
    (fun s => ((s.th 0).phase, (s.th 1).phase, s.holder, s.content)))
    = some (.opening (genProg.openP.drop preLock), .idle, some 0, 0) := by decide
/-- kill -9 of the holder's process frees the lock -/
example : ((run genProg (fun t => t) init ([.start 0] ++ solo 0 (openLen + 1) ++ [.die 0, .start 1] ++ solo 1 (openLen + 1))).map
    (fun s => ((s.th 0).phase, (s.th 1).phase, s.holder))) = some (.dead, .live, some 1) := by decide
/-- the obligation is not vacuous: a program that reads metadata before locking violates it -/
example : Prog.ok { openP := [.createLockFile, .loadMetadata, .tryLock], dropP := [.unlockFile] } = false := by
  decide
example : Prog.ok { openP := [.createLockFile, .tryLock, .loadMetadata], dropP := [.unlockFile, .callKillLogs] } = false := by
  decide

end Pdb.Conc.Lock

#print axioms Pdb.Conc.Lock.C18_mutex
#print axioms Pdb.Conc.Lock.C18_content_only_under_lock
#print axioms Pdb.Conc.Lock.C18_failed_open_noop
#print axioms Pdb.Conc.Lock.C18_prelock_frame
#print axioms Pdb.Conc.Lock.C18_reopen_after_drop_or_death
#print axioms Pdb.Conc.Lock.C18_mutex_gen
#print axioms Pdb.Conc.Lock.C18_reopen_gen
