/-
Width-explicit machine arithmetic used by the generated files (release-mode Rust:
wrapping add/sub/mul, shift amounts masked to the operand width).
-/
namespace Pdb.Gen

def wadd (w a b : Nat) : Nat := (a + b) % 2 ^ w
def wsub (w a b : Nat) : Nat := (a + 2 ^ w - b % 2 ^ w) % 2 ^ w
def wmul (w a b : Nat) : Nat := (a * b) % 2 ^ w
def wdiv (_w a b : Nat) : Nat := a / b
def wmod (_w a b : Nat) : Nat := a % b
def wshl (w a b : Nat) : Nat := (a <<< (b % w)) % 2 ^ w
def wshr (w a b : Nat) : Nat := a >>> (b % w)
def wand (_w a b : Nat) : Nat := a &&& b
def wor (_w a b : Nat) : Nat := a ||| b
def wxor (_w a b : Nat) : Nat := a ^^^ b
def wcast (w a : Nat) : Nat := a % 2 ^ w

end Pdb.Gen
