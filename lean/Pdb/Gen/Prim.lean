/-
Width-explicit machine arithmetic used by the generated files (release-mode Rust:
wrapping add/sub/mul, shift amounts masked to the operand width).
-/
namespace Pdb.Gen

def wadd (w a b : Nat) : Nat := (a + b) % 2 ^ w
def wsub (w a b : Nat) : Nat := (a + 2 ^ w - b % 2 ^ w) % 2 ^ w
def wmul (w a b : Nat) : Nat := (a * b) % 2 ^ w
def wdiv (_w a b : Nat) : Nat := a / b
def wmod (_w a b : Nat) : Nat := a % b
def wshl (w a b : Nat) : Nat := (a <<< (b % w)) % 2 ^ w
def wshr (w a b : Nat) : Nat := a >>> (b % w)
def wand (_w a b : Nat) : Nat := a &&& b
def wor (_w a b : Nat) : Nat := a ||| b
def wxor (_w a b : Nat) : Nat := a ^^^ b
def wcast (w a : Nat) : Nat := a % 2 ^ w

/-! Signed machine integers (`i64` counters such as `log_queue_wait.work`, which may dip below 0):
values are `Int`s, `iwrap w` is the two's complement wrap to `w` bits. -/
def iwrap (w : Nat) (x : Int) : Int := (x + 2 ^ (w - 1)) % 2 ^ w - 2 ^ (w - 1)
def iadd (w : Nat) (a b : Int) : Int := iwrap w (a + b)
def isub (w : Nat) (a b : Int) : Int := iwrap w (a - b)
/-- `x as i<w>` for an unsigned `x` -/
def icast (w : Nat) (x : Nat) : Int := iwrap w (x : Int)

end Pdb.Gen
