/-
R7 for preimage and reference-counted hash columns: the physical record of a transaction on the
physical column of every logical kind (`RefineRc.rRun`: Set / Dereference / Reference with
`write_inc_ref` / `write_dec_ref`), on the same locations, writes and memory as
Pdb/Model/PhysRec.lean.  What `ValueTable::change_ref` logs is the slot it rewrites
(`log.insert_value(self.id, index, buf[0..size])`); it does not dirty the header.

`planWritesR` is read off `rRun` exactly as `planWrites` is read off `pRun`.

Driver (command `physrec`, Pdb/Model/PhysRec.lean) extension:
  physrec initk <bits> <plain|preimage|rc> <purge|nopurge>   fresh column of the kind          -> ok
  physrec ref <hexkey32>                                     plan `Operation::Reference`       -> ok
  physrec getrc <hexkey32>                 -> none | some <len>:<fnv1a64> rc=<stored counter>
(`set` / `deref` / `rec` / `torn` / `get` work on the column of the current kind).
-/
import Pdb.Model.PhysRec
import Pdb.Model.RefineRc

namespace Pdb.PhysRec
open Pdb.Gen Pdb.Index Pdb.ValueTable Pdb.Refine Pdb.RefineRc

/-- transactions of a column of any kind -/
abbrev TxR := List RAction

/-- value-table side of `rWriteExisting` -/
def existingTouchedR (kind : Pdb.Kind) (cmp : Bytes → Bytes) (thr : Nat) (p : PCol) (k : Key)
    (op : ROp) (a : Nat) : List (Nat × Nat) :=
  match op with
  | .ref => if refCounted kind then [(Address.size_tier a, Address.offset a)] else []
  | .set v =>
    if refCounted kind then [(Address.size_tier a, Address.offset a)]
    else if preimage kind then []
    else existingTouched p k (some (tierFor cmp thr false (tkey k) v)) a
  | .deref =>
    if refCounted kind then
      if (changeRef (p.vt (Address.size_tier a)) (Address.offset a) false).2 then
        [(Address.size_tier a, Address.offset a)]
      else existingTouched p k none a
    else existingTouched p k none a

/-- value-table side of `rWrite` -/
def vtTouchedR (kind : Pdb.Kind) (cmp : Bytes → Bytes) (thr : Nat) (p : PCol) (k : Key) (op : ROp) :
    List (Nat × Nat) :=
  match pSearchAll p k with
  | some (_, _, a) => existingTouchedR kind cmp thr p k op a
  | none =>
    match op with
    | .set v => insTouched p k (tierFor cmp thr (refCounted kind) (tkey k) v)
    | .deref => []
    | .ref => []

def stepTouchedR (kind : Pdb.Kind) (cmp : Bytes → Bytes) (thr : Nat) (p : PCol) :
    RAction → List (Nat × Nat)
  | .set k v => vtTouchedR kind cmp thr p k (.set v)
  | .deref k => vtTouchedR kind cmp thr p k .deref
  | .ref k => vtTouchedR kind cmp thr p k .ref
  | _ => []

def txTouchedR (kind : Pdb.Kind) (cmp : Bytes → Bytes) (thr : Nat) : PCol → TxR → List (Nat × Nat)
  | _, [] => []
  | p, a :: as =>
    stepTouchedR kind cmp thr p a ++
      (match rStep kind cmp thr p a with
       | .ok p1 => txTouchedR kind cmp thr p1 as
       | _ => [])

def runTxR (kind : Pdb.Kind) (cmp : Bytes → Bytes) (thr : Nat) (p : PCol) (tx : TxR) : Option PCol :=
  match rRun kind cmp thr p tx with
  | .ok p' => some p'
  | _ => none

/-- THE PHYSICAL RECORD of transaction `tx` planned on the column `p` of kind `kind`. -/
def planWritesR (kind : Pdb.Kind) (cmp : Bytes → Bytes) (thr : Nat) (p : PCol) (tx : TxR) :
    List Write :=
  match runTxR kind cmp thr p tx with
  | some p' => diffWrites (cands (txTouchedR kind cmp thr p tx) p p') (mem p) (mem p')
  | none => []

/-! ## driver -/

def planStepR (d : DState) (a : RAction) : DState × String :=
  if d.failed.isSome then (d, "ok")
  else
    match rStep d.kind noComp 0 d.col a with
    | .ok p => ({ d with col := p, touched := d.touched ++ stepTouchedR d.kind noComp 0 d.col a }, "ok")
    | .panic => ({ d with failed := some "panic" }, "ok")
    | .diverge => ({ d with failed := some "diverge" }, "ok")
    | .vtErr e => ({ d with failed := some (showWrErr e) }, "ok")

def isPlain : Pdb.Kind → Bool
  | .plain => true
  | _ => false

def stepR (d : DState) (ws : List String) : DState × String :=
  match ws with
  | ["initk", b, k, pu] =>
    match b.toNat?, RefineRc.parseKind k,
        (if pu = "purge" then some true else if pu = "nopurge" then some false else none) with
    | some bits, some kind, some pg =>
      if MIN_INDEX_BITS ≤ bits ∧ bits ≤ 40 then
        let p := rInit kind ⟨true, true, pg⟩ bits
        ({ d with col := p, base := p, tx := [], touched := [], failed := none, last := none,
                  kind := kind }, "ok")
      else (d, "bad-op")
    | _, _, _ => (d, "bad-op")
  | ["ref", k] =>
    match parseKey k with
    | some key => planStepR d (.ref key)
    | none => (d, "bad-op")
  | ["getrc", k] =>
    match parseKey k with
    | some key =>
      (d, Pdb.Index.showOpt ((rGet some d.col key).map (fun c => s!"{showVal c.1} rc={c.2}")))
    | none => (d, "bad-op")
  | ["set", k, v] =>
    if isPlain d.kind then step d ws
    else
      match parseKey k, parseValue v with
      | some key, some val => planStepR d (.set key val)
      | _, _ => (d, "bad-op")
  | ["deref", k] =>
    if isPlain d.kind then step d ws
    else
      match parseKey k with
      | some key => planStepR d (.deref key)
      | none => (d, "bad-op")
  | _ => step d ws

end Pdb.PhysRec
