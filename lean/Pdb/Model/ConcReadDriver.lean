/-
ConcReadDriver: line-protocol driver (command word `c05`) over the key-level interleaving model
`Pdb.CRd.CSt` / `cstep` of Model/ConcRead.lean Part 1, so that the deterministic scenarios of
harness/src/c05.rs (threads parked at the hand-over sites by the yield hook) are REPLAYED as
schedules of the very LTS the C05 theorems quantify over, and every answer of `Db::get` /
`Db::get_size` is compared with the model's.

Every op line denotes a list of LTS actions (`actsOf`); the new state is `crunX` of that list
(`stepDrv`; `crunX = crun` is proved in Proofs/C05Driver.lean, `crunX` only avoids an exponential
evaluation of `planRec` in compiled code), nothing else touches the state.  The output line says whether every action that
has to be enabled was enabled (`ok` / `disabled:<action>`; a disabled action is a no-op of the
LTS, `Proofs/C05Driver.lean: cstep_of_not_enabled`) or gives the result of a completed read.

K = V = String.  Keys `k<space>_<id>`, value tokens `<tag>..._<len>` (the number after the last
'_' is the length in bytes, what `get_size` answers).  Every key is `Kind.plain`.

Ops (after the command word):
  init <nReaders>                      fresh `CSt.init`, `N` reader threads
  commit set:<k>:<v> | del:<k> ...     `.commit tx`
  pop | publish | cleanOverlay | flush | enactWrite | endRead
  process                              pop; publish; cleanOverlay          (`process_commits`)
  enactWrites                          every remaining enactWrite of the oldest flushed record
                                       (the enacting thread parked before `end_read`)
  enactRecord                          enactWrites; endRead                 (one record of `enact_logs`)
  rBegin <t> <k> | rOverlay <t> | rLog <t> | rTable <t>
  rEnd <t>                             -> `none` / `some <v>`
  get <k>                              a whole read by reader 0: rBegin; rOverlay; rLog; rTable; rEnd
                                       (the steps after a hit are disabled = no-ops) -> result
  size <k>                             the same five actions, answer mapped through `tokLen`
  stages                               debugging line, no action
  drained                              no action; `ok enacted=<records ended> hist=<commits accepted>` iff the
                                       queue, the in-flight slot and the log overlay are empty and no reader
                                       is inside, else `no <stages line>` (the harness emits it where its
                                       mirror of the pipeline says everything has reached the tables)
-/
import Pdb.Model.ConcRead

namespace Pdb
namespace CRdDriver
open CRd

/-! ### generic part: enabledness, composite schedules -/
section Generic
variable {K V : Type} [DecidableEq K]

/-- The guard of every action of `cstep` (a disabled action leaves the state unchanged). -/
def enabled (kind : K → Kind) (N : Nat) (s : CSt K V) : CAct K V → Bool
  | .commit tx => !inside N s && tx.all (opValid kind)
  | .pop =>
    match s.inflight, s.queue with
    | none, _ :: _ => true
    | _, _ => false
  | .publish =>
    match s.inflight with
    | some (_, false) => true
    | _ => false
  | .cleanOverlay =>
    !inside N s &&
    match s.inflight with
    | some (_, true) => true
    | _ => false
  | .flush => true
  | .enactWrite =>
    match s.flushed, s.logged with
    | _ + 1, r :: _ => (r[s.enactPos]?).isSome
    | _, _ => false
  | .endRead =>
    match s.flushed, s.logged with
    | _ + 1, r :: _ => decide (s.enactPos = r.length)
    | _, _ => false
  | .rBegin t _ => decide (t < N) && (s.readers t).isIdle
  | .rOverlay t =>
    match s.readers t with
    | .started _ _ => true
    | _ => false
  | .rLog t =>
    match s.readers t with
    | .missedOverlay _ _ => true
    | _ => false
  | .rTable t =>
    match s.readers t with
    | .missedLog _ _ => true
    | _ => false
  | .rEnd t =>
    match s.readers t with
    | .done _ _ _ => true
    | _ => false

def actName : CAct K V → String
  | .commit _ => "commit"
  | .pop => "pop"
  | .publish => "publish"
  | .cleanOverlay => "cleanOverlay"
  | .flush => "flush"
  | .enactWrite => "enactWrite"
  | .endRead => "endRead"
  | .rBegin _ _ => "rBegin"
  | .rOverlay _ => "rOverlay"
  | .rLog _ => "rLog"
  | .rTable _ => "rTable"
  | .rEnd _ => "rEnd"

/-! Executable twin of `cstep`.  `planRec` builds `applyOps kind t ops` as a stack of `upd`
closures whose update argument `applyCell .. (t op.key)` is evaluated at EVERY lookup: two calls
of the old function per level, i.e. 2^(operations of the transaction) steps per lookup in
compiled code (a 70-key filler transaction never finishes).  `cstepX` differs from `cstep` only
in computing the same record with `cellAfter` (one pass over the operations per key);
`Proofs/C05Driver.lean: cstepX_eq, crunX_eq` prove `cstepX = cstep`, `crunX = crun`. -/

/-- `applyOps kind t ops x`, computed by one pass over the operations. -/
def cellAfter (kind : K → Kind) (t : Tbl K V) (ops : List (Op K V)) (x : K) : Cell V :=
  ops.foldl (fun c op => if op.key = x then applyCell (kind op.key) op c else c) (t x)

/-- `planRec`, computed with `cellAfter`. -/
def planRecX (kind : K → Kind) (t : Tbl K V) (ops : List (Op K V)) : Rec K V :=
  ops.map (fun op => (op.key, cellAfter kind t ops op.key))

/-- `cstep` with the record of `publish` computed by `planRecX`. -/
def cstepX (kind : K → Kind) (N : Nat) (s : CSt K V) : CAct K V → CSt K V
  | .publish =>
    match s.inflight with
    | some (c, false) =>
      { s with inflight := some (c, true),
               logged := s.logged ++ [planRecX kind (cview s) c.ops] }
    | _ => s
  | a => cstep kind N s a

def crunX (kind : K → Kind) (N : Nat) (s : CSt K V) (as : List (CAct K V)) : CSt K V :=
  as.foldl (cstepX kind N) s

/-- Name of the first action of the list that is disabled when its turn comes. -/
def firstDisabled (kind : K → Kind) (N : Nat) : CSt K V → List (CAct K V) → Option String
  | _, [] => none
  | s, a :: as =>
    if enabled kind N s a then firstDisabled kind N (cstepX kind N s a) as else some (actName a)

/-- `process_commits` for one queued commit. -/
def processActs : List (CAct K V) := [.pop, .publish, .cleanOverlay]

/-- Number of location writes of the oldest flushed record that are still to do. -/
def pendingWrites (s : CSt K V) : Nat :=
  match s.flushed, s.logged with
  | _ + 1, r :: _ => r.length - s.enactPos
  | _, _ => 0

/-- A flushed record is waiting to be enacted (or is being enacted). -/
def hasFlushed (s : CSt K V) : Bool :=
  match s.flushed, s.logged with
  | _ + 1, _ :: _ => true
  | _, _ => false

/-- All table writes of the oldest flushed record, without `end_read`. -/
def enactWritesActs (s : CSt K V) : List (CAct K V) := List.replicate (pendingWrites s) .enactWrite

/-- One record of `enact_logs`: its table writes, then `end_read`. -/
def enactRecordActs (s : CSt K V) : List (CAct K V) := enactWritesActs s ++ [.endRead]

/-- The lookups of a point read by reader `t` (before the lock is released). -/
def lookupActs (t : Nat) (k : K) : List (CAct K V) := [.rBegin t k, .rOverlay t, .rLog t, .rTable t]

/-- A whole point read by reader `t`. -/
def readActs (t : Nat) (k : K) : List (CAct K V) := lookupActs t k ++ [.rEnd t]

/-- The result reader `t` is about to return. -/
def resultAt (s : CSt K V) (t : Nat) : Option (Option V) :=
  match s.readers t with
  | .done _ _ r => some r
  | _ => none

end Generic

/-! ### the driver -/

abbrev K := String
abbrev V := String

def kindOf : K → Kind := fun _ => .plain

structure Drv where
  n : Nat
  st : CSt K V

abbrev State := Option Drv

/-- Length component of a value token: the number after the last '_'. -/
def tokLen (v : V) : Nat := (((v.splitOn "_").getLast?.getD "").toNat?).getD 0

def parseOp (w : String) : Option (Op K V) :=
  match w.splitOn ":" with
  | ["set", k, v] => some (.set k v)
  | ["del", k] => some (.deref k)
  | _ => none

def showOpt : Option String → String
  | some v => "some " ++ v
  | none => "none"

/-- The schedule denoted by one op line (`none`: malformed). -/
def actsOf (d : Drv) : List String → Option (List (CAct K V))
  | "commit" :: ops => (ops.mapM parseOp).map (fun tx => [.commit tx])
  | ["pop"] => some [.pop]
  | ["publish"] => some [.publish]
  | ["cleanOverlay"] => some [.cleanOverlay]
  | ["flush"] => some [.flush]
  | ["enactWrite"] => some [.enactWrite]
  | ["endRead"] => some [.endRead]
  | ["process"] => some processActs
  | ["enactWrites"] => some (enactWritesActs d.st)
  | ["enactRecord"] => some (enactRecordActs d.st)
  | ["rBegin", t, k] => t.toNat?.map (fun t => [.rBegin t k])
  | ["rOverlay", t] => t.toNat?.map (fun t => [.rOverlay t])
  | ["rLog", t] => t.toNat?.map (fun t => [.rLog t])
  | ["rTable", t] => t.toNat?.map (fun t => [.rTable t])
  | ["rEnd", t] => t.toNat?.map (fun t => [.rEnd t])
  | ["get", k] => some (readActs 0 k)
  | ["size", k] => some (readActs 0 k)
  | ["stages"] => some []
  | ["drained"] => some []
  | _ => none

def okOr (d : Drv) (as : List (CAct K V)) : String :=
  match firstDisabled kindOf d.n d.st as with
  | none => "ok"
  | some a => "disabled:" ++ a

/-- Answer of a whole read by reader 0: the result the reader holds after its lookups. -/
def readAnswer (d : Drv) (k : K) (f : V → String) : String :=
  if enabled kindOf d.n d.st (.rBegin 0 k) then
    match resultAt (crunX kindOf d.n d.st (lookupActs 0 k)) 0 with
    | some r => showOpt (r.map f)
    | none => "disabled:rEnd"
  else "disabled:rBegin"

def stagesLine (s : CSt K V) : String :=
  let infl := match s.inflight with
    | none => "none"
    | some (_, false) => "popped"
    | some (_, true) => "published"
  s!"queue={s.queue.length} inflight={infl} logged={s.logged.length} flushed={s.flushed} enactPos={s.enactPos} enacted={s.nEnacted} hist={s.hist.length} reads={s.reads.length}"

/-- Everything accepted has reached the tables and no reader is inside. -/
def isDrained (d : Drv) : Bool :=
  d.st.queue.isEmpty && d.st.inflight.isNone && d.st.logged.isEmpty && !inside d.n d.st

/-- The output line of one op (computed on the state BEFORE the op). -/
def outputOf (d : Drv) (args : List String) (as : List (CAct K V)) : String :=
  match args with
  | ["enactWrites"] => if hasFlushed d.st then okOr d as else "disabled:enactWrite"
  | ["rEnd", t] =>
    match resultAt d.st (t.toNat?.getD 0) with
    | some r => showOpt r
    | none => "disabled:rEnd"
  | ["get", k] => readAnswer d k id
  | ["size", k] => readAnswer d k (fun v => toString (tokLen v))
  | ["stages"] => stagesLine d.st
  | ["drained"] =>
    if isDrained d then s!"ok enacted={d.st.nEnacted} hist={d.st.hist.length}"
    else "no " ++ stagesLine d.st
  | _ => okOr d as

/-- One op line on an initialised driver: the state moves by `crunX` (= `crun`) of the denoted
    schedule. -/
def stepDrv (d : Drv) (args : List String) : Drv × String :=
  match actsOf d args with
  | none => (d, "bad-op")
  | some as => ({ d with st := crunX kindOf d.n d.st as }, outputOf d args as)

def step (s : State) (args : List String) : State × String :=
  match args with
  | ["init", n] =>
    match n.toNat? with
    | some n => (some { n := n, st := CSt.init }, "ok")
    | none => (s, "bad-op")
  | _ =>
    match s with
    | none => (s, "bad-op")
    | some d => let r := stepDrv d args; (some r.1, r.2)

end CRdDriver
end Pdb
