/-
P3 / C13: byte-level model of the parity-db write-ahead log and of its replay at open.

This is a model of the code WITH /verif/fixes/fix-c13.diff applied (every audited panic
site returns `Err(Error::Corruption(..))`).  Rust anchors:

  encodeRecord      = LogChange::flush_to_file                      (src/log.rs)
  Reader, next      = LogReader::{read, next}  (running CRC = `consumed`)
  checkIndex        = HashColumn::validate_plan, InsertIndex arm    (src/column.rs)
                      + IndexTable::validate_plan bound             (src/index.rs)
  checkRefCount     = HashColumn::validate_plan, InsertRefCount arm + RefCountTable::validate_plan
  valueLen          = ValueTable::validate_plan / enact_plan        (src/table.rs)
  validateLoop      = the validation loop of DbInner::enact_logs(validation_mode = true)
  applyPass         = the apply loop of enact_logs, as far as it changes what later
                      validations consult (drop_index / drop_ref_count pop the reindex queue)
  parseRecord       = one call of enact_logs(true): Log::read_next, id sequence check,
                      validation pass (whole record incl. CRC), reader.reset(), apply pass
  replayFile        = `while self.enact_logs(true)? {}`
  orderFiles        = Log::open (open_log_file / read_first_record_id / sort_by_key)
  replaySorted      = DbInner::replay_all_logs (Log::replay_next loop)
  initialLastEnacted= DbInner::open: `log.replay_record_id().unwrap_or(2).saturating_sub(1)`

Facts about the Rust that shape the model (see the audit in the C13 report):
  * validation is NOT free of side effects: an INSERT_INDEX / INSERT_REF_COUNT naming a table
    with more index bits than the current one makes `validate_plan` call `trigger_reindex`
    (current table is queued, a new empty current table is created) -- before the CRC of the
    record has been checked.  So the configuration is threaded through the parser (`Cfg` in,
    `Cfg` out, also on failure).
  * an `Err` of `reader.next()` inside the validation loop (truncated opcode/header, bad
    opcode, CRC mismatch, truncated CRC) returns `Ok(false)` WITHOUT `clear_replay_logs`:
    replay goes on with the NEXT log file (`Reason.clears = false`).  Every other rejection
    clears the whole replay queue.
  * a truncated *first* opcode of a record (clean EOF or EOF inside the BEGIN header) is the
    normal end of a log file.

Bytes are `List UInt8`.  CRC-32 is a parameter `crc : Bytes → Nat` (assumption A-crc: a
function of the bytes; only `crc b % 2^32` is used).  The driver instantiates it with the
standard reflected CRC-32 `crc32`.

Driver protocol (command `c13`, see `driverLine` at the end of the file):

  parse  <cfg> <last_enacted> <hex>            one log file
  replay <cfg> <last_enacted|auto> <hex> ...   several files, in directory order
  replaylast <cfg> <last_enacted|auto> <hex> ...   same replay, answer is only
                                               "last=" <n> " cfg=" <cfg>: what harness/src/c13.rs
                                               observes of `Db::open` (hooks `Db::verif_last_enacted`,
                                               `Db::verif_table_cfg`)

  <cfg>  ::= <v4> { "/" <col> }          v4 = 1 iff metadata.version <= 4, else 0
  <col>  ::= "b"                          btree column
           | "h," <indexBits> "," <rcBits|-> "," <queue>
  <queue>::= "" | <q> { "." <q> }         reindex queue, front first
  <q>    ::= "i" <bits> | "r" <bits>      queued index / ref-count table
  e.g.   0/h,16,-,/h,17,16,i16.r16/b
  <hex>  ::= lowercase or uppercase hex, "-" for the empty file

  answer ::= { <record> " " } "stop=" <stop> " last=" <n> " cfg=" <cfg>     (parse)
  answer ::= { <file answer without last/cfg> " | " } "last=" <n> " cfg=" <cfg>  (replay)
  <record> ::= <id> ":[" <act> { "," <act> } "]"
  <act>  ::= "I" <table> "@" <chunk> "#" <mask hex> "+" <len> "~" <crc32 of entries, hex>
           | "V" <table> "@" <index> "+" <len> "~" <crc32 of payload, hex>
           | "R" <table> "@" <chunk> "#" <mask hex> "+" <len> "~" <crc32 hex>
           | "D" <table> | "C" <table>
  <stop> ::= eof | bad-header | sequence | read-error | unexpected-begin | validation | stuck
  malformed input: "bad-op"
-/
import Pdb.Gen.Consts
import Pdb.Gen.Bits

namespace Pdb.Wal
open Pdb.Gen

abbrev Bytes := List UInt8

/-! ## little endian -/

/-- `n.to_le_bytes()` for a `k`-byte integer. -/
def leBytes : Nat → Nat → Bytes
  | 0, _ => []
  | k + 1, n => UInt8.ofNat (n % 256) :: leBytes k (n / 256)

/-- `uN::from_le_bytes`. -/
def leVal : Bytes → Nat
  | [] => 0
  | b :: bs => b.toNat + 256 * leVal bs

/-- Number of set bits among the low 64 (`while mask != 0 { trailing_zeros; clear }`). -/
def popcount (mask : Nat) : Nat :=
  ((List.range 64).filter (fun i => mask.testBit i)).length

def U16 : Nat := 2 ^ 16
def U64 : Nat := 2 ^ 64

/-! ## configuration consulted by the validators -/

/-- Entry of `HashColumn::reindex.queue`. -/
inductive QEntry where
  | index (bits : Nat)
  | refCount (bits : Nat)
deriving DecidableEq, Repr

structure ColCfg where
  /-- `Column::Tree` (true) or `Column::Hash` (false). -/
  btree : Bool
  /-- `tables.index.id.index_bits()`. -/
  indexBits : Nat
  /-- `tables.ref_count.map(|t| t.id.index_bits())`. -/
  rcBits : Option Nat
  /-- `reindex.queue`, front first. -/
  queue : List QEntry
deriving DecidableEq, Repr

structure Cfg where
  /-- `db_version <= 4`: the V4 multipart markers are recognised. -/
  v4 : Bool
  cols : List ColCfg
deriving DecidableEq, Repr

def Cfg.setCol (cfg : Cfg) (c : Nat) (cc : ColCfg) : Cfg :=
  { cfg with cols := cfg.cols.set c cc }

/-- PATCH: `MAX_INDEX_BITS = ENTRY_BITS - CHUNK_ENTRIES_BITS - SIZE_TIERS_BITS - 1` (src/index.rs). -/
def maxIndexBits : Nat := INDEX_ENTRY_BITS - INDEX_CHUNK_ENTRIES_BITS - SIZE_TIERS_BITS - 1

/-! ## records -/

inductive Action where
  /-- `INSERT_INDEX table chunk mask` + `popcount mask` entries of 8 bytes. -/
  | insertIndex (table chunk mask : Nat) (entries : Bytes)
  /-- `INSERT_VALUE table index` + the entry bytes (length derived from their first bytes). -/
  | insertValue (table index : Nat) (payload : Bytes)
  /-- `INSERT_REF_COUNT table chunk mask` + `popcount mask` entries of 16 bytes. -/
  | insertRefCount (table chunk mask : Nat) (entries : Bytes)
  | dropTable (table : Nat)
  | dropRefCountTable (table : Nat)
deriving DecidableEq, Repr

structure Record where
  id : Nat
  actions : List Action
deriving DecidableEq, Repr

/-! ## encoder: `LogChange::flush_to_file` -/

def encodeAction : Action → Bytes
  | .insertIndex t i m es =>
      leBytes 1 INSERT_INDEX ++ (leBytes 2 t ++ (leBytes 8 i ++ (leBytes 8 m ++ es)))
  | .insertValue t i p =>
      leBytes 1 INSERT_VALUE ++ (leBytes 2 t ++ (leBytes 8 i ++ p))
  | .insertRefCount t i m es =>
      leBytes 1 INSERT_REF_COUNT ++ (leBytes 2 t ++ (leBytes 8 i ++ (leBytes 8 m ++ es)))
  | .dropTable t => leBytes 1 DROP_TABLE ++ leBytes 2 t
  | .dropRefCountTable t => leBytes 1 DROP_REF_COUNT_TABLE ++ leBytes 2 t

def encodeActions : List Action → Bytes
  | [] => []
  | a :: as => encodeAction a ++ encodeActions as

/-- `BEGIN_RECORD id`: everything `Log::read_next` consumes. -/
def encodeHeader (id : Nat) : Bytes := leBytes 1 BEGIN_RECORD ++ leBytes 8 id

/-- All bytes covered by the checksum: header, actions, the `END_RECORD` opcode. -/
def encodeBody (r : Record) : Bytes :=
  encodeHeader r.id ++ (encodeActions r.actions ++ leBytes 1 END_RECORD)

def encodeRecord (crc : Bytes → Nat) (r : Record) : Bytes :=
  encodeBody r ++ leBytes 4 (crc (encodeBody r))

def encodeRecords (crc : Bytes → Nat) : List Record → Bytes
  | [] => []
  | r :: rs => encodeRecord crc r ++ encodeRecords crc rs

/-! ## `LogReader` -/

/-- `consumed`: bytes fed to the running CRC since the start of the record;
    `rest`: unread part of the file. -/
structure Reader where
  consumed : Bytes
  rest : Bytes
deriving DecidableEq, Repr

/-- `read_exact` of `n` bytes + `crc32.update`.  `none` = `Err(Io(UnexpectedEof))`. -/
def Reader.read (n : Nat) (rd : Reader) : Option (Bytes × Reader) :=
  if rd.rest.length < n then none
  else some (rd.rest.take n, ⟨rd.consumed ++ rd.rest.take n, rd.rest.drop n⟩)

/-- `read_exact` without CRC update (the stored checksum). -/
def Reader.readRaw (n : Nat) (rd : Reader) : Option (Bytes × Reader) :=
  if rd.rest.length < n then none
  else some (rd.rest.take n, ⟨rd.consumed, rd.rest.drop n⟩)

/-- Result of `LogReader::next`. -/
inductive Next where
  | ioErr                     -- Err(Io(UnexpectedEof))
  | badOpcode                 -- Err(Corruption("Bad log entry type"))
  | crcMismatch               -- Err(Corruption("Log record CRC-32 mismatch"))
  | begin (id : Nat) (rd : Reader)
  | insertIndex (t i : Nat) (rd : Reader)
  | insertValue (t i : Nat) (rd : Reader)
  | insertRefCount (t i : Nat) (rd : Reader)
  | dropTable (t : Nat) (rd : Reader)
  | dropRefCountTable (t : Nat) (rd : Reader)
  | endRecord (rd : Reader)
deriving DecidableEq, Repr

/-- `read_buf(2)` table id, `read_buf(8)` index. -/
def readTableIndex (rd : Reader) : Option (Nat × Nat × Reader) :=
  match rd.read 2 with
  | none => none
  | some (t, rd1) =>
    match rd1.read 8 with
    | none => none
    | some (i, rd2) => some (leVal t, leVal i, rd2)

def next (crc : Bytes → Nat) (rd : Reader) : Next :=
  match rd.read 1 with
  | none => .ioErr
  | some (op, rd1) =>
    let o := leVal op
    if o = BEGIN_RECORD then
      match rd1.read 8 with
      | none => .ioErr
      | some (b, rd2) => .begin (leVal b) rd2
    else if o = INSERT_INDEX then
      match readTableIndex rd1 with
      | none => .ioErr
      | some (t, i, rd2) => .insertIndex t i rd2
    else if o = INSERT_VALUE then
      match readTableIndex rd1 with
      | none => .ioErr
      | some (t, i, rd2) => .insertValue t i rd2
    else if o = INSERT_REF_COUNT then
      match readTableIndex rd1 with
      | none => .ioErr
      | some (t, i, rd2) => .insertRefCount t i rd2
    else if o = END_RECORD then
      match rd1.readRaw 4 with
      | none => .ioErr
      | some (c, rd2) =>
        if leVal c = crc rd1.consumed % 2 ^ 32 then .endRecord rd2 else .crcMismatch
    else if o = DROP_TABLE then
      match rd1.read 2 with
      | none => .ioErr
      | some (t, rd2) => .dropTable (leVal t) rd2
    else if o = DROP_REF_COUNT_TABLE then
      match rd1.read 2 with
      | none => .ioErr
      | some (t, rd2) => .dropRefCountTable (leVal t) rd2
    else .badOpcode

/-! ## validators (`validate_plan`) -/

/-- Outcome of a table-id check: the configuration may have changed (`trigger_reindex`)
    even when the check fails afterwards. -/
inductive Chk where
  | ok (cfg : Cfg)
  | err (cfg : Cfg)
deriving DecidableEq, Repr

/-- `reindex.queue.iter().filter_map(Index).find(|r| r.id == table)`: bits of the first match. -/
def findIndexQ (c t : Nat) : List QEntry → Option Nat
  | [] => none
  | .index b :: q => if TableId.new c b = t then some b else findIndexQ c t q
  | .refCount _ :: q => findIndexQ c t q

def findRefCountQ (c t : Nat) : List QEntry → Option Nat
  | [] => none
  | .refCount b :: q => if TableId.new c b = t then some b else findRefCountQ c t q
  | .index _ :: q => findRefCountQ c t q

/-- PATCHED `IndexTable::validate_plan` bound: `index >= self.id.total_chunks()` is an error
    (the unpatched code compares with `total_entries()`).  `RefCountTable` has the same
    `total_chunks = 1u64 << index_bits`. -/
def chunkInRange (bits chunk : Nat) : Bool := decide (chunk < total_chunks bits)

/-- `HashColumn::validate_plan(InsertIndex)` up to the table's own `validate_plan` bound.
    The recursion "Missing table, starting reindex" (`trigger_reindex` until the current id
    equals the record's id) is written in closed form: every step queues the current table
    and creates the next larger one, and stops exactly at `index_bits(t)` because the ids it
    walks through differ from `t` and are not in the queue. -/
def checkIndex (cfg : Cfg) (t chunk : Nat) : Chk :=
  let c := TableId.col t
  match cfg.cols[c]? with
  | none => .err cfg                                   -- "Invalid column id"
  | some cc =>
    if cc.btree then .err cfg                          -- BTreeTable: "Unexpected log action"
    else if TableId.new c cc.indexBits = t then
      if chunkInRange cc.indexBits chunk then .ok cfg else .err cfg
    else
      match findIndexQ c t cc.queue with
      | some b => if chunkInRange b chunk then .ok cfg else .err cfg
      | none =>
        let tb := TableId.index_bits t
        if tb < cc.indexBits then .ok cfg              -- write into a dropped index: skipped (fix f3abed6)
        else if tb > maxIndexBits then .err cfg        -- PATCH "Bad log index id"
        else
          let cfg' := cfg.setCol c
            { cc with indexBits := tb
                      queue := cc.queue ++ (List.range' cc.indexBits (tb - cc.indexBits)).map .index }
          if chunkInRange tb chunk then .ok cfg' else .err cfg'

/-- `HashColumn::validate_plan(InsertRefCount)`; PATCH: a column without ref-count table is an
    error (unpatched: `Option::unwrap` panic). -/
def checkRefCount (cfg : Cfg) (t chunk : Nat) : Chk :=
  let c := TableId.col t
  match cfg.cols[c]? with
  | none => .err cfg
  | some cc =>
    if cc.btree then .err cfg
    else
      match cc.rcBits with
      | none => .err cfg                               -- PATCH "Unexpected log ref count action"
      | some rb =>
        if TableId.new c rb = t then
          if chunkInRange rb chunk then .ok cfg else .err cfg
        else
          match findRefCountQ c t cc.queue with
          | some b => if chunkInRange b chunk then .ok cfg else .err cfg
          | none =>
            let tb := TableId.index_bits t
            if tb < rb then .err cfg
            else if tb > maxIndexBits then .err cfg    -- PATCH "Bad log ref count id"
            else
              let cfg' := cfg.setCol c
                { cc with rcBits := some tb
                          queue := cc.queue ++ (List.range' rb (tb - rb)).map .refCount }
              if chunkInRange tb chunk then .ok cfg' else .err cfg'

/-- `ValueTableId::size_tier` = low byte (same layout as the index `TableId`). -/
def sizeTier (t : Nat) : Nat := TableId.index_bits t

/-- `SIZES.get(tier)`, `None => MULTIPART_ENTRY_SIZE` (`Column::open_table`, `ValueTable::open`). -/
def entrySize (tier : Nat) : Nat :=
  match SIZES[tier]? with
  | some s => s
  | none => MULTIPART_ENTRY_SIZE

def isMultipartTable (tier : Nat) : Bool := (SIZES[tier]?).isNone

/-- src/table.rs `MULTIPART_V4`, `MULTIHEAD_V4` (not exported by the translator). -/
def MULTIPART_V4 : List Nat := [255, 254]
def MULTIHEAD_V4 : List Nat := [255, 253]

/-- `Entry::is_multi`. -/
def isMulti (v4 : Bool) (m : List Nat) : Bool :=
  m == MULTIPART || (m == MULTIHEAD_COMPRESSED || m == MULTIHEAD) ||
    (v4 && (m == MULTIPART_V4 || m == MULTIHEAD_V4))

/-- Number of bytes `ValueTable::validate_plan` / `enact_plan` read for one INSERT_VALUE,
    decided from the slot index and the first `SIZE_SIZE` bytes.  `none`: error (EOF before
    the size bytes, or PATCH: `SIZE_SIZE + len > entry_size`). -/
def valueLen (v4 : Bool) (tier index : Nat) (payload : Bytes) : Option Nat :=
  if index = 0 then some (2 * INDEX_SIZE)              -- `Header([u8; 16])`
  else
    match payload with
    | b0 :: b1 :: _ =>
      let m := [b0.toNat, b1.toNat]
      if m = TOMBSTONE then some (SIZE_SIZE + INDEX_SIZE)
      else if isMultipartTable tier && isMulti v4 m then some (entrySize tier)
      else
        let len := (b0.toNat + 256 * b1.toNat) &&& (65535 ^^^ COMPRESSED_MASK)
        if SIZE_SIZE + len > entrySize tier then none  -- PATCH (unpatched: "TODO: check len")
        else some (SIZE_SIZE + len)
    | _ => none

/-- Result of validating one insert action. -/
inductive VRes where
  | ok (a : Action) (rd : Reader) (cfg : Cfg)
  | err (cfg : Cfg)
deriving DecidableEq, Repr

def validateIndex (cfg : Cfg) (t chunk : Nat) (rd : Reader) : VRes :=
  match checkIndex cfg t chunk with
  | .err cfg' => .err cfg'
  | .ok cfg' =>
    match rd.read 8 with
    | none => .err cfg'
    | some (mb, rd1) =>
      match rd1.read (popcount (leVal mb) * INDEX_ENTRY_BYTES) with
      | none => .err cfg'
      | some (es, rd2) => .ok (.insertIndex t chunk (leVal mb) es) rd2 cfg'

def validateRefCount (cfg : Cfg) (t chunk : Nat) (rd : Reader) : VRes :=
  match checkRefCount cfg t chunk with
  | .err cfg' => .err cfg'
  | .ok cfg' =>
    match rd.read 8 with
    | none => .err cfg'
    | some (mb, rd1) =>
      -- PATCH "Bad ref count mask": chunks have `RC_CHUNK_ENTRIES` = 32 entries, the mask is u64
      if leVal mb >>> RC_CHUNK_ENTRIES ≠ 0 then .err cfg'
      else
        match rd1.read (popcount (leVal mb) * RC_ENTRY_BYTES) with
        | none => .err cfg'
        | some (es, rd2) => .ok (.insertRefCount t chunk (leVal mb) es) rd2 cfg'

def validateValue (cfg : Cfg) (t index : Nat) (rd : Reader) : VRes :=
  match cfg.cols[TableId.col t]? with
  | none => .err cfg
  | some _ =>
    match valueLen cfg.v4 (sizeTier t) index rd.rest with
    | none => .err cfg
    | some n =>
      match rd.read n with
      | none => .err cfg
      | some (p, rd') => .ok (.insertValue t index p) rd' cfg

/-- PATCH: `DropTable` / `DropRefCountTable` are checked for a valid column in the validation
    pass (unpatched: `continue`, then `self.columns[..]` may panic in the apply pass). -/
def colExists (cfg : Cfg) (t : Nat) : Bool := (cfg.cols[TableId.col t]?).isSome

/-! ## one record: `enact_logs(validation_mode = true)` -/

inductive Reason where
  | badHeader         -- `read_next`: Corruption (first opcode is not BEGIN_RECORD / unknown)
  | sequence          -- "Log sequence error"
  | readError         -- `reader.next()` failed inside the validation loop
  | unexpectedBegin   -- "Unexpected log header"
  | validation        -- `validate_plan` failed (incl. EOF inside a payload) / bad column
deriving DecidableEq, Repr

/-- Does the rejection call `clear_replay_logs` (drop all remaining log files)? -/
def Reason.clears : Reason → Bool
  | .readError => false
  | _ => true

inductive LoopResult where
  | ok (actions : List Action) (rest : Bytes) (cfg : Cfg)
  | invalid (why : Reason) (cfg : Cfg)
  | stuck                     -- fuel exhausted; unreachable (C13_total)
deriving DecidableEq, Repr

/-- The validation loop.  One unit of fuel per action. -/
def validateLoop (crc : Bytes → Nat) : Nat → Cfg → Reader → List Action → LoopResult
  | 0, _, _, _ => .stuck
  | fuel + 1, cfg, rd, acc =>
    match next crc rd with
    | .ioErr => .invalid .readError cfg
    | .badOpcode => .invalid .readError cfg
    | .crcMismatch => .invalid .readError cfg
    | .begin _ _ => .invalid .unexpectedBegin cfg
    | .endRecord rd' => .ok acc rd'.rest cfg
    | .insertIndex t i rd' =>
      match validateIndex cfg t i rd' with
      | .ok a rd'' cfg' => validateLoop crc fuel cfg' rd'' (acc ++ [a])
      | .err cfg' => .invalid .validation cfg'
    | .insertValue t i rd' =>
      match validateValue cfg t i rd' with
      | .ok a rd'' cfg' => validateLoop crc fuel cfg' rd'' (acc ++ [a])
      | .err cfg' => .invalid .validation cfg'
    | .insertRefCount t i rd' =>
      match validateRefCount cfg t i rd' with
      | .ok a rd'' cfg' => validateLoop crc fuel cfg' rd'' (acc ++ [a])
      | .err cfg' => .invalid .validation cfg'
    | .dropTable t rd' =>
      if colExists cfg t then validateLoop crc fuel cfg rd' (acc ++ [.dropTable t])
      else .invalid .validation cfg
    | .dropRefCountTable t rd' =>
      if colExists cfg t then validateLoop crc fuel cfg rd' (acc ++ [.dropRefCountTable t])
      else .invalid .validation cfg

/-- `HashColumn::drop_index` / `drop_ref_count`: pop the queue front if it is that table. -/
def dropFront (cfg : Cfg) (t : Nat) (isIndex : Bool) : Cfg :=
  let c := TableId.col t
  match cfg.cols[c]? with
  | none => cfg
  | some cc =>
    if cc.btree then cfg
    else
      match cc.queue with
      | .index b :: q =>
        if isIndex && TableId.new c b = t then cfg.setCol c { cc with queue := q } else cfg
      | .refCount b :: q =>
        if !isIndex && TableId.new c b = t then cfg.setCol c { cc with queue := q } else cfg
      | [] => cfg

/-- Effect of the apply pass of one action on the configuration.  (The table contents are
    not part of this model; see `Pdb.Proofs.C13Tables` for the abstract tables.) -/
def applyCfg (cfg : Cfg) : Action → Cfg
  | .dropTable t => dropFront cfg t true
  | .dropRefCountTable t => dropFront cfg t false
  | _ => cfg

def applyPass (cfg : Cfg) (actions : List Action) : Cfg := actions.foldl applyCfg cfg

inductive ParseResult where
  /-- record validated as a whole (incl. CRC) and then applied; `cfg` after the apply pass -/
  | ok (r : Record) (rest : Bytes) (cfg : Cfg)
  /-- clean end of this log file (EOF before or inside the first opcode of a record) -/
  | endOfLog
  | invalid (why : Reason) (cfg : Cfg)
  /-- model stuck (fuel); proved unreachable -/
  | panic
deriving DecidableEq, Repr

/-- Validation pass of one `enact_logs(true)` call: `read_next`, sequence check, validation loop.
    `lastEnacted < 2^64`.  PATCH: `Some(id) != last_enacted.checked_add(1) || id == u64::MAX`. -/
def validatePass (crc : Bytes → Nat) (cfg : Cfg) (lastEnacted : Nat) (bytes : Bytes) : ParseResult :=
  match next crc ⟨[], bytes⟩ with
  | .ioErr => .endOfLog
  | .begin id rd =>
    if id ≠ lastEnacted + 1 ∨ id = U64 - 1 then .invalid .sequence cfg
    else
      match validateLoop crc (bytes.length + 1) cfg rd [] with
      | .ok actions rest cfgV => .ok ⟨id, actions⟩ rest cfgV
      | .invalid why cfgV => .invalid why cfgV
      | .stuck => .panic
  | _ => .invalid .badHeader cfg     -- "Bad log record structure" / bad opcode / CRC

/-- One `enact_logs(true)` call.  The apply pass (`applyPass`, and the table writes of
    `replayWith`) starts only when the validation pass has accepted the whole record. -/
def parseRecord (crc : Bytes → Nat) (cfg : Cfg) (lastEnacted : Nat) (bytes : Bytes) : ParseResult :=
  match validatePass crc cfg lastEnacted bytes with
  | .ok r rest cfgV => .ok r rest (applyPass cfgV r.actions)
  | other => other

/-! ## a log file, all log files -/

inductive Stop where
  | endOfLog
  | invalid (why : Reason)
  | stuck
deriving DecidableEq, Repr

def Stop.clears : Stop → Bool
  | .invalid why => why.clears
  | _ => false

/-- What happened to one log file. -/
structure FileReport where
  /-- records enacted from this file, in order -/
  applied : List Record
  /-- unread remainder: starts at the first record that was not accepted -/
  tail : Bytes
  stop : Stop
deriving DecidableEq, Repr

/-- Table state `σ` with an arbitrary per-action write function `step`: the model touches it
    only by folding `step` over the complete action list of an accepted record. -/
structure RState (σ : Type) where
  cfg : Cfg
  lastEnacted : Nat
  tables : σ

/-- `while self.enact_logs(true)? {}` on the file currently being read. -/
def replayFileWith {σ : Type} (step : σ → Action → σ) (crc : Bytes → Nat) :
    Nat → RState σ → Bytes → List Record → RState σ × FileReport
  | 0, st, bytes, acc => (st, ⟨acc, bytes, .stuck⟩)
  | fuel + 1, st, bytes, acc =>
    match parseRecord crc st.cfg st.lastEnacted bytes with
    | .ok r rest cfg' =>
      replayFileWith step crc fuel ⟨cfg', r.id, r.actions.foldl step st.tables⟩ rest (acc ++ [r])
    | .endOfLog => (st, ⟨acc, bytes, .endOfLog⟩)
    | .invalid why cfg' => ({ st with cfg := cfg' }, ⟨acc, bytes, .invalid why⟩)
    | .panic => (st, ⟨acc, bytes, .stuck⟩)

/-- `replay_all_logs` over the replay queue (already ordered). -/
def replaySortedWith {σ : Type} (step : σ → Action → σ) (crc : Bytes → Nat) :
    RState σ → List Bytes → RState σ × List FileReport
  | st, [] => (st, [])
  | st, f :: fs =>
    let (st1, rep) := replayFileWith step crc (f.length + 1) st f []
    if rep.stop.clears then (st1, [rep])          -- clear_replay_logs: remaining files dropped
    else
      let (st2, reps) := replaySortedWith step crc st1 fs
      (st2, rep :: reps)

/-- `Log::read_first_record_id`: bytes 1..9 of the file, whatever byte 0 is;
    `None` for empty files and files shorter than 9 bytes (removed by `Log::open`). -/
def firstId (f : Bytes) : Option Nat :=
  if f.length < 9 then none else some (leVal ((f.drop 1).take 8))

/-- Stable insertion by first record id (`sort_by_key` is stable): `f` precedes, in directory
    order, every file already in the list, so it goes before the first key `≥ k`. -/
def insertFile (k : Nat) (f : Bytes) : List (Nat × Bytes) → List (Nat × Bytes)
  | [] => [(k, f)]
  | (k', f') :: l => if k ≤ k' then (k, f) :: (k', f') :: l else (k', f') :: insertFile k f l

/-- `Log::open`: the replay queue, given the files in directory order. -/
def orderFilesKeyed : List Bytes → List (Nat × Bytes)
  | [] => []
  | f :: fs =>
    match firstId f with
    | none => orderFilesKeyed fs
    | some k => insertFile k f (orderFilesKeyed fs)

def orderFiles (files : List Bytes) : List Bytes := (orderFilesKeyed files).map (·.2)

/-- `DbInner::open`: PATCHED `log.replay_record_id().unwrap_or(2).saturating_sub(1)`. -/
def initialLastEnacted (files : List Bytes) : Nat :=
  match orderFilesKeyed files with
  | [] => 2 - 1
  | (k, _) :: _ => k - 1

structure ReplayResult where
  reports : List FileReport
  lastEnacted : Nat
  cfg : Cfg
deriving DecidableEq, Repr

def ReplayResult.applied (r : ReplayResult) : List Record := r.reports.flatMap (·.applied)

/-- Did replay end with `clear_replay_logs` because of a rejected record? -/
def ReplayResult.cleared (r : ReplayResult) : Bool := r.reports.any (·.stop.clears)

def ReplayResult.panicked (r : ReplayResult) : Bool := r.reports.any (·.stop == .stuck)

def replaySorted (crc : Bytes → Nat) (cfg : Cfg) (lastEnacted : Nat) (files : List Bytes) :
    ReplayResult :=
  let (st, reps) := replaySortedWith (σ := Unit) (fun _ _ => ()) crc ⟨cfg, lastEnacted, ()⟩ files
  ⟨reps, st.lastEnacted, st.cfg⟩

/-- `Log::open` + `replay_all_logs` with `last_enacted` given. -/
def replay (crc : Bytes → Nat) (cfg : Cfg) (lastEnacted : Nat) (files : List Bytes) : ReplayResult :=
  replaySorted crc cfg lastEnacted (orderFiles files)

/-- `Db::open`: `last_enacted` derived from the oldest log file. -/
def replayOpen (crc : Bytes → Nat) (cfg : Cfg) (files : List Bytes) : ReplayResult :=
  replay crc cfg (initialLastEnacted files) files

/-! ## well-formed records (specification side of the codec theorems) -/

/-- Abstract validation of one action against the configuration: table ids valid for `cfg`,
    field widths, payload lengths consistent with what the parser derives.  Returns the
    configuration after the validation (it may have triggered a reindex). -/
def validAction (cfg : Cfg) : Action → Option Cfg
  | .insertIndex t i m es =>
    if t < U16 ∧ i < U64 ∧ m < U64 ∧ es.length = popcount m * INDEX_ENTRY_BYTES then
      match checkIndex cfg t i with
      | .ok cfg' => some cfg'
      | .err _ => none
    else none
  | .insertValue t i p =>
    if t < U16 ∧ i < U64 ∧ (cfg.cols[TableId.col t]?).isSome ∧
        valueLen cfg.v4 (sizeTier t) i p = some p.length then some cfg
    else none
  | .insertRefCount t i m es =>
    if t < U16 ∧ i < U64 ∧ m < U64 ∧ m >>> RC_CHUNK_ENTRIES = 0 ∧
        es.length = popcount m * RC_ENTRY_BYTES then
      match checkRefCount cfg t i with
      | .ok cfg' => some cfg'
      | .err _ => none
    else none
  | .dropTable t => if t < U16 ∧ colExists cfg t then some cfg else none
  | .dropRefCountTable t => if t < U16 ∧ colExists cfg t then some cfg else none

/-- Validation of the whole action list, threading the configuration. -/
def validActions : Cfg → List Action → Option Cfg
  | cfg, [] => some cfg
  | cfg, a :: as =>
    match validAction cfg a with
    | some cfg' => validActions cfg' as
    | none => none

/-- A record the (patched) validators accept in configuration `cfg`. -/
def WellFormed (cfg : Cfg) (r : Record) : Prop :=
  r.id < U64 - 1 ∧ (validActions cfg r.actions).isSome

instance (cfg : Cfg) (r : Record) : Decidable (WellFormed cfg r) := by
  unfold WellFormed; infer_instance

/-- Configuration after `r` has been validated and applied. -/
def cfgAfter (cfg : Cfg) (r : Record) : Cfg :=
  match validActions cfg r.actions with
  | some cfgV => applyPass cfgV r.actions
  | none => cfg

/-! ## driver -/

/-- Standard reflected CRC-32 (poly 0xEDB88320, init/xorout 0xFFFFFFFF) = `crc32fast`. -/
def crc32Step (c : UInt32) (b : UInt8) : UInt32 :=
  let c := c ^^^ b.toUInt32
  let f := fun (c : UInt32) => if c &&& 1 = 1 then (c >>> 1) ^^^ 0xEDB88320 else c >>> 1
  f (f (f (f (f (f (f (f c)))))))

def crc32 (bs : Bytes) : Nat := ((bs.foldl crc32Step 0xFFFFFFFF) ^^^ 0xFFFFFFFF).toNat

def hexDigit (c : Char) : Option Nat :=
  if '0' ≤ c ∧ c ≤ '9' then some (c.toNat - '0'.toNat)
  else if 'a' ≤ c ∧ c ≤ 'f' then some (c.toNat - 'a'.toNat + 10)
  else if 'A' ≤ c ∧ c ≤ 'F' then some (c.toNat - 'A'.toNat + 10)
  else none

def parseHexChars : List Char → Option Bytes
  | [] => some []
  | [_] => none
  | a :: b :: cs =>
    match hexDigit a, hexDigit b, parseHexChars cs with
    | some x, some y, some r => some (UInt8.ofNat (16 * x + y) :: r)
    | _, _, _ => none

def parseHex (s : String) : Option Bytes :=
  if s = "-" then some [] else parseHexChars s.toList

def hexNat (n : Nat) : String := String.ofList (Nat.toDigits 16 n)

def parseQEntry (s : String) : Option QEntry :=
  match s.toList with
  | 'i' :: ds => (String.ofList ds).toNat?.map .index
  | 'r' :: ds => (String.ofList ds).toNat?.map .refCount
  | _ => none

def parseQueue (s : String) : Option (List QEntry) :=
  if s = "" then some [] else (s.splitOn ".").mapM parseQEntry

def parseCol (s : String) : Option ColCfg :=
  match s.splitOn "," with
  | ["b"] => some ⟨true, 0, none, []⟩
  | ["h", ib, rc, q] =>
    match ib.toNat?, (if rc = "-" then some none else rc.toNat?.map some), parseQueue q with
    | some ib, some rc, some q => some ⟨false, ib, rc, q⟩
    | _, _, _ => none
  | _ => none

def parseCfg (s : String) : Option Cfg :=
  match s.splitOn "/" with
  | v :: cols =>
    match (if v = "0" then some false else if v = "1" then some true else none), cols.mapM parseCol with
    | some v4, some cs => some ⟨v4, cs⟩
    | _, _ => none
  | [] => none

def renderQEntry : QEntry → String
  | .index b => s!"i{b}"
  | .refCount b => s!"r{b}"

def renderCol (c : ColCfg) : String :=
  if c.btree then "b"
  else
    let rc := match c.rcBits with | none => "-" | some b => toString b
    s!"h,{c.indexBits},{rc},{".".intercalate (c.queue.map renderQEntry)}"

def renderCfg (c : Cfg) : String :=
  "/".intercalate ((if c.v4 then "1" else "0") :: c.cols.map renderCol)

def renderAction : Action → String
  | .insertIndex t i m es => s!"I{t}@{i}#{hexNat m}+{es.length}~{hexNat (crc32 es)}"
  | .insertValue t i p => s!"V{t}@{i}+{p.length}~{hexNat (crc32 p)}"
  | .insertRefCount t i m es => s!"R{t}@{i}#{hexNat m}+{es.length}~{hexNat (crc32 es)}"
  | .dropTable t => s!"D{t}"
  | .dropRefCountTable t => s!"C{t}"

def renderRecord (r : Record) : String :=
  s!"{r.id}:[{",".intercalate (r.actions.map renderAction)}]"

def renderStop : Stop → String
  | .endOfLog => "eof"
  | .invalid .badHeader => "bad-header"
  | .invalid .sequence => "sequence"
  | .invalid .readError => "read-error"
  | .invalid .unexpectedBegin => "unexpected-begin"
  | .invalid .validation => "validation"
  | .stuck => "stuck"

def renderReport (rep : FileReport) : String :=
  String.join (rep.applied.map (fun r => renderRecord r ++ " ")) ++ "stop=" ++ renderStop rep.stop

def driverLine (args : List String) : String :=
  match args with
  | ["parse", cfg, last, hex] =>
    match parseCfg cfg, last.toNat?, parseHex hex with
    | some cfg, some last, some bytes =>
      let (st, rep) := replayFileWith (σ := Unit) (fun _ _ => ()) crc32 (bytes.length + 1)
        ⟨cfg, last, ()⟩ bytes []
      s!"{renderReport rep} last={st.lastEnacted} cfg={renderCfg st.cfg}"
    | _, _, _ => "bad-op"
  | "replay" :: cfg :: last :: hexes =>
    match parseCfg cfg, hexes.mapM parseHex with
    | some cfg, some files =>
      match (if last = "auto" then some (initialLastEnacted files) else last.toNat?) with
      | some last =>
        let res := replay crc32 cfg last files
        String.join (res.reports.map (fun rep => renderReport rep ++ " | ")) ++
          s!"last={res.lastEnacted} cfg={renderCfg res.cfg}"
      | none => "bad-op"
    | _, _ => "bad-op"
  | "replaylast" :: cfg :: last :: hexes =>
    -- what the harness can observe of the real `Db::open`
    match parseCfg cfg, hexes.mapM parseHex with
    | some cfg, some files =>
      match (if last = "auto" then some (initialLastEnacted files) else last.toNat?) with
      | some last =>
        let res := replay crc32 cfg last files
        s!"last={res.lastEnacted} cfg={renderCfg res.cfg}"
      | none => "bad-op"
    | _, _ => "bad-op"
  | _ => "bad-op"

end Pdb.Wal
