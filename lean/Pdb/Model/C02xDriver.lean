/-
C02x driver: the crash model of MIXED databases, executable (command word `c02x`, harness
harness/src/c02x.rs).

One database = 2..4 columns, each either
  * a key-value column (plain hash / ref-counted hash / btree): ALL key-value columns share one
    state `St String String` of the logical pipeline model P1 (Model/Pipeline.lean; keys are
    combined keys "<col>:<hex key>", exactly as the `p1` command of Driver/Main.lean does), or
  * a multitree column: one `CState String String` of Model/MultiTreeCrash.lean (the state the
    theorems of Props/C02x.lean are about), plus the start tables `h0` of the current epoch (ghost;
    only used to evaluate the hypothesis / conclusion of the theorems on the replayed history).

One transaction = one commit of the real database = one log record.  It is ONE commit of P1 (its
key-value operations, possibly none) and one `cstep (.commit op)` per tree operation; the driver
remembers which tree columns take part in each queued / logged transaction (`partQ` / `partL`,
parallel to the P1 queue / log) so that `process`, `enact` and `crash` move the same transaction in
every column.  Every state change is made by the definitions the theorems talk about:
  P1:        commit, process, flush, enactOne, cleanReopen, crashRecover, get, getSize
  multitree: commitOp, cstep (commit / process / flush / enact), recoverHeap, crashRecover, runOps,
             legalRunB (= LegalRun, `legalRunB_iff`), coreB (= equality of `core`, `coreB_iff`),
             renderTree / countEntries / parseTree of the c10 driver (Model/MultiTree.lean).
Node addresses of the model are not those of the implementation: trees are named and rendered
structurally (c10 protocol).  After a crash the address counter continues with the pre-crash
counter `c.p.heap.next` (admissible by `C02x_continues`: `Below (recoverHeap c n) c.p.heap.next`);
no answer depends on it.

Protocol (one output line per input line)
  c02x init <kind>...                     -> ok      kinds: hash rchash btree mt_append mt_rc mt_plain
  c02x commit <op>...                     -> ok | err:InvalidInput | err:InvalidConfiguration
        <c>:set:<key>:<val>  <c>:del:<key>  <c>:ref:<key>          key-value operations
        <c>:reftree:<key>    <c>:dereftree:<key>
        <c>:insert:<key>:<n> followed by n tokens of the c10 tree encoding (`n<k>:<data>` new node
        with k children in pre-order, `@<key>/<i>/<j>..` existing node by path as currently readable)
  c02x process                            -> ok      ONE transaction reaches the log in every column
  c02x flush                              -> ok      (a new log file if anything was published)
  c02x enact                              -> ok      ONE record
  c02x enactfile                          -> ok records=<k>   the oldest flushed log FILE
  c02x enactall                           -> ok
  c02x clean | reindex                    -> ok
  c02x reopen                             -> ok      drain (process all, flush, enact all), close, open
  c02x stages                             -> queued=<q> logged=<l> flushed=<f> enacted=<e>
  c02x crash <m> [kept=<k>] [inprocess]   -> ok | err:...
        the implementation recovered to the prefix of the first m transactions.  Allowed iff
        nEnacted + flushed <= m <= nEnacted + logged; with kept=<k> (complete unsynced records in
        the image) exactly m = nEnacted + min (flushed + k) logged; with `inprocess` (the crash hit
        inside process_commits and every appended record survived) also the instant just after
        that step: m = nEnacted + logged + 1.  Every column recovers by `crashRecover`; the answer
        is `ok` only if, in every tree column, the history is legal (`legalRunB`) and the recovered
        tables equal the atomic heap `runOps` of the prefix (`coreB`).
  c02x get <c> <key>                      -> none | some <val>
  c02x size <c> <key>                     -> none | some <len>
  c02x tree <c> <key>                     -> none | some (<data> <child>...)
  c02x count <c> <leaked>                 -> <n> | err:InvalidConfiguration
        entries of a tree column + `leaked` (slots the implementation is KNOWN to leak, finding F19;
        predicted by the harness oracle, 0 in a correct implementation)
-/
import Pdb.Model.Pipeline
import Pdb.Model.MultiTree
import Pdb.Model.MultiTreeCrash

namespace Pdb.C02xDriver

abbrev TC := MultiTree.CState String String
abbrev TOp := MultiTree.Op String String

inductive ColKind where
  | kv (k : Kind)
  | mt (v : MultiTree.Variant)

def parseCol : String → Option ColKind
  | "hash" => some (.kv .plain)
  | "rchash" => some (.kv .rc)
  | "btree" => some (.kv .plain)
  | "mt_append" => some (.mt .appendOnly)
  | "mt_rc" => some (.mt .rcRoots)
  | "mt_plain" => some (.mt .plain)
  | _ => none

/-- a multitree column: the crash-model state and the start tables of its epoch -/
structure MCol where
  c : TC
  h0 : MultiTree.Heap String String

structure DSt where
  kinds : Array Kind
  kv : St String String
  mts : Array (Option MCol)
  /-- tree columns taking part in each queued transaction (parallel to `kv.queue`) -/
  partQ : List (List Nat)
  /-- ... in each published, not yet enacted record (parallel to `kv.logged`) -/
  partL : List (List Nat)
  /-- records per flushed, not yet enacted log file (oldest first) -/
  files : List Nat

abbrev State := Option DSt

def colOf (k : String) : Nat := ((k.splitOn ":").headD "").toNat!

def DSt.kind (d : DSt) (k : String) : Kind := d.kinds.getD (colOf k) .plain

def initSt (cols : List ColKind) : DSt :=
  { kinds := (cols.map (fun c => match c with | .kv k => k | .mt _ => Kind.plain)).toArray,
    kv := St.init,
    mts := (cols.map (fun c => match c with
      | .kv _ => none
      | .mt v => some { c := MultiTree.CState.start v MultiTree.Heap.empty,
                        h0 := MultiTree.Heap.empty })).toArray,
    partQ := [], partL := [], files := [] }

def iterN {α : Type} (f : α → α) : Nat → α → α
  | 0, a => a
  | n + 1, a => iterN f n (f a)

def showOpt : Option String → String
  | some v => "some " ++ v
  | none => "none"

/-- apply `f` to the crash-model state of every column in `cols` (with multiplicity) -/
def onCols (f : TC → TC) (mts : Array (Option MCol)) (cols : List Nat) : Array (Option MCol) :=
  cols.foldl (fun acc col =>
    match acc.getD col none with
    | some mc => acc.set! col (some { mc with c := f mc.c })
    | none => acc) mts

def onAll (f : TC → TC) (mts : Array (Option MCol)) : Array (Option MCol) :=
  mts.map (fun o => o.map (fun mc => { mc with c := f mc.c }))

/-! ### commit -/

/-- one tree operation of a transaction: checked with `commitOp`, applied with `cstep` -/
def treeCommit (mts : Array (Option MCol)) (col : Nat) (op : TOp) :
    Except String (Array (Option MCol)) :=
  match mts.getD col none with
  | none => .error "bad-op"
  | some mc =>
    match MultiTree.commitOp mc.c.p op with
    | .error e => .error e.show
    | .ok _ => .ok (mts.set! col (some { mc with c := MultiTree.cstep mc.c (.commit op) }))

/-- Parse the operations of one transaction left to right.  Key-value operations are collected,
    tree operations are applied to the working copy `mts` (an `@` path is resolved in the column
    as it is readable at that point); `part` collects the tree columns touched. -/
def commitLoop : Nat → List String → Array (Option MCol) → List (Op String String) → List Nat →
    Except String (Array (Option MCol) × List (Op String String) × List Nat)
  | 0, _, _, _, _ => .error "bad-op"
  | _ + 1, [], mts, kvs, part => .ok (mts, kvs.reverse, part.reverse)
  | fuel + 1, w :: rest, mts, kvs, part =>
    match w.splitOn ":" with
    | [c, "set", k, v] => commitLoop fuel rest mts (.set (c ++ ":" ++ k) v :: kvs) part
    | [c, "del", k] => commitLoop fuel rest mts (.deref (c ++ ":" ++ k) :: kvs) part
    | [c, "ref", k] => commitLoop fuel rest mts (.ref (c ++ ":" ++ k) :: kvs) part
    | [c, "reftree", k] =>
      match c.toNat? with
      | none => .error "bad-op"
      | some col =>
        match treeCommit mts col (.reference k) with
        | .error e => .error e
        | .ok mts' => commitLoop fuel rest mts' kvs (col :: part)
    | [c, "dereftree", k] =>
      match c.toNat? with
      | none => .error "bad-op"
      | some col =>
        match treeCommit mts col (.dereference k) with
        | .error e => .error e
        | .ok mts' => commitLoop fuel rest mts' kvs (col :: part)
    | [c, "insert", k, n] =>
      match c.toNat?, n.toNat? with
      | some col, some n =>
        match mts.getD col none with
        | none => .error "bad-op"
        | some mc =>
          if rest.length < n then .error "bad-op"
          else
            match MultiTree.parseTree mc.c.p (rest.take n) with
            | none => .error "bad-op"
            | some t =>
              match treeCommit mts col (.insert k t) with
              | .error e => .error e
              | .ok mts' => commitLoop fuel (rest.drop n) mts' kvs (col :: part)
      | _, _ => .error "bad-op"
    | _ => .error "bad-op"

def doCommit (d : DSt) (ws : List String) : DSt × String :=
  match commitLoop (ws.length + 1) ws d.mts [] [] with
  | .error e => (d, e)
  | .ok (mts, kvs, part) =>
    match commit d.kind d.kv kvs with
    | (kv', .ok) => ({ d with kv := kv', mts := mts, partQ := d.partQ ++ [part] }, "ok")
    | (_, .invalidInput) => (d, "err:InvalidInput")
    | (_, .background) => (d, "err:Background")

/-! ### stage steps -/

/-- `process_commits`: the oldest queued transaction gets its record, in every column it touches -/
def doProcess (d : DSt) : DSt × Bool :=
  match d.kv.queue, d.partQ with
  | _ :: _, part :: restQ =>
    let mts := onCols (fun c => MultiTree.cstep c .process) d.mts part
    -- every participating column must have published exactly one record per participation
    let ok := part.all (fun col =>
      match d.mts.getD col none, mts.getD col none with
      | some a, some b => decide (b.c.logged.length = a.c.logged.length + part.count col)
      | _, _ => false)
    ({ d with kv := process d.kind d.kv, mts := mts, partQ := restQ, partL := d.partL ++ [part] }, ok)
  | _, _ => (d, true)

/-- `flush_logs`: everything published so far is synced; one new log file if there was anything -/
def doFlush (d : DSt) : DSt :=
  let fresh := d.kv.logged.length - d.kv.flushed
  { d with kv := flush d.kv,
           mts := onAll (fun c => MultiTree.cstep c .flush) d.mts,
           files := if fresh > 0 then d.files ++ [fresh] else d.files }

/-- one record is enacted in every column it touches -/
def enactRec (d : DSt) : DSt :=
  match d.kv.flushed, d.partL with
  | _ + 1, part :: restL =>
    { d with kv := enactOne d.kv,
             mts := onCols (fun c => MultiTree.cstep c .enact) d.mts part,
             partL := restL }
  | _, _ => d

def dropRecFromFiles : List Nat → List Nat
  | [] => []
  | k :: fs => if k ≤ 1 then fs else (k - 1) :: fs

/-- clean shutdown of one tree column, by `cstep` only: process all, flush, enact all -/
def drainCol (c : TC) : TC :=
  let c := iterN (fun c => MultiTree.cstep c .process) c.p.queue.length c
  let c := MultiTree.cstep c .flush
  iterN (fun c => MultiTree.cstep c .enact) c.logged.length c

def doReopen (d : DSt) : DSt :=
  { d with kv := cleanReopen d.kind d.kv, mts := onAll drainCol d.mts,
           partQ := [], partL := [], files := [] }

/-! ### crash -/

/-- Recovery of one tree column that keeps `n` of its published records: the new state is
    `crashRecover`; the Bool says whether the history of the epoch satisfies the hypothesis of the
    C02x theorems (`legalRunB`) and the recovered tables are the atomic heap of the prefix
    (`runOps` over the first `m` accepted operations, compared by `coreB`) - the conclusion of
    `C02x_multitree_recover_prefix`, evaluated. -/
def recoverCol (mc : MCol) (n : Nat) : MCol × Bool :=
  let c := mc.c
  let v := c.p.variant
  let m := c.nEnacted + (c.logged.take (max n c.flushed)).length
  let spec := MultiTree.runOps v mc.h0 (c.hist.take m)
  let ok := MultiTree.legalRunB v mc.h0 c.hist && MultiTree.coreB (MultiTree.recoverHeap c n) spec
  let c' := MultiTree.crashRecover c n c.p.heap.next
  ({ c := c', h0 := c'.p.heap }, ok)

/-- every column recovers to the prefix that keeps `g` published records -/
def recoverAll (d : DSt) (g : Nat) : DSt × Bool :=
  let keptCols := (d.partL.take g).flatten
  let r := d.mts.mapIdx (fun i o => o.map (fun mc => recoverCol mc (keptCols.count i)))
  let ok := r.all (fun o => match o with | some (_, b) => b | none => true)
  ({ d with kv := crashRecover d.kv 0 g, mts := r.map (fun o => o.map Prod.fst),
            partQ := [], partL := [], files := [] }, ok)

def parseKept : List String → Option (Option Nat × Bool)
  | [] => some (none, false)
  | ["inprocess"] => some (none, true)
  | [w] => if w.startsWith "kept=" then ((w.drop 5).toString.toNat?).map (fun k => (some k, false)) else none
  | [w, "inprocess"] =>
    if w.startsWith "kept=" then ((w.drop 5).toString.toNat?).map (fun k => (some k, true)) else none
  | _ => none

def doCrash (d : DSt) (m : Nat) (kept : Option Nat) (inproc : Bool) : DSt × String :=
  let nE := d.kv.nEnacted
  let fl := d.kv.flushed
  let lg := d.kv.logged.length
  let atBoundary : Bool :=
    match kept with
    | some k => decide (m = nE + min (fl + k) lg)
    | none => decide (nE + fl ≤ m ∧ m ≤ nE + lg)
  let allKept : Bool :=
    match kept with
    | some k => decide (fl + k ≥ lg)
    | none => true
  let fin (r : DSt × Bool) : DSt × String :=
    if r.2 then (r.1, "ok") else (r.1, "err:model-recovered-tables-differ-from-spec-or-history-illegal")
  if atBoundary then fin (recoverAll d (m - nE))
  else if inproc && allKept && !d.kv.queue.isEmpty && m = nE + lg + 1 then
    let (d1, okp) := doProcess d
    if okp then fin (recoverAll d1 (m - nE)) else (d, "err:model-process-failed")
  else
    (d, s!"err:crash-prefix-not-allowed m={m} lo={nE + fl} hi={nE + lg} kept={showOpt (kept.map toString)}")

/-! ### the command interpreter -/

def dstep (d : DSt) : List String → DSt × String
  | "commit" :: ws => doCommit d ws
  | ["process"] =>
    let (d', ok) := doProcess d
    if ok then (d', "ok") else (d, "err:model-process-failed")
  | ["flush"] => (doFlush d, "ok")
  | ["enact"] =>
    if d.kv.flushed > 0 then ({ enactRec d with files := dropRecFromFiles d.files }, "ok") else (d, "ok")
  | ["enactfile"] =>
    match d.files with
    | [] => (d, "ok records=0")
    | k :: fs => ({ iterN enactRec k d with files := fs }, s!"ok records={k}")
  | ["enactall"] => ({ iterN enactRec d.kv.flushed d with files := [] }, "ok")
  | ["clean"] => (d, "ok")
  | ["reindex"] => (d, "ok")
  | ["reopen"] => (doReopen d, "ok")
  | ["stages"] =>
    (d, s!"queued={d.kv.queue.length} logged={d.kv.logged.length} flushed={d.kv.flushed} enacted={d.kv.nEnacted}")
  | "crash" :: m :: rest =>
    match m.toNat?, parseKept rest with
    | some m, some (kept, inproc) => doCrash d m kept inproc
    | _, _ => (d, "bad-op")
  | ["get", c, k] => (d, showOpt (get d.kv (c ++ ":" ++ k)))
  | ["size", c, k] => (d, showOpt ((getSize MultiTree.tokLen d.kv (c ++ ":" ++ k)).map toString))
  | ["tree", c, k] =>
    match c.toNat?.bind (fun col => d.mts.getD col none) with
    | some mc => (d, MultiTree.renderTree mc.c.p k)
    | none => (d, "bad-op")
  | ["count", c, leaked] =>
    match c.toNat?.bind (fun col => d.mts.getD col none), leaked.toNat? with
    | some mc, some b =>
      match MultiTree.countEntries MultiTree.tokLen mc.c.p with
      | .ok n => (d, toString (n + b))
      | .error e => (d, e.show)
    | _, _ => (d, "bad-op")
  | _ => (d, "bad-op")

/-- Driver entry point: `c02x <args>`. -/
def step (st : State) (args : List String) : State × String :=
  match args with
  | "init" :: kinds =>
    match kinds.mapM parseCol with
    | some cols => if cols.isEmpty then (st, "bad-op") else (some (initSt cols), "ok")
    | none => (st, "bad-op")
  | _ =>
    match st with
    | some d => let (d', out) := dstep d args; (some d', out)
    | none => (st, "bad-op")

end Pdb.C02xDriver
