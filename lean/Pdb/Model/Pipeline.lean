/-
P1: the logical write pipeline of parity-db (src/db.rs).

  commit overlay  ->  commit queue  ->  log overlay (published records)  ->  tables

Keys are *combined* keys (column, hashed key); `kind` gives the column kind of a key.
Values are opaque.  A record is the list of absolute after-images (key, cell) it
writes; enacting is overwriting.  Reindex records are logical no-ops and are not
represented at this layer (see Model/Index.lean).

Rust anchors: DbInner::{get, commit_raw, process_commits, enact_logs, flush_logs,
kill_logs}, IndexedChangeSet::{copy_to_overlay, clean_overlay, write_plan},
Log::{end_record, end_read}, ValueTable::change_ref, write_existing_value_plan.
-/
import Pdb.Gen.Consts

namespace Pdb

/-- Column kinds that matter for the logical semantics of hash columns. -/
inductive Kind where
  | plain      -- no preimage, no rc: Set overwrites
  | preimage   -- preimage, no rc: Set on a present key is skipped
  | rc         -- preimage + ref_counted
deriving DecidableEq, Repr

inductive Op (K V : Type) where
  | set (k : K) (v : V)
  | deref (k : K)
  | ref (k : K)
deriving Repr

namespace Op
variable {K V : Type}
def key : Op K V → K
  | set k _ => k
  | deref k => k
  | ref k => k
end Op

/-- A stored cell: value and reference count (count is 1 on columns without rc). -/
abbrev Cell (V : Type) := Option (V × Nat)

def LOCKED : Nat := Gen.LOCKED_REF

/-- `ValueTable::change_ref` with delta = +1. -/
def incRc (n : Nat) : Nat := if n ≥ LOCKED - 1 then LOCKED else n + 1

variable {K V : Type}

/-- Effect of one operation on the cell of its own key
    (`write_existing_value_plan` / `write_plan_new`). -/
def applyCell (kind : Kind) (op : Op K V) (c : Cell V) : Cell V :=
  match kind, op, c with
  | .plain, .set _ v, _ => some (v, 1)
  | .plain, .deref _, _ => none
  | .plain, .ref _, c => c
  | .preimage, .set _ v, none => some (v, 1)
  | .preimage, .set _ _, some c => some c
  | .preimage, .deref _, _ => none
  | .preimage, .ref _, c => c
  | .rc, .set _ v, none => some (v, 1)
  | .rc, .set _ _, some (v0, n) => some (v0, incRc n)
  | .rc, .ref _, none => none
  | .rc, .ref _, some (v0, n) => some (v0, incRc n)
  | .rc, .deref _, none => none
  | .rc, .deref _, some (v0, n) =>
      if n = LOCKED then some (v0, n) else if n ≤ 1 then none else some (v0, n - 1)

section
variable [DecidableEq K]

def upd {β : Type} (f : K → β) (k : K) (b : β) : K → β := fun x => if x = k then b else f x

abbrev Tbl (K V : Type) := K → Cell V

def applyOp (kind : K → Kind) (t : Tbl K V) (op : Op K V) : Tbl K V :=
  upd t op.key (applyCell (kind op.key) op (t op.key))

def applyOps (kind : K → Kind) (t : Tbl K V) (ops : List (Op K V)) : Tbl K V :=
  ops.foldl (applyOp kind) t

/-- A logical WAL record: absolute after-images. -/
abbrev Rec (K V : Type) := List (K × Cell V)

def applyRec (t : Tbl K V) (r : Rec K V) : Tbl K V :=
  r.foldl (fun t (kc : K × Cell V) => upd t kc.1 kc.2) t

def applyRecs (t : Tbl K V) (rs : List (Rec K V)) : Tbl K V :=
  rs.foldl applyRec t

/-- Newest image of `k` inside one record (later entries win), as the log overlay map does. -/
def recLookup (r : Rec K V) (k : K) : Option (Cell V) :=
  (r.reverse.find? (fun kc => kc.1 = k)).map (fun kc => kc.2)

/-- Log-overlay lookup: newest published record holding an image of `k`. -/
def logLookup (rs : List (Rec K V)) (k : K) : Option (Cell V) :=
  rs.reverse.findSome? (fun r => recLookup r k)

structure Commit (K V : Type) where
  id : Nat
  ops : List (Op K V)

structure St (K V : Type) where
  nextId : Nat
  overlay : K → Option (Nat × Option V)
  queue : List (Commit K V)
  logged : List (Rec K V)          -- published, not yet enacted; oldest first
  flushed : Nat                    -- how many of `logged` sit in flushed (readable) log files
  tables : Tbl K V
  bgErr : Bool
  -- ghost history
  hist : List (List (Op K V))      -- accepted transactions, commit-return order
  nEnacted : Nat                   -- how many of them are in `tables`

def St.init : St K V :=
  { nextId := 0, overlay := fun _ => none, queue := [], logged := [], flushed := 0,
    tables := fun _ => none, bgErr := false, hist := [], nEnacted := 0 }

/-- `IndexedChangeSet::copy_to_overlay` for one operation. -/
def ovOp (kind : K → Kind) (id : Nat) (ov : K → Option (Nat × Option V)) (op : Op K V) :
    K → Option (Nat × Option V) :=
  match op with
  | .set k v => upd ov k (some (id, some v))
  | .deref k => if kind k = .rc then ov else upd ov k (some (id, none))
  | .ref _ => ov

/-- Operation / column compatibility (the checks of `push` / `copy_to_overlay`). -/
def opValid (kind : K → Kind) (op : Op K V) : Bool :=
  match op with
  | .ref k => kind k = .rc
  | _ => true

inductive CommitResult where
  | ok
  | invalidInput
  | background
deriving DecidableEq, Repr

/-- `commit_changes` + `commit_raw`: validate, then publish the whole change-set. -/
def commit (kind : K → Kind) (s : St K V) (tx : List (Op K V)) : St K V × CommitResult :=
  if !tx.all (opValid kind) then (s, .invalidInput)
  else if s.bgErr then (s, .background)
  else
    let id := s.nextId + 1
    ({ s with nextId := id,
              overlay := tx.foldl (ovOp kind id) s.overlay,
              queue := s.queue ++ [{ id := id, ops := tx }],
              hist := s.hist ++ [tx] }, .ok)

/-- `IndexedChangeSet::clean_overlay` for one operation: the entry of the operation's key is
    removed iff it is still tagged with this commit's id.  (Written so that a lookup in the
    result evaluates `ov` once: the executable driver stacks hundreds of these.) -/
def cleanOp (id : Nat) (ov : K → Option (Nat × Option V)) (op : Op K V) :
    K → Option (Nat × Option V) :=
  match op with
  | .set k _ | .deref k => fun x =>
      if x = k then
        match ov k with
        | some (i, v) => if i = id then none else some (i, v)
        | none => none
      else ov x
  | .ref _ => ov

/-- What the planner sees: log overlay over tables. -/
def view (s : St K V) : Tbl K V := fun k =>
  (logLookup s.logged k).getD (s.tables k)

def planRec (kind : K → Kind) (t : Tbl K V) (ops : List (Op K V)) : Rec K V :=
  let t' := applyOps kind t ops
  ops.map (fun op => (op.key, t' op.key))

/-- `process_commits` for one commit: plan against the view, publish the record
    (`end_record`), then clean the commit overlay. -/
def process (kind : K → Kind) (s : St K V) : St K V :=
  match s.queue with
  | [] => s
  | c :: q =>
    { s with queue := q,
             logged := s.logged ++ [planRec kind (view s) c.ops],
             overlay := c.ops.foldl (cleanOp c.id) s.overlay }

/-- `flush_logs(0)`: every published record becomes readable by the enacting stage. -/
def flush (s : St K V) : St K V := { s with flushed := s.logged.length }

/-- `enact_logs` for one record: write the tables, then `end_read`. -/
def enactOne (s : St K V) : St K V :=
  match s.flushed, s.logged with
  | f + 1, r :: rs =>
    { s with tables := applyRec s.tables r, logged := rs, flushed := f,
             nEnacted := s.nEnacted + 1 }
  | _, _ => s

def enactAll : Nat → St K V → St K V
  | 0, s => s
  | n + 1, s => enactAll n (enactOne s)

def processAll (kind : K → Kind) : Nat → St K V → St K V
  | 0, s => s
  | n + 1, s => processAll kind n (process kind s)

/-- `Db::get`: commit overlay first, then log overlay, then tables. -/
def get (s : St K V) (k : K) : Option V :=
  match s.overlay k with
  | some (_, v) => v
  | none => (view s k).map Prod.fst

/-- `Db::get_size`: same lookup order, reporting the length. -/
def getSize (len : V → Nat) (s : St K V) (k : K) : Option Nat :=
  match s.overlay k with
  | some (_, v) => v.map len
  | none => (view s k).map (fun c => len c.1)

/-- `kill_logs` on the drop path without a background error. -/
def drain (kind : K → Kind) (s : St K V) : St K V :=
  let s := enactAll s.logged.length s
  let s := flush s
  let s := processAll kind s.queue.length s
  let s := enactAll s.logged.length s
  let s := flush s
  enactAll s.logged.length s

/-- What `Db::open` leaves after a clean close: tables only. -/
def reopenOf (s : St K V) : St K V :=
  { St.init with tables := s.tables, hist := s.hist, nEnacted := s.nEnacted }

def cleanReopen (kind : K → Kind) (s : St K V) : St K V := reopenOf (drain kind s)

/-- A prefix of one record's writes reached the tables. -/
def applyRecPrefix (j : Nat) (t : Tbl K V) (r : Rec K V) : Tbl K V := applyRec t (r.take j)

/-- Crash + recovery.  `j` entries of the record being enacted had reached the tables;
    `n` published records are intact in the log files (`n ≥ flushed` is the caller's
    obligation, see `CrashOk`).  Replay re-applies them in order. -/
def crashRecover (s : St K V) (j n : Nat) : St K V :=
  let t0 := match s.flushed, s.logged with
            | _ + 1, r :: _ => applyRecPrefix j s.tables r
            | _, _ => s.tables
  let kept := s.logged.take n
  { St.init with tables := applyRecs t0 kept,
                 hist := s.hist.take (s.nEnacted + kept.length),
                 nEnacted := s.nEnacted + kept.length }

/-- An I/O error in a pipeline step (`store_err`): the background error is recorded, the
    workers stop (no further stage step happens), commits are refused from now on.  If the
    failing step was enacting the oldest flushed record, `j` of its writes had reached the
    tables.  (A failing `process_commits` has published nothing: the commit it had popped
    stays in the commit overlay, which is all a reader can see of the queue.) -/
def failStep (s : St K V) (j : Nat) : St K V :=
  { s with bgErr := true,
           tables := match s.flushed, s.logged with
                     | _ + 1, r :: _ => applyRecPrefix j s.tables r
                     | _, _ => s.tables }

/-- Drop with an error present enacts nothing (`kill_logs`); the next open replays every
    record that reached the log files. -/
def reopenAfterError (s : St K V) : St K V := crashRecover s 0 s.logged.length

inductive Action (K V : Type) where
  | commit (tx : List (Op K V))
  | process
  | flush
  | enact
  | clean
  | reindex
  | reopen
  | crash (j n : Nat)

def step (kind : K → Kind) (s : St K V) : Action K V → St K V
  | .commit tx => (commit kind s tx).1
  | .process => process kind s
  | .flush => flush s
  | .enact => enactOne s
  | .clean => s
  | .reindex => s
  | .reopen => cleanReopen kind s
  | .crash j n => crashRecover s j (max n s.flushed)

def run (kind : K → Kind) (s : St K V) (as : List (Action K V)) : St K V :=
  as.foldl (step kind) s

/-- The specification: fold every accepted operation, in order, over the empty map. -/
def spec (kind : K → Kind) (txs : List (List (Op K V))) : Tbl K V :=
  applyOps kind (fun _ => none) txs.flatten

end
end Pdb
