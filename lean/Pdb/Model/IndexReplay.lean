/-
C09 (recovery part)  Physical redo of the hash-index layer at `Db::open`.

Modelled code: src/column.rs `enact_plan` / `validate_plan`, src/index.rs `IndexTable::enact_plan`,
`drop_index`, `trigger_reindex`.

A log record is a list of after-images (`Op`).  At open the unreclaimed log files are replayed
record by record over table files that may already contain the effects of a prefix of those
records (or of half a record).

  * `idx b c i e`  InsertIndex: entry slot `i` of chunk `c` of the index table with `b` bits := `e`
        - `b` is the current table or a queued older table: write
        - `b < cur` and not present: the table was dropped by a later, already enacted record: SKIP
        - `b > cur`: the growth that created table `b` is redone: `trigger_reindex` until
          `cur = b` (each new table is created EMPTY = all zero), then write
  * `val a v`      InsertValue: value-table slot `a` := `v` (blind write, always applied)
  * `drop b`       DropTable: pops the queue front if it has `b` bits, otherwise ignored
                   ("Dropping invalid index")

Control flow depends only on the structure (`cur`, `queue`), never on table contents.
Everything here is executable and total.
-/
namespace Pdb.IndexReplay

inductive Op where
  | idx (b c i e : Nat)
  | val (a : Nat) (v : Nat)
  | drop (b : Nat)
  deriving DecidableEq, Repr

abbrev Record := List Op

structure St where
  /-- bits of the current index table -/
  cur : Nat
  /-- bits of the queued older tables, oldest first -/
  queue : List Nat
  /-- table bits → chunk → slot → entry (contents of tables that do not exist are never read
      by the control flow; a created table is zeroed) -/
  idx : Nat → Nat → Nat → Nat
  vals : Nat → Nat

/-- The table with `b` bits exists (current table or queued for reindexing). -/
def live (s : St) (b : Nat) : Bool := b == s.cur || s.queue.contains b

/-- Blind after-image write of one index entry. -/
def writeIdx (s : St) (b c i e : Nat) : St :=
  { s with idx := fun b' c' i' => if b' = b ∧ c' = c ∧ i' = i then e else s.idx b' c' i' }

/-- Blind after-image write of one value slot. -/
def writeVal (s : St) (a v : Nat) : St :=
  { s with vals := fun a' => if a' = a then v else s.vals a' }

/-- `trigger_reindex`: the current table is queued, a fresh all-zero table with one more bit
becomes current. -/
def reindex (s : St) : St :=
  { cur := s.cur + 1
    queue := s.queue ++ [s.cur]
    idx := fun b' c' i' => if b' = s.cur + 1 then 0 else s.idx b' c' i'
    vals := s.vals }

/-- `while cur.bits < b { trigger_reindex }` with fuel. -/
def growTo : Nat → St → Nat → St
  | 0, s, _ => s
  | n + 1, s, b => if s.cur < b then growTo n (reindex s) b else s

/-- `drop_index`: only the queue front can be dropped. -/
def dropFront (s : St) (b : Nat) : St :=
  if s.queue.head? = some b then { s with queue := s.queue.tail } else s

/-- InsertIndex. -/
def applyIdx (s : St) (b c i e : Nat) : St :=
  if live s b = true then writeIdx s b c i e
  else if b < s.cur then s
  else writeIdx (growTo (b - s.cur) s b) b c i e

def applyOp (s : St) : Op → St
  | .idx b c i e => applyIdx s b c i e
  | .val a v => writeVal s a v
  | .drop b => dropFront s b

def replayOps (s : St) (ops : List Op) : St := ops.foldl applyOp s

def replayRecords (s : St) (rs : List Record) : St := replayOps s rs.flatten

/-- Record by record, as `Db::open` does it. -/
def replayRecordsFold (s : St) (rs : List Record) : St := rs.foldl replayOps s

/-- Structure invariant: queued tables are strictly ascending in bits and all older than the
current table. -/
def StructOK (s : St) : Prop :=
  s.queue.Pairwise (· < ·) ∧ ∀ b ∈ s.queue, b < s.cur

instance (s : St) : Decidable (StructOK s) := by unfold StructOK; exact inferInstance

/-- What the planner guarantees for one op in the state it is first applied to. -/
def WFop (s : St) : Op → Prop
  | .idx b _ _ _ => live s b = true ∨ b = s.cur + 1
  | .val _ _ => True
  | .drop b => s.queue.head? = some b

instance (s : St) (o : Op) : Decidable (WFop s o) := by
  cases o <;> (unfold WFop; exact inferInstance)

/-- Well-formedness of an op sequence relative to the state it is first applied to. -/
def WF : St → List Op → Prop
  | _, [] => True
  | s, o :: ops => WFop s o ∧ WF (applyOp s o) ops

instance decWF : (s : St) → (ops : List Op) → Decidable (WF s ops)
  | _, [] => isTrue trivial
  | s, o :: ops =>
    have := decWF (applyOp s o) ops
    inferInstanceAs (Decidable (WFop s o ∧ WF (applyOp s o) ops))

/-- Finite observation of a state (states contain functions, so examples compare these). -/
def St.observe (s : St) (ilocs : List (Nat × Nat × Nat)) (vlocs : List Nat) :
    Nat × List Nat × List Nat × List Nat :=
  (s.cur, s.queue, ilocs.map (fun l => s.idx l.1 l.2.1 l.2.2), vlocs.map s.vals)

/-- Last after-image written by `ops` to index location `(b, c, i)`, if any. -/
def idxHit (b c i : Nat) : Op → Option Nat
  | .idx b' c' i' e => if b = b' ∧ c = c' ∧ i = i' then some e else none
  | _ => none

def valHit (a : Nat) : Op → Option Nat
  | .val a' v => if a = a' then some v else none
  | _ => none

def pick (new old : Option Nat) : Option Nat :=
  match new with
  | some e => some e
  | none => old

def lastIdxWrite (ops : List Op) (b c i : Nat) : Option Nat :=
  ops.foldl (fun acc o => pick (idxHit b c i o) acc) none

def lastValWrite (ops : List Op) (a : Nat) : Option Nat :=
  ops.foldl (fun acc o => pick (valHit a o) acc) none

end Pdb.IndexReplay
