/-
C04: the btree column as a PIPELINE - the executable state behind the driver command `c04`.

What is composed here (everything the driver executes for `c04 ...` lines):
  * the commit overlay of the column (`BTreeCommitOverlay`: key -> (commit id, value | removed)),
    `BTreeChangeSet::copy_to_overlay` at commit time, `clean_overlay` when the commit has been
    processed (src/btree/mod.rs, src/db.rs `commit_raw` / `process_commits`);
  * the commit queue; `process_commits` for one commit = `BTreeChangeSet::write_plan`, modelled by
    the BATCHED descent `applyChangesB` of Pdb/Model/BTreeBatch.lean (literal `Node::change` loop);
  * the column's last record id (`LogOverlays::last_record_id`: the id of the last record that
    wrote a value table of the column);
  * the iterator merge machine of src/btree/iter.rs (`iter_inner`, `pending_backend`,
    `next_backend`, `seek`, `seek_to_last`) running on the NODE-STACK cursor `stepC` of
    Pdb/Model/BTreeCursor.lean (`BTreeIterState`) over the model tree - `IterCSt`, `iterInnerCS`.
    It is the machine of Pdb/Model/BTreeIter.lean with the abstract cursor replaced by the
    stack; the two are proved to give the same answers (Proofs/C04PipeIter.lean);
  * point reads: overlay first, then `Node::get` (`nodeGet`);
  * flush / enact / clean: no logical effect on a reader (the log overlay and the files hold the
    same tree); reopen: drain the queue, empty overlay, record ids restart, iterators are gone.

Proved (Props/C04c.lean): for EVERY list of actions (commits, stage steps, reopen, point reads,
iterator calls with the iterator kept open) the answers of this pipeline are the answers of the
specification `specAct`: the sorted map of the latest committed state (`specApply` of all
accepted transactions) read by the abstract cursor (`specStep`) - `C04_pipeline_iter_spec`,
`C04_pipeline_get_spec`, `C04_pipeline_merged`.

Reference-counted btree columns (`rc = true`; src/btree/node.rs `Node::change` without
de-duplication, `write_existing_value_plan` with `ref_counted`, `copy_to_overlay` that does
not mirror `Dereference` / `Reference`): operations are `Pdb.Op` (set / deref / ref) with the
cell semantics `applyCell .rc` of the P1 model; the tree holds the first value set, a side list
holds the counts; one descent per applied change (`applyOne`).  A reader sees the processed
state overridden by the queued `Set`s only: `specActR` (dereferences take effect when their
commit is processed: the documented lag of reference-counted columns, property C07).

Run-time check on dumps of the implementation (commands `c04b cursor ...`, not part of the
theorems): `real` is the last dumped REAL tree (separators carry value addresses); `rit` runs the
same iterator machine with the literal stack cursor over that tree, with the pipeline's overlay
and record id; its answers (keys) must be the keys the real iterator returned.
-/
import Pdb.Model.Pipeline
import Pdb.Model.BTreeCursor
import Pdb.Model.BTreeBatch
import Pdb.Model.DumpCheck

namespace Pdb.C04

variable {V : Type}

/-! ## the iterator machine on the node-stack cursor -/

structure IterCSt (V : Type) where
  lastKey : LastKey
  pending : Option (Pending V)
  stack : Stack V          -- `BTreeIterState::state`
  rid : Nat                -- `BTreeIterState::record_id` (= `BTree::record_id` of the opened tree)

/-- `BTreeIterator::new` at record id `rid`. -/
def IterCSt.new (rid : Nat) : IterCSt V :=
  { lastKey := .start, pending := none, stack := [], rid := rid }

/-- What the backend answers to `next_backend`. -/
inductive BRes (V : Type) where
  | ok (r : Option (Key × V))
  | corrupt                      -- `Error::Corruption` (missing child)
  | outOfFuel                    -- model fuel exhausted (proved unreachable)

def COut.isUnit : COut V → Bool
  | .unit => true
  | _ => false

def bresOf : COut V → BRes V
  | .item r => .ok r
  | .outOfFuel => .outOfFuel
  | _ => .corrupt

/-- `seek` -> `seek_backend(SeekTo::Include(key))`: position set, cache dropped, (tree re-opened
    if the record id changed,) `BTreeIterState::seek`. -/
def seekCS (t : Tree V) (s : IterCSt V) (rid : Nat) (k : Key) : IterCSt V × COut V :=
  let r := stepC t s.stack (.seek (.incl k))
  ({ lastKey := .seeked k, pending := none, stack := r.1, rid := rid }, r.2)

/-- `seek_to_last` -> `seek_backend_to_last`. -/
def seekToLastCS (v : Variant) (t : Tree V) (s : IterCSt V) (rid : Nat) : IterCSt V × COut V :=
  let r := stepC t s.stack (.seek .last)
  ({ lastKey := .end_, pending := if v.clearOnLast then none else s.pending, stack := r.1,
     rid := rid }, r.2)

/-- `iter.next(tree, col, log, direction)` on the stack `st`. -/
def stepBack (t : Tree V) (s : IterCSt V) (st : Stack V) (rid : Nat) (d : Dir) :
    BRes V × IterCSt V :=
  let r := stepC t st (.step d)
  (bresOf r.2, { s with stack := r.1, rid := rid })

/-- `next_backend`: when the record id changed, re-open the tree and `seek` from `last_key`
    (`reseekTo`); then one cursor step. -/
def nextBackendCS (t : Tree V) (s : IterCSt V) (rid : Nat) (d : Dir) : BRes V × IterCSt V :=
  if rid ≠ s.rid then
    let sk := stepC t s.stack (.seek (reseekTo s.lastKey))
    if sk.2.isUnit then stepBack t s sk.1 rid d
    else (.corrupt, { s with stack := sk.1 })
  else stepBack t s s.stack rid d

/-- the cached `pending_backend` item, if it may be used: `take()` + direction test -/
def pendingItem (p : Option (Pending V)) (d : Dir) : Option (Option (Key × V)) :=
  match p with
  | some p => if p.dir = d then some p.item else none
  | none => none

/-- First half of one pass of the `loop` of `iter_inner` (see `backendItem`). -/
def backendItemCS (t : Tree V) (rid : Nat) (d : Dir) (s : IterCSt V) : BRes V × IterCSt V :=
  let p := if rid ≠ s.rid then none else s.pending
  let s1 : IterCSt V := { s with pending := none }
  match pendingItem p d with
  | some item => (.ok item, s1)
  | none => nextBackendCS t s1 rid d

def finishCS (d : Dir) (s : IterCSt V) (r : Option (Key × V)) : IterCSt V × COut V :=
  ({ s with lastKey := posAfter d s.lastKey r }, .item r)

/-- second half of one pass: the `match (next_commit_overlay, next_backend)`; `none` = `continue`
    (with the state to continue from), `some` = return. -/
def mergeCS (d : Dir) (s : IterCSt V) (o : Option (Key × Option V)) (b : Option (Key × V)) :
    IterCSt V × Option (Option (Key × V)) :=
  match o, b with
  | some (ck, cv), some (bk, bv) =>
    if dirLt d ck bk then
      let s := { s with pending := some { item := some (bk, bv), dir := d } }
      match cv with
      | some v => (s, some (some (ck, v)))
      | none => ({ s with lastKey := .at ck }, none)
    else if dirLt d bk ck then (s, some (some (bk, bv)))
    else
      match cv with
      | some v => (s, some (some (bk, v)))
      | none => ({ s with lastKey := .at ck }, none)
  | some (ck, some v), none =>
    ({ s with pending := some { item := none, dir := d } }, some (some (ck, v)))
  | some (ck, none), none =>
    ({ s with pending := some { item := none, dir := d }, lastKey := .at ck }, none)
  | none, some e => (s, some (some e))
  | none, none => ({ s with pending := some { item := none, dir := d } }, some none)

/-- The `loop` of `iter_inner` on the tree `t` (opened at record id `rid`). -/
def iterLoopCS (ov : List (Key × Option V)) (t : Tree V) (rid : Nat) (d : Dir) :
    Nat → IterCSt V → IterCSt V × COut V
  | 0, s => (s, .outOfFuel)
  | fuel + 1, s0 =>
    let o := ovStep d ov s0.lastKey
    let bs := backendItemCS t rid d s0
    match bs.1 with
    | .corrupt => (bs.2, .corrupt)
    | .outOfFuel => (bs.2, .outOfFuel)
    | .ok b =>
      let m := mergeCS d bs.2 o b
      match m.2 with
      | some r => finishCS d m.1 r
      | none => iterLoopCS ov t rid d fuel m.1

/-- `iter_inner`. -/
def iterInnerCS (v : Variant) (ov : List (Key × Option V)) (t : Tree V) (rid : Nat) (d : Dir)
    (s : IterCSt V) : IterCSt V × COut V :=
  if v.guardEnds && ((s.lastKey = .start && d = .bwd) || (s.lastKey = .end_ && d = .fwd)) then
    (s, .item none)
  else iterLoopCS ov t rid d (ov.length + 1) s

/-- One call of the iterator on the tree `t`, in the environment `e` (commit overlay of the
    column and its last record id at the time of the call). -/
def stepCV (v : Variant) (t : Tree V) (s : IterCSt V) (e : Env V) : Call → IterCSt V × COut V
  | .seek k => seekCS t s e.rid k
  | .seekFirst => seekCS t s e.rid []
  | .seekLast => seekToLastCS v t s e.rid
  | .next => iterInnerCS v e.ov t e.rid .fwd s
  | .prev => iterInnerCS v e.ov t e.rid .bwd s

/-! ## the pipeline state -/

/-- `BTreeCommitOverlay` -/
abbrev Overlay := List (Key × (Nat × Option String))

/-- operations of a transaction on a reference-counted column (P1 operations on byte keys) -/
abbrev ROp := Pdb.Op Key String

structure Drv where
  variant : Variant
  rc : Bool                                    -- `ColumnOptions::ref_counted`
  tree : Tree String
  counts : List (Key × Nat)                    -- reference counts (rc columns only)
  stuck : Bool
  rid : Nat                                    -- `last_record_id(col)`
  nextId : Nat
  overlay : Overlay
  queue : List (Nat × List (Op String))        -- commit queue (columns without rc)
  queueR : List (Nat × List ROp)               -- commit queue (rc columns)
  it : IterCSt String
  -- run-time check on dumps of the implementation; not read by `Drv.act`
  real : Tree String
  rit : IterCSt String

def Drv.init (v : Variant) (rc : Bool) : Drv :=
  { variant := v, rc := rc, tree := Tree.empty, counts := [], stuck := false, rid := 0,
    nextId := 0, overlay := [], queue := [], queueR := [], it := IterCSt.new 0,
    real := Tree.empty, rit := IterCSt.new 0 }

/-- `copy_to_overlay` for one operation (column without rc). -/
def ovPut (id : Nat) (ov : Overlay) (op : Op String) : Overlay :=
  match op with
  | .set k v => put ov k (id, some v)
  | .del k => put ov k (id, none)

/-- `copy_to_overlay` for one operation on an rc column: `Dereference` / `Reference` are not
    mirrored. -/
def ovPutR (id : Nat) (ov : Overlay) (op : ROp) : Overlay :=
  match op with
  | .set k v => put ov k (id, some v)
  | .deref _ => ov
  | .ref _ => ov

/-- `clean_overlay` for one change: drop the entry of its key if it is still tagged `id`. -/
def cleanKey (id : Nat) (ov : Overlay) (k : Key) : Overlay :=
  match lookup ov k with
  | some (i, _) => if i = id then del ov k else ov
  | none => ov

def cleanOverlay (id : Nat) (keys : List Key) (ov : Overlay) : Overlay :=
  keys.foldl (cleanKey id) ov

/-- commit on a column without rc -/
def Drv.commitPlain (s : Drv) (ops : List (Op String)) : Drv :=
  let id := s.nextId + 1
  { s with nextId := id, overlay := ops.foldl (ovPut id) s.overlay, queue := s.queue ++ [(id, ops)] }

def Drv.commitRc (s : Drv) (ops : List ROp) : Drv :=
  let id := s.nextId + 1
  { s with nextId := id, overlay := ops.foldl (ovPutR id) s.overlay,
           queueR := s.queueR ++ [(id, ops)] }

/-- does the change write a value table (and so move `last_record_id`)? -/
def wroteOp (t : Tree String) (op : Op String) : Bool :=
  match op with
  | .set _ _ => true
  | .del k => (nodeGet t.depth t.root k).isSome

/-- `process_commits` for one commit of a column without rc: `write_plan` (sort + batched
    descent), `end_record`, `clean_overlay`. -/
def Drv.processPlain (s : Drv) : Drv :=
  match s.queue with
  | [] => s
  | (id, ops) :: q =>
    let wrote := (dedupLast (stableSort ops)).any (wroteOp s.tree)
    let r := applyChangesB s.tree ops
    { s with queue := q, tree := r.1, stuck := s.stuck || !r.2,
             rid := if wrote then id else s.rid,
             overlay := cleanOverlay id (ops.map Op.key) s.overlay }

/-! ### reference-counted columns -/

/-- stable insertion sort by key (`changes.sort()`) for any operation type -/
def insertByKey {α : Type} (key : α → Key) (x : α) : List α → List α
  | [] => [x]
  | y :: ys => if keyLt (key y) (key x) then y :: insertByKey key x ys else x :: y :: ys

def sortByKey {α : Type} (key : α → Key) : List α → List α
  | [] => []
  | x :: xs => insertByKey key x (sortByKey key xs)

/-- the stored cell of a key: value from the tree, count from the side list -/
def cellOf (v : Option String) (n : Option Nat) : Cell String :=
  match v, n with
  | some v, some n => some (v, n)
  | _, _ => none

structure RcAcc where
  tree : Tree String
  counts : List (Key × Nat)
  ok : Bool
  wrote : Bool

/-- what a change of a cell does to the tree and the counts (`insert` of a new key / removal
    of the separator when the count reaches zero / count change only) -/
def rcWrite (a : RcAcc) (k : Key) (old new : Cell String) : RcAcc :=
  match old, new with
  | none, none => a
  | none, some (v, n) =>
    let r := applyOne a.tree (.set k v)
    { tree := r.1, counts := put a.counts k n, ok := a.ok && r.2, wrote := true }
  | some _, none =>
    let r := applyOne a.tree (.del k)
    { tree := r.1, counts := del a.counts k, ok := a.ok && r.2, wrote := true }
  | some _, some (_, n) => { a with counts := put a.counts k n, wrote := true }

/-- one change on an rc column: `insert` / `on_existing` with `write_existing_value_plan(..,
    ref_counted)`: cell semantics of the P1 model (`applyCell .rc`). -/
def rcOne (a : RcAcc) (op : ROp) : RcAcc :=
  let old := cellOf (nodeGet a.tree.depth a.tree.root op.key) (lookup a.counts op.key)
  rcWrite a op.key old (applyCell .rc op old)

def Drv.processRc (s : Drv) : Drv :=
  match s.queueR with
  | [] => s
  | (id, ops) :: q =>
    let a := (sortByKey Pdb.Op.key ops).foldl rcOne
      { tree := s.tree, counts := s.counts, ok := true, wrote := false }
    { s with queueR := q, tree := a.tree, counts := a.counts, stuck := s.stuck || !a.ok,
             rid := if a.wrote then id else s.rid,
             overlay := cleanOverlay id (ops.map Pdb.Op.key) s.overlay }

def Drv.process (s : Drv) : Drv := if s.rc then s.processRc else s.processPlain

def Drv.processAll : Nat → Drv → Drv
  | 0, s => s
  | n + 1, s => Drv.processAll n s.process

/-- clean close + `Db::open`: the queue is drained, the commit overlay is new, record ids
    restart, iterators of the old handle are gone. -/
def Drv.reopen (s : Drv) : Drv :=
  let s := Drv.processAll (s.queue.length + s.queueR.length) s
  { s with rid := 0, nextId := 0, overlay := [], it := IterCSt.new 0, rit := IterCSt.new 0 }

def Drv.env (s : Drv) : Env String :=
  { ov := s.overlay.map (fun e => (e.1, e.2.2)), rid := s.rid }

/-- `Db::get` on the btree column: commit overlay, then `BTreeTable::get`. -/
def Drv.get (s : Drv) (k : Key) : Option String :=
  match lookup s.overlay k with
  | some (_, o) => o
  | none => nodeGet s.tree.depth s.tree.root k

/-! ### actions -/

def toROp : Op String → ROp
  | .set k v => .set k v
  | .del k => .deref k

def ofROp : ROp → Op String
  | .set k v => .set k v
  | .deref k => .del k
  | .ref k => .del k

def isRef : ROp → Bool
  | .ref _ => true
  | _ => false

inductive PAct where
  | commit (ops : List (Op String))     -- sets / removals
  | commitRc (ops : List ROp)           -- sets / dereferences / references
  | process
  | flush
  | enact
  | clean
  | reopen
  | get (k : Key)
  | iterNew                              -- drop the iterator, `Db::iter`
  | call (c : Call)

inductive PAns where
  | ok
  | rejected                             -- `Error::InvalidInput` (Reference on a column without rc)
  | got (v : Option String)
  | out (o : COut String)
deriving DecidableEq

def Drv.act (s : Drv) : PAct → Drv × PAns
  | .commit ops => (if s.rc then s.commitRc (ops.map toROp) else s.commitPlain ops, .ok)
  | .commitRc ops =>
    if s.rc then (s.commitRc ops, .ok)
    else if ops.any isRef then (s, .rejected)
    else (s.commitPlain (ops.map ofROp), .ok)
  | .process => (s.process, .ok)
  | .flush => (s, .ok)
  | .enact => (s, .ok)
  | .clean => (s, .ok)
  | .reopen => (s.reopen, .ok)
  | .get k => (s, .got (s.get k))
  | .iterNew => ({ s with it := IterCSt.new s.rid }, .ok)
  | .call c =>
    let r := stepCV s.variant s.tree s.it s.env c
    ({ s with it := r.1 }, .out r.2)

def Drv.run (s : Drv) : List PAct → Drv × List PAns
  | [] => (s, [])
  | a :: as =>
    let r := s.act a
    let rs := Drv.run r.1 as
    (rs.1, r.2 :: rs.2)

/-! ## specification: columns without reference counting -/

/-- All a client can know: the ordered map of the latest committed state and the logical
    position of its iterator. -/
structure SpecSt where
  m : List (Key × String)
  pos : LastKey

def SpecSt.init : SpecSt := { m := [], pos := .start }

def outC : Out V → COut V
  | .unit => .unit
  | .item r => .item r
  | .outOfFuel => .outOfFuel

def specAct (s : SpecSt) : PAct → SpecSt × PAns
  | .commit ops => ({ s with m := specApply ops s.m }, .ok)
  | .commitRc ops =>
    if ops.any isRef then (s, .rejected)
    else ({ s with m := specApply (ops.map ofROp) s.m }, .ok)
  | .process => (s, .ok)
  | .flush => (s, .ok)
  | .enact => (s, .ok)
  | .clean => (s, .ok)
  | .reopen => ({ s with pos := .start }, .ok)
  | .get k => (s, .got (lookup s.m k))
  | .iterNew => ({ s with pos := .start }, .ok)
  | .call c =>
    let r := specStep s.m s.pos c
    ({ s with pos := r.1 }, .out (outC r.2))

def specRunP (s : SpecSt) : List PAct → SpecSt × List PAns
  | [] => (s, [])
  | a :: as =>
    let r := specAct s a
    let rs := specRunP r.1 as
    (rs.1, r.2 :: rs.2)

/-! ## specification: reference-counted columns

A reader of an rc column does not see the latest committed state: `copy_to_overlay` mirrors only
`Set`, so a committed `Dereference` (and the count changes of `Set` / `Reference`) take effect for
readers when their commit is processed.  The specification therefore knows which accepted
transactions are processed (`done`) and which are still queued: the VISIBLE map is the processed
cells (P1 cell semantics `applyCell .rc`, in commit order) overridden by the queued `Set`s. -/

abbrev CellList := List (Key × (String × Nat))

/-- one operation on the sorted list of cells (value, count): `applyCell .rc` on the key's cell -/
def cellStep (cs : CellList) (op : ROp) : CellList :=
  match applyCell Kind.rc op (lookup cs op.key) with
  | some c => put cs op.key c
  | none => del cs op.key

/-- the cells after the transactions `txs`, applied in commit order -/
def cellsAfter (txs : List (List ROp)) : CellList := txs.flatten.foldl cellStep []

def valuesOf (cs : CellList) : List (Key × String) := cs.map (fun e => (e.1, e.2.1))
def countsOf (cs : CellList) : List (Key × Nat) := cs.map (fun e => (e.1, e.2.2))

def setOf : ROp → Option (Op String)
  | .set k v => some (.set k v)
  | _ => none

/-- the `Set`s of a transaction: all of it that the commit overlay mirrors -/
def setsOf (ops : List ROp) : List (Op String) := ops.filterMap setOf

structure SpecStR where
  done : List (List ROp)        -- processed transactions, commit order
  queued : List (List ROp)      -- accepted, not yet processed
  pos : LastKey

def SpecStR.init : SpecStR := { done := [], queued := [], pos := .start }

/-- what a reader sees: processed cells overridden by the queued `Set`s -/
def SpecStR.visible (s : SpecStR) : List (Key × String) :=
  specApply (setsOf s.queued.flatten) (valuesOf (cellsAfter s.done))

def SpecStR.process (s : SpecStR) : SpecStR :=
  match s.queued with
  | [] => s
  | tx :: q => { s with done := s.done ++ [tx], queued := q }

def SpecStR.processAll : Nat → SpecStR → SpecStR
  | 0, s => s
  | n + 1, s => SpecStR.processAll n s.process

def specActR (s : SpecStR) : PAct → SpecStR × PAns
  | .commit ops => ({ s with queued := s.queued ++ [ops.map toROp] }, .ok)
  | .commitRc ops => ({ s with queued := s.queued ++ [ops] }, .ok)
  | .process => (s.process, .ok)
  | .flush => (s, .ok)
  | .enact => (s, .ok)
  | .clean => (s, .ok)
  | .reopen => ({ SpecStR.processAll s.queued.length s with pos := .start }, .ok)
  | .get k => (s, .got (lookup s.visible k))
  | .iterNew => ({ s with pos := .start }, .ok)
  | .call c =>
    let r := specStep s.visible s.pos c
    ({ s with pos := r.1 }, .out (outC r.2))

def specRunR (s : SpecStR) : List PAct → SpecStR × List PAns
  | [] => (s, [])
  | a :: as =>
    let r := specActR s a
    let rs := specRunR r.1 as
    (rs.1, r.2 :: rs.2)

/-! ## driver (command words `c04 ...` and `c04b cursor ...`)

`c04 init [unpatched] [rc]`, `c04 commit set:<hexkey>:<tok> del:<hexkey> ref:<hexkey> ..`,
`c04 process | flush | enact | clean | reopen`, `c04 get <hexkey>`,
`c04 iter new | seek <hexkey> | first | last | next | prev`,
`c04 tree` -> `d=<depth> n=<keys> <shape> inv=ok|bad|stuck`, `c04 xtree` -> node-by-node rendering
(format of `c04b tree`), `c04 count <hexkey>` -> reference count of the processed state,
`c04 sep <len> <fill> <addr>`.
`c04b cursor load <root> <depth> {N ..}` (format of `t2 tree`): the dumped real tree; answers
`ok` iff the Lean dump checker accepts it (`DumpCheck.treeReason`: TreeInv etc.) and it
enumerates the keys of the model tree; `c04b cursor new | seek <hexkey> | first | last | next | prev`:
the iterator machine with the literal stack cursor over the dumped tree; prints keys only. -/

def showC : COut String → String
  | .unit => "ok"
  | .item none => "none"
  | .item (some (k, v)) => hex k ++ " " ++ v
  | .corrupt => "err:Corruption"
  | .outOfFuel => "err:model-out-of-fuel"

def showKeyC : COut String → String
  | .unit => "ok"
  | .item none => "none"
  | .item (some (k, _)) => hex k
  | .corrupt => "err:Corruption"
  | .outOfFuel => "err:model-out-of-fuel"

def showAns : PAns → String
  | .ok => "ok"
  | .rejected => "err:InvalidInput"
  | .got (some v) => "some " ++ v
  | .got none => "none"
  | .out o => showC o

def parseROp (w : String) : Option ROp :=
  match w.splitOn ":" with
  | ["set", k, v] => (unhex k).map (fun k => .set k v)
  | ["del", k] => (unhex k).map .deref
  | ["ref", k] => (unhex k).map .ref
  | _ => none

def parseCall (ws : List String) : Option Call :=
  match ws with
  | ["seek", k] => (unhex k).map .seek
  | ["first"] => some .seekFirst
  | ["last"] => some .seekLast
  | ["next"] => some .next
  | ["prev"] => some .prev
  | _ => none

def parseAct (ws : List String) : Option PAct :=
  match ws with
  | "commit" :: ops => (ops.mapM parseROp).map .commitRc
  | ["process"] => some .process
  | ["flush"] => some .flush
  | ["enact"] => some .enact
  | ["clean"] => some .clean
  | ["reopen"] => some .reopen
  | ["get", k] => (unhex k).map .get
  | ["iter", "new"] => some .iterNew
  | "iter" :: rest => (parseCall rest).map .call
  | _ => none

/-- separators of a dumped node: the value is the value-table address -/
def natNode : Nat → Node Nat → Node String
  | 0, n => .mk (n.seps.map (fun e => (e.1, toString e.2))) []
  | d + 1, n => .mk (n.seps.map (fun e => (e.1, toString e.2))) (n.children.map (natNode d))

def natTree (t : Tree Nat) : Tree String := { root := natNode t.depth t.root, depth := t.depth }

def sameKeys : List (Key × String) → List (Key × String) → Bool
  | [], [] => true
  | a :: as, b :: bs => a.1 == b.1 && sameKeys as bs
  | _, _ => false

def Drv.cursor (s : Drv) (ws : List String) : Drv × String :=
  match ws with
  | "load" :: rest =>
    (match DumpCheck.parseTree rest with
     | none => (s, "bad-op")
     | some d =>
       let t := natTree (DumpCheck.treeOf d)
       ({ s with real := t },
        match DumpCheck.treeReason d with
        | some r => "bad:" ++ r
        | none => if sameKeys t.toList s.tree.toList then "ok" else "bad:keys"))
  | ["new"] => ({ s with rit := IterCSt.new s.rid }, "ok")
  | _ =>
    match parseCall ws with
    | some c =>
      let r := stepCV s.variant s.real s.rit s.env c
      ({ s with rit := r.1 }, showKeyC r.2)
    | none => (s, "bad-op")

def Drv.step (s : Drv) (ws : List String) : Drv × String :=
  match ws with
  | "cursor" :: rest => s.cursor rest
  | ["tree"] =>
    (s, s!"d={s.tree.depth} n={s.tree.toList.length} {shape s.tree.depth s.tree.root} " ++
        (if s.stuck then "inv=stuck" else if treeInvB s.tree then "inv=ok" else "inv=bad"))
  | ["xtree"] => (s, s!"d={s.tree.depth} {shapeX s.tree.depth s.tree.root}")
  | ["count", k] =>
    (match unhex k with
     | some k => (s, match lookup s.counts k with
                     | some n => toString n
                     | none => "0")
     | none => (s, "bad-op"))
  | ["sep", len, fill, addr] =>
    (match len.toNat?, fill.toNat?, addr.toNat? with
     | some len, some fill, some addr => (s, sepLine len fill addr)
     | _, _, _ => (s, "bad-op"))
  | _ =>
    match parseAct ws with
    | some a => let r := s.act a; (r.1, showAns r.2)
    | none => (s, "bad-op")

/-- Entry point for `Driver/Main.lean`: `c04 init [unpatched] [rc]` (re)creates the state;
    `c04b cursor ..` lines are passed as `cursor ..`. -/
def driverStep (st : Option Drv) (ws : List String) : Option Drv × String :=
  match ws with
  | ["init"] => (some (Drv.init patched false), "ok")
  | ["init", "unpatched"] => (some (Drv.init unpatched false), "ok")
  | ["init", "rc"] => (some (Drv.init patched true), "ok")
  | ["init", "unpatched", "rc"] => (some (Drv.init unpatched true), "ok")
  | _ =>
    match st with
    | some s => let r := s.step ws; (some r.1, r.2)
    | none => (none, "bad-op")

end Pdb.C04
