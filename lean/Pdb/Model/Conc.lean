/-
Conc: concurrency models of parity-db's handle life cycle (C18) and of the commit pipeline
with its four background workers (C15, see `Pdb/Model/ConcPipe` section below).

The programs run by the threads are the marker lists regenerated from /repo/src/db.rs by
tools/skeleton.py (`Pdb.Gen.Order`); everything proved here is proved for every program
that satisfies decidable order obligations, which are discharged on the generated lists by
`decide` (Pdb/Proofs/Order.lean).

Rust anchors: DbInner::open, Db::open_inner, Db::drop_inner (lock file, `try_lock_exclusive`,
`lock_file.unlock()`), fs2::FileExt (flock(2) semantics: assumption A-os).
-/
import Pdb.Gen.Consts
import Pdb.Gen.Order

namespace Pdb.Ord
open Pdb.Gen.Order

/-- `a` occurs, and its first occurrence is strictly before the first occurrence of `b`
    (which must occur too). -/
def before (a b : Marker) (l : List Marker) : Bool :=
  decide (l.idxOf a < l.idxOf b) && l.contains b

/-- every occurrence of `a` lies before the first `b`, and both occur -/
def allBefore (a b : Marker) (l : List Marker) : Bool :=
  l.contains a && l.contains b && !((l.drop (l.idxOf b)).contains a)

/-- no `x` strictly between the first `a` and the first `b` after it -/
def noneBetween (x a b : Marker) (l : List Marker) : Bool :=
  let r := (l.drop (l.idxOf a + 1))
  !((r.take (r.idxOf b)).contains x)

def lastIs (m : Marker) (l : List Marker) : Bool := l.getLast? == some m

def count (m : Marker) (l : List Marker) : Nat := l.count m

/-- `m` occurs inside the block opened by `o` and closed by `c` -/
def inside (m o c : Marker) (l : List Marker) : Bool :=
  before o m l && before m c l && noneBetween c o m l

/-- scan for `held`: `d` = number of scopes `a .. r` that are open -/
def heldGo (a r m : Marker) : Nat → List Marker → Bool
  | _, [] => true
  | d, x :: xs =>
    if x == a then heldGo a r m (d + 1) xs
    else if x == r then heldGo a r m (d - 1) xs
    else if x == m then decide (d > 0) && heldGo a r m d xs
    else heldGo a r m d xs

/-- `m` occurs, and EVERY occurrence of `m` lies inside a scope opened by `a` and closed by `r`
    (guard scopes: `a` = the lock is taken, `r` = the guard is dropped, as emitted by
    tools/skeleton.py; `let _ = x.lock();` yields `a, r` back to back).  Order alone
    (`before a m`) does not imply this. -/
def held (a r m : Marker) (l : List Marker) : Bool := l.contains m && heldGo a r m 0 l

/-- every occurrence of every marker satisfying `p` lies inside a scope `a .. r` -/
def heldAll (a r : Marker) (p : Marker → Bool) (l : List Marker) : Bool :=
  (l.filter p).eraseDups.all (fun m => held a r m l)

/-- the header pinned for block marker `m` (first occurrence), in the split form of skeleton.py -/
def condOf (m : Marker) (conds : List (Marker × List (List String))) : List (List String) :=
  (conds.lookup m).getD []

/-- block `m` exists and the conjunct `c` is tested on every `||` alternative of its header -/
def condHas (m : Marker) (c : String) (conds : List (Marker × List (List String))) : Bool :=
  !(condOf m conds).isEmpty && (condOf m conds).all (fun conj => conj.contains c)

end Pdb.Ord

namespace Pdb.Conc.Lock
open Pdb.Gen.Order

/-! ## C18: at most one live handle per directory -/

/-- Markers that do not read or write database content (`metadataExists` is the existence probe
    `path.join("metadata").exists()` of a non-creating open: a stat, no content). Everything
    else is treated as touching content (metadata, logs, tables): conservative. -/
def isFree (m : Marker) : Bool :=
  m == .createDirAll || m == .isDirCheck || m == .metadataExists || m == .createLockFile || m == .tryLock ||
  m == .returnLocked || m == .unlockFile || m == .dbInnerOpen

/-- Obligation on (the rest of) an open program that has not yet taken the lock:
    only content-free markers up to `tryLock`, afterwards no second `tryLock` / `unlockFile`. -/
def openPost (l : List Marker) : Bool := l.all (fun m => m != .tryLock && m != .unlockFile)

def openPre : List Marker → Bool
  | [] => false
  | m :: r => if m == .tryLock then openPost r else (isFree m && m != .unlockFile && openPre r)

/-- Obligation on (the rest of) a drop program: `unlockFile` is the last marker, once. -/
def dropOk : List Marker → Bool
  | [] => false
  | [m] => m == .unlockFile
  | m :: r => m != .tryLock && m != .unlockFile && dropOk r

structure Prog where
  openP : List Marker
  dropP : List Marker

def Prog.ok (p : Prog) : Bool := openPre p.openP && dropOk p.dropP

/-- `Db::open_inner` with the call of `DbInner::open` expanded. -/
def splice (outer inner : List Marker) : List Marker :=
  outer.flatMap (fun m => if m == .dbInnerOpen then inner else [m])

/-- The programs of the current source tree. -/
def genProg : Prog := { openP := splice openInner dbOpen, dropP := dropInner }

inductive Phase where
  | idle                          -- no handle (never opened, open failed, or dropped)
  | opening (rest : List Marker)
  | live
  | dropping (rest : List Marker)
  | dead                          -- its process was killed
deriving DecidableEq, Repr

structure Th where
  phase : Phase := .idle
  holds : Bool := false           -- this thread's open file description holds the flock
deriving DecidableEq, Repr

/-- One database directory shared by any number of threads in any number of processes. -/
structure St where
  th : Nat → Th
  holder : Option Nat             -- flock table entry of `<dir>/lock` (A-os: at most one holder)
  dirExists : Bool
  lockFile : Bool
  content : Nat                   -- version counter of everything else in the directory
  bad : Bool                      -- ghost: content was touched by a thread not holding the lock

def init : St := { th := fun _ => {}, holder := none, dirExists := false, lockFile := false,
                   content := 0, bad := false }

inductive Act where
  | start (t : Nat)               -- call Db::open / open_or_create
  | run (t : Nat)                 -- execute the next marker of the thread's program
  | failOpen (t : Nat)            -- open returns an error (not found, bad metadata, corruption...)
  | drop (t : Nat)                -- drop the handle
  | die (p : Nat)                 -- process p is killed
deriving DecidableEq, Repr

def setTh (s : St) (t : Nat) (x : Th) : St := { s with th := fun u => if u = t then x else s.th u }

/-- Effect of one marker executed by thread `t` with remaining program `r` (continuation `k`
    builds the phase from the remaining list). -/
def exec (s : St) (t : Nat) (m : Marker) (r : List Marker) (k : List Marker → Phase) : St :=
  let me := s.th t
  if m == .tryLock then
    match s.holder with
    | none => { setTh s t { phase := k r, holds := true } with holder := some t }
    | some _ => setTh s t { phase := .idle, holds := false }      -- Err(Locked): nothing else changes
  else if m == .unlockFile then
    if me.holds then { setTh s t { phase := k r, holds := false } with holder := none }
    else setTh s t { me with phase := k r }
  else if m == .createDirAll then { setTh s t { me with phase := k r } with dirExists := true }
  else if m == .createLockFile then
    { setTh s t { me with phase := k r } with dirExists := true, lockFile := true }
  else if isFree m then setTh s t { me with phase := k r }
  else { setTh s t { me with phase := k r } with content := s.content + 1, bad := s.bad || !me.holds }

/-- Closing the file description releases its lock (flock semantics). -/
def release (s : St) (t : Nat) : St :=
  if (s.th t).holds then { setTh s t { phase := .idle, holds := false } with holder := none }
  else setTh s t { phase := .idle, holds := false }

def step (P : Prog) (pid : Nat → Nat) (s : St) : Act → Option St
  | .start t => if (s.th t).phase = .idle then some (setTh s t { (s.th t) with phase := .opening P.openP }) else none
  | .run t =>
    match (s.th t).phase with
    | .opening [] => some (setTh s t { (s.th t) with phase := .live })
    | .opening (m :: r) => some (exec s t m r .opening)
    | .dropping [] => some (release s t)
    | .dropping (m :: r) => some (exec s t m r .dropping)
    | _ => none
  | .failOpen t =>
    match (s.th t).phase with
    | .opening _ => some (release s t)
    | _ => none
  | .drop t => if (s.th t).phase = .live then some (setTh s t { (s.th t) with phase := .dropping P.dropP }) else none
  | .die p =>
    some { s with
      th := fun u => if pid u = p then { phase := .dead, holds := false } else s.th u,
      holder := match s.holder with
        | some h => if pid h = p then none else some h
        | none => none }

def run (P : Prog) (pid : Nat → Nat) (s : St) : List Act → Option St
  | [] => some s
  | a :: as => match step P pid s a with
    | some s' => run P pid s' as
    | none => none

def Reachable (P : Prog) (pid : Nat → Nat) (s : St) : Prop := ∃ as, run P pid init as = some s

/-- A thread owns a handle (or is on the way to / from one, with the lock taken). -/
def hasHandle (x : Th) : Bool := x.holds

/-- The thread is alive and between a successful `tryLock` and its `unlock`. -/
def liveHandles (s : St) (ts : List Nat) : List Nat := ts.filter (fun t => (s.th t).holds)

end Pdb.Conc.Lock

/-! ## C15: the commit pipeline with its four background workers

Threads: N committers (`commit_raw`), log worker L (`process_commits`, `process_reindex`),
flush worker F (`flush_logs`), commit worker C (`enact_logs`), cleanup worker K
(`clean_logs`), and the thread D that owns the handle (client of the stepping API when
there are no workers; `drop_inner`).  Program counters at the granularity of lock
acquisition / wait / signal / check.  A step that runs entirely under one mutex and whose
effects are only observable under that mutex is atomic.

`WaitCondvar<bool>` (skeleton obligations `signal_under_mutex`, `wait_retests_flag`):
`signal` = atomically {flag := true; wake the waiter if parked}; `wait` = test the flag under
the mutex, park atomically if it is not set, re-test after every wake-up, clear it on exit.
A notify with no parked waiter is a no-op: that is where lost wake-ups come from.

The two raw condvars (`commit_queue_full_cv`, `log_queue_wait.cv`) are waited on with a
single `if`.  A thread that has decided to wait holds the mutex until it is parked
(`about` states): steps that need that mutex are disabled meanwhile, a notify issued
WITHOUT the mutex is not.

`kill_logs` runs after all four workers were joined and the stepping API is used by one
client thread: both are sequential and modelled as functions (`none` = blocks for ever).

Shapes that differ between the current tree and the fixes are `Cfg` flags computed from
the generated skeletons (`cfgOfGen`).

Behaviours added after the audit (all CLIENT / ENVIRONMENT controlled parts are external
actions, i.e. outside the fairness assumed of the five threads):
  * commit DEFERRAL (`process_commits` -> `defer_commit`, returns Ok(true) without logging):
    action `defer`, enabled while the log worker holds a popped commit and the external flag
    `treeLocked` is set (a client holds the lock of a tree reader whose tree a queued
    DereferenceTree refers to); `kill_logs` (`while process_commits()? {}`) blocks for ever in
    that situation.  The flag is toggled by `lockTree` / `unlockTree` at any time (the tree
    reader owns an `Arc<DbInner>`, it survives the handle).  The SECOND deferral reason of
    `process_commits` (a LATER queued commit recorded the tree in `used_trees`) can be cyclic:
    X = [DereferenceTree T, InsertTree A], Y = [DereferenceTree T, InsertTree B] committed while
    a reader of T is locked each record `used_trees ∋ T`; X is deferred because of Y, Y because
    of X', for ever, with NO lock held any more (finding: `makeCycle` sets `deferCycle`, which
    nothing ever clears; `defer` is then enabled whenever another commit is queued).
  * `iteration_lock`: held by `enact_logs` from its first line to its return (across the
    `cleanup_queue_wait` wait) and by a client inside an `iter_column_while` callback:
    `iterHold` / `iterRelease`; the commit worker cannot enter `enact_logs` meanwhile (`tickCg`).
  * reindex gating: `next_reindex` / `last_enacted` as record ids (`nextRe`, `nEnacted`,
    `nLogged`); `process_reindex` does nothing while `next_reindex > last_enacted`;
    `start_reindex` happens mid-run: `grow k` (the commit just planned overflowed an index table:
    k more batches, gate = its record id), `dropEnacted k` (the record just enacted dropped an
    old index table: gate = that record, k batches of the next queued table); the final
    `next_reindex.store(0)` is a separate step (`reClear`) so that it can overwrite a
    concurrent `start_reindex` of the commit worker.  Nobody signals the log worker when the
    gate opens.
  * worker PANIC: `thread::spawn(move || db.store_err(worker()))` skips `store_err` on unwind:
    action `panic t` (the thread is gone, no shutdown flag, no notification).  `Reachable`
    quantifies over schedules WITHOUT panics, `ReachableP` over all schedules.
  * `fail t` is enabled wherever the worker loops have a `?`: both `process_reindex` calls of
    the log worker, `process_commits` between the pop and `end_record`, `flush_logs`,
    `enact_logs`, `clean_logs`.
Ghost counters: `nLogged` / `nEnacted` / `nBatches` / `lost` / `nDeferred` / `killLost`.
-/

namespace Pdb.Conc.Pipe
open Pdb.Gen

structure Cfg where
  minLog : Nat                       -- flush threshold: 0 (always_flush) or MIN_LOG_SIZE_BYTES
  syncData : Bool
  workers : Bool                     -- with_background_thread
  enactChecksShutdown : Bool         -- enact_logs: no wait for the cleanup worker once shutdown / without workers
  shutdownSignalsCleanupQ : Bool     -- shutdown() signals cleanup_queue_wait
  shutdownNotifyLocked : Bool        -- shutdown() notifies log_queue_wait.cv under its mutex
  commitChecksErrBeforeWait : Bool   -- commit_raw tests bg_err before the queue-full wait
  storeErrNotifyLocked : Bool        -- store_err notifies commit_queue_full_cv under the queue mutex
deriving DecidableEq, Repr

def MAXQ : Nat := MAX_COMMIT_QUEUE_BYTES
def MAXL : Nat := MAX_LOG_QUEUE_BYTES
def Cfg.maxLogs (c : Cfg) : Nat := if c.syncData then MAX_LOG_FILES else KEEP_LOGS
def Cfg.keepLogs (c : Cfg) : Nat := if c.syncData then 0 else KEEP_LOGS

/-- log record size of a commit with `b` bytes of user data (a record is never empty) -/
def recSz (b : Nat) : Nat := b + 1

def sum (l : List Nat) : Nat := l.foldl (· + ·) 0

/-- The shapes of the current source tree, read off the generated skeletons. -/
def cfgOfGen (minLog : Nat) (syncData workers : Bool) : Cfg :=
  { minLog := minLog, syncData := syncData, workers := workers,
    -- the wait for the cleanup worker sits in a loop whose header tests the shutdown flag
    enactChecksShutdown :=
      Ord.inside .waitCleanupQueue .whileDirtyOverMax .endWhileDirtyOverMax Order.enactLogs &&
      Ord.condHas .whileDirtyOverMax "has_cleanup_worker" Order.enactLogs_conds &&
      Ord.condHas .whileDirtyOverMax "!self.shutdown.load(Ordering::SeqCst)" Order.enactLogs_conds,
    shutdownSignalsCleanupQ := Order.shutdown.contains .signalCleanupQueue,
    -- guard SCOPE, not just order: the notify lies between the lock and the drop of its guard
    shutdownNotifyLocked := Ord.held .lockLogQueue .unlockLogQueue .notifyLogQueue Order.shutdown,
    -- the queue-full wait is guarded by `bg_err` being empty
    commitChecksErrBeforeWait :=
      (Ord.inside .waitQueueFull .ifQueueFull .endIfQueueFull Order.commitRaw &&
        Ord.condHas .ifQueueFull "self.bg_err.lock().is_none()" Order.commitRaw_conds) ||
      (Ord.inside .waitQueueFull .whileQueueFull .endWhileQueueFull Order.commitRaw &&
        Ord.condHas .whileQueueFull "self.bg_err.lock().is_none()" Order.commitRaw_conds),
    storeErrNotifyLocked := Ord.held .lockQueue .unlockQueue .notifyAllQueueFull Order.storeErr }

def Cfg.patched (c : Cfg) : Bool :=
  c.enactChecksShutdown && c.shutdownSignalsCleanupQ && c.shutdownNotifyLocked &&
  c.commitChecksErrBeforeWait && c.storeErrNotifyLocked

def unpatchedCfg (minLog : Nat) (syncData workers : Bool) : Cfg :=
  { minLog := minLog, syncData := syncData, workers := workers, enactChecksShutdown := false,
    shutdownSignalsCleanupQ := false, shutdownNotifyLocked := false,
    commitChecksErrBeforeWait := false, storeErrNotifyLocked := false }

def patchedCfg (minLog : Nat) (syncData workers : Bool) : Cfg :=
  { minLog := minLog, syncData := syncData, workers := workers, enactChecksShutdown := true,
    shutdownSignalsCleanupQ := true, shutdownNotifyLocked := true,
    commitChecksErrBeforeWait := true, storeErrNotifyLocked := true }

/-- `WaitCondvar<bool>` with its single waiter. -/
structure Cv where
  flag : Bool := false
  waiting : Bool := false           -- the waiter is parked inside `cv.wait`
  notified : Bool := false          -- ... and has been notified since
deriving DecidableEq, Repr

def Cv.signal (c : Cv) : Cv := { c with flag := true, notified := c.notified || c.waiting }
def Cv.canStep (c : Cv) : Bool := !c.waiting || c.notified
/-- one step of `wait`: (new state, left the loop?) -/
def Cv.waitStep (c : Cv) : Cv × Bool :=
  if c.flag then ({ flag := false, waiting := false, notified := false }, true)
  else ({ c with waiting := true, notified := false }, false)

inductive ETail where
  | e1    -- lock bg_err; store the error (first one only) and the shutdown flag
  | e2    -- shutdown(): notify / signal everybody
  | e3    -- commit_queue_full_cv.notify_all()
deriving DecidableEq, Repr

inductive LPc where
  | init | loop | waitL | thr | lqAbout | lqParked | pop | write1 (b : Nat) | write2 (b : Nat) | reindex
  | reClear | err (e : ETail) | done
deriving DecidableEq, Repr

inductive FPc where
  | loop | waitF | flOne | flSignal | err (e : ETail) | done
deriving DecidableEq, Repr

inductive CPc where
  | loop | idle1 | idle2 | waitC | enRead | enDirty | waitQ | err (e : ETail) | done
deriving DecidableEq, Repr

inductive KPc where
  | loop | waitK | clClean | clSignal (r : Bool) | err (e : ETail) | done
deriving DecidableEq, Repr

inductive DPc where
  | idle | sd1 | sd2 | joinL | joinF | joinC | joinK | kill | unlock | stuck | done
deriving DecidableEq, Repr

inductive Cm where
  | idle | about (b : Nat) | parked (b : Nat) (notified : Bool)
deriving DecidableEq, Repr

structure St where
  pl : LPc
  pf : FPc
  pc : CPc
  pk : KPc
  pd : DPc := .idle
  cms : List Cm
  moreCommits : Bool := false
  moreReindex : Bool := false
  moreF : Bool := false
  moreC : Bool := false
  moreK : Bool := true
  cvL : Cv := {}                    -- log_worker_wait
  cvF : Cv := {}                    -- flush_worker_wait
  cvC : Cv := {}                    -- commit_worker_wait
  cvK : Cv := {}                    -- cleanup_worker_wait
  cvQ : Cv := {}                    -- cleanup_queue_wait
  lqNotified : Bool := false        -- log_queue_wait.cv: the parked log worker has been notified
  q : List Nat := []                -- commit queue (bytes per commit)
  app : List Nat := []              -- records of the appending log file
  readQ : List (List Nat) := []     -- flushed, unread log files
  reading : Option (List Nat) := none
  logq : Int := 0                   -- log_queue_wait.work: logged, not yet enacted bytes (i64, may dip below 0)
  dirty : Nat := 0                  -- fully read, not yet reclaimed log files
  reidx : Nat := 0                  -- reindex batches the log worker may still produce
  shutdown : Bool := false
  bgErr : Bool := false
  sdDone : Bool := false            -- ghost: the notifications of shutdown() have been issued
  accepted : Nat := 0
  refused : Nat := 0
  -- environment (client-controlled locks)
  iterHeld : Bool := false          -- a client is inside an `iter_column_while` callback (holds `iteration_lock`)
  treeLocked : Bool := false        -- a client holds the lock of a tree that a queued DereferenceTree refers to
  deferCycle : Bool := false        -- two queued commits each dereference a tree the other one recorded in `used_trees`
  -- record ids (`Log::begin_record`, `last_enacted`, `next_reindex`; a fresh database starts at 1 / 1 / 1)
  nLogged : Nat := 1                -- id of the last record written to the log
  nEnacted : Nat := 1               -- `last_enacted`
  nextRe : Nat := 1                 -- `next_reindex` (0 = nothing scheduled)
  -- ghost counters
  nBatches : Nat := 0               -- reindex records written
  lost : Nat := 0                   -- commits popped by a `process_commits` call that failed
  nDeferred : Nat := 0              -- `defer_commit` calls
  killLost : Nat := 0               -- unread records of the log file deleted by `Log::kill_logs`
deriving DecidableEq, Repr

def init (cfg : Cfg) (nCm reidx : Nat) : St :=
  if cfg.workers then
    { pl := .init, pf := .loop, pc := .loop, pk := .loop, cms := List.replicate nCm .idle, reidx := reidx }
  else
    { pl := .done, pf := .done, pc := .done, pk := .done, cms := List.replicate nCm .idle, reidx := reidx }

def Cm.isAbout : Cm → Bool
  | .about _ => true
  | _ => false

/-- the commit queue mutex is not held by a committer on its way into the wait -/
def qFree (s : St) : Bool := s.cms.all (fun c => !c.isAbout)
/-- the log queue mutex is not held by the log worker on its way into the wait -/
def lqFree (s : St) : Bool := s.pl != .lqAbout

def Cm.wake : Cm → Cm
  | .parked b _ => .parked b true
  | c => c

def notifyAllCm (s : St) : St := { s with cms := s.cms.map Cm.wake }
def lqNotify (s : St) : St := if s.pl = .lqParked then { s with lqNotified := true } else s

/-- the notifications of `shutdown()` after the flag has been stored -/
def sdNotify (cfg : Cfg) (s : St) : St :=
  let s := lqNotify s
  { s with cvF := s.cvF.signal, cvL := s.cvL.signal, cvC := s.cvC.signal, cvK := s.cvK.signal,
           cvQ := if cfg.shutdownSignalsCleanupQ then s.cvQ.signal else s.cvQ, sdDone := true }

/-- the test at the head of `process_reindex`: something is scheduled and its record is enacted -/
def reGate (s : St) : Bool := s.nextRe != 0 && decide (s.nextRe ≤ s.nEnacted)

/-- `process_reindex`: gated; one batch = one record; with nothing left to do the worker goes on
    to clear `next_reindex` (`reClear`: a separate step, a `start_reindex` of the commit worker
    can fall in between) -/
def reindexStep (s : St) : St :=
  if reGate s then
    if s.reidx > 0 then
      { s with reidx := s.reidx - 1, app := s.app ++ [1], logq := s.logq + 1, cvF := s.cvF.signal,
               moreReindex := true, nLogged := s.nLogged + 1, nBatches := s.nBatches + 1 }
    else { s with pl := .reClear }
  else { s with moreReindex := false }

/-- store_err tail, shared by the four workers: (state, next tail pc or finished) -/
def errStep (cfg : Cfg) (s : St) : ETail → Option (St × Option ETail)
  | .e1 => if s.bgErr then some (s, some .e3)
           else some ({ s with bgErr := true, shutdown := true }, some .e2)
  | .e2 => if cfg.shutdownNotifyLocked && !lqFree s then none else some (sdNotify cfg s, some .e3)
  | .e3 => if cfg.storeErrNotifyLocked && !qFree s then none else some (notifyAllCm s, none)

/-- the `while num_dirty_logs() > max_logs` condition of `enact_logs` -/
def waitCond (cfg : Cfg) (s : St) : Bool :=
  decide (s.dirty > cfg.maxLogs) && (!cfg.enactChecksShutdown || (cfg.workers && !s.shutdown))

/-- the log file `read_next` works on: the one being read, else the next of the read queue -/
def curFile (s : St) : Option (List Nat) × List (List Nat) :=
  match s.reading with
  | some f => (some f, s.readQ)
  | none => match s.readQ with
    | [] => (none, [])
    | f :: fs => (some f, fs)

def tickL (cfg : Cfg) (s : St) : Option St :=
  match s.pl with
  | .init => some (reindexStep { s with pl := .loop })
  | .loop =>
    if !s.shutdown || s.moreCommits then
      (if !s.moreCommits && !s.moreReindex then some { s with pl := .waitL } else some { s with pl := .thr })
    else some { s with pl := .done }
  | .waitL =>
    if s.cvL.canStep then
      some { s with cvL := s.cvL.waitStep.1, pl := if s.cvL.waitStep.2 then .thr else .waitL }
    else none
  | .thr =>
    if cfg.workers && !s.shutdown && decide (s.logq > (MAXL : Int)) then some { s with pl := .lqAbout }
    else some { s with pl := .pop }
  | .lqAbout => some { s with pl := .lqParked, lqNotified := false }
  | .lqParked => if s.lqNotified then some { s with pl := .pop, lqNotified := false } else none
  | .pop =>
    if qFree s then
      match s.q with
      | [] => some { s with moreCommits := false, pl := .reindex }
      | b :: q' =>
        let s1 := { s with q := q', pl := .write1 b }
        some (if decide (sum q' ≤ MAXQ) && decide (sum q' + b > MAXQ) then notifyAllCm s1 else s1)
    else none
  | .write1 b => some { s with app := s.app ++ [recSz b], nLogged := s.nLogged + 1, pl := .write2 b }
  | .write2 b =>
    some { s with logq := s.logq + (recSz b : Int), cvF := s.cvF.signal, moreCommits := true, pl := .reindex }
  | .reindex => some (reindexStep { s with pl := .loop })
  | .reClear => some { s with nextRe := 0, moreReindex := false, pl := .loop }
  | .err e => (errStep cfg s e).map (fun (s', n) => { s' with pl := match n with | some e' => .err e' | none => .done })
  | .done => none

def tickF (cfg : Cfg) (s : St) : Option St :=
  match s.pf with
  | .loop =>
    if !s.shutdown then (if !s.moreF then some { s with pf := .waitF } else some { s with pf := .flOne })
    else some { s with pf := .done }
  | .waitF =>
    if s.cvF.canStep then
      some { s with cvF := s.cvF.waitStep.1, pf := if s.cvF.waitStep.2 then .flOne else .waitF }
    else none
  | .flOne =>
    if sum s.app > cfg.minLog then some { s with readQ := s.readQ ++ [s.app], app := [], pf := .flSignal }
    else some { s with moreF := false, pf := .loop }
  | .flSignal => some { s with cvC := s.cvC.signal, moreF := true, pf := .loop }
  | .err e => (errStep cfg s e).map (fun (s', n) => { s' with pf := match n with | some e' => .err e' | none => .done })
  | .done => none

def tickC (cfg : Cfg) (s : St) : Option St :=
  match s.pc with
  | .loop =>
    if !s.shutdown || s.moreC then (if !s.moreC then some { s with pc := .idle1 } else some { s with pc := .enRead })
    else some { s with pc := .done }
  | .idle1 => some { s with cvK := s.cvK.signal, pc := .idle2 }
  | .idle2 => if s.readQ.isEmpty then some { s with pc := .waitC } else some { s with pc := .enRead }
  | .waitC =>
    if s.cvC.canStep then
      some { s with cvC := s.cvC.waitStep.1, pc := if s.cvC.waitStep.2 then .enRead else .waitC }
    else none
  | .enRead =>
    match curFile s with
    | (none, _) => some { s with moreC := false, pc := .loop }
    | (some [], rq) => some { s with readQ := rq, reading := none, dirty := s.dirty + 1, moreC := false, pc := .loop }
    | (some (r :: rs), rq) =>
      if lqFree s then
        let s1 := { s with readQ := rq, reading := some rs, logq := s.logq - (r : Int), nEnacted := s.nEnacted + 1,
                           pc := .enDirty }
        some (if decide (s.logq - (r : Int) ≤ (MAXL : Int)) && decide (s.logq > (MAXL : Int)) then lqNotify s1 else s1)
      else none
  | .enDirty => if waitCond cfg s then some { s with pc := .waitQ } else some { s with moreC := true, pc := .loop }
  | .waitQ =>
    if s.cvQ.canStep then
      some { s with cvQ := s.cvQ.waitStep.1, pc := if s.cvQ.waitStep.2 then .enDirty else .waitQ }
    else none
  | .err e => (errStep cfg s e).map (fun (s', n) => { s' with pc := match n with | some e' => .err e' | none => .done })
  | .done => none

/-- `enact_logs` starts with `iteration_lock.lock()`: the commit worker cannot enter it while a
    client callback of `iter_column_while` holds that mutex -/
def tickCg (cfg : Cfg) (s : St) : Option St :=
  if s.iterHeld && s.pc == .enRead then none else tickC cfg s

/-- the commit worker holds `iteration_lock` (it is inside `enact_logs`, past the read) -/
def cHoldsIter (s : St) : Bool := s.pc == .enDirty || s.pc == .waitQ

def tickK (cfg : Cfg) (s : St) : Option St :=
  match s.pk with
  | .loop =>
    if !s.shutdown || s.moreK then (if !s.moreK then some { s with pk := .waitK } else some { s with pk := .clClean })
    else some { s with pk := .done }
  | .waitK =>
    if s.cvK.canStep then
      some { s with cvK := s.cvK.waitStep.1, pk := if s.cvK.waitStep.2 then .clClean else .waitK }
    else none
  | .clClean =>
    if s.dirty > cfg.keepLogs then some { s with dirty := cfg.keepLogs, pk := .clSignal (decide (cfg.keepLogs > 0)) }
    else some { s with pk := .clSignal false }
  | .clSignal r => some { s with cvQ := s.cvQ.signal, moreK := r, pk := .loop }
  | .err e => (errStep cfg s e).map (fun (s', n) => { s' with pk := match n with | some e' => .err e' | none => .done })
  | .done => none

/-! ### sequential pieces: `kill_logs` (all workers joined) and the stepping API (no workers) -/

/-- one call of `enact_logs(false)` with nobody else running: `none` = waits for ever -/
def seqEnactOnce (cfg : Cfg) (s : St) : Option (St × Bool) :=
  match curFile s with
  | (none, _) => some (s, false)
  | (some [], rq) => some ({ s with readQ := rq, reading := none, dirty := s.dirty + 1 }, false)
  | (some (r :: rs), rq) =>
    let s1 := { s with readQ := rq, reading := some rs, logq := s.logq - (r : Int), nEnacted := s.nEnacted + 1 }
    if waitCond cfg s1 then none else some (s1, true)

/-- `while enact_logs(false)? {}` -/
def seqEnactLoop (cfg : Cfg) : Nat → St → Option St
  | 0, s => some s
  | n + 1, s =>
    match seqEnactOnce cfg s with
    | none => none
    | some (s1, true) => seqEnactLoop cfg n s1
    | some (s1, false) => some s1

/-- `flush_logs(0)` -/
def seqFlush0 (s : St) : St :=
  if sum s.app > 0 then { s with readQ := s.readQ ++ [s.app], app := [], cvC := s.cvC.signal } else s

/-- one call of `process_commits` (no throttle: shutdown is set / no workers) -/
def seqProcessOnce (s : St) : St × Bool :=
  match s.q with
  | [] => (s, false)
  | b :: q' => ({ s with q := q', app := s.app ++ [recSz b], logq := s.logq + (recSz b : Int), cvF := s.cvF.signal,
                         nLogged := s.nLogged + 1 }, true)

def seqProcessLoop : Nat → St → St
  | 0, s => s
  | n + 1, s => if (seqProcessOnce s).2 then seqProcessLoop n (seqProcessOnce s).1 else s

def fuel (s : St) : Nat :=
  s.q.length + s.app.length + s.readQ.length + (s.readQ.map List.length).foldl (· + ·) 0 +
  (match s.reading with | some f => f.length | none => 0) + 3

/-- `while process_commits()? {}` cannot end: a queued commit is deferred again and again
    (its tree is locked by a client, or it is part of a deferral cycle of at least two commits) -/
def deferForEver (s : St) : Bool :=
  (s.treeLocked && !s.q.isEmpty) || (s.deferCycle && decide (2 ≤ s.q.length))

def optLen : Option (List Nat) → Nat
  | some f => f.length
  | none => 0

/-- `kill_logs`, in the order of the generated skeleton (`Ord.killLogs_drains_all`).
    `while process_commits()? {}` never ends while a queued commit keeps being deferred
    (`deferForEver`, pessimistic: any queued commit may be the DereferenceTree).  The last line is
    `Log::kill_logs`: it deletes the pooled files and the file BEING READ (ghost `killLost` = its
    unread records, which would be lost; `reading` itself is left as it is so that the byte
    accounting stays an invariant); flushed files still in the read queue stay on disk for the
    next open. -/
def killLogsSeq (cfg : Cfg) (s : St) : Option St :=
  if s.bgErr then some { s with dirty := 0 }
  else
    (seqEnactLoop cfg (fuel s) s).bind fun s1 =>
    if deferForEver s1 then none else
    let s3 := seqProcessLoop (fuel s1) (seqFlush0 s1)
    (seqEnactLoop cfg (fuel s3) s3).bind fun s4 =>
    let s5 := seqFlush0 s4
    (seqEnactLoop cfg (fuel s5) s5).bind fun s6 =>
    some { s6 with dirty := 0, killLost := optLen s6.reading }

def tickD (cfg : Cfg) (s : St) : Option St :=
  match s.pd with
  | .idle => none
  | .sd1 => some { s with shutdown := true, pd := .sd2 }
  | .sd2 =>
    if cfg.shutdownNotifyLocked && !lqFree s then none
    else some { sdNotify cfg s with pd := .joinL }
  | .joinL => if s.pl = .done then some { s with pd := .joinF } else none
  | .joinF => if s.pf = .done then some { s with pd := .joinC } else none
  | .joinC => if s.pc = .done then some { s with pd := .joinK } else none
  | .joinK => if s.pk = .done then some { s with pd := .kill } else none
  | .kill => (killLogsSeq cfg s).map (fun s' => { s' with pd := .unlock })
  | .unlock => some { s with pd := .done }
  | .stuck => none
  | .done => none

def setCm (s : St) (i : Nat) (c : Cm) : St := { s with cms := s.cms.set i c }

/-- the part of `commit_raw` after the queue-full test, under the queue mutex -/
def commitFinish (s : St) (i b : Nat) : St :=
  if s.bgErr then { setCm s i .idle with refused := s.refused + 1 }
  else { setCm s i .idle with q := s.q ++ [b], cvL := s.cvL.signal, accepted := s.accepted + 1 }

def tickCm (s : St) (i : Nat) : Option St :=
  match s.cms[i]? with
  | some (.about b) => some (setCm s i (.parked b false))
  | some (.parked b true) => if qFree s then some (commitFinish s i b) else none
  | _ => none

inductive Tid where
  | L | F | C | K | D
deriving DecidableEq, Repr

inductive Act where
  | tick (t : Tid)
  | cmTick (i : Nat)
  | commit (i b : Nat)              -- committer i calls commit with b bytes
  | drop                            -- the owner drops the handle
  | fail (t : Tid)                  -- an I/O error in a worker's current operation
  | apiProcess | apiFlush | apiEnact | apiClean   -- stepping API (no workers)
  | defer                           -- `process_commits`: the popped commit is re-queued (`defer_commit`), Ok(true)
  | panic (t : Tid)                 -- a worker thread dies by a panic: `store_err` is skipped
  | iterHold | iterRelease          -- a client enters / leaves an `iter_column_while` callback
  | lockTree | unlockTree           -- a client locks / unlocks a tree reader
  | makeCycle                       -- a client, holding tree locks, has queued commits that defer each other
  | grow (k : Nat)                  -- `start_reindex` by the log worker: k more reindex batches
  | dropEnacted (k : Nat)           -- `start_reindex` by the commit worker after an enacted DropTable
deriving DecidableEq, Repr

def Act.isPanic : Act → Bool
  | .panic _ => true
  | _ => false

def step (cfg : Cfg) (s : St) : Act → Option St
  | .tick .L => tickL cfg s
  | .tick .F => tickF cfg s
  | .tick .C => tickCg cfg s
  | .tick .K => tickK cfg s
  | .tick .D => tickD cfg s
  | .cmTick i => tickCm s i
  | .commit i b =>
    if s.pd = .idle && s.cms[i]? == some .idle && qFree s then
      if cfg.workers && decide (sum s.q > MAXQ) && (!cfg.commitChecksErrBeforeWait || !s.bgErr) then
        some (setCm s i (.about b))
      else some (commitFinish s i b)
    else none
  | .drop => if s.pd = .idle && s.cms.all (· == .idle) && !s.iterHeld then some { s with pd := .sd1 } else none
  | .fail .L =>
    if cfg.workers then match s.pl with
      | .write1 _ => some { s with pl := .err .e1, lost := s.lost + 1 }
      | .init => some { s with pl := .err .e1 }
      | .reindex => some { s with pl := .err .e1 }
      | _ => none
    else none
  | .fail .F => if cfg.workers && s.pf = .flOne then some { s with pf := .err .e1 } else none
  | .fail .C => if cfg.workers && s.pc = .enRead then some { s with pc := .err .e1 } else none
  | .fail .K => if cfg.workers && s.pk = .clClean then some { s with pk := .err .e1 } else none
  | .fail .D => none
  | .apiProcess => if !cfg.workers && s.pd = .idle then some (seqProcessOnce s).1 else none
  | .apiFlush => if !cfg.workers && s.pd = .idle then some (seqFlush0 s) else none
  | .apiEnact =>
    if !cfg.workers && s.pd = .idle then
      match seqEnactLoop cfg (fuel s) s with
      | some s' => some s'
      | none => some { s with pd := .stuck }
    else none
  | .apiClean =>
    if !cfg.workers && s.pd = .idle then
      some { s with dirty := if s.dirty > cfg.keepLogs then cfg.keepLogs else s.dirty, cvQ := s.cvQ.signal }
    else none
  | .defer =>
    if (s.treeLocked || (s.deferCycle && !s.q.isEmpty)) && qFree s then match s.pl with
      | .write1 b => some { s with q := s.q ++ [b], moreCommits := true, nDeferred := s.nDeferred + 1, pl := .reindex }
      | _ => none
    else none
  | .panic .L => if cfg.workers && s.pl != .done then some { s with pl := .done } else none
  | .panic .F => if cfg.workers && s.pf != .done then some { s with pf := .done } else none
  | .panic .C => if cfg.workers && s.pc != .done then some { s with pc := .done } else none
  | .panic .K => if cfg.workers && s.pk != .done then some { s with pk := .done } else none
  | .panic .D => none
  | .iterHold => if s.pd = .idle && !s.iterHeld && !cHoldsIter s then some { s with iterHeld := true } else none
  | .iterRelease => if s.iterHeld then some { s with iterHeld := false } else none
  | .lockTree => some { s with treeLocked := true }
  | .unlockTree => some { s with treeLocked := false }
  | .makeCycle => if s.treeLocked then some { s with deferCycle := true } else none
  | .grow k =>
    match s.pl with
    | .write2 _ => some { s with nextRe := s.nLogged, reidx := s.reidx + k }
    | .loop => if s.moreReindex then some { s with nextRe := s.nLogged, reidx := s.reidx + k } else none
    | _ => none
  | .dropEnacted k => if s.pc = .enDirty then some { s with nextRe := s.nEnacted, reidx := s.reidx + k } else none

def run (cfg : Cfg) (s : St) : List Act → Option St
  | [] => some s
  | a :: as => match step cfg s a with
    | some s' => run cfg s' as
    | none => none

/-- reachable by a schedule in which no worker panics (C15's quantifier) -/
def Reachable (cfg : Cfg) (nCm reidx : Nat) (s : St) : Prop :=
  ∃ as, (∀ a ∈ as, a.isPanic = false) ∧ run cfg (init cfg nCm reidx) as = some s

/-- reachable by any schedule, worker panics included -/
def ReachableP (cfg : Cfg) (nCm reidx : Nat) (s : St) : Prop := ∃ as, run cfg (init cfg nCm reidx) as = some s

/-- no thread can take a step on its own (external actions - new commits, drop, injected
    failures, API calls - are not threads) -/
def allBlocked (cfg : Cfg) (s : St) : Bool :=
  (tickL cfg s).isNone && (tickF cfg s).isNone && (tickCg cfg s).isNone && (tickK cfg s).isNone &&
  (tickD cfg s).isNone && (List.range s.cms.length).all (fun i => (tickCm s i).isNone)

end Pdb.Conc.Pipe
