/-
R6 (model part): the PHYSICAL multitree column - what `Pdb/Model/MultiTree.lean` (C10) abstracts from.

  abstract (MultiTree.lean)                         physical (this file)
  one address space, one LIFO free stack      ->    one byte-level `ValueTable.VT` per size tier (`SIZES` + the
                                                    multipart table, `tableOfTier`), each with its own on-disk free list
                                                    (`last_removed` + tombstone links = `free_entries.stack`), shared
                                                    by node slots AND root value slots
  `Addr` = a number                           ->    `Address.new offset tier` (generated bit functions, Pdb/Gen/Bits.lean)
  `heap.nodes : FMap Addr (Node D)`           ->    slot bytes: `packNode data children` written by
                                                    `write_claimed_plan(offset, TableKey::NoHash, bytes)` (ref-counted
                                                    columns: with the 4-byte counter field, always 1, in front), one
                                                    slot in a fixed-size tier or a chain of parts in the multipart table;
                                                    read by `get_node` = `ValueTable::get(NoHash)` + `unpack_node_data`
  `heap.roots`                                ->    `index : key -> address` (the hash index is NOT modelled here: it is
                                                    the subject of R1 / R3) + the root value `packNode data children`
                                                    stored under `TableKey::Partial(hash)` (26-byte tail, counter field
                                                    on ref-counted columns = the root count)
  `heap.rc`                                   ->    the same map (ref-count table + cache; its pages are the subject of
                                                    Pdb/Model/RcTables.lean / `C10T_rc_tables_refine`)

Rust item                                         -> Lean definition
  column.rs `prepare_node` / `claim_node` tier    -> `nodeTier`   (`position(value_size(NoHash) >= packed_node_size)`)
  column.rs `prepare_children`                    -> `tiersRefs`  (one tier per NEW non-root node)
  table.rs  `claim_entries(n)`                    -> `ValueTable.allocN t n`  (pop the free list, then extend `filled`;
                                                     `claim_entries` pops `free_entries.stack`, which mirrors the on-disk
                                                     list that `nextFree` follows: `init_table_data` rebuilds it from the
                                                     tombstone links, `clear_slot` pushes, `next_free` pops both)
  column.rs `claim_tree_values`                   -> `claimTiers` + `physPlanRefs` (per tier: parent BEFORE its children,
                                                     `tier_index`; node changes: children before parent)
  table.rs  `write_claimed_plan`                  -> `writeClaimed` (`overwrite_chain(at = Some(index), claimed = true)`:
                                                     no old chain is followed; further parts come from `next_free`)
  column.rs `write_address_value_plan`            -> `physNewValue`
  column.rs `write_address_inc_ref_plan`          -> `MultiTree.incRef` on `rc` (`physApplyNode`)
  column.rs `write_address_dec_ref_plan`          -> `physDecRef` (entry: count - 1; no entry: `write_remove_plan`)
  db.rs     `write_dereference_children_plan`     -> `physDerefChildren` (children read BEFORE the decrement)
  db.rs     `get_node` / `get_node_children`      -> `physGetNode` / `physGetChildren`
  db.rs     `get_root` (= `get` + unpack)         -> `physGetRoot`
  column.rs `write_plan` on a root key            -> `physSetRoot` / `physRefRoot` / `physDerefRoot`
  db.rs     `commit_changes` (multitree branch)   -> `PDb.commit`;  `IndexedChangeSet::write_plan` -> `PDb.process`

Not modelled here (see DESIGN 13.0): index pages, ref-count table pages, the log overlay (state = file + overlay), the
commit overlay for NODES (reads in this file are table reads; roots of queued commits are visible to `commit`, which is all
`commit_changes` needs), compression (refused for multitree columns by `Options::is_valid`).

Driver protocol (command word `mtphys`, stateful; every address is the real `u64`):
  mtphys init <append_only|rc|plain>                  -> ok
  mtphys tx <op> ; <op> ...                           -> ok <addresses of the NEW nodes in push order> | err:<Kind>
        <op> = insert <key hex> <tok>...  (pre-order: `n<k>:<data token>` new node with k children, `#<address>` existing)
             | ref <key hex> | deref <key hex>
  mtphys process                                      -> ok | err:<Kind>      (one queued commit)
  mtphys root <key hex>                               -> none | some <address of the root value> <data digest> <child addresses>
  mtphys node <address>                               -> none | some <data length> <data digest> <child addresses>
  mtphys slot <tier> <index>                          -> hex of the bytes written to the slot (`-` if never written)
  mtphys hdr <tier>                                   -> <filled> <last_removed> <free list length>
  mtphys rc <address>                                 -> <count>       (ref-count table; absent = 1)
-/
import Pdb.Gen.Consts
import Pdb.Gen.Bits
import Pdb.Model.ValueTable
import Pdb.Model.MultiTree

namespace Pdb.MultiTreePhys
open Pdb.Gen Pdb.ValueTable Pdb.MultiTree

/-- hashed key (`Key = [u8; 32]`) -/
abbrev Key := Bytes
abbrev NChange := NodeChange Key Bytes
abbrev RChange := RootChange Key Bytes

/-- `TableKey::Partial(hash)`: the stored tail is `hash[6..32]` -/
def keyTail (k : Key) : TKey := .partialKey (k.drop 6)

/-! ## node codec (the byte string of a node entry) -/

/-- the value `claim_node` / `claim_tree_values` builds: data, child addresses (LE u64), `num_children as u8` -/
def encodeNode (n : Node Bytes) : Bytes := packNode n.data n.children

/-- `unpack_node_data` -/
def decodeNode (b : Bytes) : Option (Node Bytes) :=
  match unpackNode b with
  | .ok (d, cs) => some ⟨d, cs⟩
  | .error _ => none

/-- `claim_node`: `tables.iter().position(|t| t.value_size(NoHash) >= packed_node_size(data, n as u8))`,
    the multipart table if none fits -/
def nodeTier (rc : Bool) (dataLen numChildren : Nat) : Nat :=
  tierOfLen rc .noHash (packed_node_size dataLen (numChildren % 256))

/-- `Column::compress` without compression on a root value (`TableKey::Partial`) -/
def rootTier (rc : Bool) (k : Key) (len : Nat) : Nat := tierOfLen rc (keyTail k) len

/-! ## the column -/

structure PCol where
  variant : Variant
  /-- value table of every size tier -/
  vt : Nat → VT
  /-- ref-count table + cache: entries only for counts > 1, keyed by the packed address -/
  rc : FMap Nat Nat
  /-- hash index (abstract): hashed key -> address of the root value -/
  index : FMap Key Nat

def PCol.isRc (p : PCol) : Bool := decide (p.variant = .rcRoots)
def PCol.isAppendOnly (p : PCol) : Bool := decide (p.variant = .appendOnly)

def PCol.init (v : Variant) : PCol := ⟨v, tableOfTier (decide (v = .rcRoots)), .empty, .empty⟩

/-- the old function is evaluated once per lookup -/
def PCol.setVT (p : PCol) (tier : Nat) (t : VT) : PCol :=
  { p with vt := fun i => if i = tier then t else p.vt i }

inductive PErr where
  | vt (e : WrErr)
  | rd (e : RdErr)
  | mt (e : Err)
deriving DecidableEq, Repr

/-! ## reads -/

/-- `ValueTable::get(NoHash, offset)` at a node address: the stored bytes -/
def physGetBytes (p : PCol) (a : Nat) : Option Bytes :=
  match readChain (p.vt (Address.size_tier a)) .noHash (Address.offset a) with
  | .ok (some (b, _, _)) => some b
  | _ => none

/-- `get_node`: `(data, children)` -/
def physGetNode (p : PCol) (a : Nat) : Option (Node Bytes) := (physGetBytes p a).bind decodeNode

/-- `get_node_children` -/
def physGetChildren (p : PCol) (a : Nat) : Option (List Nat) := (physGetNode p a).map (·.children)

/-- `get_root`: index lookup, `ValueTable::get(Partial(key))`, unpack; with the stored counter -/
def physGetRoot (p : PCol) (k : Key) : Option (Node Bytes × Nat) :=
  (p.index.get k).bind (fun a =>
    match readChain (p.vt (Address.size_tier a)) (keyTail k) (Address.offset a) with
    | .ok (some (b, _, c)) => (decodeNode b).map (fun n => (n, c))
    | _ => none)

/-! ## claims (`commit_changes`) -/

mutual
  /-- `prepare_node` / `prepare_children`: the tier of every NEW node below the root, pre-order -/
  def tiersRef (rc : Bool) : NRef Bytes → List Nat
    | .existing _ => []
    | .new d cs => nodeTier rc d.length cs.length :: tiersRefs rc cs
  def tiersRefs (rc : Bool) : NRefs Bytes → List Nat
    | .nil => []
    | .cons r rs => tiersRef rc r ++ tiersRefs rc rs
end

/-- the supply of claimed offsets: tier -> remaining offsets -/
abbrev Supply := List (Nat × List Nat)

def Supply.take (s : Supply) (tier : Nat) : Nat × Supply :=
  match s with
  | [] => (0, [])
  | (t, l) :: r =>
    if t = tier then (l.headD 0, (t, l.tail) :: r)
    else ((Supply.take r tier).1, (t, l) :: (Supply.take r tier).2)

/-- `tier_count` of `prepare_children`: (tier, number of new nodes of that tier), in order of first occurrence -/
def tierCounts (tiers : List Nat) : List (Nat × Nat) := tiers.eraseDups.map (fun t => (t, tiers.count t))

/-- `for (tier, count) in tier_count { claim_entries(count) }`: the tables are independent of each other, so the
    iteration order of the `HashMap` does not matter -/
def claimList (p : PCol) : List (Nat × Nat) → Except PErr (PCol × Supply)
  | [] => .ok (p, [])
  | (tier, n) :: rest =>
    match allocN (p.vt tier) n with
    | .error e => .error (.vt e)
    | .ok (t', offs) =>
      match claimList (p.setVT tier t') rest with
      | .error e => .error e
      | .ok (p', s) => .ok (p', (tier, offs) :: s)

def claimTiers (p : PCol) (tiers : List Nat) : Except PErr (PCol × Supply) := claimList p (tierCounts tiers)

mutual
  /-- `claim_node`: the slot is taken from the tier's supply BEFORE the children are claimed (`tier_index`), the
      `NewValue` is pushed AFTER the children's changes -/
  def physPlanRef (rc ap : Bool) (s : Supply) : NRef Bytes → List NChange × Supply × Nat
    | .existing a => (if ap then [] else [.incRef a], s, a)
    | .new d cs =>
      let tier := nodeTier rc d.length cs.length
      let a := Address.new (s.take tier).1 tier
      match physPlanRefs rc ap (s.take tier).2 cs with
      | (chs, s2, as) => (chs ++ [.newValue a ⟨d, as⟩], s2, a)
  /-- `claim_children_to_data` -/
  def physPlanRefs (rc ap : Bool) (s : Supply) : NRefs Bytes → List NChange × Supply × List Nat
    | .nil => ([], s, [])
    | .cons r rs =>
      match physPlanRef rc ap s r with
      | (c1, s1, a) =>
        match physPlanRefs rc ap s1 rs with
        | (c2, s2, as) => (c1 ++ c2, s2, a :: as)
end

/-- `claim_tree_values`: (column with the slots claimed, root node, node changes) -/
def physClaimTree (p : PCol) (t : NewNode Bytes) : Except PErr (PCol × Node Bytes × List NChange) :=
  match claimTiers p (tiersRefs p.isRc t.children) with
  | .error e => .error e
  | .ok (p', s) =>
    match physPlanRefs p.isRc p.isAppendOnly s t.children with
    | (chs, _, as) => .ok (p', ⟨t.data, as⟩, chs)

/-! ## table effects (`process_commits`) -/

/-- `write_claimed_plan(index, NoHash, value)` = `overwrite_chain(.., at = Some(index), claimed = true, ..)`:
    the head goes to the claimed slot, nothing is followed, further parts are taken by `next_free`. -/
def writeClaimed (t : VT) (v : Bytes) (idx : Nat) : Except WrErr WrOk :=
  if writePanics t .noHash v then .error .panic
  else writeCore t false (chunksOf t .noHash v) ([idx], none)

/-- `write_address_value_plan` -/
def physNewValue (p : PCol) (a : Nat) (n : Node Bytes) : Except PErr PCol :=
  match writeClaimed (p.vt (Address.size_tier a)) (encodeNode n) (Address.offset a) with
  | .ok r => .ok (p.setVT (Address.size_tier a) r.table)
  | .error e => .error (.vt e)

/-- `write_address_dec_ref_plan`: (remains, column) -/
def physDecRef (p : PCol) (a : Nat) : Except PErr (Bool × PCol) :=
  match p.rc.get a with
  | some c => .ok (true, { p with rc := p.rc.set a (if c - 1 > 1 then some (c - 1) else none) })
  | none =>
    match removePlan (p.vt (Address.size_tier a)) (Address.offset a) with
    | .ok (t, _) => .ok (false, p.setVT (Address.size_tier a) t)
    | .error e => .error (.vt e)

/-- one iteration of the loop of `write_dereference_children_plan` -/
def physDerefStep (rec : PCol → List Nat → Except PErr PCol) (p : PCol) (a : Nat) : Except PErr PCol :=
  let kids := physGetChildren p a
  match physDecRef p a with
  | .error e => .error e
  | .ok (true, p1) => .ok p1
  | .ok (false, p1) =>
    match kids with
    | some ks => rec p1 ks
    | none => .error (.mt .invalidConfiguration)

/-- `write_dereference_children_plan`; `fuel` bounds the depth -/
def physDerefChildren : Nat → PCol → List Nat → Except PErr PCol
  | 0, _, _ => .error (.mt .outOfFuel)
  | fuel + 1, p, cs => cs.foldlM (physDerefStep (physDerefChildren fuel)) p

/-- `Operation::Set(key, packed root)` on a multitree column (`HashColumn::write_plan`) -/
def physSetRoot (p : PCol) (k : Key) (root : Node Bytes) : Except PErr PCol :=
  let v := encodeNode root
  let tier := rootTier p.isRc k v.length
  match p.index.get k with
  | none =>
    match writeChain (p.vt tier) (keyTail k) v none false with
    | .ok r => .ok { p.setVT tier r.table with index := p.index.set k (some (Address.new r.addr tier)) }
    | .error e => .error (.vt e)
  | some a =>
    if p.isRc then
      .ok (p.setVT (Address.size_tier a) (changeRef (p.vt (Address.size_tier a)) (Address.offset a) true).1)
    else if Address.size_tier a = tier then
      match writeChain (p.vt tier) (keyTail k) v (some (Address.offset a)) false with
      | .ok r => .ok (p.setVT tier r.table)
      | .error e => .error (.vt e)
    else
      match removePlan (p.vt (Address.size_tier a)) (Address.offset a) with
      | .error e => .error (.vt e)
      | .ok (t1, _) =>
        match writeChain ((p.setVT (Address.size_tier a) t1).vt tier) (keyTail k) v none false with
        | .ok r =>
          .ok { (p.setVT (Address.size_tier a) t1).setVT tier r.table with
                index := p.index.set k (some (Address.new r.addr tier)) }
        | .error e => .error (.vt e)

/-- `Operation::Reference(key)` -/
def physRefRoot (p : PCol) (k : Key) : PCol :=
  match p.index.get k with
  | some a =>
    if p.isRc then
      p.setVT (Address.size_tier a) (changeRef (p.vt (Address.size_tier a)) (Address.offset a) true).1
    else p
  | none => p

/-- `Operation::Dereference(key)` of `DereferenceChildren`: (the root entry was removed, column) -/
def physDerefRoot (p : PCol) (k : Key) : Except PErr (Bool × PCol) :=
  match p.index.get k with
  | none => .ok (false, p)
  | some a =>
    if p.isRc then
      match ValueTable.decRef (p.vt (Address.size_tier a)) (Address.offset a) with
      | .ok (t, true) => .ok (false, p.setVT (Address.size_tier a) t)
      | .ok (t, false) => .ok (true, { p.setVT (Address.size_tier a) t with index := p.index.set k none })
      | .error e => .error (.vt e)
    else
      match removePlan (p.vt (Address.size_tier a)) (Address.offset a) with
      | .ok (t, _) => .ok (true, { p.setVT (Address.size_tier a) t with index := p.index.set k none })
      | .error e => .error (.vt e)

def physApplyRoot (p : PCol) : RChange → Except PErr PCol
  | .set k root => physSetRoot p k root
  | .reference k => .ok (physRefRoot p k)

/-- depth bound of the walk: every descent follows the removal of a live slot -/
def physFuel (p : PCol) (cs : List Nat) : Nat :=
  ((List.range SIZE_TIERS).map (fun i => (p.vt i).filled)).sum + cs.length + 1

def physApplyNode (p : PCol) : NChange → Except PErr PCol
  | .newValue a n => physNewValue p a n
  | .incRef a => .ok { p with rc := (incRef (⟨.empty, p.rc, .empty, 0⟩ : Heap Key Bytes) a).rc }
  | .derefChildren k cs =>
    match p.index.get k with
    | none => .ok p
    | some _ =>
      match physDerefRoot p k with
      | .error e => .error e
      | .ok (false, p1) => .ok p1
      | .ok (true, p1) => physDerefChildren (physFuel p1 cs) p1 cs

/-- `write_plan` (no `Set` of a key that the same change set dereferences: those are postponed by the fix of F41 and
    are outside this model's generator): root changes in push order, then node changes in push order -/
def physApplyChangeSet (p : PCol) (cs : ChangeSet Key Bytes) : Except PErr PCol :=
  match cs.changes.foldlM physApplyRoot p with
  | .error e => .error e
  | .ok p1 => cs.nodeChanges.foldlM physApplyNode p1

/-! ## the database: commit queue -/

inductive POp where
  | insert (k : Key) (t : NewNode Bytes)
  | reference (k : Key)
  | dereference (k : Key)

structure PDb where
  col : PCol
  queue : List (ChangeSet Key Bytes)

def PDb.init (v : Variant) : PDb := ⟨PCol.init v, []⟩

/-- `get(col, key, false)`: commit overlay (newest queued `Set`), then the tables -/
def PDb.viewRoot (db : PDb) (k : Key) : Option (Node Bytes) :=
  (ovRootT db.queue k).or ((physGetRoot db.col k).map Prod.fst)

def POp.toOp : POp → Op Key Bytes
  | .insert k t => .insert k t
  | .reference k => .reference k
  | .dereference k => .dereference k

/-- the assembly loop of `commit_changes` -/
def PDb.asmOp (view : Key → Option (Node Bytes)) (acc : PCol × ChangeSet Key Bytes) :
    POp → Except PErr (PCol × ChangeSet Key Bytes)
  | .insert k t =>
    match physClaimTree acc.1 t with
    | .error e => .error e
    | .ok (p', root, chs) => .ok (p', ⟨acc.2.changes ++ [.set k root], acc.2.nodeChanges ++ chs⟩)
  | .reference k =>
    if acc.1.isAppendOnly then .ok acc
    else .ok (acc.1, ⟨acc.2.changes ++ [.reference k], acc.2.nodeChanges⟩)
  | .dereference k =>
    match view k with
    | none => .ok acc
    | some r => .ok (acc.1, ⟨acc.2.changes, acc.2.nodeChanges ++ [.derefChildren k r.children]⟩)

/-- `commit_changes`: validate everything first (`validateOps` of the C10 model), then claim and queue; returns the
    addresses of the new nodes in push order -/
def PDb.commit (db : PDb) (ops : List POp) : PDb × Except PErr (List Nat) :=
  match validateOps db.col.variant db.viewRoot (ops.map POp.toOp) with
  | .ok =>
    match ops.foldlM (PDb.asmOp db.viewRoot) (db.col, ChangeSet.empty) with
    | .ok (p', cs) =>
      (⟨p', db.queue ++ [cs]⟩, .ok (cs.nodeChanges.filterMap (fun c => match c with
        | .newValue a _ => some a
        | _ => none)))
    | .error e => (db, .error e)
  | .invalidInput => (db, .error (.mt .invalidInput))
  | .invalidConfiguration => (db, .error (.mt .invalidConfiguration))

/-- `process_commits`: the oldest queued commit reaches the tables -/
def PDb.process (db : PDb) : PDb × Except PErr Unit :=
  match db.queue with
  | [] => (db, .ok ())
  | cs :: q =>
    match physApplyChangeSet db.col cs with
    | .ok p => (⟨p, q⟩, .ok ())
    | .error e => (⟨db.col, q⟩, .error e)

/-! ## Driver -/

section Driver

def showPErr : PErr → String
  | .vt e => showWrErr e
  | .rd e => showRdErr e
  | .mt e => e.show

def hexNib (n : Nat) : Char := if n < 10 then Char.ofNat (48 + n) else Char.ofNat (87 + n)

def hexOf (b : Bytes) : String :=
  if b.isEmpty then "-" else String.ofList (b.flatMap (fun x => [hexNib (x / 16), hexNib (x % 16)]))

def showAddrs (l : List Nat) : String := if l.isEmpty then "-" else ",".intercalate (l.map toString)

mutual
  /-- pre-order tokens `n<k>:<data token>` / `#<address>` -/
  def parseRef : Nat → List String → Option (NRef Bytes × List String)
    | 0, _ => none
    | _ + 1, [] => none
    | fuel + 1, tok :: rest =>
      if tok.startsWith "#" then (tok.drop 1).toString.toNat?.map (fun a => (.existing a, rest))
      else if tok.startsWith "n" then
        match (tok.drop 1).toString.splitOn ":" with
        | [k, d] =>
          match k.toNat?, parseValue d with
          | some k, some d =>
            match parseRefs fuel k rest with
            | some (cs, rest') => some (.new d cs, rest')
            | none => none
          | _, _ => none
        | _ => none
      else none
  def parseRefs : Nat → Nat → List String → Option (NRefs Bytes × List String)
    | 0, _, _ => none
    | _ + 1, 0, rest => some (.nil, rest)
    | fuel + 1, k + 1, rest =>
      match parseRef fuel rest with
      | some (r, rest') =>
        match parseRefs fuel k rest' with
        | some (rs, rest'') => some (.cons r rs, rest'')
        | none => none
      | none => none
end

def parseTree (toks : List String) : Option (NewNode Bytes) :=
  match parseRef (2 * toks.length + 2) toks with
  | some (.new d cs, []) => some ⟨d, cs⟩
  | _ => none

def parseOp : List String → Option POp
  | "insert" :: k :: toks =>
    match unhex k, parseTree toks with
    | some k, some t => some (.insert k t)
    | _, _ => none
  | ["ref", k] => (unhex k).map .reference
  | ["deref", k] => (unhex k).map .dereference
  | _ => none

def splitSemi (l : List String) : List (List String) :=
  (l.foldr (fun tok acc =>
    if tok = ";" then [] :: acc
    else match acc with
      | [] => [[tok]]
      | g :: gs => (tok :: g) :: gs) [[]])

def parseOps (l : List String) : Option (List POp) := MultiTree.mapOpt parseOp (splitSemi l)

abbrev DState := Option PDb

def parseVariant : String → Option Variant
  | "append_only" => some .appendOnly
  | "rc" => some .rcRoots
  | "plain" => some .plain
  | _ => none

def dbStep (db : PDb) : List String → PDb × String
  | "tx" :: rest =>
    match parseOps rest with
    | none => (db, "bad-op")
    | some ops =>
      match db.commit ops with
      | (db', .ok as) => (db', s!"ok {showAddrs as}")
      | (db', .error e) => (db', showPErr e)
  | ["process"] =>
    match db.process with
    | (db', .ok ()) => (db', "ok")
    | (db', .error e) => (db', showPErr e)
  | ["root", k] =>
    match unhex k with
    | none => (db, "bad-op")
    | some k =>
      match db.col.index.get k, physGetRoot db.col k with
      | some a, some (n, c) => (db, s!"some {a} {c} {n.data.length} {fnv n.data fnvInit} {showAddrs n.children}")
      | _, _ => (db, "none")
  | ["node", a] =>
    match a.toNat? with
    | none => (db, "bad-op")
    | some a =>
      match physGetNode db.col a with
      | some n => (db, s!"some {n.data.length} {fnv n.data fnvInit} {showAddrs n.children}")
      | none => (db, "none")
  | ["slot", tier, i] =>
    match tier.toNat?, i.toNat? with
    | some tier, some i => (db, hexOf ((db.col.vt tier).slots i))
    | _, _ => (db, "bad-op")
  | ["hdr", tier] =>
    match tier.toNat? with
    | some tier => (db, hdrState (db.col.vt tier))
    | none => (db, "bad-op")
  | ["rc", a] =>
    match a.toNat? with
    | some a => (db, toString ((db.col.rc.get a).getD 1))
    | none => (db, "bad-op")
  | _ => (db, "bad-op")

def step (st : DState) (args : List String) : DState × String :=
  match args with
  | ["init", v] =>
    match parseVariant v with
    | some v => (some (PDb.init v), "ok")
    | none => (st, "bad-op")
  | _ =>
    match st with
    | some db => let (db', o) := dbStep db args; (some db', o)
    | none => (st, "bad-op")

end Driver

end Pdb.MultiTreePhys
