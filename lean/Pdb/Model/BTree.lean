/-
C04 (b), (c): separator codec, btree update, and the executable C04 driver state.

Rust anchors
  (b) src/btree/mod.rs  `Entry::{write_separator, read_separator}` (key length escape:
      one length byte, or 0xFF followed by a u32 length when the key has >= 255 bytes).
  (c) src/btree/btree.rs `BTree::write_sorted_changes`,
      src/btree/node.rs  `Node::{change, insert, insert_node, on_existing, rebalance, split,
      remove_last, need_rebalance, need_remove_root, position, get}`,
      src/btree/mod.rs   `BTreeChangeSet::write_plan` (`changes.sort()`: stable, by key).

Modelling decisions for (c)
* `Node = mk (seps : List (Key × V)) (children : List Node)`: the fixed arrays
  `[Separator; ORDER]`, `[Child; ORDER+1]` with their "first empty slot ends the node"
  convention are lists; a separator carries the value itself instead of the value-table
  address (value tables: C06).  Child references are the child nodes (node addresses,
  `changed/moved/modified` dirty flags and `write_node_plan` are storage, not content).
* Every recursive function recurses on the header `depth` exactly as the Rust does
  (`has_child = depth != 0`), never on the shape of the node.
* Splits: the three cases of `insert` / `insert_node` (`insert.cmp(&middle)` Less / Equal /
  Greater with `split`, `shift_from`, `insert_right`) all produce: insert the separator at
  `i` (and the new right child at `i+1`) into the 9 (10) element sequence; the first 4
  separators (5 children) stay, the 5th separator moves up, the last 4 (5) form the right
  node.  The model computes exactly that (`insertSep`).
* The batching loop of `Node::change` (several sorted changes applied in one descent when
  `position` shows they fall into the same node / same child) is modelled as ONE DESCENT
  PER CHANGE from the root, after the same de-duplication (`changes[0].key() ==
  changes[1].key()` drops the earlier operation on a key).  The two are equal when the
  range tests of the loop are right; this is tied by comparing tree shapes with the real
  tree after every processed commit (harness `c04 tree`), not proved.
* States the Rust code can only reach from a corrupt tree (a missing child where the depth
  says there is one, rebalance without a sibling: `unwrap()` on None / `at - 1` underflow)
  are the explicit outcome `Res.stuck`; proved unreachable from trees satisfying TreeInv
  (Proofs/C04TreeOcc.lean, `applyChanges_full`).

Proofs: Proofs/C04Tree.lean (codec, stable sort), C04TreeList / C04TreeInsert / C04TreeDelete /
C04TreeApply (refinement of `specApply`, order and shape), C04TreeOcc (occupancy, no `stuck`).

Driver (command word `c04`): the executable pipeline `Drv` is in Pdb/Model/BTreePipe.lean.
-/
import Pdb.Model.BTreeIter

namespace Pdb.C04

/-! ## (b) separator codec -/

-- TODO-GEN: `u8::MAX` is a Rust builtin, not a crate constant.
def U8_MAX : Nat := 255

/-- little-endian bytes of `x`, `n` of them (`write_u64` / `write_u32`: truncating) -/
def leBytes : Nat → Nat → List Nat
  | 0, _ => []
  | n + 1, x => x % 256 :: leBytes n (x / 256)

def fromLe : List Nat → Nat
  | [] => 0
  | b :: bs => b + 256 * fromLe bs

/-- `Entry::write_separator` (appended bytes). -/
def writeSeparator (key : List Nat) (value : Nat) : List Nat :=
  let size := key.length
  leBytes 8 value ++
    (if size ≥ U8_MAX then U8_MAX :: leBytes 4 size else [size]) ++ key

inductive ReadSep where
  | none                                  -- end of entry, or value address 0
  | corrupt                               -- `Error::Corruption`
  | some (key : List Nat) (value : Nat) (rest : List Nat)
deriving DecidableEq, Repr

/-- `Entry::read_separator` on the unread part `enc` of the entry. -/
def readSeparator (enc : List Nat) : ReadSep :=
  if enc.length = 0 then .none
  else if enc.length < 8 + 1 then .corrupt
  else
    let value := fromLe (enc.take 8)
    let head := (enc.drop 8).headD 0
    let afterHead := enc.drop 9
    if head = U8_MAX then
      if afterHead.length < 4 then .corrupt
      else
        let size := fromLe (afterHead.take 4)
        let body := afterHead.drop 4
        if body.length < size then .corrupt
        else if value = 0 then .none
        else .some (body.take size) value (body.drop size)
    else
      let size := head
      if afterHead.length < size then .corrupt
      else if value = 0 then .none
      else .some (afterHead.take size) value (afterHead.drop size)

/-! ## (c) the tree -/

def ORDER : Nat := Gen.BTREE_ORDER
def MIDDLE : Nat := ORDER / 2

inductive Node (V : Type) where
  | mk (seps : List (Key × V)) (children : List (Node V))

namespace Node
variable {V : Type}
def seps : Node V → List (Key × V)
  | .mk s _ => s
def children : Node V → List (Node V)
  | .mk _ c => c
/-- `Node::default()` -/
def empty : Node V := .mk [] []
end Node

inductive Op (V : Type) where
  | set (k : Key) (v : V)
  | del (k : Key)
deriving Repr

def Op.key {V : Type} : Op V → Key
  | .set k _ => k
  | .del k => k

variable {V : Type}

/-- `Node::position`: `(true, i)` if separator `i` has the key, otherwise `(false, i)` with
    `i` the index of the first separator bigger than the key (or the number of separators). -/
def position : List (Key × V) → Key → Bool × Nat
  | [], _ => (false, 0)
  | (k', _) :: rest, k =>
    if keyLt k k' then (false, 0)
    else if k = k' then (true, 0)
    else let r := position rest k; (r.1, r.2 + 1)

def insertAt {α : Type} (l : List α) (i : Nat) (x : α) : List α := l.take i ++ x :: l.drop i

inductive Res (V : Type) where
  | ok
  | split (sep : Key × V) (right : Node V)   -- `Some((separator, right_child))`
  | underflow                                 -- the `bool`: node needs rebalancing
  | stuck                                     -- only reachable from a corrupt tree

/-- `Node::need_rebalance`: `!has_separator(middle - 1)`. -/
def needRebalance (n : Node V) : Bool := n.seps.length < MIDDLE

/-- Insert separator `x` at `i` (with its right child at `i + 1` for an internal node);
    split when the node is full (`has_separator(ORDER - 1)`).
    `Node::insert` (leaf part) and `Node::insert_node`. -/
def insertSep (n : Node V) (i : Nat) (x : Key × V) (r : Option (Node V)) : Node V × Res V :=
  let s' := insertAt n.seps i x
  let c' := match r with
            | some r => insertAt n.children (i + 1) r
            | none => n.children
  if n.seps.length = ORDER then
    (.mk (s'.take MIDDLE) (c'.take (MIDDLE + 1)),
     .split (s'.getD MIDDLE x) (.mk (s'.drop (MIDDLE + 1)) (c'.drop (MIDDLE + 1))))
  else (.mk s' c', .ok)

/-- `rebalance`, first case: take the last separator (and child) of the left sibling. -/
def rotRight (n : Node V) (i : Nat) (left right : Node V) : Option (Node V) :=
  match left.seps.getLast?, n.seps[i - 1]? with
  | some sep2, some sep =>
    let left' := Node.mk left.seps.dropLast left.children.dropLast
    let right' := Node.mk (sep :: right.seps) (left.children.getLast?.toList ++ right.children)
    some (.mk (n.seps.set (i - 1) sep2) ((n.children.set (i - 1) left').set i right'))
  | _, _ => none

/-- `rebalance`, second case: take the first separator (and child) of the right sibling. -/
def rotLeft (n : Node V) (i : Nat) (left right : Node V) : Option (Node V) :=
  match right.seps.head?, n.seps[i]? with
  | some sep2, some sep =>
    let left' := Node.mk (left.seps ++ [sep]) (left.children ++ right.children.head?.toList)
    let right' := Node.mk right.seps.tail right.children.tail
    some (.mk (n.seps.set i sep2) ((n.children.set i left').set (i + 1) right'))
  | _, _ => none

/-- `rebalance`, last case: merge children `l` and `l + 1` around separator `l`. -/
def mergeAt (n : Node V) (l : Nat) : Option (Node V) :=
  match n.children[l]?, n.children[l + 1]?, n.seps[l]? with
  | some left, some right, some sep =>
    let left' := Node.mk (left.seps ++ sep :: right.seps) (left.children ++ right.children)
    some (.mk (n.seps.eraseIdx l) ((n.children.set l left').eraseIdx (l + 1)))
  | _, _, _ => none

/-- `node.has_separator(middle)`: the sibling can give one separator away. -/
def sibLarge (o : Option (Node V)) : Bool :=
  match o with
  | some l => decide (l.seps.length > MIDDLE)
  | none => false

def rotRightO (n : Node V) (i : Nat) (l c : Option (Node V)) : Option (Node V) :=
  match l, c with
  | some l, some c => rotRight n i l c
  | _, _ => none          -- `left.unwrap()` / `fetch_child(at).unwrap()` on None

def rotLeftO (n : Node V) (i : Nat) (c r : Option (Node V)) : Option (Node V) :=
  match c, r with
  | some c, some r => rotLeft n i c r
  | _, _ => none

/-- `Node::rebalance(depth, at)`: child `i` of `n` has too few separators. -/
def rebalance (n : Node V) (i : Nat) : Option (Node V) :=
  let left := if i > 0 then n.children[i - 1]? else none
  let cur := n.children[i]?
  let right := if i + 1 < n.seps.length + 1 then n.children[i + 1]? else none
  if sibLarge left then rotRightO n i left cur
  else if sibLarge right then rotLeftO n i cur right
  else if i + 1 = n.seps.length + 1 then
    (if i = 0 then none else mergeAt n (i - 1))      -- `at - 1` would underflow
  else mergeAt n i

/-- result of the child handled in the parent (`insert` / `on_existing`, the `match r`). -/
def afterChild (n1 : Node V) (i : Nat) (r : Res V) : Node V × Res V :=
  match r with
  | .split sep right => insertSep n1 i sep (some right)
  | .underflow =>
    match rebalance n1 i with
    | some n2 => (n2, if needRebalance n2 then .underflow else .ok)
    | none => (n1, .stuck)
  | .ok => (n1, .ok)
  | .stuck => (n1, .stuck)

/-- `Node::remove_last`: (node, need_balance, removed separator). -/
def removeLast : Nat → Node V → Node V × Res V × Option (Key × V)
  | depth, n =>
    match n.seps.getLast? with
    | none => (n, .ok, none)
    | some lastSep =>
      match depth with
      | 0 =>
        let n' := Node.mk n.seps.dropLast n.children
        (n', if needRebalance n' then .underflow else .ok, some lastSep)
      | d + 1 =>
        let ci := n.seps.length
        match n.children[ci]? with
        | none => (n, .ok, none)
        | some child =>
          match removeLast d child with
          | (child', .underflow, sep) =>
            let n1 := Node.mk n.seps (n.children.set ci child')
            (match rebalance n1 ci with
             | some n2 => (n2, if needRebalance n2 then .underflow else .ok, sep)
             | none => (n1, .stuck, sep))
          | (child', r, sep) => (Node.mk n.seps (n.children.set ci child'), r, sep)

/-- `Node::change` for one operation (`insert` for Set, `on_existing` for Dereference). -/
def change : Nat → Node V → Op V → Node V × Res V
  | depth, n, op =>
    let p := position n.seps op.key
    let i := p.2
    match op, p.1 with
    | .set k v, true => (.mk (n.seps.set i (k, v)) n.children, .ok)
    | .set k v, false =>
      (match depth with
       | 0 => insertSep n i (k, v) none
       | d + 1 =>
         match n.children[i]? with
         | none => (n, .ok)
         | some child =>
           let cr := change d child op
           afterChild (.mk n.seps (n.children.set i cr.1)) i cr.2)
    | .del _, true =>
      (match depth with
       | 0 =>
         let n' := Node.mk (n.seps.eraseIdx i) n.children
         (n', if needRebalance n' then .underflow else .ok)
       | d + 1 =>
         -- replace by the biggest separator of the left child
         match n.children[i]? with
         | none => (n, .stuck)
         | some child =>
           match removeLast d child with
           | (_, _, none) => (n, .stuck)
           | (child', r, some sep) =>
             let n1 := Node.mk (n.seps.set i sep) (n.children.set i child')
             match r with
             | .underflow =>
               (match rebalance n1 i with
                | some n2 => (n2, if needRebalance n2 then .underflow else .ok)
                | none => (n1, .stuck))
             | .stuck => (n1, .stuck)
             | _ => (n1, if needRebalance n1 then .underflow else .ok))
    | .del _, false =>
      (match depth with
       | 0 => (n, .ok)
       | d + 1 =>
         match n.children[i]? with
         | none => (n, .ok)
         | some child =>
           let cr := change d child op
           afterChild (.mk n.seps (n.children.set i cr.1)) i cr.2)

structure Tree (V : Type) where
  root : Node V
  depth : Nat

def Tree.empty : Tree V := { root := .empty, depth := 0 }

/-- One pass of the `while` loop of `write_sorted_changes` for one change. -/
def applyOne (t : Tree V) (op : Op V) : Tree V × Bool :=
  match change t.depth t.root op with
  | (root', .split sep right) =>
    ({ root := .mk [sep] [root', right], depth := t.depth + 1 }, true)   -- add one level
  | (root', .underflow) =>
    -- `need_remove_root`
    (if root'.seps.length = 0 then
      match root'.children[0]? with
      | some c => { root := c, depth := t.depth - 1 }
      | none => { root := root', depth := t.depth }
    else { root := root', depth := t.depth }, true)
  | (root', .ok) => ({ root := root', depth := t.depth }, true)
  | (root', .stuck) => ({ root := root', depth := t.depth }, false)

/-- `changes.sort()`: stable insertion of `x` in front of the first element whose key is
    not smaller. -/
def insertFront (x : Op V) : List (Op V) → List (Op V)
  | [] => [x]
  | y :: ys => if keyLt y.key x.key then y :: insertFront x ys else x :: y :: ys

def stableSort : List (Op V) → List (Op V)
  | [] => []
  | x :: xs => insertFront x (stableSort xs)

/-- The skip at the head of the `Node::change` loop: of consecutive operations on the same
    key only the last one is applied. -/
def dedupLast : List (Op V) → List (Op V)
  | [] => []
  | [a] => [a]
  | a :: b :: rest => if a.key = b.key then dedupLast (b :: rest) else a :: dedupLast (b :: rest)

def applyList (t : Tree V) : List (Op V) → Tree V × Bool
  | [] => (t, true)
  | op :: ops =>
    let r := applyOne t op
    if r.2 then applyList r.1 ops else r

/-- `BTreeChangeSet::write_plan`: sort, then `write_sorted_changes`. -/
def applyChanges (t : Tree V) (cs : List (Op V)) : Tree V × Bool :=
  applyList t (dedupLast (stableSort cs))

/-- separators each followed by the child to their right -/
def zipR {α : Type} : List α → List (List α) → List α
  | s :: ss, c :: cs => s :: c ++ zipR ss cs
  | _, _ => []

/-- in-order enumeration: first child, then separators interleaved with the other children -/
def interleave {α : Type} : List (List α) → List α → List α
  | [], _ => []
  | c :: cs, ss => c ++ zipR ss cs

def toList : Nat → Node V → List (Key × V)
  | 0, n => n.seps
  | d + 1, n => interleave (n.children.map (toList d)) n.seps

def Tree.toList (t : Tree V) : List (Key × V) := C04.toList t.depth t.root

/-- `Node::get` / `BTree::get`. -/
def nodeGet : Nat → Node V → Key → Option V
  | depth, n, k =>
    let p := position n.seps k
    if p.1 then (n.seps[p.2]?).map (·.2)
    else match depth with
      | 0 => none
      | d + 1 => match n.children[p.2]? with
        | some c => nodeGet d c k
        | none => none

/-- The abstract effect of a change list on the ordered map. -/
def specApply (cs : List (Op V)) (l : List (Key × V)) : List (Key × V) :=
  cs.foldl (fun m op => match op with
                        | .set k v => put m k v
                        | .del k => del m k) l

/-! ### TreeInv (executable) -/

/-- Occupancy and shape: every leaf at depth 0 of the countdown (= header depth from the
    root), an internal node has one child more than separators, at most ORDER separators,
    a non-root node at least ORDER/2, an internal root at least one. -/
def nodeOk (isRoot : Bool) : Nat → Node V → Bool
  | 0, n =>
    n.children.isEmpty && decide (n.seps.length ≤ ORDER) &&
      (isRoot || decide (MIDDLE ≤ n.seps.length))
  | d + 1, n =>
    decide (n.children.length = n.seps.length + 1) && decide (n.seps.length ≤ ORDER) &&
      (if isRoot then decide (1 ≤ n.seps.length) else decide (MIDDLE ≤ n.seps.length)) &&
      n.children.all (nodeOk false d)

def sortedB : List (Key × V) → Bool
  | [] => true
  | [_] => true
  | a :: b :: rest => keyLt a.1 b.1 && sortedB (b :: rest)

def treeInvB (t : Tree V) : Bool := nodeOk true t.depth t.root && sortedB t.toList

/-- canonical rendering of the shape: `L<n>` leaf with n separators, `N(c,c,...)` -/
def shape : Nat → Node V → String
  | 0, n => "L" ++ toString n.seps.length
  | d + 1, n => "N(" ++ ",".intercalate (n.children.map (shape d)) ++ ")"

/-! ## text helpers of the driver (the pipeline itself: Pdb/Model/BTreePipe.lean) -/

def hexDigit (c : Char) : Option Nat :=
  if '0' ≤ c ∧ c ≤ '9' then some (c.toNat - '0'.toNat)
  else if 'a' ≤ c ∧ c ≤ 'f' then some (c.toNat - 'a'.toNat + 10)
  else none

def unhexGo : List Char → Option (List Nat)
  | [] => some []
  | [_] => none
  | a :: b :: rest =>
    match hexDigit a, hexDigit b, unhexGo rest with
    | some x, some y, some r => some ((16 * x + y) :: r)
    | _, _, _ => none

def unhex (s : String) : Option (List Nat) := if s = "-" then some [] else unhexGo s.toList

def hexChar (d : Nat) : Char := if d < 10 then Char.ofNat (48 + d) else Char.ofNat (87 + d)

def hex (bs : List Nat) : String :=
  if bs.isEmpty then "-" else String.ofList (bs.flatMap (fun b => [hexChar (b / 16), hexChar (b % 16)]))

def showOut : Out String → String
  | .unit => "ok"
  | .item none => "none"
  | .item (some (k, v)) => hex k ++ " " ++ v
  | .outOfFuel => "err:model-out-of-fuel"

def showReadSep : ReadSep → String
  | .none => "none"
  | .corrupt => "err:Corruption"
  | .some k v rest => s!"some {k.length} {v} {rest.length}"

def parseOp (w : String) : Option (Op String) :=
  match w.splitOn ":" with
  | ["set", k, v] => (unhex k).map (fun k => .set k v)
  | ["del", k] => (unhex k).map .del
  | _ => none

/-- `c04 sep <len> <fill> <addr>`: separator codec on the key `fill^len`: header bytes, total
    length, decoded back. -/
def sepLine (len fill addr : Nat) : String :=
  let key := List.replicate len fill
  let enc := writeSeparator key addr
  let back := match readSeparator enc with
              | .some k v rest => decide (k = key ∧ v = addr ∧ rest = [])
              | _ => false
  s!"{hex (enc.take (if len ≥ U8_MAX then 13 else 9))} {enc.length} " ++
    (if back then "roundtrip" else "no-roundtrip")

end Pdb.C04
