/-
C07 / C14, value iteration: executable model of `ValueTable::iter_while` (src/table.rs) and of
`HashColumn::iter_values` (src/column.rs; `Db::iter_column_while` only takes the iteration lock and
calls it), on the byte-level value table `VT` of Pdb/Model/ValueTable.lean and on the physical
column `PCol` of Pdb/Model/Refine.lean.

Rust item                                         -> Lean definition
  ValueTable::for_parts(&mut TableKeyQuery::Fetch(
      Some(&mut key)), index, log, |buf| extend)  -> `fetchSlot`   (part 0 literally; parts >= 1 are
                                                     `ValueTable.readRest`, the same code path
                                                     `ValueTable::query` takes)
  TableKey::fetch_partial                         -> the `entrySize < PARTIAL_SIZE` test of `fetchSlot`
                                                     (`Err(InvalidValueData)`, ignored by `iter_while`)
  ValueTable::iter_while                          -> `iterLoop` / `VT.iterWhile`
  the closure of HashColumn::iter_values          -> `colCb`       (decompression; a failed
                                                     decompression returns `false` WITHOUT calling `f`)
  HashColumn::iter_values                         -> `pIterTiers` / `pIterValues`

What the code does, line by line (`iter_while`):
  for index in 1..written:                   `iterLoop t f (t.filled - 1) 1`; `written` is the fill
                                             mark of the table file; once the pipeline is drained
                                             (`enact_plan` / `refresh_metadata` store it) it equals
                                             `filled`, and the model state is "file + overlay"
    for_parts(Fetch, index, ..)              `fetchSlot t index`
      tombstone                 -> Ok((0, false))          skipped (`rc > 0` fails)
      multipart table, slot is not MULTIHEAD / MULTIHEAD_COMPRESSED
                                -> Ok((0, false))          skipped: a continuation part (or a blank slot)
      otherwise: rc (if ref_counted), 26-byte key tail, the value bytes of the whole chain,
      `compressed` from the head marker resp. the size field
    Ok((rc, compressed)) if rc > 0 -> callback(index, rc, value, compressed); `false` = break
    Err(InvalidValueData)          -> ignored
    Err(e)                         -> return Err(e)
and (`iter_values`): `for table in &tables.value { table.iter_while(..)? }`.

DEVIATION OF THE CODE FROM WHAT THE NAME `iter_column_while` PROMISES, modelled as it is: the
callback returning `false` breaks only the loop over ONE table; `iter_values` then goes on with the
next table and calls the callback again (`pIterTiers` continues with the state the stopped table
scan returned).  Reproduced on the real crate by the harness line `r5 iterstop` (see
`C07_iter_column_stop_is_per_table`, Pdb/Props/C07Iter.lean).

The callback of the real API sees `(rc, value)` only (`ValueIterState`); `index` is passed to the
closure of `iter_values` and dropped, the fetched key tail is dropped inside `iter_while`.  The model
hands both to its callback (ghost fields `Item.index`, `Item.tail`, `CItem.tier`) so that the
theorems can say WHICH slot an item comes from; the driver prints them on a separate line that the
harness fills from the read-only dump hook.

DRIVER PROTOCOL (bound in Driver/Main.lean in front of the `r5` / `c06 t` commands)
  r5 iter                 -> n=<items> <rc>:<len>:<fnv1a64>,..|-     the REAL callback sequence, in callback order
  r5 iterd                -> tomb=<n> parts=<n> tiers=<k> <tier>:<index>:<tail hex>,..|-
                             (tombstones / continuation parts the scan skipped, tables with an item,
                             head slots in scan order; observed side: `verif_dump`)
  r5 iterstop <k>         -> n=<items> calls=<callback calls> <rc>:<len>:<fnv>,..|-
                             callback returns `false` at every call from the k-th on
  c06 t iter / iterd / iterstop <k>    the same on the tables of the `c06 t` state (values are the
                             STORED bytes; compressed items are printed as <rc>:<len>:<fnv>:c, the
                             harness does not decompress either: it reads the table through the hook)
-/
import Pdb.Model.RefineRc

namespace Pdb.ValueIter
open Pdb.Gen Pdb.ValueTable Pdb.Refine

/-- what `iter_while` hands to its callback: `(index, rc, value, compressed)`; `tail` is the key
`for_parts` fetched into `_fetch_key` (dropped by the code, ghost here) -/
structure Item where
  index : Nat
  rc : Nat
  tail : Bytes
  value : Bytes
  compressed : Bool
deriving DecidableEq, Repr

/-- `for_parts(&mut TableKeyQuery::Fetch(Some(..)), index, log, extend)` followed by the test
`rc > 0` of `iter_while`: `none` = nothing to report (`Ok((0, _))`: tombstone, continuation part,
counter 0, a tombstone inside the chain; or the ignored `Err(InvalidValueData)`). -/
def fetchSlot (t : VT) (i : Nat) : Except RdErr (Option Item) :=
  let b := t.slots i
  if isTombstone b then .ok none
  else if t.multipart = true ∧ ¬ isMultiHead b then .ok none
  else
    let multi : Bool := decide (t.multipart = true ∧ isMulti b)
    let off0 := if multi then SIZE_SIZE + INDEX_SIZE else SIZE_SIZE
    let entryEnd := if multi then t.entrySize else SIZE_SIZE + (readSize b).1
    let compressed : Bool := if multi then decide (isMultiHeadCompressed b) else (readSize b).2
    let nx := if multi then linkOf b else 0
    let rc := if t.refCounted then fromLe ((b.drop off0).take REFS_SIZE) else 1
    let off1 := off0 + refSize t
    -- `TableKey::fetch_partial`: `buf.1.len() >= PARTIAL_SIZE` (the slice has `entry_size` bytes)
    if t.entrySize < PARTIAL_SIZE then .ok none
    else
      let tail := (b.drop off1).take PARTIAL_SIZE
      let off2 := off1 + PARTIAL_SIZE
      if entryEnd < off2 then .error .corruption
      else
        let payload := (b.drop off2).take (entryEnd - off2)
        if nx = 0 then
          .ok (if 0 < rc then some ⟨i, rc, tail, payload, compressed⟩ else none)
        else
          match readRest t t.filled nx with
          | .ok (some r) => .ok (if 0 < rc then some ⟨i, rc, tail, payload ++ r, compressed⟩ else none)
          | .ok none => .ok none
          | .error e => .error e

/-- the loop of `iter_while`: `n` indexes left, the next one is `i`; the callback `f` threads a
state and returns `false` to `break`. -/
def iterLoop {σ : Type} (t : VT) (f : σ → Item → σ × Bool) : Nat → Nat → σ → Except RdErr σ
  | 0, _, s => .ok s
  | n + 1, i, s =>
    match fetchSlot t i with
    | .error e => .error e
    | .ok none => iterLoop t f n (i + 1) s
    | .ok (some it) =>
      if (f s it).2 then iterLoop t f n (i + 1) (f s it).1 else .ok (f s it).1

/-- `ValueTable::iter_while` -/
def _root_.Pdb.ValueTable.VT.iterWhile {σ : Type} (t : VT) (f : σ → Item → σ × Bool) (s : σ) : Except RdErr σ :=
  iterLoop t f (t.filled - 1) 1 s

/-- the full enumeration: what a callback that always returns `true` is called with, in order -/
def scanFrom (t : VT) : Nat → Nat → Except RdErr (List Item)
  | 0, _ => .ok []
  | n + 1, i =>
    match fetchSlot t i with
    | .error e => .error e
    | .ok o =>
      match scanFrom t n (i + 1) with
      | .error e => .error e
      | .ok l => .ok (o.toList ++ l)

def _root_.Pdb.ValueTable.VT.scan (t : VT) : Except RdErr (List Item) := scanFrom t (t.filled - 1) 1

/-- a callback run over a list of items: stops after the first call that returns `false` -/
def runCb {σ : Type} (f : σ → Item → σ × Bool) : σ → List Item → σ
  | s, [] => s
  | s, it :: l => if (f s it).2 then runCb f (f s it).1 l else (f s it).1

/-- the callback "remember every item, go on while `keep`" -/
def collect (keep : Item → Bool) : List Item → Item → List Item × Bool :=
  fun acc it => (acc ++ [it], keep it)

/-- the items a callback is CALLED with when it stops at the first item with `keep = false`:
that item included -/
def takeThrough (keep : Item → Bool) : List Item → List Item
  | [] => []
  | it :: l => if keep it then it :: takeThrough keep l else [it]

/-! ## column level -/

/-- what the closure of `iter_values` hands to the client's callback: `ValueIterState { rc, value }`
(decompressed); `tier`, `index`, `tail` are ghost fields. -/
structure CItem where
  tier : Nat
  index : Nat
  tail : Bytes
  rc : Nat
  value : Bytes
deriving DecidableEq, Repr

/-- the closure `|_, rc, value, compressed| { decompress or return false; f(ValueIterState) }` -/
def colCb {σ : Type} (decomp : Bytes → Option Bytes) (tier : Nat) (f : σ → CItem → σ × Bool) :
    σ → Item → σ × Bool :=
  fun s it =>
    if it.compressed then
      match decomp it.value with
      | some v => f s ⟨tier, it.index, it.tail, it.rc, v⟩
      | none => (s, false)
    else f s ⟨tier, it.index, it.tail, it.rc, it.value⟩

/-- `for table in &tables.value { table.iter_while(..)? }`: `n` tables left, the next one is
`tier`.  A `false` of the callback ends `iter_while` with `Ok(())`: the loop goes on. -/
def pIterTiers {σ : Type} (decomp : Bytes → Option Bytes) (p : PCol) (f : σ → CItem → σ × Bool) :
    Nat → Nat → σ → Except RdErr σ
  | 0, _, s => .ok s
  | n + 1, tier, s =>
    match (p.vt tier).iterWhile (colCb decomp tier f) s with
    | .error e => .error e
    | .ok s' => pIterTiers decomp p f n (tier + 1) s'

/-- `HashColumn::iter_values` (`Db::iter_column_while`): all `SIZE_TIERS` value tables -/
def pIterValues {σ : Type} (decomp : Bytes → Option Bytes) (p : PCol) (f : σ → CItem → σ × Bool)
    (s : σ) : Except RdErr σ :=
  pIterTiers decomp p f SIZE_TIERS 0 s

/-- the client callback "remember every item, never stop" -/
def collectAll : List CItem → CItem → List CItem × Bool := fun acc it => (acc ++ [it], true)

/-- everything `iter_column_while` reports to a callback that always returns `true`, in order -/
def pScan (decomp : Bytes → Option Bytes) (p : PCol) : Except RdErr (List CItem) :=
  pIterValues decomp p collectAll []

/-- the item of a table scan as the client sees it -/
def toCItem (decomp : Bytes → Option Bytes) (tier : Nat) (it : Item) : Option CItem :=
  if it.compressed then (decomp it.value).map (fun v => ⟨tier, it.index, it.tail, it.rc, v⟩)
  else some ⟨tier, it.index, it.tail, it.rc, it.value⟩

/-! ## Driver -/

section Driver

def hexDigitOf (n : Nat) : Char :=
  if n < 10 then Char.ofNat (48 + n) else Char.ofNat (87 + n)

def hexBytes (bs : Bytes) : String :=
  if bs.isEmpty then "-" else String.ofList (bs.flatMap fun b => [hexDigitOf (b / 16 % 16), hexDigitOf (b % 16)])

def showList (l : List String) : String := if l.isEmpty then "-" else ",".intercalate l

/-- what the scan skips in one table: (tombstones, continuation parts) among `1 .. filled-1` -/
def skipStats (t : VT) : Nat → Nat → Nat × Nat
  | 0, _ => (0, 0)
  | n + 1, i =>
    let r := skipStats t n (i + 1)
    if isTombstone (t.slots i) then (r.1 + 1, r.2)
    else if t.multipart = true ∧ ¬ isMultiHead (t.slots i) then (r.1, r.2 + 1)
    else r

def showErr (e : RdErr) : String := showRdErr e

/-- the tiers of a driver state, ascending -/
def tiersUpTo : Nat → List Nat := fun n => List.range n

/-- callback of `iterstop k`: state = (calls so far, items); returns `false` from the k-th call on -/
def stopCb (k : Nat) : Nat × List CItem → CItem → (Nat × List CItem) × Bool :=
  fun s it => ((s.1 + 1, s.2 ++ [it]), decide (s.1 + 1 < k))

def showC (it : CItem) : String := s!"{it.rc}:{it.value.length}:{fnv it.value fnvInit}"

def iterLine (decomp : Bytes → Option Bytes) (p : PCol) : String :=
  match pScan decomp p with
  | .ok l => s!"n={l.length} {showList (l.map showC)}"
  | .error e => showErr e

def iterStopLine (decomp : Bytes → Option Bytes) (p : PCol) (k : Nat) : String :=
  match pIterValues decomp p (stopCb k) (0, []) with
  | .ok (c, l) => s!"n={l.length} calls={c} {showList (l.map showC)}"
  | .error e => showErr e

def dumpLine (decomp : Bytes → Option Bytes) (p : PCol) : String :=
  match pScan decomp p with
  | .ok l =>
    let st := (tiersUpTo SIZE_TIERS).foldl (fun acc tier =>
      let r := skipStats (p.vt tier) ((p.vt tier).filled - 1) 1
      (acc.1 + r.1, acc.2 + r.2)) (0, 0)
    let tiers := (l.map (·.tier)).eraseDups.length
    s!"tomb={st.1} parts={st.2} tiers={tiers} {showList (l.map fun it => s!"{it.tier}:{it.index}:{hexBytes it.tail}")}"
  | .error e => showErr e

/-- commands on the `r5` state (physical column, no compression: `decomp = some`) -/
def r5Step (d : Pdb.RefineRc.DState) (ws : List String) : Option String :=
  match ws with
  | ["iter"] => some (iterLine some d.col)
  | ["iterd"] => some (dumpLine some d.col)
  | ["iterstop", k] =>
    match k.toNat? with
    | some k => some (iterStopLine some d.col k)
    | none => some "bad-op"
  | _ => none

/-- the tables of a `c06 t` state as a column (index part unused) -/
def c06Col (s : Pdb.ValueTable.State) : PCol :=
  ⟨⟨true, true, false⟩, Pdb.Index.Table.new MIN_INDEX_BITS, [], 0, fun tier => s.get tier⟩

/-- `c06 t` works on stored bytes (the harness reads the table through the hook, no
decompression): compressed items keep their stored bytes and are marked -/
def showI (it : Item) : String :=
  s!"{it.rc}:{it.value.length}:{fnv it.value fnvInit}{if it.compressed then ":c" else ""}"

def rawCb : List (Nat × Item) → Nat → Item → List (Nat × Item) × Bool := fun acc tier it => (acc ++ [(tier, it)], true)

def rawTiers (p : PCol) : Nat → Nat → List (Nat × Item) → Except RdErr (List (Nat × Item))
  | 0, _, s => .ok s
  | n + 1, tier, s =>
    match (p.vt tier).iterWhile (fun acc it => rawCb acc tier it) s with
    | .error e => .error e
    | .ok s' => rawTiers p n (tier + 1) s'

def c06Step (s : Pdb.ValueTable.State) (ws : List String) : Option String :=
  let p := c06Col s
  match ws with
  | ["iter"] =>
    match rawTiers p SIZE_TIERS 0 [] with
    | .ok l => some s!"n={l.length} {showList (l.map fun x => showI x.2)}"
    | .error e => some (showErr e)
  | ["iterd"] =>
    match rawTiers p SIZE_TIERS 0 [] with
    | .ok l =>
      let st := (tiersUpTo SIZE_TIERS).foldl (fun acc tier =>
        let r := skipStats (p.vt tier) ((p.vt tier).filled - 1) 1
        (acc.1 + r.1, acc.2 + r.2)) (0, 0)
      let tiers := (l.map (·.1)).eraseDups.length
      some s!"tomb={st.1} parts={st.2} tiers={tiers} {showList (l.map fun x => s!"{x.1}:{x.2.index}:{hexBytes x.2.tail}")}"
    | .error e => some (showErr e)
  | _ => none

end Driver

end Pdb.ValueIter
