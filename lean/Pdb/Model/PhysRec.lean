/-
R7: the PHYSICAL LOG RECORD of one transaction on the physical plain hash column `Refine.PCol`.

What the crate logs (src/log.rs `LogWriter::{insert_index, insert_value}`, `LogChange::flush_to_file`):
a record is a MAP from locations to ABSOLUTE after-images
  * `INSERT_INDEX table chunk mask entries`: for every bit `i` of `mask` the 8-byte entry `i` of
    chunk `chunk` of the index table `table` (= column, index bits) after the transaction
    (`LogWriter::insert_index` ORs the mask and keeps the last chunk image, `IndexTable::enact_plan`
    copies the masked entries);
  * `INSERT_VALUE table index payload`: the bytes `buf[0..offset]` written to slot `index` of the
    value table of size tier `table` (a HashMap keyed by the slot: the last image wins);
    slot 0 is the table header `last_removed (u64) ++ filled (u64)` written by
    `ValueTable::complete_plan` when `dirty_header` is set.
So here a `Write` is (location, after-image) with the locations
  `Loc.idx bits chunk sub`   one index entry     image `[entry]`
  `Loc.val tier slot`        one value slot      image = the logged payload bytes
  `Loc.hdr tier`             header of a tier    image `[last_removed, filled]`
and the record of a transaction is NOT a second hand-written semantics of `write_plan`: it is read off
the existing physical step `Refine.pRun` (= `HashColumn::write_plan` per operation): `planWrites` runs
the transaction and lists, for the candidate locations `cands`, those whose content differs between
the state before and the state after, with the content after (`diffWrites`).  The candidates are
COMPLETE (theorem `R7_frame`, no invariant assumed): every entry of every index chunk ever written in
either state, and the slots / headers the value-table functions themselves report as written
(ghost outputs `WrOk.chain`, `WrOk.freed` of `writeChain`, the cleared slots of `removePlan`,
collected along the run by `txTouched`).

CANONICALISATION (documented for the tie, command `physrec`): the real record also contains writes
that leave the location as it was (a header rewritten after a pop followed by a push of the same
slot, a value replaced by the same bytes, an index entry rewritten with the same address); the driver
drops from the REAL record the writes whose image equals the content of the location in the model's
state at the start of the record, flattens `INSERT_INDEX` actions into their entries, sorts both
sides by location and compares them literally (location and bytes).

`applyWrite` is `Column::enact_plan` for one location: an index write goes to the table (current or
queued) with the named index bits; if the named table has MORE bits than the current one the index
grows first (`validate_plan`: "missing table, starting reindex" = `Index.triggerReindex`), a write to
a table that is neither current nor queued is skipped (`skip_plan`).

Driver protocol (command `physrec`, stateful, mirrors `r5`):
  physrec init <bits> [purge|nopurge]           fresh plain column, no compression      -> ok
  physrec set <hexkey32> v<len>_<seed>          plan `Operation::Set`                   -> ok
  physrec deref <hexkey32>                      plan `Operation::Dereference`           -> ok
  physrec get <hexkey32>                        -> none | some <len>:<fnv1a64>
  physrec reindex                               plan one `process_reindex` batch (its record is
                                                compared by the next `rec` line)        -> ok
  physrec enact                                 the records logged so far have been enacted: a logged
                                                `DropTable` takes effect (`Index.enactDrop`)   -> ok
  physrec stat                                  as `c09 stat` / `r5 stat`
  physrec rec <w> ...  |  physrec rec -         end of the transaction; the words are the writes of
        the REAL log record:  I<bits>@<chunk>#<mask hex>=<hex entries>   V<tier>@<slot>=<hex payload>
        D<table id> (a DROP_TABLE action: no location write, ignored by the comparison)
        answer: ok idx=<I words> ent=<mask bits> val=<V words> bytes=<entry + payload bytes>
                (counted on the real record) when the canonicalised real record equals `planWrites`
                of the same transaction on the model's state, otherwise
                MISMATCH model=<n> real=<n> first=<location> ; a failed planning step answers its error
  physrec stats                                 -> records=<n> model_writes=<n> real_writes=<n>
        noop_dropped=<n>   (cumulative; real writes counted per index entry / slot / header)
  physrec torn <j>                              executable R7_redo on the LAST record: apply its
        first j writes to the state before it, then all its writes, compare with the state after
        -> ok | DIFF
  anything malformed -> bad-op

Imports only `Pdb.Model.*` (which import `Pdb.Gen.*` and core).
-/
import Pdb.Model.Refine
import Pdb.Model.RefineRc
import Pdb.Model.Wal

namespace Pdb.PhysRec
open Pdb.Gen Pdb.Index Pdb.IndexPage Pdb.ValueTable Pdb.Refine

/-! ## locations, images, writes -/

inductive Loc where
  /-- entry `sub` of chunk `chunk` of the index table with `bits` index bits -/
  | idx (bits chunk sub : Nat)
  /-- slot `slot` of the value table of size tier `tier` -/
  | val (tier slot : Nat)
  /-- header (entry 0) of the value table of size tier `tier` -/
  | hdr (tier : Nat)
deriving DecidableEq, Repr

abbrev Img := List Nat

/-- one logged location write: location and absolute after-image -/
abbrev Write := Loc × Img

/-- memory: content of every location -/
abbrev Mem := Loc → Img

/-! ## the location-map semantics of records (what redo theorems are about) -/

def mapply (m : Mem) (w : Write) : Mem := fun l => if l = w.1 then w.2 else m l

def mapplys (m : Mem) (ws : List Write) : Mem := ws.foldl mapply m

/-- the image the last write of `ws` to `l` leaves -/
def lastWrite : List Write → Loc → Option Img
  | [], _ => none
  | w :: ws, l => (lastWrite ws l).or (if l = w.1 then some w.2 else none)

/-- CANONICALISATION of a real record w.r.t. the memory before it: without the writes that rewrite
what is already there (harmless: `Pdb.PhysRec.R7_canon`) -/
def dropNoops (m : Mem) (ws : List Write) : List Write := ws.filter (fun w => decide (m w.1 ≠ w.2))

/-! ## the physical column as a memory -/

def PCol.tables (p : PCol) : List Table := p.current :: p.older

/-- index bits of the tables, current first -/
def shape (p : PCol) : List Nat := (PCol.tables p).map (·.bits)

def tableByBits : List Table → Nat → Option Table
  | [], _ => none
  | t :: ts, b => if t.bits = b then some t else tableByBits ts b

/-- `write_entry(e, i, chunk)` on a 64-entry page -/
def setEntry (page : List Nat) (i e : Nat) : List Nat :=
  (List.range INDEX_CHUNK_ENTRIES).map (fun j => if j = i then e else entryAt page j)

def mem (p : PCol) : Mem
  | .idx b c i =>
    match tableByBits (PCol.tables p) b with
    | some t => [entryAt (t.page c) i]
    | none => [0]
  | .val tier s => (p.vt tier).slots s
  | .hdr tier => [(p.vt tier).lastRemoved, (p.vt tier).filled]

/-- write entry `i` of chunk `c` in the first table with `b` bits -/
def updTables : List Table → Nat → Nat → Nat → Nat → List Table
  | [], _, _, _, _ => []
  | t :: ts, b, c, i, e =>
    if t.bits = b then t.setPage c (setEntry (t.page c) i e) t.count :: ts
    else t :: updTables ts b c i e

def PCol.setTables (p : PCol) : List Table → PCol
  | [] => p
  | t :: ts => { p with current := t, older := ts }

/-- `validate_plan` of an index insert naming a table with more bits than the current one:
`trigger_reindex` until the current table has `b` bits. -/
def growTo (p : PCol) (b : Nat) : Nat → PCol
  | 0 => p
  | f + 1 => if p.current.bits < b then growTo (p.withIx (triggerReindex p.ix)) b f else p

/-- `Column::enact_plan` for one location. -/
def applyWrite (p : PCol) (w : Write) : PCol :=
  match w.1, w.2 with
  | .idx b c i, [e] =>
    match tableByBits (PCol.tables p) b with
    | some _ => PCol.setTables p (updTables (PCol.tables p) b c i e)
    | none =>
      if p.current.bits < b then
        PCol.setTables (growTo p b (b - p.current.bits))
          (updTables (PCol.tables (growTo p b (b - p.current.bits))) b c i e)
      else p
  | .val tier s, bytes => p.setVT tier ((p.vt tier).setSlot s bytes)
  | .hdr tier, [lr, f] => p.setVT tier { (p.vt tier) with lastRemoved := lr, filled := f }
  | _, _ => p

def applyWrites (p : PCol) (ws : List Write) : PCol := ws.foldl applyWrite p

/-- a write the enactment does not skip in a column whose tables have the index bits `sh` -/
def Write.Ok (sh : List Nat) (w : Write) : Prop :=
  match w.1 with
  | .idx b _ i => b ∈ sh ∧ i < INDEX_CHUNK_ENTRIES ∧ ∃ e, w.2 = [e]
  | .val _ _ => True
  | .hdr _ => ∃ lr f, w.2 = [lr, f]

/-- locations that exist: sub-index inside the chunk -/
def Loc.Ok : Loc → Prop
  | .idx _ _ i => i < INDEX_CHUNK_ENTRIES
  | _ => True

/-! ## the record of a transaction: run the existing step, list what changed -/

/-- A transaction: the operations of one commit on this column (`PAction.set` / `PAction.del`). -/
abbrev Tx := List PAction

/-! ### the slots and headers a transaction touches (ghost outputs of the value-table functions) -/

/-- slots `overwrite_chain` logs: the chain it writes and the slots it frees -/
def wcTouched (t : VT) (key : TKey) (v : Bytes) (at_ : Option Nat) (c : Bool) : List Nat :=
  match writeChain t key v at_ c with
  | .ok r => r.chain ++ r.freed
  | .error _ => []

/-- slots `write_remove_plan` logs -/
def rmTouched (t : VT) (i : Nat) : List Nat :=
  match removePlan t i with
  | .ok (_, L) => L
  | .error _ => []

/-- (tier, slot) pairs of `write_new_value_plan`; slot 0 stands for the header of the tier
(`dirty_header`) -/
def insTouched (p : PCol) (k : Key) (tf : (Bytes × Bool) × Nat) : List (Nat × Nat) :=
  (0 :: wcTouched (p.vt tf.2) (tkey k) tf.1.1 none tf.1.2).map (fun s => (tf.2, s))

def remTouched (p : PCol) (a : Nat) : List (Nat × Nat) :=
  (0 :: rmTouched (p.vt (Address.size_tier a)) (Address.offset a)).map
    (fun s => (Address.size_tier a, s))

/-- `write_plan_existing`, value-table side (mirrors `Refine.pWriteExisting0`) -/
def existingTouched (p : PCol) (k : Key) (op : Option ((Bytes × Bool) × Nat)) (a : Nat) :
    List (Nat × Nat) :=
  match op with
  | some tf =>
    if Address.size_tier a = tf.2 then
      (0 :: wcTouched (p.vt tf.2) (tkey k) tf.1.1 (some (Address.offset a)) tf.1.2).map
        (fun s => (tf.2, s))
    else
      remTouched p a ++
        (match pRemoveVal p a with
         | .ok p1 => insTouched p1 k tf
         | .error _ => [])
  | none => remTouched p a

/-- `HashColumn::write_plan`, value-table side (mirrors `Refine.pWrite`) -/
def vtTouched (cmp : Bytes → Bytes) (thr : Nat) (p : PCol) (k : Key) (op : Option Bytes) :
    List (Nat × Nat) :=
  match pSearchAll p k with
  | some (_, _, a) => existingTouched p k (op.map (fun v => tierFor cmp thr false (tkey k) v)) a
  | none =>
    match op with
    | some v => insTouched p k (tierFor cmp thr false (tkey k) v)
    | none => []

def stepTouched (cmp : Bytes → Bytes) (thr : Nat) (p : PCol) : PAction → List (Nat × Nat)
  | .set k v => vtTouched cmp thr p k (some v)
  | .del k => vtTouched cmp thr p k none
  | _ => []

/-- the (tier, slot) pairs touched by the transaction, step by step along `pRun` -/
def txTouched (cmp : Bytes → Bytes) (thr : Nat) : PCol → Tx → List (Nat × Nat)
  | _, [] => []
  | p, a :: as =>
    stepTouched cmp thr p a ++
      (match pStep cmp thr p a with
       | .ok p1 => txTouched cmp thr p1 as
       | _ => [])

/-! ### candidate locations -/

def Trie.keys {α : Type} : Trie α → List Nat
  | .bucket l => l.map (·.1)
  | .node l r => (Trie.keys l).map (fun k => 2 * k) ++ (Trie.keys r).map (fun k => 2 * k + 1)

/-- chunks of the table with `b` bits that have ever been written -/
def keysB (p : PCol) (b : Nat) : List Nat :=
  match tableByBits (PCol.tables p) b with
  | some t => Trie.keys t.pages
  | none => []

/-- `a ++ b` without repeating in `b` what is in `a` -/
def unionL (a b : List Nat) : List Nat := a ++ b.filter (fun x => !a.contains x)

def subs : List Nat := List.range INDEX_CHUNK_ENTRIES

def dedup : List (Nat × Nat) → List (Nat × Nat)
  | [] => []
  | x :: xs => if xs.contains x then dedup xs else x :: dedup xs

/-- Candidate locations of a transaction between the states `p` (before) and `p'` (after) that
touched the (tier, slot) pairs `T`: every entry of every chunk ever written of every index table of
`p` or `p'`; the touched slots; the headers of the touched tiers. -/
def cands (T : List (Nat × Nat)) (p p' : PCol) : List Loc :=
  ((unionL (shape p) (shape p')).flatMap (fun b =>
    (unionL (keysB p b) (keysB p' b)).flatMap (fun c => subs.map (fun i => Loc.idx b c i)))) ++
  ((dedup T).map (fun ts => Loc.val ts.1 ts.2)) ++
  ((dedup (T.map (fun ts => (ts.1, 0)))).map (fun ts => Loc.hdr ts.1))

/-- the candidate locations whose content differs, with the content after -/
def diffWrites (cs : List Loc) (m m' : Mem) : List Write :=
  cs.filterMap (fun l => if m l = m' l then none else some (l, m' l))

/-- state after the transaction (`HashColumn::write_plan` per operation) -/
def runTx (cmp : Bytes → Bytes) (thr : Nat) (p : PCol) (tx : Tx) : Option PCol :=
  match pRun cmp thr p tx with
  | .ok p' => some p'
  | _ => none

/-- THE PHYSICAL RECORD of transaction `tx` planned on `p`. -/
def planWrites (cmp : Bytes → Bytes) (thr : Nat) (p : PCol) (tx : Tx) : List Write :=
  match runTx cmp thr p tx with
  | some p' => diffWrites (cands (txTouched cmp thr p tx) p p') (mem p) (mem p')
  | none => []

/-- The step changes nothing outside the candidate locations (frame): a THEOREM
(`Pdb.PhysRec.frame_holds`). -/
def Frame (T : List (Nat × Nat)) (p p' : PCol) : Prop :=
  ∀ l, Loc.Ok l → l ∉ cands T p p' → mem p' l = mem p l

/-- same tables (index bits, in order): no index growth, no drop -/
def NoGrow (p p' : PCol) : Prop := shape p' = shape p

/-! ## into the record format of Pdb/Model/Wal.lean -/

def toU8 (bs : Bytes) : Wal.Bytes := bs.map UInt8.ofNat
def ofU8 (bs : Wal.Bytes) : Bytes := bs.map UInt8.toNat

/-- The `Wal.Action` of one write in column `col`.  (The crate groups the entries of one chunk under
one mask; one action per entry is the same record for `enact_plan`.) -/
def toAction (col : Nat) (w : Write) : Wal.Action :=
  match w.1 with
  | .idx b c i => .insertIndex (TableId.new col b) c (2 ^ i) (Wal.leBytes 8 (w.2.headD 0))
  | .val tier s => .insertValue (TableId.new col tier) s (toU8 w.2)
  | .hdr tier => .insertValue (TableId.new col tier) 0
      (Wal.leBytes 8 (w.2.headD 0) ++ Wal.leBytes 8 (w.2.getD 1 0))

/-- The writes of a parsed action (index bits / size tier = low byte of the table id). -/
def ofAction (a : Wal.Action) : List Write :=
  match a with
  | .insertIndex t c m es =>
    ((Wal.setBits m).zip (Wal.pieces INDEX_ENTRY_BYTES (Wal.popcount m) es)).map
      (fun be => (Loc.idx (TableId.index_bits t) c be.1, [Wal.leVal be.2]))
  | .insertValue t i pl =>
    if i = 0 then [(Loc.hdr (TableId.index_bits t), [Wal.leVal (pl.take 8), Wal.leVal ((pl.drop 8).take 8)])]
    else [(Loc.val (TableId.index_bits t) i, ofU8 pl)]
  | _ => []

/-- the log record with id `id` of a list of writes -/
def toRecord (col id : Nat) (ws : List Write) : Wal.Record := ⟨id, ws.map (toAction col)⟩

/-- the write function of replay: `Column::enact_plan` per action -/
def stepAction (p : PCol) (a : Wal.Action) : PCol := applyWrites p (ofAction a)

/-- writes the codec represents exactly: bytes are bytes, numbers fit their fields, the header is
slot 0 and no value write names slot 0 -/
def Write.Enc (w : Write) : Prop :=
  match w.1 with
  | .idx b _ i => b < 256 ∧ i < 64 ∧ ∃ e, w.2 = [e] ∧ e < 2 ^ 64
  | .val tier s => tier < 256 ∧ s ≠ 0 ∧ ∀ x ∈ w.2, x < 256
  | .hdr tier => tier < 256 ∧ ∃ lr f, w.2 = [lr, f] ∧ lr < 2 ^ 64 ∧ f < 2 ^ 64

/-! ## driver -/

section Driver

structure DState where
  col : PCol
  /-- state at the start of the current record -/
  base : PCol
  /-- operations of the current record -/
  tx : Tx
  /-- (tier, slot) pairs touched by the current record -/
  touched : List (Nat × Nat)
  failed : Option String
  /-- last completed record: state before, writes -/
  last : Option (PCol × List Write × PCol)
  /-- logical kind of the column (`physrec initk`, Pdb/Model/PhysRecRc.lean) -/
  kind : Pdb.Kind := .plain
  /-- statistics: records compared, model writes, real entry-level writes, real writes dropped as
  no-ops by the canonicalisation -/
  nRec : Nat := 0
  nModel : Nat := 0
  nReal : Nat := 0
  nNoop : Nat := 0

def DState.init : DState :=
  let p := PCol.init ⟨true, true, false⟩ MIN_INDEX_BITS
  { col := p, base := p, tx := [], touched := [], failed := none, last := none }

def locKey : Loc → Nat × Nat × Nat × Nat
  | .idx b c i => (0, b, c, i)
  | .val t s => (1, t, s, 0)
  | .hdr t => (1, t, 0, 0)

def keyLe (a b : Nat × Nat × Nat × Nat) : Bool :=
  a.1 < b.1 || (a.1 == b.1 && (a.2.1 < b.2.1 || (a.2.1 == b.2.1 &&
    (a.2.2.1 < b.2.2.1 || (a.2.2.1 == b.2.2.1 && a.2.2.2 ≤ b.2.2.2)))))

def insSorted (w : Write) : List Write → List Write
  | [] => [w]
  | x :: xs => if keyLe (locKey w.1) (locKey x.1) then w :: x :: xs else x :: insSorted w xs

def sortWrites (ws : List Write) : List Write := ws.foldr insSorted []

/-- a sorted list of writes names a location twice -/
def hasDupLoc : List Write → Bool
  | a :: b :: r => decide (a.1 = b.1) || hasDupLoc (b :: r)
  | _ => false

def showLoc : Loc → String
  | .idx b c i => s!"I{b}@{c}.{i}"
  | .val t s => s!"V{t}@{s}"
  | .hdr t => s!"V{t}@0"

def hexNat? (s : String) : Option Nat := Pdb.Index.hexNat? s.toList 0

def leNat (bs : Bytes) : Nat := fromLe bs

def chunks8 : Nat → Bytes → List Bytes
  | 0, _ => []
  | k + 1, bs => bs.take 8 :: chunks8 k (bs.drop 8)

def maskBits (m : Nat) : List Nat := (List.range 64).filter (fun i => m.testBit i)

/-- one word of the real record -> (writes, number of payload bytes, number of entries) -/
def parseWord (w : String) : Option (List Write × Nat × Nat × Bool) :=
  if w.startsWith "D" then
    -- DROP_TABLE action: not a location write (see `physrec enact`)
    (if ((w.drop 1).toString.toNat?).isSome then some ([], 0, 0, false) else none)
  else
  match w.splitOn "=" with
  | [lhs, hex] =>
    match unhex hex with
    | none => none
    | some bytes =>
      if lhs.startsWith "I" then
        match (lhs.drop 1).toString.splitOn "@" with
        | [b, rest] =>
          match rest.splitOn "#" with
          | [c, m] =>
            match b.toNat?, c.toNat?, hexNat? m with
            | some b, some c, some m =>
              let bits := maskBits m
              if bytes.length = 8 * bits.length then
                some ((bits.zip (chunks8 bits.length bytes)).map
                  (fun be => (Loc.idx b c be.1, [leNat be.2])), bytes.length, bits.length, true)
              else none
            | _, _, _ => none
          | _ => none
        | _ => none
      else if lhs.startsWith "V" then
        match (lhs.drop 1).toString.splitOn "@" with
        | [t, s] =>
          match t.toNat?, s.toNat? with
          | some t, some s =>
            if s = 0 then
              if bytes.length = 16 then
                some ([(Loc.hdr t, [leNat (bytes.take 8), leNat (bytes.drop 8)])], 16, 0, false)
              else none
            else some ([(Loc.val t s, bytes)], bytes.length, 0, false)
          | _, _ => none
        | _ => none
      else none
  | _ => none

def parseWords : List String → Option (List (List Write × Nat × Nat × Bool))
  | [] => some []
  | w :: ws =>
    match parseWord w, parseWords ws with
    | some x, some xs => some (x :: xs)
    | _, _ => none

def firstDiff : List Write → List Write → String
  | [], [] => "-"
  | a :: _, [] => "model-only:" ++ showLoc a.1
  | [], b :: _ => "real-only:" ++ showLoc b.1
  | a :: as, b :: bs =>
    if a.1 = b.1 then (if a.2 = b.2 then firstDiff as bs else "image:" ++ showLoc a.1)
    else if keyLe (locKey a.1) (locKey b.1) then "model-only:" ++ showLoc a.1
    else "real-only:" ++ showLoc b.1

def noComp (v : Bytes) : Bytes := v

def planStep (d : DState) (a : PAction) : DState × String :=
  if d.failed.isSome then (d, "ok")
  else
    match pStep noComp 0 d.col a with
    | .ok p => ({ d with col := p, tx := d.tx ++ [a],
                         touched := d.touched ++ stepTouched noComp 0 d.col a }, "ok")
    | .panic => ({ d with failed := some "panic" }, "ok")
    | .diverge => ({ d with failed := some "diverge" }, "ok")
    | .vtErr e => ({ d with failed := some (showWrErr e) }, "ok")

def showVal (v : Bytes) : String := s!"{v.length}:{fnv v fnvInit}"

def recCmd (d : DState) (words : List String) : DState × String :=
  match d.failed with
  | some f => ({ d with failed := none, tx := [], touched := [], col := d.base }, f)
  | none =>
    match parseWords (if words = ["-"] then [] else words) with
    | none => (d, "bad-op")
    | some parsed =>
      let real := parsed.flatMap (·.1)
      let bytes := (parsed.map (·.2.1)).foldl (· + ·) 0
      let ents := (parsed.map (·.2.2.1)).foldl (· + ·) 0
      let nI := (parsed.filter (·.2.2.2)).length
      let nV := (parsed.filter (fun x => !x.2.2.2 && !x.1.isEmpty)).length
      let m0 := mem d.base
      let realN := sortWrites (dropNoops m0 real)
      let model := sortWrites (diffWrites (cands d.touched d.base d.col) m0 (mem d.col))
      let d' : DState :=
        { d with base := d.col, tx := [], touched := [], last := some (d.base, model, d.col),
                 nRec := d.nRec + 1, nModel := d.nModel + model.length,
                 nReal := d.nReal + real.length,
                 nNoop := d.nNoop + (real.length - realN.length) }
      if hasDupLoc (sortWrites real) then (d', "MISMATCH the real record names a location twice")
      else if model = realN then (d', s!"ok idx={nI} ent={ents} val={nV} bytes={bytes}")
      else (d', s!"MISMATCH model={model.length} real={realN.length} first={firstDiff model realN}")

def tornCmd (d : DState) (j : Nat) : DState × String :=
  match d.last with
  | none => (d, "ok")
  | some (p, ws, p') =>
    let q := applyWrites (applyWrites p (ws.take j)) ws
    let cs := ws.map (·.1)
    if cs.all (fun l => decide (mem q l = mem p' l)) && decide (shape q = shape p') then
      (d, "ok")
    else (d, "DIFF")

def step (d : DState) (ws : List String) : DState × String :=
  match ws with
  | ["init", b] | ["init", b, "purge"] =>
    match b.toNat? with
    | some bits =>
      if MIN_INDEX_BITS ≤ bits ∧ bits ≤ 40 then
        let p := PCol.init ⟨true, true, true⟩ bits
        ({ d with col := p, base := p, tx := [], touched := [], failed := none, last := none,
                   kind := .plain }, "ok")
      else (d, "bad-op")
    | none => (d, "bad-op")
  | ["init", b, "nopurge"] =>
    match b.toNat? with
    | some bits =>
      if MIN_INDEX_BITS ≤ bits ∧ bits ≤ 40 then
        let p := PCol.init ⟨true, true, false⟩ bits
        ({ d with col := p, base := p, tx := [], touched := [], failed := none, last := none,
                   kind := .plain }, "ok")
      else (d, "bad-op")
    | none => (d, "bad-op")
  | ["set", k, v] =>
    match parseKey k, parseValue v with
    | some key, some val => planStep d (.set key val)
    | _, _ => (d, "bad-op")
  | ["deref", k] =>
    match parseKey k with
    | some key => planStep d (.del key)
    | none => (d, "bad-op")
  | ["reindex"] => planStep d .reindex
  | ["enact"] =>
    let p := d.col.withIx (enactDrop d.col.ix)
    ({ d with col := p, base := p }, "ok")
  | ["stat"] => (d, Pdb.Index.stat d.col.ix)
  | ["get", k] =>
    match parseKey k with
    | some key => (d, Pdb.Index.showOpt ((pGet some d.col key).map showVal))
    | none => (d, "bad-op")
  | "rec" :: words => recCmd d words
  | ["stats"] =>
    (d, s!"records={d.nRec} model_writes={d.nModel} real_writes={d.nReal} noop_dropped={d.nNoop}")
  | ["torn", j] =>
    match j.toNat? with
    | some j => tornCmd d j
    | none => (d, "bad-op")
  | _ => (d, "bad-op")

end Driver

end Pdb.PhysRec
