/-
C06 (shared with C14): executable model of one parity-db value table (src/table.rs) and of the
tier selection of `Column::compress` (src/column.rs).

Rust item                                   -> Lean definition
  Entry::{write_size, read_size}            -> `sizeField`, `sizeBytes`, `readSize`
  Entry::{is_tombstone,is_multipart,
          is_multihead(_compressed),is_multi}-> `isTombstone`, `isMultipart`, `isMultiHead`,
                                               `isMultiHeadCompressed`, `isMulti`
  ValueTable::value_size                    -> `valueSizeOf` / `valueSize`
  ValueTable::read_next_part                -> `nextPart`
  ValueTable::read_next_free + next_free    -> `nextFree`       (pop the free list before extending `filled`)
  ValueTable::clear_slot                    -> `clearSlot`      (push)
  ValueTable::clear_chain                   -> `clearChain`
  ValueTable::write_remove_plan             -> `removePlan`
  ValueTable::overwrite_chain               -> `writeChain`     (`at = none`: write_insert_plan,
                                                                 `at = some i`: write_replace_plan)
  ValueTable::for_parts / query / get       -> `readChain` (`readRest` for parts >= 1)
  ValueTable::size                          -> `sizeChain`
  ValueTable::change_ref                    -> `changeRef`
  key::TableKey::{Partial, NoHash}          -> `TKey.partialKey tail` (tail = hash[6..32], 26 bytes) / `TKey.noHash`
  Column::compress                          -> `storedForm` (threshold, kept only if smaller) + `tierOfLen` / `tierFor`

Representation.  Bytes are `List Nat`.  A table is `VT`; `slots i` holds *the bytes the code wrote
to slot i* (`buf[0..buf.offset()]`: 10 bytes for a tombstone, `2 + size` bytes for a sized entry,
`entry_size` bytes for a multi-part entry).  The code never reads a slot beyond that prefix, the
file keeps stale bytes behind it; the harness compares prefixes only.  `slots` is a function
updated by `setSlot`, which evaluates the old function once per lookup (no exponential blow-up).

Deliberate restructuring of `overwrite_chain` (documented deviation, tied by the correspondence
run `c06 t ...`): the Rust loop interleaves "follow the old chain", "pop/extend a slot",
"write a part" and finally "clear the unused tail of the old chain".  Popping (only after the old
chain is exhausted) and clearing (only when the old chain is longer than the new one) exclude
each other inside one call, a pop reads only the slot being popped and a part is written after
its own `next` was determined, so the model performs the four phases one after the other:
`walk` (slots of the old chain that are reused + the continuation to clear), `allocN` (pops /
extensions), `writeParts`, `clearChain`.  The number of parts and their payload is fixed by
`splitBody` on `body = rc ++ key ++ value` exactly as the loop does with `remainder`.
`value_size` is not a one-expression function, so `valueSizeOf` is written by hand (not generated).
Not modelled: `claimed = true` (multitree, C10), database versions <= 6 (V4 markers, per-part
compressed flag) - `current_version_gt_6` below breaks if `CURRENT_VERSION` drops to <= 6 -,
the log overlay (reads see the latest planned write: the model state is "file + overlay").
A Rust panic / error is an explicit outcome (`WrErr`, `RdErr`).

Driver protocol (`driverLine`, stateless, and `step`, stateful, command word `c06`):
  c06 tier <threshold> <compressed_len|-> <len> <keyed 0/1> <rc 0/1>      -> `<tier> <stored_compressed 0/1>`
  c06 plan <entrySize> <multipart 0/1> <rc 0/1> <keyed 0/1> <stored_len>   -> `<nslots> <payload sizes, run-length "size*count,...">` | `panic`
  c06 t reset <rc 0/1>                                                     -> `ok`     (forget all tables; column is ref-counted or not)
  c06 t ins <tier> <keytail hex|-> <value> <compressed 0/1>                -> `<addr> <filled> <lastRemoved> <freeLen> <chain digest>`
  c06 t rep <tier> <addr> <keytail|-> <value> <compressed 0/1>             -> same
  c06 t del <tier> <addr>                                                  -> `<filled> <lastRemoved> <freeLen>`
  c06 t ref <tier> <addr> <+1|-1>                                          -> `<kept 0/1> <filled> <lastRemoved> <freeLen>`  (write_inc_ref / write_dec_ref)
  c06 t get <tier> <addr> <keytail|->                                      -> `none` | `some <len> <compressed> <rc> <digest of bytes>` | `err:<Kind>`
where <value> is a token `v<len>_<seed>` (expanded exactly like `util::expand_token`) or `x<hex>`
(the stored, e.g. compressed, bytes), <chain digest> is FNV-1a-64 over the written prefixes of the
slots of the chain in order, and the observed side obtains `filled`, `lastRemoved`, the free
list length and the raw slots from the hook `Db::verif_table_state / verif_table_entry`.
So the harness checks the model's layout predictions (tier, number of slots, per-part payload,
which slot is reused, exact slot bytes, header fields, free-list length) against the real table.
-/
import Pdb.Gen.Prim
import Pdb.Gen.Consts

namespace Pdb.ValueTable
open Pdb.Gen

abbrev Bytes := List Nat

/-! ## Little-endian fields -/

/-- `x.to_le_bytes()` for an `n`-byte integer (truncating like `as uN`). -/
def leBytes : Nat → Nat → Bytes
  | 0, _ => []
  | n + 1, x => x % 256 :: leBytes n (x / 256)

/-- `uN::from_le_bytes`. -/
def fromLe : Bytes → Nat
  | [] => 0
  | b :: bs => b + 256 * fromLe bs

/-! ## Keys -/

/-- `key::TableKey`: `Partial(hash)` stores `hash[6..]` (26 bytes), `NoHash` stores nothing. -/
inductive TKey where
  | partialKey (tail : Bytes)
  | noHash
deriving DecidableEq, Repr

/-- `TableKey::encoded_size` -/
def TKey.encodedSize : TKey → Nat
  | .partialKey _ => PARTIAL_SIZE
  | .noHash => 0

/-- `TableKey::write` -/
def TKey.bytes : TKey → Bytes
  | .partialKey t => t
  | .noHash => []

/-- A well-formed key: the stored tail has exactly `PARTIAL_SIZE` bytes. -/
def TKey.Ok (k : TKey) : Prop := k.bytes.length = k.encodedSize

instance (k : TKey) : Decidable k.Ok := by unfold TKey.Ok; infer_instance

/-! ## Table state -/

structure VT where
  entrySize : Nat
  multipart : Bool
  refCounted : Bool
  /-- bytes written to slot `i` (see the header comment) -/
  slots : Nat → Bytes
  /-- `filled`: first never-used index (entry 0 is the header) -/
  filled : Nat
  /-- `last_removed`: head of the free list, 0 = empty -/
  lastRemoved : Nat

/-- `ValueTable::open` on a fresh file: `filled = 1`, `last_removed = 0`. -/
def VT.empty (entrySize : Nat) (multipart refCounted : Bool) : VT :=
  { entrySize, multipart, refCounted, slots := fun _ => [], filled := 1, lastRemoved := 0 }

/-- `log.insert_value(self.id, index, bytes)`.  The old function is evaluated once per lookup. -/
def VT.setSlot (t : VT) (i : Nat) (b : Bytes) : VT :=
  { t with slots := fun j => if j = i then b else t.slots j }

/-- `ref_size()` -/
def refSize (t : VT) : Nat := if t.refCounted then REFS_SIZE else 0

/-- `free_space = entry_size - SIZE_SIZE` -/
def freeSpace (t : VT) : Nat := t.entrySize - SIZE_SIZE

/-- payload capacity of a part that carries a `next` link: `free_space - INDEX_SIZE` -/
def partCap (t : VT) : Nat := freeSpace t - INDEX_SIZE

/-- bytes in front of the value in part 0: ref count + key tail -/
def hdrLen (t : VT) (key : TKey) : Nat := refSize t + key.encodedSize

/-- `ValueTable::value_size` as a function of the configuration. -/
def valueSizeOf (entrySize : Nat) (rc : Bool) (key : TKey) : Option Nat :=
  let base := entrySize - SIZE_SIZE - (if rc then REFS_SIZE else 0)
  if base < key.encodedSize then none else some (base - key.encodedSize)

def valueSize (t : VT) (key : TKey) : Option Nat := valueSizeOf t.entrySize t.refCounted key

/-! ## Entry header fields -/

def isTombstone (b : Bytes) : Prop := b.take SIZE_SIZE = TOMBSTONE
def isMultipart (b : Bytes) : Prop := b.take SIZE_SIZE = MULTIPART
def isMultiHeadCompressed (b : Bytes) : Prop := b.take SIZE_SIZE = MULTIHEAD_COMPRESSED
def isMultiHead (b : Bytes) : Prop := isMultiHeadCompressed b ∨ b.take SIZE_SIZE = MULTIHEAD
/-- `is_multi(db_version)` for `db_version > 4`. -/
def isMulti (b : Bytes) : Prop := isMultipart b ∨ isMultiHead b

instance (b : Bytes) : Decidable (isTombstone b) := by unfold isTombstone; infer_instance
instance (b : Bytes) : Decidable (isMultipart b) := by unfold isMultipart; infer_instance
instance (b : Bytes) : Decidable (isMultiHeadCompressed b) := by unfold isMultiHeadCompressed; infer_instance
instance (b : Bytes) : Decidable (isMultiHead b) := by unfold isMultiHead; infer_instance
instance (b : Bytes) : Decidable (isMulti b) := by unfold isMulti; infer_instance

/-- the u16 written by `write_size(size as u16, compressed)` -/
def sizeField (n : Nat) (compressed : Bool) : Nat :=
  if compressed then (n % 2 ^ 16) ||| COMPRESSED_MASK else n % 2 ^ 16

def sizeBytes (n : Nat) (compressed : Bool) : Bytes := leBytes SIZE_SIZE (sizeField n compressed)

/-- `read_size`: `(size & !COMPRESSED_MASK, (size & COMPRESSED_MASK) > 0)` -/
def readSize (b : Bytes) : Nat × Bool :=
  let s := fromLe (b.take SIZE_SIZE)
  (s &&& (2 ^ 16 - 1 - COMPRESSED_MASK), decide (0 < s &&& COMPRESSED_MASK))

/-- `skip_size(); read_next()` -/
def linkOf (b : Bytes) : Nat := fromLe ((b.drop SIZE_SIZE).take INDEX_SIZE)

/-- `read_next_part` -/
def nextPart (t : VT) (i : Nat) : Option Nat :=
  if t.multipart = true ∧ isMulti (t.slots i) then some (linkOf (t.slots i)) else none

/-! ## Free list -/

inductive WrErr where
  | panic
  | corruption
  | diverge
deriving DecidableEq, Repr

/-- `next_free`: pop the free list if it is not empty, otherwise extend `filled`. -/
def nextFree (t : VT) : Except WrErr (VT × Nat) :=
  if t.lastRemoved ≠ 0 then
    let nx := linkOf (t.slots t.lastRemoved)
    if t.filled ≤ nx then .error .corruption
    else .ok ({ t with lastRemoved := nx }, t.lastRemoved)
  else .ok ({ t with filled := t.filled + 1 }, t.filled)

/-- `n` consecutive calls of `next_free`. -/
def allocN (t : VT) : Nat → Except WrErr (VT × List Nat)
  | 0 => .ok (t, [])
  | n + 1 =>
    match nextFree t with
    | .error e => .error e
    | .ok (t1, a) =>
      match allocN t1 n with
      | .error e => .error e
      | .ok (t2, l) => .ok (t2, a :: l)

/-- `clear_slot`: write a tombstone linking to the old head, make the slot the new head. -/
def clearSlot (t : VT) (i : Nat) : VT :=
  { t.setSlot i (TOMBSTONE ++ leBytes INDEX_SIZE t.lastRemoved) with lastRemoved := i }

/-- `clear_chain`; returns the cleared slots in order.  Fuel exhaustion = the Rust loop does not
terminate (cyclic chain). -/
def clearChain (t : VT) : Nat → Nat → Except WrErr (VT × List Nat)
  | 0, _ => .error .diverge
  | f + 1, i =>
    match nextPart t i with
    | some nx =>
      match clearChain (clearSlot t i) f nx with
      | .ok (t', l) => .ok (t', i :: l)
      | .error e => .error e
    | none => .ok (clearSlot t i, [i])

/-- `write_remove_plan` -/
def removePlan (t : VT) (i : Nat) : Except WrErr (VT × List Nat) :=
  if t.multipart then clearChain t t.filled i else .ok (clearSlot t i, [i])

/-! ## Writing a chain -/

/-- The cut of `body = rc ++ key ++ value` into parts made by the loop of `overwrite_chain`:
while `remainder > free_space` a part of `free_space - INDEX_SIZE` bytes, then the rest. -/
def splitBody (fs cap : Nat) : Nat → Bytes → List Bytes
  | 0, body => [body]
  | f + 1, body =>
    if fs < body.length then body.take cap :: splitBody fs cap f (body.drop cap) else [body]

def headMarker (compressed : Bool) : Bytes := if compressed then MULTIHEAD_COMPRESSED else MULTIHEAD

/-- bytes of one part: marker + next + chunk, or size field + chunk for the last part -/
def encodePart (compressed first : Bool) (chunk : Bytes) : Option Nat → Bytes
  | some nx => (if first then headMarker compressed else MULTIPART) ++ leBytes INDEX_SIZE nx ++ chunk
  | none => sizeBytes chunk.length compressed ++ chunk

/-- write the chunks to the slots `idxs`, part `j` linking to `idxs[j+1]` -/
def writeParts (compressed : Bool) : VT → Bool → List Nat → List Bytes → VT
  | t, first, i :: is, c :: cs =>
    writeParts compressed (t.setSlot i (encodePart compressed first c is.head?)) false is cs
  | t, _, _, _ => t

/-- Follow the existing chain for at most `n` slots (`follow` / `read_next_part` in the loop):
the visited slots and, if all `n` were visited and the last one still links on, the
continuation that `clear_chain` will get. -/
def walk (t : VT) : Nat → Nat → List Nat × Option Nat
  | 0, i => ([], some i)
  | n + 1, i =>
    match nextPart t i with
    | some nx => (i :: (walk t n nx).1, (walk t n nx).2)
    | none => ([i], none)

/-- first reference: `write_rc(1)` -/
def rcBytes (t : VT) : Bytes := if t.refCounted then leBytes REFS_SIZE 1 else []

def bodyOf (t : VT) (key : TKey) (v : Bytes) : Bytes := rcBytes t ++ key.bytes ++ v

structure WrOk where
  table : VT
  /-- returned index (`start`) -/
  addr : Nat
  /-- ghost: the slots now holding the value, in chain order -/
  chain : List Nat
  /-- ghost: the slots pushed on the free list, in push order -/
  freed : List Nat

/-- The `assert!` at the top of `overwrite_chain` (and the `unwrap` inside it). -/
def FitsTable (t : VT) (key : TKey) (v : Bytes) : Prop :=
  t.multipart = true ∨ ∃ s, valueSize t key = some s ∧ v.length ≤ s

instance (t : VT) (key : TKey) (v : Bytes) : Decidable (FitsTable t key v) := by
  unfold FitsTable
  cases h : valueSize t key with
  | none => exact decidable_of_iff (t.multipart = true) (by simp)
  | some s => exact decidable_of_iff (t.multipart = true ∨ v.length ≤ s) (by simp)

/-- `match at { Some(index) => follow the chain, None => nothing to follow }` -/
def oldWalk (t : VT) (k : Nat) : Option Nat → List Nat × Option Nat
  | some i => walk t k i
  | none => ([], none)

/-- Phases 2-4 of `overwrite_chain`: allocate what the reused slots `w.1` do not cover, write the
parts, clear the continuation `w.2` of the old chain. -/
def writeCore (t : VT) (compressed : Bool) (chunks : List Bytes) (w : List Nat × Option Nat) :
    Except WrErr WrOk :=
  match allocN t (chunks.length - w.1.length) with
  | .error e => .error e
  | .ok (t1, fresh) =>
    match w.2 with
    | none =>
      .ok ⟨writeParts compressed t1 true (w.1 ++ fresh) chunks, (w.1 ++ fresh).headD 0, w.1 ++ fresh, []⟩
    | some nx =>
      if nx = 0 then
        .ok ⟨writeParts compressed t1 true (w.1 ++ fresh) chunks, (w.1 ++ fresh).headD 0, w.1 ++ fresh, []⟩
      else
        match clearChain (writeParts compressed t1 true (w.1 ++ fresh) chunks)
            (writeParts compressed t1 true (w.1 ++ fresh) chunks).filled nx with
        | .ok (t3, freed) => .ok ⟨t3, (w.1 ++ fresh).headD 0, w.1 ++ fresh, freed⟩
        | .error e => .error e

/-- the parts of `body = rc ++ key ++ value` -/
def chunksOf (t : VT) (key : TKey) (v : Bytes) : List Bytes :=
  splitBody (freeSpace t) (partCap t) (bodyOf t key v).length (bodyOf t key v)

/-- The two ways `overwrite_chain` panics: the `assert!` (+ `unwrap`) at its top, and a multi-part
head without room for rc + key and at least one value byte (`offset == 0` decides whether the
header is written, so the model refuses that case; never true for MULTIPART_ENTRY_SIZE). -/
def writePanics (t : VT) (key : TKey) (v : Bytes) : Prop :=
  ¬ FitsTable t key v ∨ (freeSpace t < (bodyOf t key v).length ∧ partCap t ≤ hdrLen t key)

instance (t : VT) (key : TKey) (v : Bytes) : Decidable (writePanics t key v) := by
  unfold writePanics; infer_instance

/-- `overwrite_chain(key, value, log, at, claimed = false, compressed)`. -/
def writeChain (t : VT) (key : TKey) (v : Bytes) (at_ : Option Nat) (compressed : Bool) :
    Except WrErr WrOk :=
  if writePanics t key v then .error .panic
  else writeCore t compressed (chunksOf t key v) (oldWalk t (chunksOf t key v).length at_)

/-! ## Reading a chain -/

inductive RdErr where
  | corruption
  | diverge
deriving DecidableEq, Repr

/-- `for_parts` for parts >= 1 (`none`: a tombstone was met, the whole query answers `None`). -/
def readRest (t : VT) : Nat → Nat → Except RdErr (Option Bytes)
  | 0, _ => .error .diverge
  | f + 1, i =>
    let b := t.slots i
    if isTombstone b then .ok none
    else if t.multipart = true ∧ isMulti b then
      let payload := (b.drop (SIZE_SIZE + INDEX_SIZE)).take (t.entrySize - (SIZE_SIZE + INDEX_SIZE))
      if linkOf b = 0 then .ok (some payload)
      else
        match readRest t f (linkOf b) with
        | .ok (some r) => .ok (some (payload ++ r))
        | .ok none => .ok none
        | .error e => .error e
    else .ok (some ((b.drop SIZE_SIZE).take (readSize b).1))

/-- `TableKeyQuery::Check(key)`: fetch + compare -/
def keyMatches (key : TKey) (b : Bytes) (off : Nat) : Prop :=
  key = .noHash ∨ key = .partialKey ((b.drop off).take PARTIAL_SIZE)

instance (key : TKey) (b : Bytes) (off : Nat) : Decidable (keyMatches key b off) := by
  unfold keyMatches; infer_instance

/-- `ValueTable::query(&mut TableKeyQuery::Check(key), index, log)`:
`some (stored bytes, compressed, rc)`. -/
def readChain (t : VT) (key : TKey) (i : Nat) : Except RdErr (Option (Bytes × Bool × Nat)) :=
  let b := t.slots i
  if isTombstone b then .ok none
  else if t.multipart = true ∧ ¬ isMultiHead b then .ok none
  else
    let multi : Bool := decide (t.multipart = true ∧ isMulti b)
    let off0 := if multi then SIZE_SIZE + INDEX_SIZE else SIZE_SIZE
    let entryEnd := if multi then t.entrySize else SIZE_SIZE + (readSize b).1
    let compressed : Bool := if multi then decide (isMultiHeadCompressed b) else (readSize b).2
    let nx := if multi then linkOf b else 0
    let rc := if t.refCounted then fromLe ((b.drop off0).take REFS_SIZE) else 1
    let off1 := off0 + refSize t
    if ¬ keyMatches key b off1 then .ok none
    else
      let off2 := off1 + key.encodedSize
      if entryEnd < off2 then .error .corruption
      else
        let payload := (b.drop off2).take (entryEnd - off2)
        if nx = 0 then
          .ok (if 0 < rc then some (payload, compressed, rc) else none)
        else
          match readRest t t.filled nx with
          | .ok (some r) => .ok (if 0 < rc then some (payload ++ r, compressed, rc) else none)
          | .ok none => .ok none
          | .error e => .error e

/-- `ValueTable::size` -/
def sizeChain (t : VT) (key : TKey) (i : Nat) : Except RdErr (Option (Nat × Bool)) :=
  match readChain t key i with
  | .ok (some (v, c, _)) => .ok (some (v.length, c))
  | .ok none => .ok none
  | .error e => .error e

/-! ## Reference counter -/

/-- `change_ref(index, delta)` for `delta = +1 / -1`; `false` = entry is gone / must be removed. -/
def changeRef (t : VT) (i : Nat) (inc : Bool) : VT × Bool :=
  let b := t.slots i
  if isTombstone b then (t, false)
  else
    let multi : Bool := decide (t.multipart = true ∧ isMulti b)
    let off := if multi then SIZE_SIZE + INDEX_SIZE else SIZE_SIZE
    let size := if multi then t.entrySize else SIZE_SIZE + (readSize b).1
    let counter := fromLe ((b.drop off).take REFS_SIZE)
    let counter' :=
      if inc then (if LOCKED_REF - 1 ≤ counter then LOCKED_REF else counter + 1)
      else if counter ≠ LOCKED_REF then counter - 1 else counter
    if ¬ inc ∧ counter ≠ LOCKED_REF ∧ counter' = 0 then (t, false)
    else
      let b' := (b.take off ++ leBytes REFS_SIZE counter' ++ b.drop (off + REFS_SIZE)).take size
      (t.setSlot i b', true)

/-- `write_dec_ref`: decrement, remove the value when the counter reaches zero. -/
def decRef (t : VT) (i : Nat) : Except WrErr (VT × Bool) :=
  match changeRef t i false with
  | (t', true) => .ok (t', true)
  | (_, false) =>
    match removePlan t i with
    | .ok (t', _) => .ok (t', false)
    | .error e => .error e

/-! ## Tier selection (`Column::compress`) -/

/-- The value that is stored and whether it is flagged compressed: compress only above the
threshold, keep the result only if it is strictly smaller.  `cmp` is a parameter (A-compress). -/
def storedForm (cmp : Bytes → Bytes) (threshold : Nat) (v : Bytes) : Bytes × Bool :=
  if threshold < v.length then
    if (cmp v).length < v.length then (cmp v, true) else (v, false)
  else (v, false)

/-- what `Column::get_value` returns for a stored form -/
def decodeStored (decomp : Bytes → Option Bytes) (s : Bytes × Bool) : Option Bytes :=
  if s.2 then decomp s.1 else some s.1

/-- entry sizes of the `SIZE_TIERS` tables of a column: `SIZES` then the multipart table -/
def tableSizes : List Nat := SIZES ++ [MULTIPART_ENTRY_SIZE]

/-- predicate of the `position` call: `t.value_size(key).map_or(false, |s| len <= s)` -/
def tierFits (rc : Bool) (key : TKey) (len : Nat) (entrySize : Nat) : Bool :=
  match valueSizeOf entrySize rc key with
  | some s => decide (len ≤ s)
  | none => false

/-- `tables.iter().position(..).unwrap_or(tables.len() - 1)` -/
def tierOfLen (rc : Bool) (key : TKey) (len : Nat) : Nat :=
  (tableSizes.findIdx? (tierFits rc key len)).getD (tableSizes.length - 1)

/-- `Column::compress`: stored form and target tier -/
def tierFor (cmp : Bytes → Bytes) (threshold : Nat) (rc : Bool) (key : TKey) (v : Bytes) :
    (Bytes × Bool) × Nat :=
  (storedForm cmp threshold v, tierOfLen rc key (storedForm cmp threshold v).1.length)

/-- the table of tier `i` of a column (empty) -/
def tableOfTier (rc : Bool) (i : Nat) : VT :=
  if i < SIZES.length then VT.empty (SIZES.getD i 0) false rc
  else VT.empty MULTIPART_ENTRY_SIZE true rc

/-! ## Structural invariant (shared with C14) -/

/-- `F` is the free list starting at `h`: tombstones linked to each other, in range, ending at 0. -/
def FreeChain (t : VT) : Nat → List Nat → Prop
  | h, [] => h = 0
  | h, a :: F => h = a ∧ a ≠ 0 ∧ a < t.filled ∧ isTombstone (t.slots a) ∧
      FreeChain t (linkOf (t.slots a)) F

instance FreeChain.dec (t : VT) : (h : Nat) → (F : List Nat) → Decidable (FreeChain t h F)
  | h, [] => by unfold FreeChain; infer_instance
  | h, a :: F => by
    unfold FreeChain
    have := FreeChain.dec t (linkOf (t.slots a)) F
    infer_instance

/-- `c` is a chain of parts: every slot but the last links to its successor, the last one does
not link on (`read_next_part = None`). -/
def IsChain (t : VT) : List Nat → Prop
  | [] => False
  | [a] => nextPart t a = none
  | a :: b :: r => nextPart t a = some b ∧ IsChain t (b :: r)

instance IsChain.dec (t : VT) : (c : List Nat) → Decidable (IsChain t c)
  | [] => by unfold IsChain; infer_instance
  | [a] => by unfold IsChain; infer_instance
  | a :: b :: r => by
    unfold IsChain
    have := IsChain.dec t (b :: r)
    infer_instance

/-- SlotInv: the free list `F` and the live chains `L` partition the used slots `1 .. filled-1`. -/
structure SlotInv (t : VT) (F : List Nat) (L : List (List Nat)) : Prop where
  free : FreeChain t t.lastRemoved F
  nodup : (F ++ L.flatten).Nodup
  range : ∀ i ∈ F ++ L.flatten, 1 ≤ i ∧ i < t.filled
  count : F.length + L.flatten.length + 1 = t.filled
  chains : ∀ c ∈ L, IsChain t c

instance (t : VT) (F : List Nat) (L : List (List Nat)) : Decidable (SlotInv t F L) :=
  decidable_of_iff
    (FreeChain t t.lastRemoved F ∧ (F ++ L.flatten).Nodup ∧
      (∀ i ∈ F ++ L.flatten, 1 ≤ i ∧ i < t.filled) ∧
      F.length + L.flatten.length + 1 = t.filled ∧ ∀ c ∈ L, IsChain t c)
    ⟨fun ⟨a, b, c, d, e⟩ => ⟨a, b, c, d, e⟩, fun ⟨a, b, c, d, e⟩ => ⟨a, b, c, d, e⟩⟩

/-- executable walk of the free list (`check_free_refs`): `none` = out of range / not a
tombstone / cyclic -/
def freeListOf (t : VT) : Nat → Nat → Option (List Nat)
  | _, 0 => some []
  | 0, _ + 1 => none
  | f + 1, h + 1 =>
    if h + 1 < t.filled ∧ isTombstone (t.slots (h + 1)) then
      (freeListOf t f (linkOf (t.slots (h + 1)))).map ((h + 1) :: ·)
    else none

/-- Configurations the column code creates: a tier of `SIZES`, or the multipart table. -/
def VT.WF (t : VT) : Prop :=
  (t.multipart = false ∧ t.entrySize ∈ SIZES) ∨ (t.multipart = true ∧ t.entrySize = MULTIPART_ENTRY_SIZE)

instance (t : VT) : Decidable t.WF := by unfold VT.WF; infer_instance

theorem current_version_gt_6 : 6 < CURRENT_VERSION := by decide

/-! ## Driver -/

section Driver

def hexDigit (c : Char) : Option Nat :=
  if '0' ≤ c ∧ c ≤ '9' then some (c.toNat - '0'.toNat)
  else if 'a' ≤ c ∧ c ≤ 'f' then some (c.toNat - 'a'.toNat + 10)
  else none

def unhexAux : List Char → List Nat → Option (List Nat)
  | [], acc => some acc.reverse
  | a :: b :: r, acc =>
    match hexDigit a, hexDigit b with
    | some x, some y => unhexAux r ((x * 16 + y) :: acc)
    | _, _ => none
  | _, _ => none

def unhex (s : String) : Option Bytes := if s = "-" then some [] else unhexAux s.toList []

def splitmix (s : UInt64) : UInt64 × UInt64 :=
  let s := s + 0x9E3779B97F4A7C15
  let z := s
  let z := (z ^^^ (z >>> 30)) * 0xBF58476D1CE4E5B9
  let z := (z ^^^ (z >>> 27)) * 0x94D049BB133111EB
  (s, z ^^^ (z >>> 31))

/-- `util::expand_token("v<len>_<seed>")` -/
def expandToken (len : Nat) (seed : Nat) : Bytes := Id.run do
  let mut out : Array Nat := Array.mkEmpty len
  if seed % 3 = 0 then
    let pat : Array Nat := #[seed % 256, (seed / 256) % 256, 0x41, 0x42]
    for i in [0:len] do
      out := out.push (pat[(i / 7) % 4]!)
    let tag := leBytes 8 seed
    let mut i := 0
    for b in tag do
      if i < out.size then out := out.set! i b
      i := i + 1
    return out.toList
  else
    let mut s : UInt64 := (UInt64.ofNat seed) ^^^ 0x9E3779B97F4A7C15
    let words := (len + 7) / 8
    for _ in [0:words] do
      let (s', z) := splitmix s
      s := s'
      let mut x := z.toNat
      for _ in [0:8] do
        if out.size < len then out := out.push (x % 256)
        x := x / 256
    return out.toList

def parseValue (s : String) : Option Bytes :=
  if s.startsWith "x" then unhex (s.drop 1).toString
  else if s.startsWith "v" then
    match ((s.drop 1).toString.splitOn "_") with
    | [l, sd] => match l.toNat?, sd.toNat? with
      | some l, some sd => some (expandToken l sd)
      | _, _ => none
    | _ => none
  else none

def fnv (bs : Bytes) (h : UInt64) : UInt64 :=
  bs.foldl (fun h b => (h ^^^ UInt64.ofNat b) * 0x100000001b3) h

def fnvInit : UInt64 := 0xcbf29ce484222325

def parseBool (s : String) : Option Bool :=
  if s = "1" then some true else if s = "0" then some false else none

def parseKeyTail (s : String) : Option TKey :=
  if s = "-" then some .noHash else (unhex s).map .partialKey

/-- run-length rendering `a*n,b*m` -/
def rle : List Nat → List (Nat × Nat)
  | [] => []
  | x :: xs =>
    match rle xs with
    | (y, n) :: r => if x = y then (y, n + 1) :: r else (x, 1) :: (y, n) :: r
    | [] => [(x, 1)]

def showRle (l : List Nat) : String :=
  if l.isEmpty then "-" else ",".intercalate ((rle l).map fun (x, n) => s!"{x}*{n}")

def cmdTier (thr clen len : Nat) (keyed rc : Bool) : String :=
  let key := if keyed then TKey.partialKey (List.replicate PARTIAL_SIZE 0) else .noHash
  let r := tierFor (fun _ => List.replicate clen 0) thr rc key (List.replicate len 0)
  s!"{r.2} {if r.1.2 then 1 else 0}"

def cmdPlan (entrySize : Nat) (mp rc keyed : Bool) (len : Nat) : String :=
  let key := if keyed then TKey.partialKey (List.replicate PARTIAL_SIZE 0) else .noHash
  let t := VT.empty entrySize mp rc
  let v := List.replicate len 0
  if writePanics t key v then "panic"
  else
    -- payload = value bytes per part: body chunk sizes minus the header in part 0
    let chunks := (chunksOf t key v).map List.length
    let payload := match chunks with
      | [] => []
      | c :: cs => (c - hdrLen t key) :: cs
    s!"{chunks.length} {showRle payload}"

/-- stateless commands -/
def driverLine (args : List String) : String :=
  match args with
  | ["tier", thr, clen, len, keyed, rc] =>
    match thr.toNat?, len.toNat?, parseBool keyed, parseBool rc with
    | some thr, some len, some keyed, some rc =>
      match (if clen = "-" then some len else clen.toNat?) with
      | some clen => cmdTier thr clen len keyed rc
      | none => "bad-op"
    | _, _, _, _ => "bad-op"
  | ["plan", es, mp, rc, keyed, len] =>
    match es.toNat?, parseBool mp, parseBool rc, parseBool keyed, len.toNat? with
    | some es, some mp, some rc, some keyed, some len => cmdPlan es mp rc keyed len
    | _, _, _, _, _ => "bad-op"
  | _ => "bad-op"

/-- stateful part: the tables of one column, created on first use -/
structure State where
  rc : Bool := false
  tables : List (Nat × VT) := []

def State.get (s : State) (tier : Nat) : VT :=
  match s.tables.lookup tier with
  | some t => t
  | none => tableOfTier s.rc tier

def State.put (s : State) (tier : Nat) (t : VT) : State :=
  { s with tables := (tier, t) :: s.tables.filter (fun p => p.1 ≠ tier) }

def freeLen (t : VT) : String :=
  match freeListOf t t.filled t.lastRemoved with
  | some l => toString l.length
  | none => "bad-free-list"

def hdrState (t : VT) : String := s!"{t.filled} {t.lastRemoved} {freeLen t}"

def chainDigest (t : VT) (c : List Nat) : UInt64 :=
  c.foldl (fun h i => fnv (t.slots i) h) fnvInit

def showWrErr : WrErr → String
  | .panic => "err:Panic"
  | .corruption => "err:Corruption"
  | .diverge => "err:Diverge"

def showRdErr : RdErr → String
  | .corruption => "err:Corruption"
  | .diverge => "err:Diverge"

def step (s : State) (args : List String) : State × String :=
  match args with
  | ["reset", rc] =>
    match parseBool rc with
    | some rc => ({ rc := rc, tables := [] }, "ok")
    | none => (s, "bad-op")
  | ["ins", tier, key, val, c] =>
    match tier.toNat?, parseKeyTail key, parseValue val, parseBool c with
    | some tier, some key, some v, some c =>
      match writeChain (s.get tier) key v none c with
      | .ok r => (s.put tier r.table, s!"{r.addr} {hdrState r.table} {chainDigest r.table r.chain}")
      | .error e => (s, showWrErr e)
    | _, _, _, _ => (s, "bad-op")
  | ["rep", tier, addr, key, val, c] =>
    match tier.toNat?, addr.toNat?, parseKeyTail key, parseValue val, parseBool c with
    | some tier, some addr, some key, some v, some c =>
      match writeChain (s.get tier) key v (some addr) c with
      | .ok r => (s.put tier r.table, s!"{r.addr} {hdrState r.table} {chainDigest r.table r.chain}")
      | .error e => (s, showWrErr e)
    | _, _, _, _, _ => (s, "bad-op")
  | ["del", tier, addr] =>
    match tier.toNat?, addr.toNat? with
    | some tier, some addr =>
      match removePlan (s.get tier) addr with
      | .ok (t, _) => (s.put tier t, hdrState t)
      | .error e => (s, showWrErr e)
    | _, _ => (s, "bad-op")
  | ["ref", tier, addr, d] =>
    match tier.toNat?, addr.toNat? with
    | some tier, some addr =>
      if d = "+1" then
        let (t, kept) := changeRef (s.get tier) addr true
        (s.put tier t, s!"{if kept then 1 else 0} {hdrState t}")
      else if d = "-1" then
        match decRef (s.get tier) addr with
        | .ok (t, kept) => (s.put tier t, s!"{if kept then 1 else 0} {hdrState t}")
        | .error e => (s, showWrErr e)
      else (s, "bad-op")
    | _, _ => (s, "bad-op")
  | ["get", tier, addr, key] =>
    match tier.toNat?, addr.toNat?, parseKeyTail key with
    | some tier, some addr, some key =>
      match readChain (s.get tier) key addr with
      | .ok (some (v, c, rc)) => (s, s!"some {v.length} {if c then 1 else 0} {rc} {fnv v fnvInit}")
      | .ok none => (s, "none")
      | .error e => (s, showRdErr e)
    | _, _, _ => (s, "bad-op")
  | _ => (s, "bad-op")

end Driver

end Pdb.ValueTable
