/-
C10 / C14: the ref-count TABLES of a multitree column while the table grows
(src/column.rs: trigger_ref_count_reindex, search_all_ref_count, write_ref_count_plan_new,
write_ref_count_plan_existing, write_address_inc_ref_plan / write_address_dec_ref_plan with their
`table.id != tables.get_ref_count().id` branches, write_ref_count_reindex_plan, drop_ref_count).

The heap model (`Pdb.MultiTree.Heap.rc`) keeps ONE map "address ↦ count > 1".  The implementation
keeps a current table plus a queue of older, smaller tables that are being reindexed into it
(a table grows when one of its 32-entry chunks is full); an address may have entries in several
tables, the one found FIRST in search order (current table, then the queue newest first) counts,
older ones are stale.  `Tabs.abs` is that lookup; `Pdb/Proofs/C10RcTables.lean` proves that every
operation below refines the corresponding operation on the single map:

    abs (grow t)            = abs t
    abs (inc g t a)         = "count + 1, or 2 if absent"   at a, abs t elsewhere
    abs (dec g t a)         = "count - 1, removed at 1"      at a, abs t elsewhere
    abs (reindexEntry ..)   = abs t        abs (dropFront t) = abs t  (once the front table is reindexed)

`g` = number of times the current table has to grow before the new entry fits (chunk full: not
modelled, any number is allowed).  Tied to the implementation by the structural dumps of
harness/src/c10.rs (`effective_rc` = `abs` of the dumped tables = the oracle's counts > 1, at every
quiescent point of histories in which the table grows up to four times).
-/
import Pdb.Model.MultiTree

namespace Pdb.MultiTree.Rc

/-- address ↦ count (one table) -/
abbrev Tab := FMap Nat Nat

structure Tabs where
  cur : Tab
  /-- reindex queue, OLDEST first (`push_back` on growth, `front` is reindexed and dropped) -/
  queue : List Tab

def Tabs.empty : Tabs := ⟨.empty, []⟩

/-- first hit among tables listed in search order -/
def firstHit (a : Nat) : List Tab → Option Nat
  | [] => none
  | t :: ts => (t.get a).or (firstHit a ts)

/-- `search_all_ref_count`: current table, then the queue newest first -/
def Tabs.abs (t : Tabs) (a : Nat) : Option Nat := firstHit a (t.cur :: t.queue.reverse)

/-- `trigger_ref_count_reindex`: the current table is queued, a new empty one takes over -/
def Tabs.grow (t : Tabs) : Tabs := ⟨.empty, t.queue ++ [t.cur]⟩

def Tabs.growN : Nat → Tabs → Tabs
  | 0, t => t
  | n + 1, t => Tabs.growN n t.grow

/-- `write_ref_count_plan_new`: insert into the current table, growing it `g` times first -/
def Tabs.insertNew (g : Nat) (t : Tabs) (a c : Nat) : Tabs :=
  let t' := Tabs.growN g t
  { t' with cur := t'.cur.set a (some c) }

/-- `write_ref_count_plan_existing` with `Some(count)`: replace in the current table -/
def Tabs.replaceCur (t : Tabs) (a c : Nat) : Tabs := { t with cur := t.cur.set a (some c) }

/-- `write_ref_count_plan_existing` with `None`: remove from the table it was found in and from
    every other table -/
def Tabs.removeAll (t : Tabs) (a : Nat) : Tabs :=
  ⟨t.cur.set a none, t.queue.map (fun q => q.set a none)⟩

/-- `write_address_inc_ref_plan`: an entry found in the current table is replaced, one found in a
    queued table gets a NEW entry in the current table (the old one becomes stale), no entry: 2. -/
def Tabs.inc (g : Nat) (t : Tabs) (a : Nat) : Tabs :=
  match t.abs a with
  | some c => if (t.cur.get a).isSome then t.replaceCur a (c + 1) else t.insertNew g a (c + 1)
  | none => t.insertNew g a 2

/-- `write_address_dec_ref_plan` on an address with an entry: count - 1; an entry that stays > 1 is
    replaced (current table) or re-inserted (found in a queued table); at 1 it is removed from
    every table.  (Without an entry the node itself is freed: not a table operation.) -/
def Tabs.dec (g : Nat) (t : Tabs) (a : Nat) : Tabs :=
  match t.abs a with
  | some c =>
    if c - 1 > 1 then
      (if (t.cur.get a).isSome then t.replaceCur a (c - 1) else t.insertNew g a (c - 1))
    else t.removeAll a
  | none => t

/-- `write_ref_count_reindex_plan` for an entry `(a, c)` of the FRONT table of the queue: skipped if
    the current table or a queued table newer than the source has an entry for `a`. -/
def Tabs.reindexEntry (g : Nat) (t : Tabs) (a c : Nat) : Tabs :=
  if (t.cur.get a).isSome then t
  else if (firstHit a (t.queue.drop 1).reverse).isSome then t
  else t.insertNew g a c

/-- one reindex batch over a list of entries of the front table -/
def Tabs.reindexBatch (g : Nat) (t : Tabs) (es : List (Nat × Nat)) : Tabs :=
  es.foldl (fun t e => t.reindexEntry g e.1 e.2) t

/-- `drop_ref_count`: the exhausted front table is dropped -/
def Tabs.dropFront (t : Tabs) : Tabs := { t with queue := t.queue.drop 1 }

/-- the single-map operations of the heap model (`incRef` / `decRef` on `Heap.rc`) -/
def mapInc (m : Nat → Option Nat) (a : Nat) : Nat → Option Nat :=
  fun x => if x = a then some (match m a with | some c => c + 1 | none => 2) else m x

def mapDec (m : Nat → Option Nat) (a : Nat) : Nat → Option Nat :=
  fun x => if x = a then (match m a with
    | some c => if c - 1 > 1 then some (c - 1) else none
    | none => none) else m x

end Pdb.MultiTree.Rc
