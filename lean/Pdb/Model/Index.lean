/-
C09 / C14: executable model of the index layer of a parity-db hash column.

Rust anchors
  src/index.rs    IndexTable::{get, find_entry, entries, plan_insert_chunk, write_insert_plan,
                  plan_remove_chunk, write_remove_plan, recover_key_prefix, chunk_index}
  src/column.rs   HashColumn::{get, get_in_index, search_index, contains_partial_key_with_address,
                  search_all_indexes, write_plan, write_plan_existing, write_plan_new,
                  trigger_reindex, reindex, write_reindex_plan, drop_index, open_index},
                  Column::{write_existing_value_plan, write_new_value_plan}
  src/table.rs    ValueTable::{next_free, clear_slot}   (only the slot allocator: LIFO free list,
                  fill mark; the byte level is the subject of Pdb/Model/ValueTable.lean)
  src/db.rs       DbInner::{process_reindex, enact_logs (DropTable)}

WHAT IS MODELLED
  * Keys are 32-byte hashed keys, split as the code does: `prefix` = the big-endian u64 of
    bytes 0..8 (`TableKey::index_from_partial`), `tail` = bytes 6..32 (`PARTIAL_SIZE` = 26 bytes,
    the only part of the key stored with the value).  Bits 15..0 of the prefix are also the
    first two bytes of the tail; the index sees bits 63..14 (page + partial key).
  * An index table is `bits` plus a sparse map chunk -> page (64 entries, `List Nat`); every
    bit-level expression (`chunk_index`, `Entry.new/address/partial_key/extract_key`,
    `last_address`, `recover_index_key`, `total_chunks`, `MAX_REINDEX_BATCH`) is the generated
    one from `Pdb.Gen`.  Page search is `Pdb.IndexPage.findSse2` (x86_64 `find_entry`).
  * The column: current table, queue of older tables (oldest first, as `Reindex::queue`),
    reindex progress, the value tables seen as a map address -> (tail, value) plus, per size
    tier, the fill mark and the LIFO free list (so that addresses, and with them "same address
    already present" during reindex, are predicted exactly).  A value occupies its head slot
    (the address) plus `ext` continuation slots (`ext = 0` in the fixed-size tiers; in the
    multipart tier 255 `ext + 1` is the number of parts of the chain).  The allocator follows
    `overwrite_chain` / `clear_chain` slot by slot: the head is popped first, then the
    continuation slots (free list first, then fresh slots at the fill mark); a replacement in
    place keeps the first slots of the old chain and frees the surplus, last kept part first;
    a removal pushes the whole chain, so that the last part ends up on top of the free list.
    The continuation slots of the live values of a tier are kept in `Tier.chains`.
  * The model state is the LOGICAL state (files + log overlay), i.e. what planning
    (`process_commits`, `process_reindex`) reads and writes.  The only effect that happens at
    enact time and is visible to planning is `DropTable`: it is the separate step `enactDrop`.
  * `Cfg` selects between the code as it was and the code with the fixes delivered with this
    model (see FINDINGS): `exact`, `growOnMove` and `purge` (fix-c09-stale-index-entries: the
    write path removes the entries that go stale from the queued older tables, `purgeOlder`);
    the harness detects which variant it is running against.

FINDINGS reproduced on the real crate (see Pdb/Props/C09.lean for the Lean witnesses)
  F-C09-1  `cfg.exact = false`: below 18 index bits `find_entry_sse2` compares only 32 of the
           34/33 partial-key bits; `search_index` can return a stale entry of ANOTHER partial
           key whose slot has been reused by the key, and `plan_insert_chunk` then fails its
           `assert_eq!` on the partial key: the commit worker panics.
  F-C09-2  `cfg.growOnMove = false`: `write_plan_existing` returns `NeedReindex` from
           `write_insert_plan` without inserting anything: a key found in an older table whose
           value changes size tier while its page of the current table is full loses its index
           entry (value unreachable, slot leaked).

FINDINGS F28 / F29 (Lean witnesses in Pdb/Props/C09F24.lean for the code WITHOUT
fix-c09-stale-index-entries, `cfg.purge = false`; harness cases `directed-class-overflow`,
`directed-stale-class-overflow`, `directed-twin-tail`).  With `cfg.purge = true` (the fixed write
path: `writeExisting` removes the entries of a freed address from the queued tables) the stale
variant of F28 and F29 no longer occur (Pdb/Props/C09Stale.lean: `C09_twin_fixed`; both directed
cases agree with the fixed crate); F28 with 65 LIVE keys of one class remains.
With `cfg.purge = true` NO STALE ENTRY exists in any reachable state (`Pdb.Index.NoStale`,
`NoStale_run` in Pdb/Props/C09NoStale.lean; evaluated on dumps of the real crate by `t2 nostale`).
  F28  More than 64 index entries whose keys agree on the index page at every index size (e.g. on
       all 50 index-visible bits) cannot be separated by growth: every reindex pass over the queue
       front ends in another `trigger_reindex`, the index never settles (`C09_full_statement_false_65`;
       the real index file doubles per pass).  Entries whose slot has been freed or reused count as
       well: they are left behind in an older table by a size-tier change of their key
       (`writeExisting`, `j ≠ 0`) and copied by `reindexBatch` like live ones, so 64 live keys of
       one class are enough.  This is why the totality theorem (`C09_run_total`) bounds the number
       of `set` OPERATIONS per class of keys, not the number of keys.
  F29  Assumption A-tail (distinct hashed keys differ in bytes 6..32) is needed BY THE CODE BEFORE
       fix-c09-stale-index-entries (`cfg.purge = false`); for the fixed code it is not: `NoStale_run`
       (no stale entry in any reachable state) and `C09_lookup_latest_notail` (Pdb/Props/C09NoStale.lean)
       are proved without it, only keys equal on all 256 bits are identified.  Before the fix `searchTable`
       accepts a candidate entry when the slot holds the key's 26-byte tail.  Two keys that differ
       only in bytes 0..5 share the tail; a stale entry of the first one resolves to the value of
       the second one once it has taken the freed slot (`C09_full_statement_false_twin`).
       Reach of A-tail in the crate: non-uniform columns hash keys with salted Blake2b-256 (a pair
       needs a 208-bit partial collision: out of reach); uniform columns of format version 8 keep
       bytes 16..32 of the user key and replace bytes 0..16 by salted SipHash-1-3-128 of the whole
       key (a pair needs equal bytes 16..32 and an 80-bit partial collision of the SipHash output:
       about 2^40 trials for someone who knows the salt, which is stored in the metadata file);
       uniform columns of format versions 6 and 7 XOR the key with the salt and versions <= 5 use
       the key as it is, as does the test-only identity hash (zero salt with the instrumentation
       feature): there the user chooses the hashed keys.

DRIVER PROTOCOL (command `c09`, stateful; one output line per input line)
  c09 init <bits> <exact|sse2> <grow|nogrow> [purge|nopurge]   fresh column with `bits` index
                                   bits (default nopurge)                                -> ok
  c09 set <hexkey32> <valtoken>    plan `Operation::Set`; valtoken = `t<tier>_<anything>`,
                                   tier = size tier of the stored value (0..254), or
                                   `t255_<len>_<anything>`: a value of `len` bytes in the
                                   multipart tier (uncompressed plain hash column: the number
                                   of parts is computed from `len`)                      -> ok
  c09 del <hexkey32>               plan `Operation::Dereference`                         -> ok
  c09 get <hexkey32>               `HashColumn::get`                     -> some <valtoken> | none
  c09 reindex                      one `process_reindex` batch                           -> ok
  c09 mark                         end of the log record the preceding set/del/reindex lines
                                   belong to: verdict of the record      -> ok | panic | diverge
                                   (after a panic the remaining lines of the record are ignored
                                   and no snapshot is taken; the implementation handle is dead)
  c09 enact                        every logged record has been enacted: a logged
                                   `DropTable` takes effect                              -> ok
  c09 reopen                       clean close + open (`open_index`)                     -> ok
  c09 crashto <n> <g>              crash recovery ended in the state of the first n log records:
                                   restore that snapshot, replay (`enactDrop`), `reopen`, then
                                   `g` growths re-launched by the validation of a rejected
                                   tail record (`validate_plan`: "Missing table, starting reindex")
                                   -> the `stat` line of the recovered state | err:no-such-record
  c09 stat   -> bits=<b> older=<n> prog=<p> cur=<entries in current> old=<e1,e2,..|->
  c09 slots  -> live=<live slots> tiers=<tier:filled:freeLen,..|->   (allocator state)
  anything malformed -> bad-op

This file imports only `Pdb.Gen.*`, `Pdb.Model.IndexPage` and core.
-/
import Pdb.Gen.Prim
import Pdb.Gen.Consts
import Pdb.Gen.Bits
import Pdb.Model.IndexPage

namespace Pdb.Index
open Pdb.Gen Pdb.IndexPage

/-! ## A small persistent map `Nat -> α` (radix tree on the low bits, association-list buckets)

Functions as state would be compiled to closures that get slower with every update; this
structure is executable, kernel-reducible and has a one-line specification
(`Trie.get_set` in Pdb/Proofs/C09Map.lean). -/

inductive Trie (α : Type) where
  | bucket : List (Nat × α) → Trie α
  | node : Trie α → Trie α → Trie α

def alGet {α : Type} : List (Nat × α) → Nat → Option α
  | [], _ => none
  | (k', v) :: r, k => if k' = k then some v else alGet r k

def alErase {α : Type} : List (Nat × α) → Nat → List (Nat × α)
  | [], _ => []
  | (k', v) :: r, k => if k' = k then alErase r k else (k', v) :: alErase r k

def alSet {α : Type} (l : List (Nat × α)) (k : Nat) : Option α → List (Nat × α)
  | none => alErase l k
  | some v => (k, v) :: alErase l k

def Trie.empty {α : Type} : Trie α := .bucket []

def Trie.get {α : Type} : Trie α → Nat → Option α
  | .bucket l, k => alGet l k
  | .node l r, k => if k % 2 = 0 then l.get (k / 2) else r.get (k / 2)

/-- a fresh path of `d` levels for one key -/
def Trie.single {α : Type} : Nat → Nat → α → Trie α
  | 0, k, v => .bucket [(k, v)]
  | d + 1, k, v =>
    if k % 2 = 0 then .node (Trie.single d (k / 2) v) (.bucket [])
    else .node (.bucket []) (Trie.single d (k / 2) v)

/-- `set d t k o`: bind `k` to `o` (`none` erases); `d` = levels an empty bucket may still be
split into. -/
def Trie.set {α : Type} : Nat → Trie α → Nat → Option α → Trie α
  | d, .bucket [], k, some v => Trie.single d k v
  | _, .bucket [], _, none => .bucket []
  | _, .bucket (x :: l), k, o => .bucket (alSet (x :: l) k o)
  | d, .node l r, k, o =>
    if k % 2 = 0 then .node (Trie.set (d - 1) l (k / 2) o) r
    else .node l (Trie.set (d - 1) r (k / 2) o)

/-- radix depth used by the model -/
def DEPTH : Nat := 22

/-! ## Keys, slots, configuration -/

abbrev Val := String

/-- A hashed key: `prefix` = u64 of bytes 0..8, `tail` = bytes 6..32 as a number. -/
structure Key where
  pre : Nat
  tail : Nat
deriving DecidableEq, Repr

/-- A live value slot: the stored key tail and the value. -/
structure Slot where
  tail : Nat
  val : Val
deriving DecidableEq, Repr

structure Cfg where
  /-- `find_entry` confirms the whole partial key (fix-c09-sse2-partial-key). -/
  exact : Bool
  /-- a moved value whose new entry does not fit grows the index (fix-c09-move-into-full-page) -/
  growOnMove : Bool
  /-- when a value slot is freed (removal, move to another size tier) the entries of the key that
  point to it are removed from the queued older tables as well (fix-c09-stale-index-entries) -/
  purge : Bool
deriving DecidableEq, Repr

/-! ## Index tables -/

def emptyPage : List Nat := List.replicate INDEX_CHUNK_ENTRIES 0

structure Table where
  bits : Nat
  pages : Trie (List Nat)
  /-- number of non-empty entries (bookkeeping for `stat`) -/
  count : Nat

def Table.new (bits : Nat) : Table := ⟨bits, Trie.empty, 0⟩

/-- `IndexTable::entries(chunk)` -/
def Table.page (t : Table) (c : Nat) : List Nat := (t.pages.get c).getD emptyPage

def Table.setPage (t : Table) (c : Nat) (p : List Nat) (count : Nat) : Table :=
  { t with pages := t.pages.set DEPTH c (some p), count := count }

/-- `IndexTable::chunk_index(key_prefix)` -/
def Table.chunk (t : Table) (kp : Nat) : Nat := chunk_index t.bits kp

/-- The fixed `find_entry`: confirm the candidate's partial key, keep scanning otherwise. -/
def findConfirm (ib kp : Nat) (page : List Nat) : Nat → Nat → Option Nat
  | 0, _ => none
  | f + 1, p =>
    match findSse2 ib kp p page with
    | none => none
    | some i =>
      if Entry.partial_key (entryAt page i) ib = Entry.extract_key kp ib then some i
      else findConfirm ib kp page f (i + 1)

/-- `IndexTable::find_entry` on x86_64. -/
def findEntry (exact : Bool) (ib kp p : Nat) (page : List Nat) : Option Nat :=
  if exact then findConfirm ib kp page (INDEX_CHUNK_ENTRIES + 1) p else findSse2 ib kp p page

/-- The candidate loop shared by `get_in_index`, `search_index` and
`contains_partial_key_with_address`: next candidate from `p`, accept it if `ok (address)`,
otherwise continue after it.  Result: (sub_index, address). -/
def scanPage (exact : Bool) (ib kp : Nat) (page : List Nat) (ok : Nat → Bool) :
    Nat → Nat → Option (Nat × Nat)
  | 0, _ => none
  | f + 1, p =>
    match findEntry exact ib kp p page with
    | none => none
    | some i =>
      let a := Entry.address (entryAt page i) ib
      if ok a then some (i, a) else scanPage exact ib kp page ok f (i + 1)

def SCAN_FUEL : Nat := INDEX_CHUNK_ENTRIES + 1

/-- first empty slot of a page (`for i in 0..CHUNK_ENTRIES { if entry.is_empty() ..`) -/
def firstEmpty (page : List Nat) : Nat → Nat → Option Nat
  | 0, _ => none
  | f + 1, i => if entryAt page i = 0 then some i else firstEmpty page f (i + 1)

inductive Plan where
  | written (t : Table)
  | needReindex
  | skipped
  | panic

/-- `write_insert_plan` / `plan_insert_chunk`. -/
def Table.insert (t : Table) (kp addr : Nat) (sub : Option Nat) : Plan :=
  if addr > Entry.last_address t.bits then .needReindex
  else
    let c := t.chunk kp
    let page := t.page c
    let new := Entry.new addr (Entry.extract_key kp t.bits) t.bits
    match sub with
    | some i =>
      -- assert_eq!(entry.partial_key(bits), new_entry.partial_key(bits))
      if Entry.partial_key (entryAt page i) t.bits = Entry.partial_key new t.bits then
        .written (t.setPage c (page.set i new) t.count)
      else .panic
    | none =>
      match firstEmpty page INDEX_CHUNK_ENTRIES 0 with
      | some i => .written (t.setPage c (page.set i new) (t.count + 1))
      | none => .needReindex

/-- `write_remove_plan` / `plan_remove_chunk`: `none` = `PlanOutcome::Skipped`. -/
def Table.remove (t : Table) (kp i : Nat) : Option Table :=
  let c := t.chunk kp
  let page := t.page c
  let e := entryAt page i
  if e ≠ 0 ∧ Entry.partial_key e t.bits = Entry.extract_key kp t.bits then
    some (t.setPage c (page.set i 0) (t.count - 1))
  else none

/-- `remove_from_queued_indexes` on one table: the candidates of the key's partial key are
visited as `search_index` visits them (`index.get(key, sub_index + 1, ..)`); a candidate whose
address is `a` is removed with `write_remove_plan`. -/
def purgeTable (exact : Bool) (kp a : Nat) : Nat → Table → Nat → Table
  | 0, t, _ => t
  | f + 1, t, p =>
    match findEntry exact t.bits kp p (t.page (t.chunk kp)) with
    | none => t
    | some i =>
      purgeTable exact kp a f
        (if Entry.address (entryAt (t.page (t.chunk kp)) i) t.bits = a then (t.remove kp i).getD t else t)
        (i + 1)

/-! ## Value tables (abstract): slots by address, allocator per size tier -/

structure Tier where
  filled : Nat
  /-- free list, head = `last_removed` -/
  free : List Nat
  /-- the live values that occupy more than one slot: offset of the head slot and the
  continuation slots in chain order -/
  chains : List (Nat × List Nat)

def Tier.init : Tier := ⟨1, [], []⟩

/-- continuation slots of the value whose head slot is `h` (`[]`: a one-slot value) -/
def chainRest : List (Nat × List Nat) → Nat → List Nat
  | [], _ => []
  | (h', r) :: l, h => if h' = h then r else chainRest l h

/-- forget the chain of head `h` -/
def chainDrop : List (Nat × List Nat) → Nat → List (Nat × List Nat)
  | [], _ => []
  | (h', r) :: l, h => if h' = h then chainDrop l h else (h', r) :: chainDrop l h

/-- record `r` as the continuation of head `h` (nothing is recorded for a one-slot value) -/
def chainPut (l : List (Nat × List Nat)) (h : Nat) (r : List Nat) : List (Nat × List Nat) :=
  if r.isEmpty then chainDrop l h else (h, r) :: chainDrop l h

/-- all continuation slots -/
def ownedOf : List (Nat × List Nat) → List Nat
  | [] => []
  | (_, r) :: l => r ++ ownedOf l

/-- `overwrite_chain` on the chain of head `h`, seen from the allocator: the value now takes `m`
continuation slots.  The first `m` old continuation slots are kept, missing ones are popped from
the free list, then taken at the fill mark; surplus old slots are pushed on the free list in
chain order (`clear_chain`), so the last one ends up on top. -/
def Tier.resize (t : Tier) (h m : Nat) : Tier :=
  let rest := chainRest t.chains h
  ⟨t.filled + (m - rest.length - t.free.length),
   (rest.drop m).reverse ++ t.free.drop (m - rest.length),
   chainPut t.chains h (rest.take m ++ (t.free.take (m - rest.length) ++
     List.range' t.filled (m - rest.length - t.free.length)))⟩

structure Col where
  cfg : Cfg
  current : Table
  /-- `Reindex::queue`, oldest first -/
  older : List Table
  progress : Nat
  values : Trie Slot
  tiers : Trie Tier
  nLive : Nat

def Col.init (cfg : Cfg) (bits : Nat) : Col :=
  ⟨cfg, Table.new bits, [], 0, Trie.empty, Trie.empty, 0⟩

def Col.valAt (s : Col) (a : Nat) : Option Slot := s.values.get a

def Col.tier (s : Col) (t : Nat) : Tier := (s.tiers.get t).getD Tier.init

/-- tail stored at an address (`partial_key_at` / the `Check` of `for_parts`) -/
def Col.tailAt (s : Col) (a : Nat) : Option Nat := (s.valAt a).map (·.tail)

/-- search order: current table, then the queue front to back (`get`, `search_all_indexes`) -/
def Col.tables (s : Col) : List Table := s.current :: s.older

/-- `ValueTable::next_free` (the head slot of a new value) -/
def Col.alloc (s : Col) (tier : Nat) : Nat × Col :=
  let t := s.tier tier
  match t.free with
  | o :: rest => (o, { s with tiers := s.tiers.set DEPTH tier (some ⟨t.filled, rest, t.chains⟩) })
  | [] => (t.filled, { s with tiers := s.tiers.set DEPTH tier (some ⟨t.filled + 1, [], t.chains⟩) })

/-- continuation slots of the value at offset `off` of tier `tier` -/
def Col.restAt (s : Col) (tier off : Nat) : List Nat := chainRest (s.tier tier).chains off

/-- `ValueTable::write_remove_plan` (allocator part): `clear_slot` for a one-slot value,
`clear_chain` for a chain - every slot of the chain is pushed, head first. -/
def Col.release (s : Col) (tier off : Nat) : Col :=
  let t := s.tier tier
  let t' : Tier := ⟨t.filled, (off :: chainRest t.chains off).reverse ++ t.free, chainDrop t.chains off⟩
  { s with tiers := s.tiers.set DEPTH tier (some t') }

/-- the value at offset `h` of tier `tier` now takes `m` continuation slots (`Tier.resize`) -/
def Col.resize (s : Col) (tier h m : Nat) : Col :=
  { s with tiers := s.tiers.set DEPTH tier (some ((s.tier tier).resize h m)) }

def Col.setVal (s : Col) (a : Nat) (o : Option Slot) (nLive : Nat) : Col :=
  { s with values := s.values.set DEPTH a o, nLive := nLive }

/-! ## Lookup -/

/-- `search_index` / `get_in_index` on one table: (sub_index, address) of the first candidate
whose slot holds the key's tail. -/
def searchTable (s : Col) (t : Table) (k : Key) : Option (Nat × Nat) :=
  scanPage s.cfg.exact t.bits k.pre (t.page (t.chunk k.pre))
    (fun a => s.tailAt a == some k.tail) SCAN_FUEL 0

def searchOlder (s : Col) (k : Key) : List Table → Nat → Option (Nat × Nat × Nat)
  | [], _ => none
  | t :: ts, j =>
    match searchTable s t k with
    | some (i, a) => some (j, i, a)
    | none => searchOlder s k ts (j + 1)

/-- `search_all_indexes`: (table number in search order, sub_index, address). -/
def searchAll (s : Col) (k : Key) : Option (Nat × Nat × Nat) :=
  searchOlder s k s.tables 0

/-- `HashColumn::get` -/
def lookup (s : Col) (k : Key) : Option Val :=
  (searchAll s k).bind (fun r => (s.valAt r.2.2).map (·.val))

/-! ## Growth -/

/-- `trigger_reindex` -/
def triggerReindex (s : Col) : Col :=
  { s with current := Table.new (s.current.bits + 1), older := s.older ++ [s.current] }

inductive Res where
  | ok (s : Col)
  | panic
  | diverge

/-- one iteration of the insert loop: `r` is the outcome of `write_insert_plan`, `next` the rest
of the loop after `trigger_reindex`.  (Kept apart from the recursion: a `match` on the insert
outcome inside the recursive function makes Lean's equation compiler normalise
`addr > last_address`, i.e. count up to 2^64.) -/
def insertCont (s : Col) (r : Plan) (next : Unit → Res) : Res :=
  match r with
  | .written t => .ok { s with current := t }
  | .needReindex => next ()
  | .skipped => .ok s
  | .panic => .panic

/-- `while let NeedReindex = tables.index.write_insert_plan(key, address, None, log)
{ trigger_reindex }` -/
def insertLoop (s : Col) (kp addr : Nat) : Nat → Res
  | 0 => .diverge
  | f + 1 =>
    insertCont s (s.current.insert kp addr none)
      (fun _ => insertLoop (triggerReindex s) kp addr f)

/-- fuel of the insert loop (more than the 49 possible growth steps).  Irreducible so that the
elaborator never unfolds `insertLoop .. LOOP_FUEL` while checking definitional equalities. -/
@[irreducible] def LOOP_FUEL : Nat := 64

/-! ## Planned writes -/

/-- `write_plan_new`; the value takes `ext` continuation slots besides its head slot -/
def writeNew (s : Col) (k : Key) (tier ext : Nat) (v : Val) : Res :=
  let r := s.alloc tier
  let a := Address.new r.1 tier
  let s2 := (r.2.setVal a (some ⟨k.tail, v⟩) (r.2.nLive + 1)).resize tier r.1 ext
  insertLoop s2 k.pre a LOOP_FUEL

/-- table number `j` of the search order -/
def Col.tableAt (s : Col) (j : Nat) : Table := s.tables.getD j s.current

def Col.setTableAt (s : Col) (j : Nat) (t : Table) : Col :=
  match j with
  | 0 => { s with current := t }
  | j + 1 => { s with older := s.older.set j t }

/-- value-table part of a tier move: `write_remove_plan` on the old tier, `write_insert_plan` on
the new one.  Result: (new address, state). -/
def moveValue (s : Col) (k : Key) (a tier' ext : Nat) (v : Val) : Nat × Col :=
  let s1 := (s.release (Address.size_tier a) (Address.offset a)).setVal a none s.nLive
  let r := s1.alloc tier'
  let a' := Address.new r.1 tier'
  (a', (r.2.setVal a' (some ⟨k.tail, v⟩) r.2.nLive).resize tier' r.1 ext)

/-- `write_plan_existing` for a key found at (table `j`, `sub`, address `a`); a `Set` is
`some (tier, ext, value)`: size tier and number of continuation slots of the stored value.
This is the function WITHOUT the removal of the entries that go stale (`cfg.purge = false`:
the code before fix-c09-stale-index-entries); `writeExisting` below adds it. -/
def writeExisting0 (s : Col) (k : Key) (op : Option (Nat × Nat × Val)) (j sub a : Nat) : Res :=
  match op with
  | some (tier', ext, v) =>
    if Address.size_tier a = tier' then
      -- write_replace_plan: same head slot, the chain is cut or extended
      .ok ((s.setVal a (some ⟨k.tail, v⟩) s.nLive).resize tier' (Address.offset a) ext)
    else
      let m := moveValue s k a tier' ext v
      -- `tables.index.write_insert_plan(key, value_address, sub_index, log)`; with
      -- `growOnMove = false` a `NeedReindex` outcome is returned without inserting anything
      insertCont m.2 (m.2.current.insert k.pre m.1 (if j = 0 then some sub else none))
        (fun _ => if s.cfg.growOnMove then insertLoop (triggerReindex m.2) k.pre m.1 LOOP_FUEL
          else .ok m.2)
  | none =>
    let s1 := (s.release (Address.size_tier a) (Address.offset a)).setVal a none (s.nLive - 1)
    match (s1.tableAt j).remove k.pre sub with
    | some t => .ok (s1.setTableAt j t)
    | none => .ok s1

def Res.map (f : Col → Col) : Res → Res
  | .ok s => .ok (f s)
  | .panic => .panic
  | .diverge => .diverge

/-- does the operation free the value slot at address `a`?  (`Dereference`, or a `Set` whose
stored value belongs to another size tier: `write_existing_value_plan` returns `(None, _)`) -/
def frees (op : Option (Nat × Nat × Val)) (a : Nat) : Bool :=
  match op with
  | some (tier', _, _) => Address.size_tier a != tier'
  | none => true

/-- `remove_from_queued_indexes` (fix-c09-stale-index-entries): every entry that maps the key's
partial key to the freed address `a` is removed from the queued tables.  With `cfg.purge = false`
(the code before that fix) nothing happens. -/
def purgeOlder (s : Col) (kp a : Nat) : Col :=
  if s.cfg.purge then
    { s with older := s.older.map (fun t => purgeTable s.cfg.exact kp a SCAN_FUEL t 0) }
  else s

/-- `write_plan_existing` of the fixed code.  When the operation frees the slot at `a`, the entry
the key was found through is replaced in place / removed as before (`writeExisting0`), and every
entry (partial key of `k`, `a`) is removed from the queued tables.

The model applies the removal to the queue of the RESULT state.  The code does it in
`write_plan_existing`, i.e. before a growth the move may trigger, and removes the found entry
itself by `index.write_remove_plan(key, sub_index)` when it was not replaced in place.  Both
give the same tables: (i) the found entry of an older table has address `a` and is a candidate
of the key's partial key, so the removal loop meets it; (ii) a current table that is queued
by the growth of this very operation either holds the found entry (`j = 0`, address overflow:
the code removes it at `sub_index`, the loop removes it as the candidate with address `a`) or
holds no candidate with address `a` at all (`j ≠ 0`: `search_index` looked there first and
would have accepted it); (iii) the tables created by the growth hold only the new entry,
whose address lies in another size tier. -/
def writeExisting (s : Col) (k : Key) (op : Option (Nat × Nat × Val)) (j sub a : Nat) : Res :=
  if frees op a then (writeExisting0 s k op j sub a).map (fun s' => purgeOlder s' k.pre a)
  else writeExisting0 s k op j sub a

/-- `HashColumn::write_plan`; `op = some (tier, ext, value)` is `Set`, `none` is `Dereference`. -/
def write (s : Col) (k : Key) (op : Option (Nat × Nat × Val)) : Res :=
  match searchAll s k with
  | some (j, sub, a) => writeExisting s k op j sub a
  | none =>
    match op with
    | some (tier, ext, v) => writeNew s k tier ext v
    | none => .ok s

/-! ## Reindex -/

/-- entries of one source chunk as (recovered key prefix, address) (`reindex`, inner loop) -/
def collectChunk (bits chunk : Nat) (page : List Nat) : List (Nat × Nat) :=
  page.filterMap (fun e =>
    if e = 0 then none else some (recover_index_key bits chunk e, Entry.address e bits))

/-- `while source_index < total_chunks && plan.len() < MAX_REINDEX_BATCH`; `acc` holds the
plan so far in REVERSE order, `n` its length.  Result: (reversed plan, new progress). -/
def collectPlan (t : Table) : Nat → Nat → List (Nat × Nat) → Nat → List (Nat × Nat) × Nat
  | 0, c, acc, _ => (acc, c)
  | f + 1, c, acc, n =>
    if c < total_chunks t.bits ∧ n < MAX_REINDEX_BATCH then
      let es := collectChunk t.bits c (t.page c)
      collectPlan t f (c + 1) (es.reverse ++ acc) (n + es.length)
    else (acc, c)

/-- `contains_partial_key_with_address` on the current table -/
def containsAddr (s : Col) (kp addr : Nat) : Bool :=
  (scanPage s.cfg.exact s.current.bits kp (s.current.page (s.current.chunk kp))
    (fun a => a == addr) SCAN_FUEL 0).isSome

/-- `write_reindex_plan` -/
def writeReindex (s : Col) (kp addr : Nat) : Res :=
  if containsAddr s kp addr then .ok s else insertLoop s kp addr LOOP_FUEL

def Res.bind (r : Res) (f : Col → Res) : Res :=
  match r with
  | .ok s => f s
  | .panic => .panic
  | .diverge => .diverge

def applyPlan (s : Col) : List (Nat × Nat) → Res
  | [] => .ok s
  | (kp, a) :: rest => (writeReindex s kp a).bind (fun s' => applyPlan s' rest)

/-- One `process_reindex` batch (`HashColumn::reindex` + the `write_reindex_plan` loop).  When
the source is exhausted the batch logs `DropTable`; the table stays queued until `enactDrop`. -/
def reindexBatch (s : Col) : Res :=
  match s.older with
  | [] => .ok s
  | t0 :: _ =>
    if s.progress = total_chunks t0.bits then .ok s
    else
      let r := collectPlan t0 (total_chunks t0.bits - s.progress) s.progress [] 0
      applyPlan { s with progress := r.2 } r.1.reverse

/-- A `DropTable` record has been logged for the queue front and not yet enacted. -/
def dropPending (s : Col) : Bool :=
  match s.older with
  | [] => false
  | t0 :: _ => s.progress == total_chunks t0.bits

/-- `drop_index` when the `DropTable` record is enacted. -/
def enactDrop (s : Col) : Col :=
  if dropPending s then { s with older := s.older.tail, progress := 0 } else s

/-! ## Reopen (`open_index`) -/

/-- insert into a list sorted by ascending `bits` -/
def insertByBits (t : Table) : List Table → List Table
  | [] => [t]
  | u :: us => if t.bits ≤ u.bits then t :: u :: us else u :: insertByBits t us

def sortByBits (ts : List Table) : List Table := ts.foldr insertByBits []

/-- `open_index` on the set of index files present: the one with the most bits is the main
index, the others are queued for reindexing, oldest (fewest bits) first.  `none` if there is
no file (the code then creates an empty table with `MIN_INDEX_BITS`). -/
def openIndex (files : List Table) : Option (Table × List Table) :=
  let sorted := sortByBits files
  match sorted.getLast? with
  | none => none
  | some top => some (top, sorted.dropLast)

/-- An index file exists once a write to the table has been enacted.  A table created by
`trigger_reindex` is written to in the same record, so at a record boundary only a table
re-launched by the validation of a rejected record (`relaunch`) can be without a file. -/
def Table.hasFile (t : Table) : Bool :=
  match t.pages with
  | .bucket [] => false
  | _ => true

/-- clean close + open: the files are the written tables of the state; the progress counter is
lost; without any file `open_index` creates a table with `MIN_INDEX_BITS`. -/
def reopen (s : Col) : Col :=
  match openIndex ((s.current :: s.older).filter Table.hasFile) with
  | some (top, rest) => { s with current := top, older := rest, progress := 0 }
  | none => { s with current := Table.new MIN_INDEX_BITS, older := [], progress := 0 }

/-- crash recovery to the log prefix whose planning state is `s`: the log is replayed
(a logged `DropTable` is enacted), then the tables are reopened. -/
def recover (s : Col) : Col := reopen (enactDrop s)

/-- Recovery validates the first rejected record too: if it names a table that does not exist
yet, `validate_plan` re-launches the growth (`trigger_reindex`) before the record is dropped.
`g` = number of growths re-launched that way. -/
def relaunch (s : Col) : Nat → Col
  | 0 => s
  | g + 1 => relaunch (triggerReindex s) g

/-! ## Driver -/

def hexVal (c : Char) : Option Nat :=
  if '0' ≤ c ∧ c ≤ '9' then some (c.toNat - '0'.toNat)
  else if 'a' ≤ c ∧ c ≤ 'f' then some (c.toNat - 'a'.toNat + 10)
  else if 'A' ≤ c ∧ c ≤ 'F' then some (c.toNat - 'A'.toNat + 10)
  else none

def hexNat? : List Char → Nat → Option Nat
  | [], acc => some acc
  | c :: cs, acc =>
    match hexVal c with
    | some d => hexNat? cs (acc * 16 + d)
    | none => none

/-- 64 hex digits -> key (prefix = bytes 0..8, tail = bytes 6..32) -/
def parseKey (s : String) : Option Key :=
  let cs := s.toList
  if cs.length ≠ 64 then none
  else
    match hexNat? (cs.take 16) 0, hexNat? (cs.drop 12) 0 with
    | some p, some t => some ⟨p, t⟩
    | _, _ => none

/-- number of parts `overwrite_chain` cuts `rem` bytes (key tail + value) into: while the
remainder exceeds `fs` = entry size - SIZE_SIZE a part of `cap` = `fs - INDEX_SIZE` bytes -/
def partsLoop (fs cap : Nat) : Nat → Nat → Nat
  | 0, _ => 1
  | f + 1, rem => if fs < rem then 1 + partsLoop fs cap f (rem - cap) else 1

/-- continuation slots of an uncompressed value of `len` bytes in the multipart table of a plain
hash column (no reference counter) -/
def extOfLen (len : Nat) : Nat :=
  partsLoop (MULTIPART_ENTRY_SIZE - SIZE_SIZE) (MULTIPART_ENTRY_SIZE - SIZE_SIZE - INDEX_SIZE)
    (len + PARTIAL_SIZE) (len + PARTIAL_SIZE) - 1

/-- `t<tier>_...` -> (tier, continuation slots); `t255_<len>_...` for the multipart tier -/
def parseTier (tok : String) : Option (Nat × Nat) :=
  match tok.toList with
  | 't' :: rest =>
    let ds := rest.takeWhile (· ≠ '_')
    match (String.ofList ds).toNat? with
    | some n =>
      if n < 255 then some (n, 0)
      else if n = 255 then
        let ls := ((rest.dropWhile (· ≠ '_')).drop 1).takeWhile (· ≠ '_')
        (String.ofList ls).toNat?.map (fun len => (255, extOfLen len))
      else none
    | none => none
  | _ => none

def showOpt : Option String → String
  | some v => "some " ++ v
  | none => "none"

def commaJoin : List Nat → String
  | [] => "-"
  | [x] => toString x
  | x :: xs => toString x ++ "," ++ commaJoin xs

def stat (s : Col) : String :=
  s!"bits={s.current.bits} older={s.older.length} prog={s.progress} cur={s.current.count} old={commaJoin (s.older.map (·.count))}"

/-- per tier with at least one slot ever used: `tier:filled:freeLen` -/
def tierStat (s : Col) : Nat → Nat → List String
  | 0, _ => []
  | f + 1, t =>
    match s.tiers.get t with
    | some x => s!"{t}:{x.filled}:{x.free.length}" :: tierStat s f (t + 1)
    | none => tierStat s f (t + 1)

def slotStat (s : Col) : String :=
  let ts := tierStat s 256 0
  s!"live={s.nLive} tiers={if ts.isEmpty then "-" else ",".intercalate ts}"

structure DState where
  col : Col
  /-- `snaps[n]` = planning state after `n` log records -/
  snaps : Array Col
  /-- a planning step of the current record panicked / did not terminate -/
  failed : Option String

def DState.init : DState := ⟨Col.init ⟨false, false, false⟩ MIN_INDEX_BITS, #[], none⟩

/-- outcome of a planning step inside a record: the verdict is reported by `mark` -/
def resLine (d : DState) : Res → DState × String
  | .ok s => ({ d with col := s }, "ok")
  | .panic => ({ d with failed := some "panic" }, "ok")
  | .diverge => ({ d with failed := some "diverge" }, "ok")

def initCmd (d : DState) (b e g pu : String) : DState × String :=
  match b.toNat?, (if e = "exact" then some true else if e = "sse2" then some false else none),
      (if g = "grow" then some true else if g = "nogrow" then some false else none),
      (if pu = "purge" then some true else if pu = "nopurge" then some false else none) with
  | some bits, some ex, some gr, some pg =>
    if MIN_INDEX_BITS ≤ bits ∧ bits ≤ 40 then
      let c := Col.init ⟨ex, gr, pg⟩ bits
      (⟨c, #[c], none⟩, "ok")
    else (d, "bad-op")
  | _, _, _, _ => (d, "bad-op")

def step (d : DState) (ws : List String) : DState × String :=
  match ws with
  | ["init", b, e, g] => initCmd d b e g "nopurge"
  | ["init", b, e, g, pu] => initCmd d b e g pu
  | ["set", k, v] =>
    match parseKey k, parseTier v with
    | some key, some te =>
      if d.failed.isSome then (d, "ok") else resLine d (write d.col key (some (te.1, te.2, v)))
    | _, _ => (d, "bad-op")
  | ["del", k] =>
    match parseKey k with
    | some key => if d.failed.isSome then (d, "ok") else resLine d (write d.col key none)
    | none => (d, "bad-op")
  | ["get", k] =>
    match parseKey k with
    | some key => (d, showOpt (lookup d.col key))
    | none => (d, "bad-op")
  | ["reindex"] => if d.failed.isSome then (d, "ok") else resLine d (reindexBatch d.col)
  | ["mark"] =>
    match d.failed with
    | some f => (d, f)
    | none => ({ d with snaps := d.snaps.push d.col }, "ok")
  | ["enact"] => ({ d with col := enactDrop d.col }, "ok")
  | ["reopen"] => ({ d with col := reopen d.col }, "ok")
  | ["crashto", n, g] =>
    match n.toNat?, g.toNat? with
    | some n, some g =>
      match d.snaps[n]? with
      | some s =>
        let c := relaunch (recover s) g
        (⟨c, (d.snaps.extract 0 n).push c, none⟩, stat c)
      | none => (d, "err:no-such-record")
    | _, _ => (d, "bad-op")
  | ["stat"] => (d, stat d.col)
  | ["slots"] => (d, slotStat d.col)
  | _ => (d, "bad-op")

end Pdb.Index
