/-
C17 model: column options text codec, metadata file, option validation at open,
column-file selection by name prefix, and the column administration calls at the
level of "which files are deleted, how the metadata file changes".

Rust anchors
  src/options.rs   ColumnOptions::{as_string, from_string, is_valid},
                   Options::{write_metadata_file_with_version, load_metadata_file,
                   load_and_validate_metadata}
  src/compress.rs  `impl From<u8> for CompressionType` (panics on an unknown code; since
                   fix-c17-compression-code-panic `from_string` rejects such a code first)
  src/db.rs        DbInner::open (directory check, lock file, metadata),
                   Db::{precheck_column_operation, add_column, drop_last_column,
                   reset_column, remove_column_files}
  src/column.rs    Column::drop_files
  src/index.rs, src/table.rs, src/ref_count.rs   TableId::{file_name, is_file_name}
  src/migration.rs clear_column

Text is `List Char` everywhere (one representation; `String` only at the driver
boundary).  This file imports only `Pdb.Gen.*` and core: it is linked into the
compiled correspondence driver.

T0 TIE.  Every string literal, format string and small decision table of the Rust anchors
is taken from `Pdb.Gen.Text` (regenerated from /repo/src by tools/rs2lean_text.py on every
check run): the `as_string` format pieces and argument order, the `from_string` split
literals / keys / required-or-default table / compression guard, the metadata line formats,
join separator, split character and the keys tested by the loader, the `file_name` /
`is_file_name` formats of the three table kinds, the `||` chain of `is_file_name` tests in
`Column::drop_files`, `log{id}`, `metadata`, `lock`, the
`is_valid` conditions and the `CompressionType` discriminants.  What stays hand-written is
the SEMANTICS of the library calls (`format!`, `split`, `lines`, `parse`, `starts_with`) and
the binding of Rust field names / argument expressions to the fields of the Lean structures
(`argText`, `nameArg`, `fromString`).  The side conditions the theorems need about the
generated constants are discharged by `decide` in Pdb/Proofs/C17Gen.lean.

MODELLING BOUNDARY
  * A directory is a partial function from file names to contents.  Contents are
    either text (only the `metadata` file is ever parsed) or opaque data.  I/O
    errors, the OS lock (`Error::Locked`), non-UTF-8 file names (skipped by
    `drop_files`) are outside the model.
  * The model follows the tree WITH the C17 fixes applied (fixes/fix-c17-*.diff):
    open without create checks for the metadata file before it creates `lock`; the handle
    always uses the stored salt; the administration calls keep the stored salt and format
    version; `add_column` / `drop_last_column` refuse more than 256 columns; `clear_column`
    opens and closes the database first; unknown compression codes and salts of the wrong
    length are `Corruption` errors.
  * What a successful `Db::open` + `drop` does to the directory after the metadata
    check (log replay into the tables, log removal, later failures of `Log::open` /
    `Column::open`) is an abstract parameter `replay`; its correctness is the subject
    of other properties.  The administration calls are described relative to it.

DRIVER PROTOCOL (command `c17`, see `driverLine` at the end of the file)
  enc <p> <u> <r> <comp 0..2> <o> <m> <a> <d>      bools 0/1 -> the as_string text
  dec x<hex>          <hex> = lower/upper-case hex of the UTF-8 bytes of the text
                      given to from_string (the leading `x` keeps the empty text a
                      non-empty argument) -> `none` | `panic` |
                      `<p> <u> <r> <comp> <o> <m> <a> <d>` (same layout as enc)
  validate <ns> <nr> <stored: ns groups of 8 fields> <requested: nr groups of 8 fields>
                      -> `ok` | `err:InvalidConfiguration` |
                         `err:IncompatibleColumnConfig:<id>`   (id = index as u8)
  match <col> <filename>   -> `1` / `0`: would `Column::drop_files(col)` delete it
  admin <lock 0/1> <metadata text: x<hex> | -> <options.salt: 64 hex | -> <n> <n groups:
        requested columns> <op>      op = add <8 fields> | droplast | reset <i> none |
                      reset <i> <8 fields> | clear <i>
                      the call on a directory holding only (optionally) `lock` and `metadata`
                      -> `<result> <lock after 0/1> <metadata text after: x<hex> | ->`
  encmeta <version> <salt: 64 hex digits> <n> <n groups of 8 fields>
                      -> x<hex of the UTF-8 bytes of the metadata file text>
  decmeta x<hex>      -> `ok <version> <salt hex> <n> <n groups of 8 fields>` |
                         `err:<Kind>` | `panic`
  anything malformed  -> `bad-op`
-/
import Pdb.Gen.Consts
import Pdb.Gen.Text

namespace Pdb.C17

abbrev Text := List Char

/-- `t!"abc"` is the explicit list `['a','b','c']` (expanded at elaboration time, so
that no `String` operation has to be reduced in proofs). -/
scoped macro:max "t!" s:str : term => do
  let cs := s.getString.toList
  let elems := cs.toArray.map (fun c => (Lean.Syntax.mkCharLit c : Lean.TSyntax `term))
  `(([$elems,*] : List Char))

/-! ## Column options -/

/-- src/compress.rs `enum CompressionType` (`#[repr(u8)]`). -/
inductive Compression where
  | NoCompression
  | Lz4
  | Snappy
deriving DecidableEq, Repr

/-- The Rust name of the variant. -/
def Compression.name : Compression → Text
  | .NoCompression => t!"NoCompression"
  | .Lz4 => t!"Lz4"
  | .Snappy => t!"Snappy"

/-- Position of the variant in the enum (used by the driver protocol only). -/
def Compression.index : Compression → Nat
  | .NoCompression => 0
  | .Lz4 => 1
  | .Snappy => 2

/-- `CompressionType::<name> as u8`, from the generated discriminant table. -/
def codeOfName (n : Text) : Nat :=
  match Gen.Text.compressionCodes.find? (fun r => r.1 = n) with
  | some r => r.2
  | none => 0

/-- `compression as u8`. -/
def Compression.code (c : Compression) : Nat := codeOfName c.name

def allCompressions : List Compression := [.NoCompression, .Lz4, .Snappy]

/-- Result of a computation that can return `None` or panic. -/
inductive Parse (α : Type) where
  | ok (a : α)
  | none
  | panic
deriving DecidableEq, Repr

/-- `impl From<u8> for CompressionType` (`a if a == CompressionType::X as u8 => X`, in enum
order): unknown codes hit `panic!("Unknown compression.")`. -/
def Compression.ofCode (n : Nat) : Parse Compression :=
  match allCompressions.find? (fun c => c.code = n) with
  | some c => .ok c
  | none => .panic

/-- src/options.rs `struct ColumnOptions`. -/
structure ColumnOptions where
  preimage : Bool
  uniform : Bool
  refCounted : Bool
  compression : Compression
  btreeIndex : Bool
  multitree : Bool
  appendOnly : Bool
  allowDirectNodeAccess : Bool
deriving DecidableEq, Repr

/-- `ColumnOptions::is_valid`: the generated decision function applied to the fields. -/
def ColumnOptions.isValid (o : ColumnOptions) : Bool :=
  Gen.Text.isValid o.preimage o.uniform o.refCounted o.btreeIndex o.multitree o.appendOnly
    o.allowDirectNodeAccess (decide (o.compression = .NoCompression))

def allBools : List Bool := [false, true]

/-- All 2^7 x 3 = 384 option combinations. -/
def allOptions : List ColumnOptions :=
  allBools.flatMap fun p => allBools.flatMap fun u => allBools.flatMap fun r =>
  allCompressions.flatMap fun c => allBools.flatMap fun o => allBools.flatMap fun m =>
  allBools.flatMap fun a => allBools.map fun d => ⟨p, u, r, c, o, m, a, d⟩

/-! ## Small text primitives -/

def digitChar (d : Nat) : Char :=
  match d with
  | 0 => '0' | 1 => '1' | 2 => '2' | 3 => '3' | 4 => '4'
  | 5 => '5' | 6 => '6' | 7 => '7' | 8 => '8' | _ => '9'

/-- Decimal digits of `n`, most significant first, pushed in front of `acc`
(`fuel` bounds the number of digits). -/
def decGo : Nat → Nat → Text → Text
  | 0, _, acc => acc
  | fuel + 1, n, acc =>
    let acc' := digitChar (n % 10) :: acc
    if n / 10 = 0 then acc' else decGo fuel (n / 10) acc'

/-- `format!("{}", n)` for an unsigned integer. -/
def dec (n : Nat) : Text := decGo (n + 1) n []

/-- `{:0w}` applied to an already printed number: zero-padded on the left to width `w`
(longer texts unchanged; `w = 0` is the plain `{}`). -/
def padTo (w : Nat) (t : Text) : Text := List.replicate (w - t.length) '0' ++ t

/-- `format!` with the format string split at its holes (`pieces.length = vals.length + 1`,
which the Rust compiler checks). -/
def fmt : List Text → List Text → Text
  | [], _ => []
  | p :: _, [] => p
  | p :: ps, v :: vs => p ++ (v ++ fmt ps vs)

/-- `format!` for a generated (pieces, zero-pad widths) pair. -/
def fmtW (f : List Text × List Nat) (vals : List Text) : Text :=
  fmt f.1 (List.zipWith padTo f.2 vals)

def hexDigitChar (d : Nat) : Char :=
  match d with
  | 0 => '0' | 1 => '1' | 2 => '2' | 3 => '3' | 4 => '4' | 5 => '5' | 6 => '6' | 7 => '7'
  | 8 => '8' | 9 => '9' | 10 => 'a' | 11 => 'b' | 12 => 'c' | 13 => 'd' | 14 => 'e' | _ => 'f'

/-- `format!("{:02x}", b)` for a byte. -/
def hexByte (b : Nat) : Text := [hexDigitChar (b / 16), hexDigitChar (b % 16)]

/-- `hex::encode` / `display::hex`. -/
def hexEncode : List Nat → Text
  | [] => []
  | b :: r => hexDigitChar (b / 16) :: hexDigitChar (b % 16) :: hexEncode r

/-- `hex` crate `val`: both cases accepted. -/
def hexVal (c : Char) : Option Nat :=
  let n := c.toNat
  if 48 ≤ n && n ≤ 57 then some (n - 48)
  else if 97 ≤ n && n ≤ 102 then some (n - 87)
  else if 65 ≤ n && n ≤ 70 then some (n - 55)
  else none

/-- `hex::decode`: odd length or a non-hex character is an error.  (The crate works on
bytes; a non-ASCII character is an error there too, so the outcome is the same.) -/
def hexDecode : Text → Option (List Nat)
  | [] => some []
  | [_] => none
  | a :: b :: r =>
    match hexVal a, hexVal b, hexDecode r with
    | some x, some y, some bs => some ((x * 16 + y) :: bs)
    | _, _, _ => none

def isDigit (c : Char) : Bool := 48 ≤ c.toNat && c.toNat ≤ 57

/-- Value of a non-empty all-digits text (unbounded), `none` on any other character. -/
def parseDigits : Text → Nat → Option Nat
  | [], acc => some acc
  | c :: r, acc => if isDigit c then parseDigits r (acc * 10 + (c.toNat - 48)) else none

def stripPlus (s : Text) : Text :=
  match s with
  | '+' :: r => r
  | _ => s

/-- `<uN as FromStr>::from_str`: one optional leading `+`, then at least one ASCII digit,
nothing else; overflow is an error. -/
def parseUnsigned (max : Nat) (s : Text) : Option Nat :=
  match stripPlus s with
  | [] => none
  | body =>
    match parseDigits body 0 with
    | some n => if n ≤ max then some n else none
    | none => none

/-- `bool::from_str`. -/
def parseBool (s : Text) : Option Bool :=
  if s = t!"true" then some true
  else if s = t!"false" then some false
  else none

def boolText (b : Bool) : Text := if b then t!"true" else t!"false"

/-- `str::split(char)`: always at least one piece. -/
def splitChar (sep : Char) : Text → List Text
  | [] => [[]]
  | c :: cs =>
    if c = sep then [] :: splitChar sep cs
    else match splitChar sep cs with
      | h :: t => (c :: h) :: t
      | [] => [[c]]

/-- `str::split(&str)` for a NON-EMPTY pattern: leftmost non-overlapping matches.
`skip` counts the remaining characters of a delimiter that has just been matched. -/
def splitOnGo (pat : Text) : Text → Nat → List Text
  | [], _ => [[]]
  | _ :: cs, skip + 1 => splitOnGo pat cs skip
  | c :: cs, 0 =>
    if pat.isPrefixOf (c :: cs) then [] :: splitOnGo pat cs (pat.length - 1)
    else match splitOnGo pat cs 0 with
      | h :: t => (c :: h) :: t
      | [] => [[c]]

def splitOn (pat s : Text) : List Text := splitOnGo pat s 0

/-- A line that was terminated by `\n` (`cur` = its characters, reversed): one `\r` just
before the `\n` is dropped as well. -/
def finishLine (cur : Text) : Text :=
  match cur with
  | '\r' :: cur' => cur'.reverse
  | _ => cur.reverse

/-- `BufRead::lines`: a line ends at `\n` (then one trailing `\r` is removed too); text
after the last `\n` is a line only if it is non-empty.  `cur` is the current line,
reversed. -/
def linesGo : Text → Text → List Text
  | [], cur => if cur.isEmpty then [] else [cur.reverse]
  | c :: cs, cur =>
    if c = '\n' then finishLine cur :: linesGo cs []
    else linesGo cs (c :: cur)

def lines (t : Text) : List Text := linesGo t []

/-- `Vec<String>::join("\n")`. -/
def joinLines : List Text → Text
  | [] => []
  | [l] => l
  | l :: r => l ++ '\n' :: joinLines r

/-- `Vec<String>::join(sep)`. -/
def joinWith (sep : Text) : List Text → Text
  | [] => []
  | [l] => l
  | l :: r => l ++ (sep ++ joinWith sep r)

/-! ## `as_string` / `from_string` -/

/-- What `{}` prints for an argument expression of `as_string` (`self.` dropped).  The
translator rejects any expression outside this vocabulary. -/
def argText (o : ColumnOptions) (e : Text) : Text :=
  if e = t!"preimage" then boolText o.preimage
  else if e = t!"uniform" then boolText o.uniform
  else if e = t!"ref_counted" then boolText o.refCounted
  else if e = t!"compression as u8" then dec o.compression.code
  else if e = t!"btree_index" then boolText o.btreeIndex
  else if e = t!"multitree" then boolText o.multitree
  else if e = t!"append_only" then boolText o.appendOnly
  else if e = t!"allow_direct_node_access" then boolText o.allowDirectNodeAccess
  else []

/-- `ColumnOptions::as_string`: the generated format pieces filled with the generated
argument list. -/
def asString (o : ColumnOptions) : Text :=
  fmt Gen.Text.asStringPieces (Gen.Text.asStringArgs.map (argText o))

/-- `Some((pair.next()?, pair.next()?))`. -/
def firstTwo : List Text → Option (Text × Text)
  | a :: b :: _ => some (a, b)
  | _ => none

/-- `HashMap` built by `collect()`: a later duplicate key overwrites an earlier one. -/
def lookupLast (k : Text) : List (Text × Text) → Option Text
  | [] => none
  | (k', v) :: r =>
    match lookupLast k r with
    | some x => some x
    | none => if k' = k then some v else none

/-- The `HashMap<&str, &str>` of `from_string`, as an association list in text order. -/
def parseItems (s : Text) : List (Text × Text) :=
  let vals := match splitOn Gen.Text.fromStringSizesSep s with
    | v :: _ => v
    | [] => []
  (splitOn Gen.Text.fromStringItemSep vals).filterMap fun item =>
    firstTwo (splitOn Gen.Text.fromStringKvSep item)

/-- `let <field> = vals.get(<key>)..` for the row of `field` in the generated table:
required -> `vals.get(key)?.parse().ok()?` (`none` = the function returns `None`),
defaulted -> `vals.get(key).and_then(|c| c.parse().ok()).unwrap_or(<default>)`. -/
def readField {α : Type} (parse : Text → Option α) (items : List (Text × Text)) (field : Text) :
    Option α :=
  match Gen.Text.fromStringKeys.find? (fun r => r.1 = field) with
  | none => none
  | some (_, key, required, dflt) =>
    ((lookupLast key items).bind parse).or (if required then none else parse dflt)

/-- The eight locals of `from_string` (compression still as `u8`). -/
structure RawOptions where
  preimage : Bool
  uniform : Bool
  refCounted : Bool
  compression : Nat
  btreeIndex : Bool
  multitree : Bool
  appendOnly : Bool
  allowDirectNodeAccess : Bool

def readRaw (items : List (Text × Text)) : Option RawOptions :=
  (readField parseBool items t!"preimage").bind fun preimage =>
  (readField parseBool items t!"uniform").bind fun uniform =>
  (readField parseBool items t!"ref_counted").bind fun refCounted =>
  (readField (parseUnsigned 255) items t!"compression").bind fun compression =>
  (readField parseBool items t!"btree_index").bind fun btreeIndex =>
  (readField parseBool items t!"multitree").bind fun multitree =>
  (readField parseBool items t!"append_only").bind fun appendOnly =>
  (readField parseBool items t!"allow_direct_node_access").bind fun allowDirectNodeAccess =>
  some { preimage, uniform, refCounted, compression, btreeIndex, multitree, appendOnly,
         allowDirectNodeAccess }

/-- `ColumnOptions::from_string`.  `None` for a missing / unparsable required key and for a
compression code above the guard variant (checked before `compression.into()`, which panics
on an unknown code). -/
def fromString (s : Text) : Parse ColumnOptions :=
  match readRaw (parseItems s) with
  | none => .none
  | some r =>
    if r.compression > codeOfName Gen.Text.fromStringMaxCompression then .none
    else match Compression.ofCode r.compression with
      | .ok compression =>
        .ok { preimage := r.preimage, uniform := r.uniform, refCounted := r.refCounted,
              compression, btreeIndex := r.btreeIndex, multitree := r.multitree,
              appendOnly := r.appendOnly, allowDirectNodeAccess := r.allowDirectNodeAccess }
      | .none => .none
      | .panic => .panic

/-! ## Metadata file -/

/-- Error kinds (the Rust variant and, for the ones produced by the metadata code, which
message). -/
inductive Err where
  | corruptionBadMetadata        -- Corruption("Bad metadata")
  | corruptionBadVersion         -- Corruption("Bad version string")
  | corruptionBadSalt            -- Corruption("Bad salt string")
  | corruptionBadColumn          -- Corruption("Bad column metadata")
  | invalidConfigVersion         -- InvalidConfiguration("Unsupported database version ..")
  | invalidConfigMissingSalt     -- InvalidConfiguration("Missing salt value")
  | invalidConfigColumnCount     -- InvalidConfiguration("Column config mismatch. Expected ..")
  | invalidConfigTooManyColumns  -- InvalidConfiguration("Cannot add a column ..." / "Unsupported number ..")
  | incompatibleColumnConfig (id : Nat)   -- IncompatibleColumnConfig { id, .. }
  | databaseNotFound             -- DatabaseNotFound
  | migration                    -- Migration(..)
  | io                           -- Io(..): the metadata file is not text
deriving DecidableEq, Repr

/-- Name of the Rust `Error` variant. -/
def Err.kind : Err → String
  | .corruptionBadMetadata | .corruptionBadVersion | .corruptionBadSalt
  | .corruptionBadColumn => "Corruption"
  | .invalidConfigVersion | .invalidConfigMissingSalt
  | .invalidConfigColumnCount | .invalidConfigTooManyColumns => "InvalidConfiguration"
  | .incompatibleColumnConfig _ => "IncompatibleColumnConfig"
  | .databaseNotFound => "DatabaseNotFound"
  | .migration => "Migration"
  | .io => "Io"

/-- Result of a computation that can fail with an `Error` or panic. -/
inductive Outcome (α : Type) where
  | ok (a : α)
  | err (e : Err)
  | panic
deriving DecidableEq, Repr

def Outcome.isOk {α : Type} : Outcome α → Bool
  | .ok _ => true
  | _ => false

/-- src/options.rs `struct Metadata`. -/
structure Metadata where
  salt : List Nat
  version : Nat
  columns : List ColumnOptions
deriving DecidableEq, Repr

/-- `format!("col{}={}", i, columns[i].as_string())`. -/
def colLine (i : Nat) (o : ColumnOptions) : Text :=
  fmt Gen.Text.metaColPieces [dec i, asString o]

/-- The `col` lines for `i = first, first+1, ..`. -/
def colLines : Nat → List ColumnOptions → List Text
  | _, [] => []
  | i, o :: r => colLine i o :: colLines (i + 1) r

/-- `vec![format!("version={}", ..), format!("salt={}", hex::encode(salt))]` + the `col` lines. -/
def metaLines (version : Nat) (salt : List Nat) (cols : List ColumnOptions) : List Text :=
  fmt Gen.Text.metaVersionPieces [dec version] :: fmt Gen.Text.metaSaltPieces [hexEncode salt] ::
    colLines 0 cols

/-- The text written by `write_metadata_file_with_version`. -/
def encodeMeta (version : Nat) (salt : List Nat) (cols : List ColumnOptions) : Text :=
  joinWith Gen.Text.metaJoinSep (metaLines version salt cols)

/-- Loop state of `load_metadata_file`. -/
structure MetaAcc where
  version : Nat := 0
  salt : Option (List Nat) := none
  columns : List ColumnOptions := []
deriving DecidableEq, Repr

def u32Max : Nat := 4294967295

/-- One iteration of the loop over `file.lines()`. -/
def stepLine (st : MetaAcc) (l : Text) : Outcome MetaAcc :=
  match splitChar Gen.Text.metaSplitChar l with
  | k :: v :: _ =>
    if k = Gen.Text.metaKeyVersion then
      match parseUnsigned u32Max v with
      | some n => .ok { st with version := n }
      | none => .err .corruptionBadVersion
    else if k = Gen.Text.metaKeySalt then
      match hexDecode v with
      | none => .err .corruptionBadSalt
      | some bytes =>
        -- `salt_slice.try_into()` fails unless the slice has exactly 32 bytes
        if bytes.length = 32 then .ok { st with salt := some bytes }
        else .err .corruptionBadSalt
    else if Gen.Text.metaColPrefix.isPrefixOf k then
      match fromString v with
      | .ok o => .ok { st with columns := st.columns ++ [o] }
      | .none => .err .corruptionBadColumn
      | .panic => .panic
    else .ok st
  | _ => .err .corruptionBadMetadata

def foldLines : MetaAcc → List Text → Outcome MetaAcc
  | st, [] => .ok st
  | st, l :: r =>
    match stepLine st l with
    | .ok st' => foldLines st' r
    | .err e => .err e
    | .panic => .panic

/-- `load_metadata_file` on an existing file with the given text. -/
def decodeMeta (t : Text) : Outcome Metadata :=
  match foldLines {} (lines t) with
  | .ok st =>
    if st.version < Pdb.Gen.LAST_SUPPORTED_VERSION then .err .invalidConfigVersion
    else match st.salt with
      | none => .err .invalidConfigMissingSalt
      | some s => .ok { salt := s, version := st.version, columns := st.columns }
  | .err e => .err e
  | .panic => .panic

/-! ## Option check at open -/

/-- Index of the first position where the two lists differ (`start` = index of the heads). -/
def firstMismatch : Nat → List ColumnOptions → List ColumnOptions → Option Nat
  | i, a :: as, b :: bs => if a = b then firstMismatch (i + 1) as bs else some i
  | _, _, _ => none

/-- The comparison in `load_and_validate_metadata` (`id: c as ColId` truncates to `u8`). -/
def validate (stored requested : List ColumnOptions) : Except Err Unit :=
  if stored.length ≠ requested.length then .error .invalidConfigColumnCount
  else match firstMismatch 0 stored requested with
    | some c => .error (.incompatibleColumnConfig (c % 256))
    | none => .ok ()

/-! ## Directory model -/

abbrev FileName := Text

/-- File contents: text (only `metadata` is ever parsed) or uninterpreted data. -/
inductive Content (β : Type) where
  | text (t : Text)
  | data (b : β)
deriving DecidableEq, Repr

/-- A directory: partial map from file names to contents. -/
abbrev Dir (β : Type) := FileName → Option (Content β)

def Dir.empty {β : Type} : Dir β := fun _ => none

def Dir.ofList {β : Type} : List (FileName × Content β) → Dir β
  | [] => Dir.empty
  | (n, c) :: r => fun m => if m = n then some c else Dir.ofList r m

def Dir.write {β : Type} (d : Dir β) (n : FileName) (c : Content β) : Dir β :=
  fun m => if m = n then some c else d m

/-- The name pushed by `Options::load_metadata` (the sites that write it and that test for
its existence use the same literal: `C17Gen.metadataName_sites`). -/
def metadataName : FileName := Gen.Text.metadataNameLoad
def lockName : FileName := Gen.Text.lockName
/-- src/log.rs `format!("log{id}")`. -/
def logName (id : Nat) : FileName := fmt Gen.Text.logNamePieces [dec id]

/-- The three kinds of per-column files. -/
inductive FileKind where
  | index
  | table
  | refcount
deriving DecidableEq, Repr

/-- The Rust module whose table id type names the files of this kind (the translator rejects
any other module in the deletion test of `Column::drop_files`). -/
def FileKind.ofModule (m : Text) : Option FileKind :=
  if m = t!"index" then some .index
  else if m = t!"table" then some .table
  else if m = t!"ref_count" then some .refcount
  else none

/-- The generated format of `is_file_name` (index.rs / table.rs / ref_count.rs). -/
def FileKind.isFileNameFmt : FileKind → List Text × List Nat
  | .index => Gen.Text.indexIsFileName
  | .table => Gen.Text.tableIsFileName
  | .refcount => Gen.Text.refcountIsFileName

/-- The generated format of `file_name`. -/
def FileKind.fileNameFmt : FileKind → List Text × List Nat
  | .index => Gen.Text.indexFileName
  | .table => Gen.Text.tableFileName
  | .refcount => Gen.Text.refcountFileName

/-- The generated argument list of `file_name`. -/
def FileKind.fileNameArgs : FileKind → List Text
  | .index => Gen.Text.indexFileNameArgs
  | .table => Gen.Text.tableFileNameArgs
  | .refcount => Gen.Text.refcountFileNameArgs

/-- `format!("index_{col:02}_")`, `format!("table_{col:02}_")`, `format!("refcount_{col:02}_")`. -/
def filePrefix (k : FileKind) (col : Nat) : Text :=
  fmtW k.isFileNameFmt [dec col]

/-- What an argument expression of `file_name` prints, `x` being the low byte of the table
id.  The translator rejects any expression outside this vocabulary. -/
def nameArg (col x : Nat) (e : Text) : Text :=
  if e = t!"self.col()" then dec col
  else if e = t!"self.index_bits()" then dec x
  else if e = t!"hex(&[self.size_tier()])" then hexByte x
  else []

def columnFilePrefixes (col : Nat) : List Text :=
  [filePrefix .index col, filePrefix .table col, filePrefix .refcount col]

/-- `TableId::file_name`: `index_{col:02}_{index_bits}`, `table_{col:02}_{tier as 2 hex
digits}`, `refcount_{col:02}_{index_bits}`; `x` is the low byte of the table id. -/
def fileName (k : FileKind) (col x : Nat) : FileName :=
  fmtW k.fileNameFmt (k.fileNameArgs.map (nameArg col x))

/-- The test in `Column::drop_files`: `index::TableId::is_file_name(col, f) ||
table::TableId::is_file_name(col, f) || RefCountTableId::is_file_name(col, f)`. -/
def isColumnFile (col : Nat) (name : FileName) : Bool :=
  Gen.Text.dropFilesTests.any fun module =>
    match FileKind.ofModule module with
    | some k => (filePrefix k col).isPrefixOf name
    | none => false

/-- `Column::drop_files`. -/
def dropFiles {β : Type} (col : Nat) (d : Dir β) : Dir β :=
  fun n => if isColumnFile col n then none else d n

/-- `OpenOptions::new().create(true).read(true).write(true).open("lock")`. -/
def ensureLock {β : Type} (d : Dir β) : Dir β :=
  fun n => if n = lockName then (match d n with
    | some c => some c
    | none => some (.text [])) else d n

/-- `load_metadata_file` on the directory entry for `metadata`. -/
def loadMetadataFile {β : Type} : Option (Content β) → Outcome (Option Metadata)
  | none => .ok none
  | some (.data _) => .err .io
  | some (.text t) =>
    match decodeMeta t with
    | .ok m => .ok (some m)
    | .err e => .err e
    | .panic => .panic

/-- Result of an operation on the file system: `fs = none` means the database directory
does not exist. -/
structure OpResult (β α : Type) where
  result : Outcome α
  fs : Option (Dir β)

/-- `DbInner::open` up to and including `load_and_validate_metadata`, followed by the
abstract rest of a successful open + close (`replay`).  `salt` is `options.salt` (used only
when the database is created), `fresh` the random salt drawn when a database is created.
Returns the salt and the format version of the handle: always the stored ones
(`options.salt = Some(metadata.salt)`, `db_version = metadata.version`). -/
def openDb {β : Type} (replay : Dir β → Dir β) (fs : Option (Dir β))
    (requested : List ColumnOptions) (salt : Option (List Nat)) (create : Bool)
    (fresh : List Nat) : OpResult β (List Nat × Nat) :=
  match fs, create with
  | none, false => { result := .err .databaseNotFound, fs := none }
  | _, _ =>
    let d0 : Dir β := fs.getD Dir.empty          -- `create_dir_all` when creating
    -- not creating and no metadata file: fails before the lock file is created
    if !create && (d0 metadataName).isNone then
      { result := .err .databaseNotFound, fs := some d0 }
    else
    let d1 := ensureLock d0
    match loadMetadataFile (d1 metadataName) with
    | .err e => { result := .err e, fs := some d1 }
    | .panic => { result := .panic, fs := some d1 }
    | .ok (some m) =>
      match validate m.columns requested with
      | .error e => { result := .err e, fs := some d1 }
      | .ok () => { result := .ok (m.salt, m.version), fs := some (replay d1) }
    | .ok none =>
      if create then
        let s := salt.getD fresh
        let d2 := d1.write metadataName (.text (encodeMeta Pdb.Gen.CURRENT_VERSION s requested))
        { result := .ok (s, Pdb.Gen.CURRENT_VERSION), fs := some (replay d2) }
      else { result := .err .databaseNotFound, fs := some d1 }

/-- `Db::precheck_column_operation`: open without create, close, return the salt and the
format version. -/
def precheck {β : Type} (replay : Dir β → Dir β) (fs : Option (Dir β))
    (requested : List ColumnOptions) (salt : Option (List Nat)) : OpResult β (List Nat × Nat) :=
  openDb replay fs requested salt false []

def writeMeta {β : Type} (d : Dir β) (version : Nat) (salt : List Nat)
    (cols : List ColumnOptions) : Dir β :=
  d.write metadataName (.text (encodeMeta version salt cols))

/-- `Db::add_column` (column ids are `u8`: at most 256 columns). -/
def addColumn {β : Type} (replay : Dir β → Dir β) (fs : Option (Dir β))
    (requested : List ColumnOptions) (salt : Option (List Nat)) (new : ColumnOptions) :
    OpResult β Unit :=
  match precheck replay fs requested salt with
  | { result := .ok (s, v), fs := some d } =>
    if requested.length > 255 then
      { result := .err .invalidConfigTooManyColumns, fs := some d }
    else { result := .ok (), fs := some (writeMeta d v s (requested ++ [new])) }
  | { result := .ok _, fs := none } => { result := .ok (), fs := none }  -- unreachable
  | { result := .err e, fs := fs' } => { result := .err e, fs := fs' }
  | { result := .panic, fs := fs' } => { result := .panic, fs := fs' }

/-- `Db::drop_last_column` (`ColId::try_from(len - 1)`). -/
def dropLastColumn {β : Type} (replay : Dir β → Dir β) (fs : Option (Dir β))
    (requested : List ColumnOptions) (salt : Option (List Nat)) : OpResult β Unit :=
  match precheck replay fs requested salt with
  | { result := .ok (s, v), fs := some d } =>
    if requested.length = 0 then { result := .ok (), fs := some d }
    else if requested.length > 256 then
      { result := .err .invalidConfigTooManyColumns, fs := some d }
    else
      { result := .ok (),
        fs := some (writeMeta (dropFiles (requested.length - 1) d) v s requested.dropLast) }
  | { result := .ok _, fs := none } => { result := .ok (), fs := none }  -- unreachable
  | { result := .err e, fs := fs' } => { result := .err e, fs := fs' }
  | { result := .panic, fs := fs' } => { result := .panic, fs := fs' }

/-- `Db::reset_column` (`index : u8`). -/
def resetColumn {β : Type} (replay : Dir β → Dir β) (fs : Option (Dir β))
    (requested : List ColumnOptions) (salt : Option (List Nat)) (index : Nat)
    (newOptions : Option ColumnOptions) : OpResult β Unit :=
  match precheck replay fs requested salt with
  | { result := .ok (s, v), fs := some d } =>
    if index ≥ requested.length then
      { result := .err (.incompatibleColumnConfig index), fs := some d }
    else
      let d' := dropFiles index d
      match newOptions with
      | some o => { result := .ok (), fs := some (writeMeta d' v s (requested.set index o)) }
      | none => { result := .ok (), fs := some d' }
  | { result := .ok _, fs := none } => { result := .ok (), fs := none }  -- unreachable
  | { result := .err e, fs := fs' } => { result := .err e, fs := fs' }
  | { result := .panic, fs := fs' } => { result := .panic, fs := fs' }

/-- The open + close `migration::clear_column` performs before it deletes anything: with the
stored columns and the stored salt as options (so the option check cannot fail). -/
def clearPrecheck {β : Type} (replay : Dir β → Dir β) (fs : Option (Dir β)) (m : Metadata) :
    OpResult β (List Nat × Nat) :=
  precheck replay fs m.columns (some m.salt)

/-- `migration::clear_column`: the stored column count is consulted, then the database is
opened and closed (pending logs are replayed and removed), then the files are deleted. -/
def clearColumn {β : Type} (replay : Dir β → Dir β) (fs : Option (Dir β)) (column : Nat) :
    OpResult β Unit :=
  match fs with
  | none => { result := .err .migration, fs := none }
  | some d =>
    match loadMetadataFile (d metadataName) with
    | .err e => { result := .err e, fs := some d }
    | .panic => { result := .panic, fs := some d }
    | .ok none => { result := .err .migration, fs := some d }
    | .ok (some m) =>
      if column ≥ m.columns.length then { result := .err .migration, fs := some d }
      else
        match clearPrecheck replay fs m with
        | { result := .ok _, fs := some d' } => { result := .ok (), fs := some (dropFiles column d') }
        | { result := .ok _, fs := none } => { result := .ok (), fs := none }  -- unreachable
        | { result := .err e, fs := fs' } => { result := .err e, fs := fs' }
        | { result := .panic, fs := fs' } => { result := .panic, fs := fs' }

/-- Look a name up in a possibly missing directory. -/
def fsGet {β : Type} (fs : Option (Dir β)) (n : FileName) : Option (Content β) :=
  match fs with
  | none => none
  | some d => d n

/-- The four administration calls. -/
inductive AdminOp where
  | add (new : ColumnOptions)
  | dropLast
  | reset (index : Nat) (newOptions : Option ColumnOptions)
  | clear (column : Nat)
deriving DecidableEq, Repr

def applyAdmin {β : Type} (replay : Dir β → Dir β) (fs : Option (Dir β))
    (requested : List ColumnOptions) (salt : Option (List Nat)) : AdminOp → OpResult β Unit
  | .add new => addColumn replay fs requested salt new
  | .dropLast => dropLastColumn replay fs requested salt
  | .reset index newOptions => resetColumn replay fs requested salt index newOptions
  | .clear column => clearColumn replay fs column

/-- The column whose files the call deletes (if any). -/
def AdminOp.affected (requested : List ColumnOptions) : AdminOp → Option Nat
  | .add _ => none
  | .dropLast =>
    if requested.length = 0 ∨ requested.length > 256 then none else some (requested.length - 1)
  | .reset index _ => some index
  | .clear column => some column

/-- The column list with which the call rewrites the metadata file (`none`: metadata is
not rewritten). -/
def AdminOp.newColumns (requested : List ColumnOptions) : AdminOp → Option (List ColumnOptions)
  | .add new => if requested.length > 255 then none else some (requested ++ [new])
  | .dropLast =>
    if requested.length = 0 ∨ requested.length > 256 then none else some requested.dropLast
  | .reset index (some o) => some (requested.set index o)
  | .reset _ none => none
  | .clear _ => none

/-- The directory `clear_column` starts deleting from: the state left by its open/close if
it gets that far, the directory as found otherwise. -/
def clearBase {β : Type} (replay : Dir β → Dir β) (fs : Option (Dir β)) (column : Nat) :
    Option (Dir β) :=
  match fs with
  | none => none
  | some d =>
    match loadMetadataFile (d metadataName) with
    | .ok (some m) =>
      if column ≥ m.columns.length then some d else (clearPrecheck replay fs m).fs
    | _ => some d

/-- The directory the call starts from: the state left by the precheck open/close. -/
def adminBase {β : Type} (replay : Dir β → Dir β) (fs : Option (Dir β))
    (requested : List ColumnOptions) (salt : Option (List Nat)) : AdminOp → Option (Dir β)
  | .clear column => clearBase replay fs column
  | _ => (precheck replay fs requested salt).fs

/-! ## Correspondence driver -/

def bit (b : Bool) : String := if b then "1" else "0"

def renderOptions (o : ColumnOptions) : String :=
  " ".intercalate [bit o.preimage, bit o.uniform, bit o.refCounted,
    toString o.compression.index, bit o.btreeIndex, bit o.multitree, bit o.appendOnly,
    bit o.allowDirectNodeAccess]

def parseBit : String → Option Bool
  | "0" => some false
  | "1" => some true
  | _ => none

def parseComp : String → Option Compression
  | "0" => some .NoCompression
  | "1" => some .Lz4
  | "2" => some .Snappy
  | _ => none

def parseOptions8 : List String → Option ColumnOptions
  | [p, u, r, c, o, m, a, d] => do
    some { preimage := ← parseBit p, uniform := ← parseBit u, refCounted := ← parseBit r,
           compression := ← parseComp c, btreeIndex := ← parseBit o,
           multitree := ← parseBit m, appendOnly := ← parseBit a,
           allowDirectNodeAccess := ← parseBit d }
  | _ => none

/-- `n` groups of 8 fields; returns the options and the unused arguments. -/
def parseOptionGroups : Nat → List String → Option (List ColumnOptions × List String)
  | 0, rest => some ([], rest)
  | n + 1, args => do
    let o ← parseOptions8 (args.take 8)
    let (os, rest) ← parseOptionGroups n (args.drop 8)
    some (o :: os, rest)

/-- `x<hex of UTF-8 bytes>` -> text. -/
def parseHexText (arg : String) : Option Text :=
  match arg.toList with
  | 'x' :: h =>
    match hexDecode h with
    | some bytes =>
      (String.fromUTF8? (ByteArray.mk (bytes.map UInt8.ofNat).toArray)).map String.toList
    | none => none
  | _ => none

def renderHexText (t : Text) : String :=
  "x" ++ String.ofList (hexEncode ((String.ofList t).toUTF8.toList.map UInt8.toNat))

def renderErr : Err → String
  | .incompatibleColumnConfig id => "err:IncompatibleColumnConfig:" ++ toString id
  | e => "err:" ++ e.kind

def parseAdminOp : List String → Option AdminOp
  | ["droplast"] => some .dropLast
  | ["clear", i] => i.toNat?.map .clear
  | ["reset", i, "none"] => i.toNat?.map fun i => .reset i none
  | "reset" :: i :: rest => do
    let i ← i.toNat?
    let o ← parseOptions8 rest
    some (.reset i (some o))
  | "add" :: rest => (parseOptions8 rest).map .add
  | _ => none

/-- `admin`: one administration call on a directory that holds (at most) a `lock` file and a
metadata file with the given text; `replay` is the identity (only `lock` and `metadata` are
observed). -/
def adminLine (lock mtext salt n : String) (rest : List String) : String :=
  let lock? : Option Bool := parseBit lock
  let mtext? : Option (Option Text) :=
    if mtext = "-" then some none else (parseHexText mtext).map some
  let salt? : Option (Option (List Nat)) :=
    if salt = "-" then some none
    else match hexDecode salt.toList with
      | some b => if b.length = 32 then some (some b) else none
      | none => none
  match lock?, mtext?, salt?, n.toNat? with
  | some lock, some mtext, some salt, some n =>
    match parseOptionGroups n rest with
    | some (requested, opArgs) =>
      match parseAdminOp opArgs with
      | some op =>
        let d0 : Dir Unit := fun nm =>
          if nm = metadataName then mtext.map .text
          else if nm = lockName then (if lock then some (.text []) else none)
          else none
        let r := applyAdmin id (some d0) requested salt op
        let res := match r.result with
          | .ok () => "ok"
          | .err e => renderErr e
          | .panic => "panic"
        match r.fs with
        | none => res ++ " nodir"
        | some d =>
          res ++ " " ++ bit (d lockName).isSome ++ " " ++
            (match d metadataName with
              | some (.text t) => renderHexText t
              | _ => "-")
      | none => "bad-op"
    | none => "bad-op"
  | _, _, _, _ => "bad-op"

def driverLine (args : List String) : String :=
  match args with
  | "admin" :: lock :: mtext :: salt :: n :: rest => adminLine lock mtext salt n rest
  | "enc" :: rest =>
    match parseOptions8 rest with
    | some o => String.ofList (asString o)
    | none => "bad-op"
  | ["dec", arg] =>
    match parseHexText arg with
    | some t =>
      match fromString t with
      | .ok o => renderOptions o
      | .none => "none"
      | .panic => "panic"
    | none => "bad-op"
  | "validate" :: ns :: nr :: rest =>
    match ns.toNat?, nr.toNat? with
    | some ns, some nr =>
      match parseOptionGroups ns rest with
      | some (stored, rest') =>
        match parseOptionGroups nr rest' with
        | some (requested, []) =>
          match validate stored requested with
          | .ok () => "ok"
          | .error e => renderErr e
        | _ => "bad-op"
      | none => "bad-op"
    | _, _ => "bad-op"
  | ["match", col, name] =>
    match col.toNat? with
    | some c => if c < 256 then bit (isColumnFile c name.toList) else "bad-op"
    | none => "bad-op"
  | "encmeta" :: version :: salt :: n :: rest =>
    match version.toNat?, hexDecode salt.toList, n.toNat? with
    | some v, some s, some n =>
      match parseOptionGroups n rest with
      | some (cols, []) =>
        if s.length = 32 then renderHexText (encodeMeta v s cols) else "bad-op"
      | _ => "bad-op"
    | _, _, _ => "bad-op"
  | ["decmeta", arg] =>
    match parseHexText arg with
    | some t =>
      match decodeMeta t with
      | .ok m =>
        " ".intercalate (["ok", toString m.version, String.ofList (hexEncode m.salt),
          toString m.columns.length] ++ m.columns.map renderOptions)
      | .err e => renderErr e
      | .panic => "panic"
    | none => "bad-op"
  | _ => "bad-op"

end Pdb.C17
