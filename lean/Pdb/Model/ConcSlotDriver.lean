/-
ConcSlotDriver: line-protocol driver (command word `c05s`) over the SLOT-level interleaving model
`Pdb.CSlot.SSt` / `sstep` of Model/ConcSlot.lean under the real configuration `Cfg.real`, so that
the deterministic scenarios of harness/src/c05s.rs (real `Db`, stepping API, no worker threads,
observations taken inside the yield-point callback: between `end_record` and `clean_overlay`,
between two table writes of one record inside `enact_logs`, between the last table write and
`end_read`) are REPLAYED as schedules of the very LTS the `C05_slot_*` theorems quantify over.

Every op line denotes a list of `SAct` actions (`actsOf`); the new state is `srun` of that list,
nothing else touches the state (`stepDrv`).  Compared with the crate after every step:
  * what `Db::get` answers for every probed key                                      (`get`)
  * the address (size tier, offset) in the key's index entry, through the log overlay (`addr`)
  * the planner state of a value table: fill mark and free-list head                 (`files`)
  * the raw FILE content of the value table, slot by slot (which key's value a slot holds, or
    free), no log overlay                                                            (`files`)
  * inside a half-enacted record (the crate writes the locations of a record in hash-map order,
    the model in plan order, so the two half-enacted states are not the same state): every file
    slot holds its content before the record (`Drv.base`, the model's files at the last `endRead`)
    or its content after the record                                                  (`filesmid`)
  * at quiescent points the whole free list, most recently freed first               (`freelist`)
The model PREDICTS the allocation decisions (`Alloc.take`: most recently freed slot of the tier
first, else the fill mark); nothing about addresses is fed from the crate.

K = V = Nat.  Key `k`: index chunk `k / 100` (the harness builds keys whose first 16 bits are
equal iff the model chunks are equal).  Value `v`: size tier `v / 1000`, version `v % 1000` (the
harness derives the tier from the value length with `parity_db::verif::entry_sizes`).  Offsets are
printed in the crate's numbering: model offset + 1 (entry 0 of a value table is its header), fill
mark + 1, free-list head 0 = empty.

Ops (after the command word):
  init <nReaders>
  commit set:<k>:<v> | del:<k> ...     `.commit tx`                                   -> ok | disabled:commit
  pop | publish | cleanOverlay | flush | endRead                                      -> ok | disabled:<action>
  ew                                   `.enactWrite` (a no-op when every write of the record is done:
                                       the crate's record has further actions, the table headers) -> ok
  ewAll                                every remaining enactWrite of the oldest flushed record   -> ok
  process                              pop; publish; cleanOverlay
  get <k>                              rBegin 0 k; rOverlay 0; rIdxLog 0; rIdxFile 0; rValLog 0; rValFile 0; rEnd 0
                                       -> none | some <v>
  addr <k>                             no action -> <tier>:<offset> | -
  files <tier>                         no action -> filled=<f> head=<h> slots=[<k>|- ...]   (offsets 1..f-1)
  filesmid <tier> <k>|- ...            no action -> ok | bad:<offset> ...
  freelist <tier>                      no action -> [<offset> ...]
  stages                               no action, debugging line
  drained                              no action -> ok hist=<commits> | no <stages>
-/
import Pdb.Model.ConcSlot

namespace Pdb
namespace CSlotDriver
open CSlot

abbrev K := Nat
abbrev V := Nat

def tierOf : V → Nat := fun v => v / 1000
def chunkOfKey : K → Nat := fun k => k / 100

structure Drv where
  n : Nat
  s : SSt K V
  /-- driver ghost: `s.files` at the last `endRead` (the files before the oldest logged record
      started to be enacted); only `filesmid` looks at it -/
  base : PV K V

abbrev State := Option Drv

def stepM (d : Drv) (a : SAct K V) : Drv :=
  { d with s := sstep Cfg.real tierOf chunkOfKey d.n d.s a }

def runM (d : Drv) (as : List (SAct K V)) : Drv :=
  { d with s := srun Cfg.real tierOf chunkOfKey d.n d.s as }

/-- the guard of the worker actions of `sstep` (a disabled action leaves the state unchanged) -/
def enabled (d : Drv) : SAct K V → Bool
  | .commit tx => !inside Cfg.real d.n d.s && tx.all (opValid plainK)
  | .pop =>
    match d.s.inflight, d.s.queue with
    | none, _ :: _ => true
    | _, _ => false
  | .publish =>
    match d.s.inflight with
    | some (_, false) => true
    | _ => false
  | .cleanOverlay =>
    !inside Cfg.real d.n d.s &&
    match d.s.inflight with
    | some (_, true) => true
    | _ => false
  | .flush => true
  | .enactWrite =>
    match d.s.flushed, d.s.logged with
    | _ + 1, r :: _ => (r.writes[d.s.enactPos]?).isSome
    | _, _ => false
  | .endRead =>
    match d.s.flushed, d.s.logged with
    | _ + 1, r :: _ => decide (d.s.enactPos = r.writes.length)
    | _, _ => false
  | _ => true

def actName : SAct K V → String
  | .commit _ => "commit"
  | .pop => "pop"
  | .publish => "publish"
  | .cleanOverlay => "cleanOverlay"
  | .flush => "flush"
  | .enactWrite => "enactWrite"
  | .endRead => "endRead"
  | _ => "reader"

/-- run the actions; the name of the first one that was disabled, if any -/
def runChecked (d : Drv) : List (SAct K V) → Drv × Option String
  | [] => (d, none)
  | a :: as =>
    if enabled d a then runChecked (stepM d a) as
    else
      let r := runChecked (stepM d a) as
      (r.1, some (actName a))

def pendingWrites (d : Drv) : Nat :=
  match d.s.flushed, d.s.logged with
  | _ + 1, r :: _ => r.writes.length - d.s.enactPos
  | _, _ => 0

def readActs (k : K) : List (SAct K V) :=
  [.rBegin 0 k, .rOverlay 0, .rIdxLog 0, .rIdxFile 0, .rValLog 0, .rValFile 0, .rEnd 0]

def parseOp (w : String) : Option (Op K V) :=
  match w.splitOn ":" with
  | ["set", k, v] =>
    match k.toNat?, v.toNat? with
    | some k, some v => some (.set k v)
    | _, _ => none
  | ["del", k] => k.toNat?.map .deref
  | _ => none

def showRes : Option V → String
  | none => "none"
  | some v => s!"some {v}"

def showSlot : Option (K × V) → String
  | none => "-"
  | some (k, _) => toString k

def joinSp (l : List String) : String := " ".intercalate l

/-- raw file content of the value table of `tier`: offsets `0 .. filled-1` of the model -/
def fileSlots (d : Drv) (tier : Nat) : List (Option (K × V)) :=
  (List.range (d.s.alloc.filled tier)).map (fun o => d.s.files.slot (tier, o))

/-- file content after every remaining write of the oldest flushed record -/
def filesAfter (d : Drv) : PV K V :=
  match d.s.flushed, d.s.logged with
  | _ + 1, r :: _ => applyLocs d.s.files (r.writes.drop d.s.enactPos)
  | _, _ => d.s.files

def headOf (d : Drv) (tier : Nat) : Nat :=
  match d.s.alloc.free tier with
  | o :: _ => o + 1
  | [] => 0

def stagesLine (d : Drv) : String :=
  let pend := match d.s.inflight with
    | none => "none"
    | some (_, false) => "popped"
    | some (_, true) => "published"
  s!"queue={d.s.queue.length} inflight={pend} logged={d.s.logged.length} flushed={d.s.flushed} enactPos={d.s.enactPos}/{match d.s.logged with | r :: _ => r.writes.length | [] => 0} hist={d.s.hist.length} npub={d.s.npub}"

def checkMid (d : Drv) (tier : Nat) (obs : List String) : String :=
  let now := (List.range (d.s.alloc.filled tier)).map (fun o => d.base.slot (tier, o))
  let aft := (List.range (d.s.alloc.filled tier)).map (fun o => (filesAfter d).slot (tier, o))
  if obs.length ≠ now.length then s!"bad:length model={now.length}"
  else
    let bad := (List.range obs.length).filter (fun i =>
      let o := obs.getD i "?"
      !(o == showSlot (now.getD i none) || o == showSlot (aft.getD i none)))
    if bad.isEmpty then "ok" else "bad:" ++ joinSp (bad.map (fun i => toString (i + 1)))

/-- The LTS actions an op line denotes (`none`: malformed line). Observation ops denote no action. -/
def actsOf (d : Drv) : List String → Option (List (SAct K V))
  | "commit" :: toks => (toks.mapM parseOp).map (fun tx => [.commit tx])
  | ["pop"] => some [.pop]
  | ["publish"] => some [.publish]
  | ["cleanOverlay"] => some [.cleanOverlay]
  | ["flush"] => some [.flush]
  | ["endRead"] => some [.endRead]
  | ["process"] => some [.pop, .publish, .cleanOverlay]
  | ["ew"] => some [.enactWrite]
  | ["ewAll"] => some (List.replicate (pendingWrites d) .enactWrite)
  | ["get", k] => k.toNat?.map readActs
  | ["addr", k] => k.toNat?.map (fun _ => [])
  | ["files", t] => t.toNat?.map (fun _ => [])
  | "filesmid" :: t :: _ => t.toNat?.map (fun _ => [])
  | ["freelist", t] => t.toNat?.map (fun _ => [])
  | ["stages"] => some []
  | ["drained"] => some []
  | _ => none

/-- The state after an op line: `srun` of the actions it denotes; the driver ghost `base` follows
    the files at an enabled `endRead`. Nothing else touches the state. -/
def stepDrv (d : Drv) (args : List String) : Drv :=
  match actsOf d args with
  | some as =>
    { n := d.n,
      s := srun Cfg.real tierOf chunkOfKey d.n d.s as,
      base := if args == ["endRead"] && enabled d .endRead then
                (srun Cfg.real tierOf chunkOfKey d.n d.s as).files
              else d.base }
  | none => d

def checkedOut (d : Drv) (as : List (SAct K V)) : String :=
  match (runChecked d as).2 with
  | none => "ok"
  | some a => "disabled:" ++ a

/-- The output line of an op: computed from the state before (`d`) and after (`d'`). -/
def output (d d' : Drv) (args : List String) : String :=
  match actsOf d args with
  | none => "bad-op"
  | some as =>
    match args with
    | ["ew"] => "ok"
    | ["ewAll"] => "ok"
    | ["get", _] =>
      if d'.s.reads.length = d.s.reads.length + 1 then
        showRes ((d'.s.reads.getLast?).bind (·.result))
      else "disabled:read"
    | ["addr", k] =>
      match findA (k.toNat?.getD 0) ((sview d.s).chunk (chunkOfKey (k.toNat?.getD 0))) with
      | some a => s!"{a.1}:{a.2 + 1}"
      | none => "-"
    | ["files", t] =>
      let t := t.toNat?.getD 0
      s!"filled={d.s.alloc.filled t + 1} head={headOf d t} slots=[{joinSp ((fileSlots d t).map showSlot)}]"
    | "filesmid" :: t :: obs => checkMid d (t.toNat?.getD 0) obs
    | ["freelist", t] =>
      s!"[{joinSp ((d.s.alloc.free (t.toNat?.getD 0)).map (fun o => toString (o + 1)))}]"
    | ["stages"] => stagesLine d
    | ["drained"] =>
      if d.s.queue.isEmpty && d.s.inflight.isNone && d.s.logged.isEmpty &&
          !inside Cfg.real d.n d.s then
        s!"ok hist={d.s.hist.length}"
      else "no " ++ stagesLine d
    | _ => checkedOut d as

def step (st : State) (args : List String) : State × String :=
  match args with
  | ["init", n] =>
    match n.toNat? with
    | some n => (some { n := n, s := SSt.init, base := PV.empty }, "ok")
    | none => (st, "bad-op")
  | _ =>
    match st with
    | none => (st, "bad-op")
    | some d => (some (stepDrv d args), output d (stepDrv d args) args)

/-- the driver state after a whole trace of op lines -/
def replay (st : State) (ls : List (List String)) : State :=
  ls.foldl (fun st l => (step st l).1) st

end CSlotDriver
end Pdb
