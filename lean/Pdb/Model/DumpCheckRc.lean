/-
T2 for multitree columns (C14: "node reference counts equal the number of referencing parents";
C10: RcInv): the invariant of the multitree heap model evaluated IN LEAN on dumps of the node
forest of the real database.

The Rust harness (harness/src/c10.rs `t2rc_line`, c02x.rs at recovery points) takes a read-only
dump of a quiescent handle through the hook `Db::verif_multitree_dump` (every live head slot of
the column's value tables, classified as root = some index entry resolves to it / node, children
decoded by the crate's own `unpack_node_children`; every entry of the ref-count tables in search
order; the in-memory ref-count cache), renders it in the text format below and sends it as the op
line `t2rc ...` to the compiled driver.  The driver rebuilds the MODEL heap

    heapOf : RcDump -> Pdb.MultiTree.Heap Nat Unit
        nodes  address ↦ children     (node data abstracted to `()`)
        rc     the ref-count table
        roots  address of the root's value slot ↦ (children, count stored with the root value)

and evaluates on it the conjuncts of the model invariant (`checkHeap`, generic in the heap) with a
RANK witness for acyclicity that is computed here by topological peeling (`ranksOf`; the
computation is not trusted: only the final test "rank child < rank parent on every edge" is).
Addresses of the real database are reused after a free, so the address order that the model's
`Shape.acyclic` uses (`child < parent`) is NOT available; Pdb/Proofs/DumpCheckRcInv.lean
generalises the invariant to ranks (`ShapeR`, `InvR`) and proves `Inv → InvR` and the
preservation of `InvR` by the model operations under arbitrary reuse of free addresses.

Reference-count convention (src/ref_count.rs, column.rs `write_address_inc_ref_plan` /
`write_address_dec_ref_plan`; the same in `Pdb.MultiTree.Heap.count`): the table stores the TOTAL
number of references of a node and only if that number is ≥ 2; a live node WITHOUT an entry has
exactly ONE reference.  (There is no "extra count": the first increment writes the value 2.)
A reference is a (parent, position) pair: a child address occurring k times in one node, or in
one root entry, counts k times.  A root entry references its children once, whatever the root's
own count (the count stored with the root value, `ref_counted` columns only).

Allowed orphans (known finding F19): after a crash, slots claimed by lost transactions stay
allocated.  The harness predicts their addresses and passes them after the marker `A`; the
checker takes those slots out of the forest (`liveNodes`), insists that NOTHING refers to them
(they are no children, have no ref-count entry), and the soundness theorem says of every dumped
slot "reachable from a root, or in the allowed list".

TEXT FORMAT (tokens separated by single spaces; all integers decimal)

  t2rc <has_rc 0/1> <ref_counted 0/1> { R <address> <count> <child>* }* { N <address> <child>* }*
       [ X <address>* ] [ C { <address> <count> }* ] [ M { <address> <count> }* ] [ A <address>* ]
      has_rc       the column has a ref-count table (multitree && !append_only)
      ref_counted  column option `ref_counted` (root values carry a count)
      R            a root entry: address of its value slot, stored count, child addresses in order
      N            a live node slot that no index entry points to: address, child addresses in order
      X            live head slots whose content does not decode as a node
      C            ref-count table entries in search order (current table, then queued older ones)
      M            the in-memory ref-count cache
      A            allowed orphans (predicted leaked addresses)
      sections may come in any order and be repeated (R / N once per entry)
      -> ok | bad:<reason>     reasons, in the order tested:
           dup-node, dup-root, dup-rc      an address twice among live nodes / roots / rc entries
           undecodable                     an `X` slot that is not an allowed orphan
           root-count                      a root count of 0, or ≠ 1 on a column without ref_counted
           no-rc-table                     rc entries or cache entries on a column without table
           cache                           cache and table differ (as maps)
           dangling                        a child address of a live node or root is not a live node
           rc-entry                        an rc entry with count < 2 or for an address that is no live node
           count                           has_rc and for some live node: count ≠ number of references
           orphan                          a live node that no live node and no root refers to
           cycle                           no rank function decreasing along every edge was found
  anything malformed -> bad-op

This file imports only `Pdb.Model.MultiTree` and core.
-/
import Pdb.Model.MultiTree

/-! ## InsertTree under address reuse

`Pdb.MultiTree.insRef` hands out the addresses `n, n+1, ...` of a counter.  The implementation
claims the slots of the new nodes from the free-entry stacks of the value tables
(`claim_entries`: freed slots first, then the fill mark), i.e. ANY pairwise distinct addresses
that hold no live node.  `insRefA` is `insRef` with the counter replaced by such a supply
(`fresh`, consumed front to back; a new node takes the next address after its children).
Every injective assignment of free addresses to the new nodes of a tree arises from some order
of the supply, in particular the parent-before-children order per size tier of `claim_node`;
with the supply `[n, n+1, ...]` it IS `insRef` (`insRefsA_range`, Pdb/Proofs/DumpCheckRcOps.lean). -/

namespace Pdb.MultiTree
variable {K D : Type} [DecidableEq K]

mutual
  /-- number of NEW nodes of a reference (= addresses claimed) -/
  def NRef.newCount : NRef D → Nat
    | .new _ cs => cs.newCount + 1
    | .existing _ => 0
  def NRefs.newCount : NRefs D → Nat
    | .nil => 0
    | .cons r rs => r.newCount + rs.newCount
end

mutual
  /-- `insRef` with an arbitrary supply of free addresses; returns (heap, rest of the supply,
      address of the node). -/
  def insRefA (appendOnly : Bool) (h : Heap K D) (fresh : List Addr) :
      NRef D → Heap K D × List Addr × Addr
    | .existing a => (if appendOnly then h else incRef h a, fresh, a)
    | .new d cs =>
      match insRefsA appendOnly h fresh cs with
      | (h1, f1, as) =>
        ({ h1 with nodes := h1.nodes.set (f1.headD 0) (some ⟨d, as⟩) }, f1.tail, f1.headD 0)
  def insRefsA (appendOnly : Bool) (h : Heap K D) (fresh : List Addr) :
      NRefs D → Heap K D × List Addr × List Addr
    | .nil => (h, fresh, [])
    | .cons r rs =>
      match insRefA appendOnly h fresh r with
      | (h1, f1, a) =>
        match insRefsA appendOnly h1 f1 rs with
        | (h2, f2, as) => (h2, f2, a :: as)
end

/-- The table effects of a validated InsertTree whose new nodes get the addresses `fresh`
    (`insertTreeAt` under address reuse; the model's address counter `next` is left alone). -/
def insertTreeA (v : Variant) (h : Heap K D) (fresh : List Addr) (k : K) (t : NewNode D) :
    Heap K D :=
  match insRefsA (v = .appendOnly) h fresh t.children with
  | (h1, _, as) =>
    { h1 with roots := h1.roots.set k (some (rootEntry v (h1.roots.get k) ⟨t.data, as⟩)) }

end Pdb.MultiTree

namespace Pdb.DumpCheckRc
open Pdb.MultiTree

/-! ## Bool tests of the conjuncts of the model invariant, generic in the heap -/

section Generic
variable {K D : Type} [DecidableEq K]

/-- no key twice (`FMap.WF`) -/
def keysNodupB {α β : Type} [DecidableEq α] (l : List (α × β)) : Bool :=
  decide (l.map Prod.fst).Nodup

/-- every child address of a node / of a root entry is a present node -/
def closedNB (h : Heap K D) : Bool :=
  h.nodes.l.all fun e => e.2.children.all fun c => (h.nodes.get c).isSome

def closedRB (h : Heap K D) : Bool :=
  h.roots.l.all fun e => e.2.1.children.all fun c => (h.nodes.get c).isSome

def rootPosB (h : Heap K D) : Bool := h.roots.l.all fun e => decide (1 ≤ e.2.2)

/-- the rank decreases strictly from every node to each of its children -/
def rankB (rank : Nat → Nat) (h : Heap K D) : Bool :=
  h.nodes.l.all fun e => e.2.children.all fun c => decide (rank c < rank e.1)

/-- ref-count entries are ≥ 2 and belong to present nodes -/
def rcEntriesB (h : Heap K D) : Bool :=
  h.rc.l.all fun e => decide (2 ≤ e.2) && (h.nodes.get e.1).isSome

/-- references to `a` from present nodes and from root entries, with multiplicity
    (= `nodeRefs h a + rootRefs h a` of Pdb/Proofs/C10Inv.lean) -/
def refsB (h : Heap K D) (a : Nat) : Nat :=
  h.nodes.sum (fun n => n.children.count a) + h.roots.sum (fun e => e.1.children.count a)

/-- count = number of references, for every present node -/
def countsB (h : Heap K D) : Bool := h.nodes.l.all fun e => h.count e.1 == refsB h e.1

/-- every present node is referenced at least once -/
def parentB (h : Heap K D) : Bool := h.nodes.l.all fun e => decide (0 < refsB h e.1)

end Generic

/-! ## The dump -/

structure RcDump where
  hasRc : Bool
  refCounted : Bool
  /-- (address of the root's value slot, stored count, children) -/
  roots : List (Nat × Nat × List Nat)
  /-- (node address, children) -/
  nodes : List (Nat × List Nat)
  /-- live head slots that do not decode as a node -/
  bad : List Nat
  /-- ref-count table entries (address, count) in search order -/
  rc : List (Nat × Nat)
  /-- in-memory ref-count cache -/
  cache : List (Nat × Nat)
  /-- allowed orphans (finding F19) -/
  allowed : List Nat
deriving DecidableEq, Repr

/-- `multitree && !append_only` columns count node references; roots are counted iff
    `ref_counted`. -/
def variantOf (d : RcDump) : Variant :=
  if d.hasRc then (if d.refCounted then .rcRoots else .plain) else .appendOnly

/-- the node slots of the forest: everything dumped except the allowed orphans -/
def liveNodes (d : RcDump) : List (Nat × List Nat) :=
  d.nodes.filter fun e => !d.allowed.contains e.1

/-- every dumped node slot, decodable or not -/
def slotsOf (d : RcDump) : List Nat := d.nodes.map Prod.fst ++ d.bad

/-- The model heap a dump stands for (data abstracted to `()`, root key = address of the root's
    value slot, `next` above every live address). -/
def heapOf (d : RcDump) : Heap Nat Unit :=
  { nodes := ⟨(liveNodes d).map fun e => (e.1, ⟨(), e.2⟩)⟩
    rc := ⟨d.rc⟩
    roots := ⟨d.roots.map fun r => (r.1, (⟨(), r.2.2⟩, r.2.1))⟩
    next := ((liveNodes d).map Prod.fst).foldl max 0 + 1 }

/-! ### the rank witness (untrusted computation, checked by `rankB`) -/

/-- one round of topological peeling: the nodes all of whose children are ranked get rank `r` -/
def rankRound (r : Nat) (ranked : List (Nat × Nat)) (rest : List (Nat × List Nat)) :
    List (Nat × Nat) × List (Nat × List Nat) :=
  let p := rest.partition fun e => e.2.all fun c => (alLookup c ranked).isSome
  (p.1.map (fun e => (e.1, r)) ++ ranked, p.2)

def rankLoop : Nat → Nat → List (Nat × Nat) → List (Nat × List Nat) → List (Nat × Nat)
  | 0, _, ranked, _ => ranked
  | fuel + 1, r, ranked, rest =>
    if rest.isEmpty then ranked
    else
      let p := rankRound r ranked rest
      if p.2.length = rest.length then ranked else rankLoop fuel (r + 1) p.1 p.2

/-- depth-like ranks of the live nodes: leaves 1, a parent above all its children; nodes on or
    above a cycle (or above a dangling child) stay unranked -/
def ranksOf (d : RcDump) : List (Nat × Nat) :=
  rankLoop ((liveNodes d).length + 1) 1 [] (liveNodes d)

/-- the witness passed to `rankB`; unranked = 0 -/
def rankOf (d : RcDump) (a : Nat) : Nat := (alLookup a (ranksOf d)).getD 0

/-! ### the checker -/

/-- cache = table, as maps -/
def cacheB (d : RcDump) : Bool :=
  keysNodupB d.cache &&
    (d.cache.all fun e => alLookup e.1 d.rc == some e.2) &&
    (d.rc.all fun e => alLookup e.1 d.cache == some e.2)

/-- first failing test of a list of lazily evaluated named tests -/
def firstFail : List (String × (Unit → Bool)) → Option String
  | [] => none
  | (name, t) :: rest => if t () then firstFail rest else some name

/-- the named tests, cheap ones first -/
def tests (d : RcDump) : List (String × (Unit → Bool)) :=
  let h := heapOf d
  [ ("dup-node", fun _ => keysNodupB h.nodes.l),
    ("dup-root", fun _ => keysNodupB h.roots.l),
    ("dup-rc", fun _ => keysNodupB h.rc.l),
    ("undecodable", fun _ => d.bad.all fun a => d.allowed.contains a),
    ("root-count", fun _ => rootPosB h && (d.refCounted || d.roots.all fun r => r.2.1 == 1)),
    ("no-rc-table", fun _ => d.hasRc || (d.rc.isEmpty && d.cache.isEmpty)),
    ("cache", fun _ => cacheB d),
    ("dangling", fun _ => closedNB h && closedRB h),
    ("rc-entry", fun _ => rcEntriesB h),
    ("count", fun _ => !d.hasRc || countsB h),
    ("orphan", fun _ => parentB h),
    ("cycle", fun _ =>
      -- `rankB (rankOf d) h` with the rank table computed once
      let rk := ranksOf d
      rankB (fun a => (alLookup a rk).getD 0) h) ]

/-- `none` = sound -/
def rcReason (d : RcDump) : Option String := firstFail (tests d)

def checkRc (d : RcDump) : Bool := (rcReason d).isNone

/-! ## Driver: `t2rc ...` -/

def isMarker (w : String) : Bool :=
  w == "R" || w == "N" || w == "X" || w == "C" || w == "M" || w == "A"

def closeSec (cur : Option (String × List String)) (acc : List (String × List String)) :
    List (String × List String) :=
  match cur with
  | some c => (c.1, c.2.reverse) :: acc
  | none => acc

def sectionsAux : List String → Option (String × List String) → List (String × List String) →
    List (String × List String)
  | [], cur, acc => (closeSec cur acc).reverse
  | w :: ws, cur, acc =>
    if isMarker w then sectionsAux ws (some (w, [])) (closeSec cur acc)
    else sectionsAux ws (cur.map fun c => (c.1, w :: c.2)) acc

/-- cut a token list into sections `(marker, tokens up to the next marker)` -/
def sections (ws : List String) : List (String × List String) := sectionsAux ws none []

def pairs : List Nat → Option (List (Nat × Nat))
  | [] => some []
  | a :: c :: rest => (pairs rest).map fun r => (a, c) :: r
  | [_] => none

def parseBit : String → Option Bool
  | "0" => some false
  | "1" => some true
  | _ => none

def addSection (d : RcDump) (sec : String × List String) : Option RcDump :=
  match sec.2.mapM String.toNat? with
  | none => none
  | some ns =>
    match sec.1, ns with
    | "R", a :: c :: cs => some { d with roots := d.roots ++ [(a, c, cs)] }
    | "N", a :: cs => some { d with nodes := d.nodes ++ [(a, cs)] }
    | "X", as => some { d with bad := d.bad ++ as }
    | "C", es => (pairs es).map fun es => { d with rc := d.rc ++ es }
    | "M", es => (pairs es).map fun es => { d with cache := d.cache ++ es }
    | "A", as => some { d with allowed := d.allowed ++ as }
    | _, _ => none

def parseDump (ws : List String) : Option RcDump :=
  match ws with
  | rc :: rcd :: rest =>
    match parseBit rc, parseBit rcd with
    | some rc, some rcd =>
      if !(rest.head?.map isMarker).getD true then none
      else (sections rest).foldlM addSection ⟨rc, rcd, [], [], [], [], [], []⟩
    | _, _ => none
  | _ => none

/-- stateless driver command `t2rc` -/
def driverLine (args : List String) : String :=
  match parseDump args with
  | some d =>
    match rcReason d with
    | none => "ok"
    | some r => "bad:" ++ r
  | none => "bad-op"

end Pdb.DumpCheckRc
