/-
C19: executable model of the index page search of parity-db (src/index.rs).

  IndexTable::find_entry_base   (scalar path)      -> `findBase`
  IndexTable::find_entry_sse2   (vectorised path)  -> `findSse2`

A page ("chunk") is a `List Nat` of `INDEX_CHUNK_ENTRIES` (= 64) entries, entry `i` is the
little-endian u64 stored at bytes `8*i .. 8*i+8` of the chunk.  Both functions return the
*position* of the hit; `none` stands for the Rust result `(Entry::empty(), 0)`.

Every bit-level expression that appears in the Rust source is taken from the generated files
(`Pdb.Gen.Entry.address_bits`, `Entry.partial_key`, `Entry.extract_key`, `sse2_shift`,
`sse2_pk`, `INDEX_CHUNK_ENTRIES`), so a change of a shift or a constant in the Rust source
changes this model.

The SSE2 intrinsics are modelled lane by lane (a 128-bit register = four 32-bit lanes, lane 0
is the least significant).  Their semantics is hand-written from the Intel intrinsics guide
and is part of the trusted base of C19.

This file may import only `Pdb.Gen.*` and core (it is linked into the compiled driver).
-/
import Pdb.Gen.Prim
import Pdb.Gen.Consts
import Pdb.Gen.Bits

namespace Pdb.IndexPage
open Pdb.Gen

/-- `Self::read_entry(chunk, i)`: the u64 at slot `i` (out of range reads do not occur for
pages of 64 entries; the default is irrelevant there). -/
def entryAt (page : List Nat) (i : Nat) : Nat := page.getD i 0

/-! ## Scalar path: `find_entry_base` -/

/-- Loop body test of `find_entry_base`:
`entry.partial_key(index_bits) == partial_key && !entry.is_empty()`. -/
def baseHit (ib pkey e : Nat) : Bool :=
  Entry.partial_key e ib == pkey && !(e == 0)

/-- `for i in sub_index..CHUNK_ENTRIES { if hit { return (entry, i) } }`, `fuel` = number of
remaining iterations. -/
def findBaseLoop (ib pkey : Nat) (page : List Nat) : Nat → Nat → Option Nat
  | 0, _ => none
  | fuel + 1, i =>
    if baseHit ib pkey (entryAt page i) then some i
    else findBaseLoop ib pkey page fuel (i + 1)

/-- `find_entry_base(key_prefix = kp, sub_index = p, chunk = page)` for index size `ib`.
The range `p..64` is empty for `p ≥ 64`. -/
def findBase (ib kp p : Nat) (page : List Nat) : Option Nat :=
  findBaseLoop ib (Entry.extract_key kp ib) page (INDEX_CHUNK_ENTRIES - p) p

/-! ## SSE2 registers and intrinsics (lane level) -/

/-- A 128-bit register as four 32-bit lanes, `l0` least significant. -/
structure M128 where
  l0 : Nat
  l1 : Nat
  l2 : Nat
  l3 : Nat
deriving Repr, DecidableEq

def M128.lane (a : M128) : Nat → Nat
  | 0 => a.l0
  | 1 => a.l1
  | 2 => a.l2
  | _ => a.l3

/-- low / high u64 lane of a register -/
def M128.lo64 (a : M128) : Nat := a.l0 % 2 ^ 32 + (a.l1 % 2 ^ 32) * 2 ^ 32
def M128.hi64 (a : M128) : Nat := a.l2 % 2 ^ 32 + (a.l3 % 2 ^ 32) * 2 ^ 32

/-- register from two u64 values (low, high) -/
def M128.of64 (lo hi : Nat) : M128 :=
  ⟨lo % 2 ^ 32, (lo >>> 32) % 2 ^ 32, hi % 2 ^ 32, (hi >>> 32) % 2 ^ 32⟩

/-- `_mm_loadu_si128(chunk.0[i*8..].as_ptr())`: 16 bytes = the two little-endian u64 entries
`i` and `i+1`; entry `i` is the low u64 lane. -/
def mm_loadu_si128 (page : List Nat) (i : Nat) : M128 :=
  M128.of64 (entryAt page i) (entryAt page (i + 1))

/-- `_mm_set_epi64x(e1, e0)`: high u64 lane `e1`, low u64 lane `e0`. -/
def mm_set_epi64x (e1 e0 : Nat) : M128 := M128.of64 e0 e1

/-- `_mm_srl_epi64(a, count)`: each u64 lane is shifted right by the low 64 bits of `count`,
shifting in zeros; the result is zero if that count is greater than 63. -/
def mm_srl_epi64 (a count : M128) : M128 :=
  let c := count.lo64
  if c > 63 then ⟨0, 0, 0, 0⟩ else M128.of64 (a.lo64 >>> c) (a.hi64 >>> c)

/-- `_mm_shuffle_epi32::<imm>(a)`: `dst.lane[k] = a.lane[(imm >> 2k) & 3]`. -/
def mm_shuffle_epi32 (imm : Nat) (a : M128) : M128 :=
  ⟨a.lane (imm % 4), a.lane ((imm >>> 2) % 4), a.lane ((imm >>> 4) % 4), a.lane ((imm >>> 6) % 4)⟩

/-- `_mm_unpacklo_epi64(a, b)`: low u64 of `a` then low u64 of `b`. -/
def mm_unpacklo_epi64 (a b : M128) : M128 := ⟨a.l0, a.l1, b.l0, b.l1⟩

/-- `_mm_set1_epi32(x as i32)`: the low 32 bits of `x` in every lane. -/
def mm_set1_epi32 (x : Nat) : M128 :=
  ⟨x % 2 ^ 32, x % 2 ^ 32, x % 2 ^ 32, x % 2 ^ 32⟩

/-- `_mm_cmpeq_epi32(a, b)`: a lane is all ones where the lanes are equal, zero otherwise. -/
def mm_cmpeq_epi32 (a b : M128) : M128 :=
  ⟨if a.l0 = b.l0 then 0xFFFFFFFF else 0, if a.l1 = b.l1 then 0xFFFFFFFF else 0,
   if a.l2 = b.l2 then 0xFFFFFFFF else 0, if a.l3 = b.l3 then 0xFFFFFFFF else 0⟩

/-- most significant bit of byte `j` (0..3) of a 32-bit lane -/
def byteTop (x j : Nat) : Nat := (x >>> (8 * j + 7)) % 2

/-- the four mask bits contributed by one 32-bit lane -/
def laneMask (x : Nat) : Nat :=
  byteTop x 0 + 2 * byteTop x 1 + 4 * byteTop x 2 + 8 * byteTop x 3

/-- `_mm_movemask_epi8(a)`: bit `4k+j` of the result is the top bit of byte `j` of lane `k`
(16 significant bits, non-negative as i32). -/
def mm_movemask_epi8 (a : M128) : Nat :=
  laneMask a.l0 + laneMask a.l1 <<< 4 + laneMask a.l2 <<< 8 + laneMask a.l3 <<< 12

/-- `i32::trailing_zeros` (32 for zero). -/
def tzLoop : Nat → Nat → Nat
  | 0, _ => 0
  | fuel + 1, x => if x % 2 = 1 then 0 else 1 + tzLoop fuel (x / 2)

def trailingZeros32 (x : Nat) : Nat := tzLoop 32 x

/-! ## Vectorised path: `find_entry_sse2` -/

/-- `current` of one loop iteration: the (shifted) low 32 bits of entries `i .. i+3`. -/
def sse2Current (shiftMask : M128) (page : List Nat) (i : Nat) : M128 :=
  let first_two := mm_shuffle_epi32 0b11011000 (mm_srl_epi64 (mm_loadu_si128 page i) shiftMask)
  let last_two := mm_shuffle_epi32 0b11011000 (mm_srl_epi64 (mm_loadu_si128 page (i + 2)) shiftMask)
  mm_unpacklo_epi64 first_two last_two

/-- `_mm_movemask_epi8(_mm_cmpeq_epi32(current, target)) >> (skip * 4)` -/
def sse2Cmp (shiftMask target : M128) (page : List Nat) (i skip : Nat) : Nat :=
  mm_movemask_epi8 (mm_cmpeq_epi32 (sse2Current shiftMask page i) target) >>> (skip * 4)

/-- `while i + 4 <= CHUNK_ENTRIES { ...; i += 4; skip = 0 }`; `fuel` bounds the number of
iterations (the caller passes `CHUNK_ENTRIES`, more than the at most 16 iterations needed). -/
def sse2Loop (shiftMask target : M128) (page : List Nat) : Nat → Nat → Nat → Option Nat
  | 0, _, _ => none
  | fuel + 1, i, skip =>
    if i + 4 ≤ INDEX_CHUNK_ENTRIES then
      let cmp := sse2Cmp shiftMask target page i skip
      if cmp ≠ 0 then some (i + skip + trailingZeros32 cmp / 4)
      else sse2Loop shiftMask target page fuel (i + 4) 0
    else none

/-- `find_entry_sse2(key_prefix = kp, sub_index = p, chunk = page)` for index size `ib`. -/
def findSse2 (ib kp p : Nat) (page : List Nat) : Option Nat :=
  let shift := sse2_shift ib kp
  let pk := sse2_pk ib kp
  if pk = 0 then
    -- fallback: a zero pattern would match empty entries
    findBase ib kp p page
  else
    let target := mm_set1_epi32 pk
    let shiftMask := mm_set_epi64x 0 shift
    let i := (p >>> 2) <<< 2
    let skip := p - i
    sse2Loop shiftMask target page INDEX_CHUNK_ENTRIES i skip

/-! ## Driver entry point (command `c19`) -/

def showPos : Option Nat → String
  | some i => toString i
  | none => "none"

def parseNats : List String → Option (List Nat)
  | [] => some []
  | s :: rest =>
    match s.toNat?, parseNats rest with
    | some n, some ns => some (n :: ns)
    | _, _ => none

/-- args = `[ib, kp, p, e0, ..., e63]` (decimal); result `"<base> <sse2>"`. -/
def driverLine (args : List String) : String :=
  match parseNats args with
  | some (ib :: kp :: p :: page) =>
    if page.length = INDEX_CHUNK_ENTRIES ∧ page.all (· < 2 ^ 64) ∧ kp < 2 ^ 64 ∧ ib < 256 then
      showPos (findBase ib kp p page) ++ " " ++ showPos (findSse2 ib kp p page)
    else "bad-op"
  | _ => "bad-op"

end Pdb.IndexPage
