/-
LockDir: executable state machine of ONE database directory shared by several processes
(C18 "at most one live handle per directory", C17 "administration calls need the lock").

State: what is in the directory (does it exist, the column list of the `metadata` file, does
the `lock` file exist, an abstract content fingerprint = the committed (column, key) -> value
map), the OS lock table of `<dir>/lock` (which open file description = which handle holds the
flock; flock(2) as used by fs2 is per open file description, so a second open inside the SAME
process conflicts exactly like one from another process), the live handles `(pid, slot)` and the
processes that were killed.

Operations are WHOLE crate calls, each returning the canonical result of the crate:
  * `open` INTERPRETS the marker list `Conc.Lock.genProg.openP` regenerated from
    src/db.rs (`Db::open_inner` with `DbInner::open` spliced in) by tools/skeleton.py: the
    order of "create directory / existence checks / create lock file / try_lock / return Locked /
    load + validate metadata / log replay ..." is NOT written here, it is read from the generated
    list; only the effect of each marker on the abstract state is (`openMarker`).
  * `drop` interprets `genProg.dropP` (`Db::drop_inner`), `kill` is process death.
  * `commit` / `get` / `fp` go through a live handle; committed = kept (a commit of the harness
    is logged and flushed before the call returns, C02 covers the rest).
  * `add_column` / `drop_last_column` / `reset_column` / `clear_column` are the crate's
    administration calls: `Db::open` (no create) + drop first (`precheck_column_operation`), then
    the metadata / column files change.  With another handle alive the precheck fails with Locked.
  * `env` steps are things the harness does to the directory from outside (mkdir, create / remove
    the `lock` file while nobody holds it).

GRANULARITY.  One operation = one whole crate call; calls do not overlap (the harness issues them one
at a time, from several processes / threads).  Interleavings INSIDE `open` / `drop` are the subject
of the interleaving model `Pdb.Conc.Lock` (Pdb/Props/C18.lean), which this machine refines
(Pdb/Props/C18Exec.lean).  For the administration calls the atomicity is an idealisation that the
crate does not enforce: `precheck_column_operation` DROPS its handle before the column files are
deleted and the metadata file is rewritten, so those writes happen without the lock ("Db must be close
when called" is the caller's obligation); an `open` of another thread / process that gets the lock
between the drop and the writes is not refused.  Neither this machine nor `Conc.Lock` has a step for
those unlocked writes.

TIE: T0 for the programs (Pdb.Gen.Order) + T1: harness/src/c18.rs (scripted part) runs the
same operations on the real crate in child processes and prints the op lines with the observed
results; `pdbdriver` (command word `c18`) replays them through `step` below.

DRIVER PROTOCOL (`c18 ...`)
  init                                   -> ok            (directory missing, no processes)
  env mkdir | touchlock | rmlock         -> ok | bad-op
  open <pid> <slot> <c|o> <cols>         -> ok | err:Locked | err:DatabaseNotFound |
                                            err:InvalidConfiguration | err:IncompatibleColumnConfig:<id>
         cols = comma separated column codes (bit0 uniform, bit1 btree_index) or `-`
  commit <pid> <slot> <col> <key> <v|del>-> ok
  get <pid> <slot> <col> <key>           -> none | some <v>
  fp <pid> <slot>                        -> `-` | c:k=v,c:k=v,...  (sorted)
  drop <pid> <slot>                      -> ok
  kill <pid>                             -> ok
  ls                                     -> dir=0 | dir=1 meta=<cols|none> lock=<0|1>
  add <pid> <cols> <code> | droplast <pid> <cols> | reset <pid> <cols> <i> <code|-> | clear <pid> <i>
                                         -> ok | err:...
  scenario <name>                        -> ok   (summary line of the racy oracle part of a case)
-/
import Pdb.Model.Conc
import Pdb.Model.Meta

namespace Pdb.LockDir
open Pdb.Gen.Order

abbrev Handle := Nat × Fin 256     -- (process id, slot inside the process)

structure St where
  dirExists : Bool := false
  cols : Option (List Nat) := none             -- column codes stored in `metadata`
  lockFile : Bool := false
  content : List ((Nat × Nat) × Nat) := []     -- sorted by (column, key)
  holder : Option Handle := none               -- OS lock table entry of `<dir>/lock`
  live : List Handle := []
  dead : List Nat := []                        -- killed processes (ids are never reused)
deriving DecidableEq, Repr

def init : St := {}

/-- canonical result of an operation -/
inductive Res where
  | ok
  | badOp                    -- not a call the harness can make (dead process, slot in use ...)
  | err (kind : String)      -- `Err(Error::<kind>)`
  | text (t : String)        -- observation (get / fp / ls)
deriving DecidableEq, Repr

def Res.str : Res → String
  | .ok => "ok"
  | .badOp => "bad-op"
  | .err k => "err:" ++ k
  | .text t => t

/-- column code -> `ColumnOptions` (bit0 = uniform, bit1 = btree_index, everything else default) -/
def colOf (c : Nat) : C17.ColumnOptions :=
  { preimage := false, uniform := c % 2 == 1, refCounted := false, compression := .NoCompression,
    btreeIndex := (c / 2) % 2 == 1, multitree := false, appendOnly := false,
    allowDirectNodeAccess := false }

def errText : C17.Err → String
  | .incompatibleColumnConfig i => "IncompatibleColumnConfig:" ++ toString i
  | e => e.kind

/-- `Options::load_and_validate_metadata`, comparison part (the C17 model's `validate`). -/
def checkOptions (stored req : List Nat) : Option Res :=
  match C17.validate (stored.map colOf) (req.map colOf) with
  | .ok _ => none
  | .error e => some (.err (errText e))

structure OpenArgs where
  h : Handle
  create : Bool
  opts : List Nat

/-- Effect of one marker of the open program; `some out` = the call returns `out` here. -/
def openMarker (a : OpenArgs) (s : St) (m : Marker) : St × Option Res :=
  if m == .createDirAll then ((if a.create then { s with dirExists := true } else s), none)
  else if m == .isDirCheck then
    (s, if !a.create && !s.dirExists then some (.err "DatabaseNotFound") else none)
  else if m == .metadataExists then
    (s, if !a.create && s.cols.isNone then some (.err "DatabaseNotFound") else none)
  else if m == .createLockFile then ({ s with lockFile := true }, none)
  else if m == .tryLock then ((if s.holder.isNone then { s with holder := some a.h } else s), none)
  else if m == .returnLocked then (s, if s.holder == some a.h then none else some (.err "Locked"))
  else if m == .loadMetadata then
    match s.cols with
    | some stored =>
      match checkOptions stored a.opts with
      | some e => ({ s with holder := none }, some e)       -- the lock file is closed on the error path
      | none => (s, none)
    | none =>
      if a.create then ({ s with cols := some a.opts }, none)
      else ({ s with holder := none }, some (.err "DatabaseNotFound"))
  else (s, none)   -- log open / replay / table set-up / worker threads: the fingerprint is kept

def openRun (a : OpenArgs) : List Marker → St → St × Res
  | [], s => ({ s with live := a.h :: s.live }, .ok)
  | m :: r, s =>
    match openMarker a s m with
    | (s', some out) => (s', out)
    | (s', none) => openRun a r s'

def lopen (s : St) (h : Handle) (create : Bool) (opts : List Nat) : St × Res :=
  if s.dead.contains h.1 || s.live.contains h then (s, .badOp)
  else openRun { h := h, create := create, opts := opts } Conc.Lock.genProg.openP s

def dropMarker (h : Handle) (s : St) (m : Marker) : St :=
  if m == .unlockFile then (if s.holder == some h then { s with holder := none } else s) else s

/-- after the program the handle (and its file description) is gone -/
def dropRun (h : Handle) : List Marker → St → St
  | [], s => { s with live := s.live.erase h, holder := if s.holder == some h then none else s.holder }
  | m :: r, s => dropRun h r (dropMarker h s m)

def ldrop (s : St) (h : Handle) : St × Res :=
  if s.live.contains h then (dropRun h Conc.Lock.genProg.dropP s, .ok) else (s, .badOp)

def lkill (s : St) (pid : Nat) : St × Res :=
  if s.dead.contains pid then (s, .badOp)
  else ({ s with live := s.live.filter (fun h => h.1 != pid),
                 holder := (match s.holder with
                   | some h => if h.1 == pid then none else some h
                   | none => none),
                 dead := pid :: s.dead }, .ok)

/-! ### content -/

def kle (a b : Nat × Nat) : Bool := a.1 < b.1 || (a.1 == b.1 && a.2 ≤ b.2)

def ins (k : Nat × Nat) (x : Nat) : List ((Nat × Nat) × Nat) → List ((Nat × Nat) × Nat)
  | [] => [(k, x)]
  | e :: r => if e.1 == k then (k, x) :: r else if kle k e.1 then (k, x) :: e :: r else e :: ins k x r

def del (k : Nat × Nat) (l : List ((Nat × Nat) × Nat)) : List ((Nat × Nat) × Nat) := l.filter (fun e => e.1 != k)

def dropCol (c : Nat) (l : List ((Nat × Nat) × Nat)) : List ((Nat × Nat) × Nat) := l.filter (fun e => e.1.1 != c)

def ncols (s : St) : Nat := (s.cols.getD []).length

def lcommit (s : St) (h : Handle) (col key : Nat) (v : Option Nat) : St × Res :=
  if s.live.contains h && decide (col < ncols s) then
    match v with
    | some x => ({ s with content := ins (col, key) x s.content }, .ok)
    | none => ({ s with content := del (col, key) s.content }, .ok)
  else (s, .badOp)

def lget (s : St) (h : Handle) (col key : Nat) : Res :=
  if s.live.contains h && decide (col < ncols s) then
    match s.content.lookup (col, key) with
    | some x => .text ("some " ++ toString x)
    | none => .text "none"
  else .badOp

def showCols : List Nat → String
  | [] => "-"
  | l => ",".intercalate (l.map toString)

def lfp (s : St) (h : Handle) : Res :=
  if s.live.contains h then
    .text (if s.content.isEmpty then "-"
     else ",".intercalate (s.content.map (fun e => toString e.1.1 ++ ":" ++ toString e.1.2 ++ "=" ++ toString e.2)))
  else .badOp

def lls (s : St) : String :=
  if s.dirExists then
    "dir=1 meta=" ++ (match s.cols with | some m => showCols m | none => "none") ++
      " lock=" ++ (if s.lockFile then "1" else "0")
  else "dir=0"

/-! ### administration calls (src/db.rs `add_column` ..., src/migration.rs `clear_column`) -/

/-- slot used by the temporary handle of `precheck_column_operation` -/
def tmpSlot : Fin 256 := 255

/-- `precheck_column_operation`: `Db::open(options)` then drop. -/
def precheck (s : St) (pid : Nat) (opts : List Nat) : St × Option Res :=
  let r := lopen s (pid, tmpSlot) false opts
  if r.2 = .ok then ((ldrop r.1 (pid, tmpSlot)).1, none) else (r.1, some r.2)

def laddColumn (s : St) (pid : Nat) (opts : List Nat) (c : Nat) : St × Res :=
  match precheck s pid opts with
  | (s1, some e) => (s1, e)
  | (s1, none) =>
    if opts.length > 255 then (s1, .err "InvalidConfiguration")
    else ({ s1 with cols := some (opts ++ [c]) }, .ok)

def ldropLast (s : St) (pid : Nat) (opts : List Nat) : St × Res :=
  match precheck s pid opts with
  | (s1, some e) => (s1, e)
  | (s1, none) =>
    if opts.length == 0 then (s1, .ok)
    else if opts.length - 1 > 255 then (s1, .err "InvalidConfiguration")
    else ({ s1 with content := dropCol (opts.length - 1) s1.content, cols := some opts.dropLast }, .ok)

def lreset (s : St) (pid : Nat) (opts : List Nat) (i : Nat) (c : Option Nat) : St × Res :=
  match precheck s pid opts with
  | (s1, some e) => (s1, e)
  | (s1, none) =>
    if i ≥ opts.length then (s1, .err ("IncompatibleColumnConfig:" ++ toString i))
    else
      let s2 := { s1 with content := dropCol i s1.content }
      match c with
      | some x => ({ s2 with cols := some (opts.set i x) }, .ok)
      | none => (s2, .ok)

def lclear (s : St) (pid : Nat) (i : Nat) : St × Res :=
  if s.dead.contains pid then (s, .badOp)
  else match (if s.dirExists then s.cols else none) with
    | none => (s, .err "Migration")
    | some stored =>
      if i ≥ stored.length then (s, .err "Migration")
      else match precheck s pid stored with
        | (s1, some e) => (s1, e)
        | (s1, none) => ({ s1 with content := dropCol i s1.content }, .ok)

/-! ### operations -/

inductive Env where
  | mkdir | touchLock | rmLock
deriving DecidableEq, Repr

inductive Op where
  | env (e : Env)
  | open (h : Handle) (create : Bool) (opts : List Nat)
  | commit (h : Handle) (col key : Nat) (v : Option Nat)
  | get (h : Handle) (col key : Nat)
  | fp (h : Handle)
  | drop (h : Handle)
  | kill (pid : Nat)
  | ls
  | add (pid : Nat) (opts : List Nat) (c : Nat)
  | dropLast (pid : Nat) (opts : List Nat)
  | reset (pid : Nat) (opts : List Nat) (i : Nat) (c : Option Nat)
  | clear (pid : Nat) (i : Nat)
deriving DecidableEq, Repr

def lenv (s : St) : Env → St × Res
  | .mkdir => ({ s with dirExists := true }, .ok)
  | .touchLock => if s.dirExists then ({ s with lockFile := true }, .ok) else (s, .badOp)
  | .rmLock => if s.holder.isNone then ({ s with lockFile := false }, .ok) else (s, .badOp)

def apply (s : St) : Op → St × Res
  | .env e => lenv s e
  | .open h c o => lopen s h c o
  | .commit h c k v => lcommit s h c k v
  | .get h c k => (s, lget s h c k)
  | .fp h => (s, lfp s h)
  | .drop h => ldrop s h
  | .kill p => lkill s p
  | .ls => (s, .text (lls s))
  | .add p o c => if s.dead.contains p then (s, .badOp) else laddColumn s p o c
  | .dropLast p o => if s.dead.contains p then (s, .badOp) else ldropLast s p o
  | .reset p o i c => if s.dead.contains p then (s, .badOp) else lreset s p o i c
  | .clear p i => lclear s p i

def runOps (s : St) : List Op → St
  | [] => s
  | o :: os => runOps (apply s o).1 os

def Reachable (s : St) : Prop := ∃ ops, runOps init ops = s

/-! ### driver -/

def parseCols (t : String) : Option (List Nat) :=
  if t == "-" then some [] else (t.splitOn ",").mapM String.toNat?

def mkH (p sl : Nat) : Option Handle := if h : sl < 256 then some (p, ⟨sl, h⟩) else none

def parseOp : List String → Option Op
  | ["env", "mkdir"] => some (.env .mkdir)
  | ["env", "touchlock"] => some (.env .touchLock)
  | ["env", "rmlock"] => some (.env .rmLock)
  | ["open", p, sl, m, cols] =>
    match p.toNat?, sl.toNat?, parseCols cols with
    | some p, some sl, some o =>
      if m == "c" then (mkH p sl).map (fun h => .open h true o)
      else if m == "o" then (mkH p sl).map (fun h => .open h false o) else none
    | _, _, _ => none
  | ["commit", p, sl, c, k, v] =>
    match p.toNat?, sl.toNat?, c.toNat?, k.toNat? with
    | some p, some sl, some c, some k =>
      if v == "del" then (mkH p sl).map (fun h => .commit h c k none)
      else (mkH p sl).bind (fun h => (v.toNat?).map (fun x => .commit h c k (some x)))
    | _, _, _, _ => none
  | ["get", p, sl, c, k] =>
    match p.toNat?, sl.toNat?, c.toNat?, k.toNat? with
    | some p, some sl, some c, some k => (mkH p sl).map (fun h => .get h c k)
    | _, _, _, _ => none
  | ["fp", p, sl] =>
    match p.toNat?, sl.toNat? with
    | some p, some sl => (mkH p sl).map .fp
    | _, _ => none
  | ["drop", p, sl] =>
    match p.toNat?, sl.toNat? with
    | some p, some sl => (mkH p sl).map .drop
    | _, _ => none
  | ["kill", p] => (p.toNat?).map .kill
  | ["ls"] => some .ls
  | ["add", p, cols, c] =>
    match p.toNat?, parseCols cols, c.toNat? with
    | some p, some o, some c => some (.add p o c)
    | _, _, _ => none
  | ["droplast", p, cols] =>
    match p.toNat?, parseCols cols with
    | some p, some o => some (.dropLast p o)
    | _, _ => none
  | ["reset", p, cols, i, c] =>
    match p.toNat?, parseCols cols, i.toNat? with
    | some p, some o, some i =>
      if c == "-" then some (.reset p o i none) else (c.toNat?).map (fun x => .reset p o i (some x))
    | _, _, _ => none
  | ["clear", p, i] =>
    match p.toNat?, i.toNat? with
    | some p, some i => some (.clear p i)
    | _, _ => none
  | _ => none

abbrev State := St

def step (s : State) (args : List String) : State × String :=
  match args with
  | ["init"] => (init, "ok")
  | ["scenario", _] => (s, "ok")
  | _ =>
    match parseOp args with
    | some op => let r := apply s op; (r.1, r.2.str)
    | none => (s, "bad-op")

end Pdb.LockDir
