/-
C02x: crash and recovery of the multitree commit pipeline (extension of C02 to the C10 model).

Layers in this file
  (1) `CState` / `cstep`   the pipeline model of C10 (`PState`: heap = effects of the PROCESSED
                           commits, queue of accepted commits) refined with logged-vs-enacted:
                             base      the tables on disk (effects of the ENACTED records)
                             logged    processed commits whose record is published but not enacted
                             flushed   how many of them are in synced log files
                             hist      ghost: the operations accepted so far, commit-return order
                             nEnacted  ghost: how many of them are in `base`
                           Commands: commit of one tree operation | process (ONE commit) | flush |
                           enact (ONE record).  `toCmds` forgets flush / enact: the `p` component
                           runs exactly the C10 pipeline model (`toP_run` in Proofs/C02xInv.lean).
  (2) `Tbl` / `Rec`        the on-disk tables as functions, a log record as a set of written
                           locations with absolute after-images; `applyRec` overwrites exactly the
                           written locations, `replay` folds it (recovery).  `RecOf v h p r`: `r` is
                           a record of processing the queued commit `p` on tables `h`: it writes at
                           least every location `p` changes, with the value after `p`.
  (3) `recoverHeap` / `crashRecover`   the canonical representative of the recovered tables: the
                           enacted base with the surviving records (`n` intact in the log files, at
                           least the flushed ones) re-applied; the reopened database starts from
                           these tables with an empty queue, an empty overlay, no log and the
                           address counter `nx`.

  (4) executable reflections   `legalRunB` (Bool mirror of the hypothesis `LegalRun` of the C02x
                           theorems, `legalRunB_iff`) and `coreB` (Bool mirror of `core h = core h'`,
                           `coreB_iff`), used by the driver to CHECK on every replayed history that
                           the hypothesis of the theorems holds and that the recovered tables are the
                           atomic heap of the prefix.

The driver of this layer is Model/C02xDriver.lean (command word `c02x`: mixed key-value / multitree
databases, harness/src/c02x.rs); it calls `cstep`, `recoverHeap`, `crashRecover`, `runOps` of this
file / of Proofs/C10Hist.lean.  This file imports the processing semantics `applyPending` /
`drainHeap` and the histories `Op` / `Cmd` from Proofs/C10Pipe.lean and Proofs/C10Hist.lean.
-/
import Pdb.Proofs.C10Hist

namespace Pdb.MultiTree
set_option linter.unusedSectionVars false
variable {K D : Type} [DecidableEq K]

/-! ## (1) the pipeline with logged-vs-enacted -/

structure CState (K D : Type) where
  /-- the pipeline model state (heap = effects of PROCESSED commits, queue of accepted commits) -/
  p : PState K D
  /-- tables on disk after the ENACTED records -/
  base : Heap K D
  /-- processed (record published), not yet enacted; oldest first -/
  logged : List (Pending K D)
  /-- how many of `logged` are in synced log files -/
  flushed : Nat
  /-- ghost: operations ACCEPTED by the pipeline, in commit-return order -/
  hist : List (Op K D)
  /-- ghost: how many of them are in `base` -/
  nEnacted : Nat

/-- a freshly opened database whose tables are `H0` -/
def CState.start (v : Variant) (H0 : Heap K D) : CState K D := ⟨⟨v, H0, []⟩, H0, [], 0, [], 0⟩

inductive CCmd (K D : Type) where
  | commit (op : Op K D)
  | process
  | flush
  /-- enact ONE record -/
  | enact

/-- the commit of one tree operation in the pipeline model -/
def commitOp (s : PState K D) : Op K D → Except Err (PState K D)
  | .insert k t => commitInsert s k t
  | .reference k => commitRef s k
  | .dereference k => commitDeref s k

def cstep (c : CState K D) : CCmd K D → CState K D
  | .commit op =>
    match commitOp c.p op with
    | .ok p' => { c with p := p', hist := c.hist ++ [op] }
    | .error _ => c
  | .process =>
    match c.p.queue with
    | [] => c
    | pd :: _ =>
      match processOne c.p with
      | .ok p' => { c with p := p', logged := c.logged ++ [pd] }
      | .error _ => c
  | .flush => { c with flushed := c.logged.length }
  | .enact =>
    match c.flushed, c.logged with
    | f + 1, r :: rs =>
      { c with base := applyPending c.p.variant c.base r, logged := rs, flushed := f,
               nEnacted := c.nEnacted + 1 }
    | _, _ => c

/-- forget flush / enact: the commands of the C10 pipeline model -/
def toCmds : List (CCmd K D) → List (Cmd K D)
  | [] => []
  | .commit op :: cs => .commit op :: toCmds cs
  | .process :: cs => .process :: toCmds cs
  | .flush :: cs => toCmds cs
  | .enact :: cs => toCmds cs

/-! ## (2) tables as functions, log records, replay -/

structure Tbl (K D : Type) where
  nodes : Addr → Option (Node D)
  rc : Addr → Option Nat
  roots : K → Option (Node D × Nat)

/-- what the three tables of a heap hold (the address counter is not on disk as a table) -/
def Heap.tbl (h : Heap K D) : Tbl K D := ⟨h.nodes.get, h.rc.get, h.roots.get⟩

inductive Loc (K : Type) where
  | node (a : Addr)
  | rc (a : Addr)
  | root (k : K)

/-- two tables hold the same at one location -/
def Tbl.agreeAt (t t' : Tbl K D) : Loc K → Prop
  | .node a => t.nodes a = t'.nodes a
  | .rc a => t.rc a = t'.rc a
  | .root k => t.roots k = t'.roots k

/-- a log record: the set of written locations and the absolute after-images (`img` is only
    ever consulted on `W`) -/
structure Rec (K D : Type) where
  W : Loc K → Prop
  img : Tbl K D

/-- only the writes of `r` that lie in `S` (an interrupted enactment / replay of `r`) -/
def Rec.restrict (r : Rec K D) (S : Loc K → Prop) : Rec K D := ⟨fun l => r.W l ∧ S l, r.img⟩

open Classical in
/-- enacting / replaying one record: every written location is OVERWRITTEN with its after-image -/
noncomputable def applyRec (t : Tbl K D) (r : Rec K D) : Tbl K D where
  nodes := fun a => if r.W (.node a) then r.img.nodes a else t.nodes a
  rc := fun a => if r.W (.rc a) then r.img.rc a else t.rc a
  roots := fun k => if r.W (.root k) then r.img.roots k else t.roots k

/-- recovery: the surviving records in log order -/
noncomputable def replay (t : Tbl K D) (rs : List (Rec K D)) : Tbl K D := rs.foldl applyRec t

/-- `r` is a record of processing the queued commit `p` on tables `h`: what it writes is the value
    after `p`, and it writes (at least) every location that `p` changes. -/
def RecOf (v : Variant) (h : Heap K D) (p : Pending K D) (r : Rec K D) : Prop :=
  (∀ loc, r.W loc → r.img.agreeAt (applyPending v h p).tbl loc) ∧
  (∀ loc, ¬ r.W loc → (applyPending v h p).tbl.agreeAt h.tbl loc)

/-- the records of processing `ps` one after the other, starting on tables `h` -/
def RecsOf (v : Variant) : Heap K D → List (Pending K D) → List (Rec K D) → Prop
  | _, [], [] => True
  | h, p :: ps, r :: rs => RecOf v h p r ∧ RecsOf v (applyPending v h p) ps rs
  | _, _, _ => False

/-- the smallest record of processing `p` on `h`: exactly the locations whose content changes -/
def minRec (v : Variant) (h : Heap K D) (p : Pending K D) : Rec K D :=
  ⟨fun loc => ¬ (applyPending v h p).tbl.agreeAt h.tbl loc, (applyPending v h p).tbl⟩

def minRecs (v : Variant) : Heap K D → List (Pending K D) → List (Rec K D)
  | _, [] => []
  | h, p :: ps => minRec v h p :: minRecs v (applyPending v h p) ps

/-! ## (3) crash and recovery of a `CState` -/

/-- The recovered tables: `n` published records are intact in the log files (every flushed one
    survives, the unsynced tail may be cut anywhere), recovery re-applies them to the enacted
    base.  (That a replay of the actual records over the actual disk image, which may contain any
    part of an interrupted enactment or of an interrupted earlier recovery, yields these tables is
    `C02x_replay_absorbs`.) -/
def recoverHeap (c : CState K D) (n : Nat) : Heap K D :=
  drainHeap c.p.variant c.base (c.logged.take (max n c.flushed))

/-- The reopened database: queue, commit overlay and every claimed-but-unprocessed address are
    gone, the logs are replayed and deleted; `nx` is the address counter it continues with. -/
def crashRecover (c : CState K D) (n nx : Nat) : CState K D :=
  CState.start c.p.variant (withNext nx (recoverHeap c n))

/-! ## (4) executable reflections (used by the driver Model/C02xDriver.lean) -/

mutual
  /-- Bool mirror of `NRef.live` -/
  def NRef.liveB (h : Heap K D) : NRef D → Bool
    | .new _ cs => cs.liveB h
    | .existing a => (h.nodes.get a).isSome
  /-- Bool mirror of `NRefs.live` -/
  def NRefs.liveB (h : Heap K D) : NRefs D → Bool
    | .nil => true
    | .cons r rs => r.liveB h && rs.liveB h
end

mutual
  theorem NRef.liveB_iff (h : Heap K D) : ∀ r : NRef D, r.liveB h = true ↔ r.live h
    | .new _ cs => by simp only [NRef.liveB, NRef.live]; exact NRefs.liveB_iff h cs
    | .existing a => by simp only [NRef.liveB, NRef.live, present]
  theorem NRefs.liveB_iff (h : Heap K D) : ∀ rs : NRefs D, rs.liveB h = true ↔ rs.live h
    | .nil => by simp [NRefs.liveB, NRefs.live]
    | .cons r rs => by
      simp only [NRefs.liveB, NRefs.live, Bool.and_eq_true]
      exact and_congr (NRef.liveB_iff h r) (NRefs.liveB_iff h rs)
end

/-- Bool mirror of `Op.legal` -/
def Op.legalB (h : Heap K D) : Op K D → Bool
  | .insert k t => (h.roots.get k).isNone && t.children.liveB h
  | _ => true

theorem Op.legalB_iff (h : Heap K D) (op : Op K D) : op.legalB h = true ↔ op.legal h := by
  cases op with
  | insert k t =>
    simp only [Op.legalB, Op.legal, Bool.and_eq_true, Option.isNone_iff_eq_none]
    exact and_congr Iff.rfl (NRefs.liveB_iff h t.children)
  | reference k => simp [Op.legalB, Op.legal]
  | dereference k => simp [Op.legalB, Op.legal]

/-- Bool mirror of `LegalRun`: the hypothesis of the C02x theorems on a history -/
def legalRunB (v : Variant) : Heap K D → List (Op K D) → Bool
  | _, [] => true
  | h, op :: ops => op.legalB h && legalRunB v (stepOp v h op) ops

theorem legalRunB_iff (v : Variant) (ops : List (Op K D)) :
    ∀ h : Heap K D, legalRunB v h ops = true ↔ LegalRun v h ops := by
  induction ops with
  | nil => intro h; simp [legalRunB, LegalRun]
  | cons op ops ih =>
    intro h
    simp only [legalRunB, LegalRun, Bool.and_eq_true]
    exact and_congr (Op.legalB_iff h op) (ih _)

/-- Bool mirror of `core h = core h'` (the three tables, entry by entry in list order) -/
def coreB [DecidableEq D] (h h' : Heap K D) : Bool :=
  decide (h.nodes.l.map (fun e => (e.1, e.2.data, e.2.children)) =
            h'.nodes.l.map (fun e => (e.1, e.2.data, e.2.children))) &&
  decide (h.rc.l = h'.rc.l) &&
  decide (h.roots.l.map (fun e => (e.1, e.2.1.data, e.2.1.children, e.2.2)) =
            h'.roots.l.map (fun e => (e.1, e.2.1.data, e.2.1.children, e.2.2)))

private theorem map_inj_of_inj {α β : Type} (f : α → β) (hf : Function.Injective f) :
    ∀ {a b : List α}, a.map f = b.map f → a = b
  | [], [], _ => rfl
  | [], _ :: _, h => by simp at h
  | _ :: _, [], h => by simp at h
  | x :: a, y :: b, h => by
    simp only [List.map_cons, List.cons.injEq] at h
    rw [hf h.1, map_inj_of_inj f hf h.2]

theorem coreB_iff [DecidableEq D] (h h' : Heap K D) : coreB h h' = true ↔ core h = core h' := by
  have inj1 : Function.Injective (fun e : Addr × Node D => (e.1, e.2.data, e.2.children)) := by
    intro a b hab
    obtain ⟨a1, ⟨ad, ac⟩⟩ := a
    obtain ⟨b1, ⟨bd, bc⟩⟩ := b
    simp only [Prod.mk.injEq] at hab
    obtain ⟨h1, h2, h3⟩ := hab
    subst h1 h2 h3; rfl
  have inj2 : Function.Injective
      (fun e : K × (Node D × Nat) => (e.1, e.2.1.data, e.2.1.children, e.2.2)) := by
    intro a b hab
    obtain ⟨a1, ⟨ad, ac⟩, an⟩ := a
    obtain ⟨b1, ⟨bd, bc⟩, bn⟩ := b
    simp only [Prod.mk.injEq] at hab
    obtain ⟨h1, h2, h3, h4⟩ := hab
    subst h1 h2 h3 h4; rfl
  obtain ⟨⟨n1⟩, ⟨r1⟩, ⟨o1⟩, x1⟩ := h
  obtain ⟨⟨n2⟩, ⟨r2⟩, ⟨o2⟩, x2⟩ := h'
  simp only [coreB, core, Bool.and_eq_true, decide_eq_true_eq, Prod.mk.injEq, FMap.mk.injEq]
  exact ⟨fun ⟨⟨a, b⟩, c⟩ => ⟨map_inj_of_inj _ inj1 a, b, map_inj_of_inj _ inj2 c⟩,
    fun ⟨a, b, c⟩ => ⟨⟨congrArg _ a, b⟩, congrArg _ c⟩⟩

end Pdb.MultiTree
