/-
C10: multitree columns of parity-db  (src/multitree.rs, src/column.rs, src/db.rs, src/ref_count.rs).

Layers in this file
  P3  node packing        `packNode` / `unpackNode`    (column.rs: claim_node, unpack_node_data)
  P2  heap of nodes       `Heap`, `insertTree`, `referenceTree`, `dereferenceTree`
                          (claim_tree_values / claim_node / claim_children_to_data,
                           write_address_inc_ref_plan / write_address_dec_ref_plan,
                           IndexedChangeSet::write_plan / write_dereference_children_plan)
  P1' commit pipeline     `PState`, `DState`/`step`  (commit_changes multitree branch: addresses are
                           claimed and the root / new nodes are put into the commit overlay when the
                           commit returns, every table change happens in process_commits)

Abstractions (documented, tied by the correspondence runs):
  * Addresses are abstract: the model hands out 0,1,2,... from a counter and never reuses one
    (the implementation pops its free-entry stack).  New nodes of one insertion are numbered
    post-order (children before parent), so every child address is smaller than its parent's:
    that is the creation order the acyclicity invariant talks about.  Because real and model
    addresses differ, the driver protocol names existing nodes LOGICALLY (by path, see below).
  * The ref-count table and its cache are one map `rc` (entries only for counts > 1; absent = 1),
    as ref_count.rs / `ref_count_cache` keep them.  The `assert!`s of the inc/dec plans (cached
    count > 1, table = cache) cannot fire in the model: entries are only ever written with
    values >= 2 (invariant `Counts.rcEntries` in Proofs/C10Inv.lean).
  * A commit that is accepted queues exactly one entry, also when it changes nothing
    (ReferenceTree on an append-only column queues an empty commit).
  * While a DereferenceTree is queued its tree stays readable (the commit overlay only holds
    inserted roots / nodes), so a second DereferenceTree of the same root is accepted and becomes
    a no-op when processed - exactly what `validate_change` + `write_plan` do.
  * Root keys are opaque (hashed-key injectivity is A-hash); node data is an opaque value `D`
    with a length (driver: tokens `v<len>_<seed>`).

Driver protocol (command word `c10`, stateful; one commit = one operation)
  c10 init <append_only|rc|plain>       -> ok          (rc = ref_counted roots; all variants are
                                                         readable through get_tree; rc/plain also
                                                         through direct node access)
  c10 insert <key> <tok>...             -> ok | err:InvalidInput
        the tree in pre-order: `n<k>:<data>` is a NEW node with k children (the next k subtrees),
        `@<key>/<i>/<j>/...` is an EXISTING node: start at the root stored under <key> (as
        currently readable), take child i, then its child j, ... (at least one index).
        The first token is the root and must be `n..`.
  c10 ref <key>                         -> ok | err:InvalidInput (plain columns: "No Rc")
  c10 deref <key>                       -> ok | err:InvalidConfiguration (append_only; no root)
  c10 process | flush | enact | clean   -> ok          (process = ONE queued commit)
  c10 reopen                            -> ok          (drain, close, open)
  c10 root <key>                        -> none | some <data> <number of children>
  c10 node <key>/<i>/...                -> none | some <data> <number of children>
  c10 tree <key>                        -> none | some (<data> <child> <child> ...)   logical content
  c10 count                             -> <n> | err:InvalidConfiguration
        get_num_column_value_entries: claimed node slots (claimed when the commit returns) +
        root slots (written in process) - freed slots; the call fails while any multipart entry
        exists (table.rs get_num_entries).
-/
import Pdb.Gen.Consts
import Pdb.Gen.Bits

namespace Pdb.MultiTree

/-- node addresses (`NodeAddress = u64`); a notation, so that the type is literally `Nat` -/
scoped notation "Addr" => Nat

inductive Err where
  | invalidInput
  | invalidConfiguration
  | invalidValueData
  | outOfFuel            -- model artefact, proved unreachable (C10_walk_fuel)
deriving DecidableEq, Repr

def Err.show : Err → String
  | .invalidInput => "err:InvalidInput"
  | .invalidConfiguration => "err:InvalidConfiguration"
  | .invalidValueData => "err:InvalidValueData"
  | .outOfFuel => "err:model-out-of-fuel"

/-! ## P3: node packing -/

/-- `u64::to_le_bytes` -/
def u64le (a : Nat) : List Nat :=
  [a % 256, (a >>> 8) % 256, (a >>> 16) % 256, (a >>> 24) % 256,
   (a >>> 32) % 256, (a >>> 40) % 256, (a >>> 48) % 256, (a >>> 56) % 256]

/-- `u64::from_le_bytes` on a slice of bytes -/
def leU64 (bs : List Nat) : Nat := bs.foldr (fun b acc => b + 256 * acc) 0

/-- `claim_node` / `claim_tree_values`: data, child addresses (8 LE bytes each),
    `num_children as u8`. -/
def packNode (data : List Nat) (children : List Nat) : List Nat :=
  data ++ children.flatMap u64le ++ [children.length % 256]

/-- `unpack_node_data` -/
def unpackNode (bytes : List Nat) : Except Err (List Nat × List Nat) :=
  if bytes.length = 0 then .error .invalidValueData
  else
    let numChildren := bytes.getD (bytes.length - 1) 0
    let childBufLen := numChildren * 8
    if bytes.length < childBufLen + 1 then .error .invalidValueData
    else
      let dataLen := bytes.length - (childBufLen + 1)
      let children := (List.range numChildren).map
        (fun i => leU64 ((bytes.drop (dataLen + i * 8)).take 8))
      .ok (bytes.take dataLen, children)

/-- `unpack_node_children` (same parsing, children only) -/
def unpackChildren (bytes : List Nat) : Except Err (List Nat) :=
  (unpackNode bytes).map Prod.snd

/-! ## Finite maps (association lists without duplicate keys; most recent first) -/

section FMap
variable {K V : Type} [DecidableEq K]

def alLookup (k : K) : List (K × V) → Option V
  | [] => none
  | (k', v) :: r => if k' = k then some v else alLookup k r

def alErase (k : K) : List (K × V) → List (K × V)
  | [] => []
  | (k', v) :: r => if k' = k then alErase k r else (k', v) :: alErase k r

structure FMap (K V : Type) where
  l : List (K × V)

namespace FMap
def empty : FMap K V := ⟨[]⟩
def get (m : FMap K V) (k : K) : Option V := alLookup k m.l
def set (m : FMap K V) (k : K) (v : Option V) : FMap K V :=
  match v with
  | some v => ⟨(k, v) :: alErase k m.l⟩
  | none => ⟨alErase k m.l⟩
def size (m : FMap K V) : Nat := m.l.length
/-- Sum of `f` over the stored values. -/
def sum (m : FMap K V) (f : V → Nat) : Nat := (m.l.map (fun e => f e.2)).sum
def all (m : FMap K V) (p : K → V → Bool) : Bool := m.l.all (fun e => p e.1 e.2)
/-- No key occurs twice (every reachable map satisfies it: `set` erases first). -/
def WF (m : FMap K V) : Prop := (m.l.map Prod.fst).Nodup
end FMap
end FMap

/-! ## P2: the heap of tree nodes -/

structure Node (D : Type) where
  data : D
  children : List Addr
deriving Repr

mutual
  /-- `NodeRef` -/
  inductive NRef (D : Type) where
    | new (data : D) (children : NRefs D)
    | existing (a : Addr)
  /-- `Vec<NodeRef>` -/
  inductive NRefs (D : Type) where
    | nil
    | cons (r : NRef D) (rs : NRefs D)
end

/-- `NewNode` -/
structure NewNode (D : Type) where
  data : D
  children : NRefs D

def NRefs.length {D : Type} : NRefs D → Nat
  | .nil => 0
  | .cons _ rs => rs.length + 1

def NRefs.ofList {D : Type} : List (NRef D) → NRefs D
  | [] => .nil
  | r :: rs => .cons r (NRefs.ofList rs)

def NRefs.toList {D : Type} : NRefs D → List (NRef D)
  | .nil => []
  | .cons r rs => r :: rs.toList

/-- Column variants of the property. -/
inductive Variant where
  | appendOnly   -- multitree + append_only: no node counting, nothing is ever removed
  | rcRoots      -- multitree + ref_counted (+ preimage): roots carry a count
  | plain        -- multitree only: a root is one reference
deriving DecidableEq, Repr

variable {K D : Type} [DecidableEq K]

structure Heap (K D : Type) where
  nodes : FMap Addr (Node D)        -- value-table entries written by write_address_value_plan
  rc : FMap Addr Nat                -- ref-count table = cache: entries only for counts > 1
  roots : FMap K (Node D × Nat)     -- hash-indexed root entries: (unpacked root, root count)
  next : Addr                       -- next unclaimed abstract address

def Heap.empty : Heap K D := ⟨.empty, .empty, .empty, 0⟩

/-- The reference count of a live node: "absent in the table = exactly one reference". -/
def Heap.count (h : Heap K D) (a : Addr) : Nat := (h.rc.get a).getD 1

-- TODO-GEN (src/db.rs, validate_change::validate_node: `node.children.len() > u8::MAX as usize`)
/-- `u8::MAX` in `validate_node` -/
def MAX_CHILDREN : Nat := 255

mutual
  /-- `validate_change` / `validate_node`: every NEW node has at most 255 children. -/
  def NRef.valid : NRef D → Bool
    | .new _ cs => decide (cs.length ≤ MAX_CHILDREN) && cs.valid
    | .existing _ => true
  def NRefs.valid : NRefs D → Bool
    | .nil => true
    | .cons r rs => r.valid && rs.valid
end

def NewNode.valid (t : NewNode D) : Bool :=
  decide (t.children.length ≤ MAX_CHILDREN) && t.children.valid

/-- `write_address_inc_ref_plan`: cached count c -> c+1, no entry -> 2. -/
def incRef (h : Heap K D) (a : Addr) : Heap K D :=
  { h with rc := h.rc.set a (some (match h.rc.get a with
                                   | some c => c + 1
                                   | none => 2)) }

/-- `write_address_dec_ref_plan`: returns (remains, heap).  An entry c becomes c-1 (removed from
    the table when that is 1); without an entry the node had exactly one reference and its slot
    is freed (`write_remove_plan`). -/
def decRef (h : Heap K D) (a : Addr) : Bool × Heap K D :=
  match h.rc.get a with
  | some c => (true, { h with rc := h.rc.set a (if c - 1 > 1 then some (c - 1) else none) })
  | none => (false, { h with nodes := h.nodes.set a none })

mutual
  /-- `claim_node` + the planning of its `NodeChange`s (NewValue written after the children's,
      IncrementReference for `Existing` unless the column is append-only).  `n` is the address
      counter; returns (heap, counter, address of the node). -/
  def insRef (appendOnly : Bool) (h : Heap K D) (n : Addr) : NRef D → Heap K D × Addr × Addr
    | .existing a => (if appendOnly then h else incRef h a, n, a)
    | .new d cs =>
      match insRefs appendOnly h n cs with
      | (h1, n1, as) => ({ h1 with nodes := h1.nodes.set n1 (some ⟨d, as⟩) }, n1 + 1, n1)
  /-- `claim_children_to_data` -/
  def insRefs (appendOnly : Bool) (h : Heap K D) (n : Addr) :
      NRefs D → Heap K D × Addr × List Addr
    | .nil => (h, n, [])
    | .cons r rs =>
      match insRef appendOnly h n r with
      | (h1, n1, a) =>
        match insRefs appendOnly h1 n1 rs with
        | (h2, n2, as) => (h2, n2, a :: as)
end

/-- Root operation `Set(key, packed root)`: a new key is inserted with count 1; on an existing
    key a ref-counted column only increments the count (`write_inc_ref`), other columns replace
    the value (outside the property: live root keys are distinct). -/
def rootEntry (v : Variant) (old : Option (Node D × Nat)) (new : Node D) : Node D × Nat :=
  match v, old with
  | .rcRoots, some (r0, c) => (r0, c + 1)
  | _, _ => (new, 1)

/-- The table effects of a validated InsertTree whose node addresses start at `n0`. -/
def insertTreeAt (v : Variant) (h : Heap K D) (n0 : Addr) (k : K) (t : NewNode D) : Heap K D :=
  match insRefs (v = .appendOnly) h n0 t.children with
  | (h1, n1, as) =>
    { h1 with roots := h1.roots.set k (some (rootEntry v (h1.roots.get k) ⟨t.data, as⟩)),
              next := max h1.next n1 }

/-- InsertTree, atomically (claim + process). -/
def insertTree (v : Variant) (h : Heap K D) (k : K) (t : NewNode D) : Except Err (Heap K D) :=
  if t.valid then .ok (insertTreeAt v h h.next k t) else .error .invalidInput

/-- ReferenceTree: no-op on append-only columns, `Operation::Reference(root)` otherwise (an error
    "No Rc" on columns without ref_counted, a no-op on a missing key). -/
def referenceTree (v : Variant) (h : Heap K D) (k : K) : Except Err (Heap K D) :=
  match v with
  | .appendOnly => .ok h
  | .plain => .error .invalidInput
  | .rcRoots =>
    match h.roots.get k with
    | some (r, c) => .ok { h with roots := h.roots.set k (some (r, c + 1)) }
    | none => .ok h

/-- One iteration of the loop of `write_dereference_children_plan`, literally: read the
    children of `a` FIRST (`guard.get_node_children`), then decrement; if the node was freed
    recurse (`rec`) into the children read before. -/
def derefStep (rec : Heap K D → List Addr → Except Err (Heap K D)) (h : Heap K D) (a : Addr) :
    Except Err (Heap K D) :=
  let node := (h.nodes.get a).map (·.children)
  match decRef h a with
  | (true, h1) => .ok h1
  | (false, h1) =>
    match node with
    | some kids => rec h1 kids
    | none => .error .invalidConfiguration                  -- "Missing node data"

/-- `write_dereference_children_plan`: `for address in children { .. }`; `fuel` bounds the
    recursion depth. -/
def derefChildren : Nat → Heap K D → List Addr → Except Err (Heap K D)
  | 0, _, _ => .error .outOfFuel
  | fuel + 1, h, cs => cs.foldlM (derefStep (derefChildren fuel)) h

/-- Depth bound used by the executable model: every descent follows the freeing of a node. -/
def walkFuel (h : Heap K D) : Nat := h.nodes.size + 1

/-- `NodeChange::DereferenceChildren(key, hash, children)` in `write_plan`: if the root exists
    dereference it (`Operation::Dereference`: count - 1 on ref-counted columns, removal
    otherwise) and, if its count was 1, walk `children` (captured when the commit was made). -/
def derefProcess (v : Variant) (h : Heap K D) (k : K) (children : List Addr) :
    Except Err (Heap K D) :=
  match h.roots.get k with
  | none => .ok h
  | some (r, c) =>
    if v = .rcRoots ∧ c > 1 then .ok { h with roots := h.roots.set k (some (r, c - 1)) }
    else
      let h1 := { h with roots := h.roots.set k none }
      derefChildren (walkFuel h1) h1 children

/-- DereferenceTree, atomically (commit-time checks of `validate_change` + process). -/
def dereferenceTree (v : Variant) (h : Heap K D) (k : K) : Except Err (Heap K D) :=
  if v = .appendOnly then .error .invalidConfiguration
  else
    match h.roots.get k with
    | none => .error .invalidConfiguration
    | some (r, _) => derefProcess v h k r.children

/-! ### Reading -/

/-- Logical trees (what a reader sees by following addresses). -/
inductive LTree (D : Type) where
  | node (data : D) (children : List (LTree D))

def mapOpt {α β : Type} (f : α → Option β) : List α → Option (List β)
  | [] => some []
  | a :: l =>
    match f a with
    | none => none
    | some b => (mapOpt f l).map (b :: ·)

/-- Read the subtree at `a` through a node view; `fuel` bounds the depth. -/
def readNode (view : Addr → Option (Node D)) : Nat → Addr → Option (LTree D)
  | 0, _ => none
  | fuel + 1, a =>
    match view a with
    | none => none
    | some n => (mapOpt (readNode view fuel) n.children).map (LTree.node n.data)

/-- `get_tree(key).read()`: `get_root`, then `get_node` for every descendant. -/
def readTree (h : Heap K D) (k : K) : Option (LTree D) :=
  match h.roots.get k with
  | none => none
  | some (r, _) => (mapOpt (readNode h.nodes.get h.next) r.children).map (LTree.node r.data)

/-! ## P1': the commit pipeline of multitree operations (executable driver state) -/

inductive Pending (K D : Type) where
  /-- InsertTree: tree, first claimed address, root node and the address overlay
      (`copy_to_overlay`: root under its key, every NewValue under its address). -/
  | insert (k : K) (t : NewNode D) (n0 : Addr) (root : Node D) (ov : FMap Addr (Node D))
  | ref (k : K)
  /-- DereferenceTree with the root's children as read when the commit was made. -/
  | deref (k : K) (children : List Addr)

structure PState (K D : Type) where
  variant : Variant
  heap : Heap K D
  queue : List (Pending K D)      -- oldest first

def PState.init (v : Variant) : PState K D := ⟨v, Heap.empty, []⟩

/-- the root / node a queued commit put into the commit overlay -/
def pendRoot (k : K) : Pending K D → Option (Node D)
  | .insert k' _ _ root _ => if k' = k then some root else none
  | _ => none

def pendNode (a : Addr) : Pending K D → Option (Node D)
  | .insert _ _ _ _ ov => ov.get a
  | _ => none

/-- Commit overlay lookup of a root: the newest queued InsertTree of that key. -/
def ovRoot (q : List (Pending K D)) (k : K) : Option (Node D) :=
  q.reverse.findSome? (pendRoot k)

def ovNode (q : List (Pending K D)) (a : Addr) : Option (Node D) :=
  q.reverse.findSome? (pendNode a)

/-- `get(col, key, false)`: commit overlay, then tables. -/
def viewRoot (s : PState K D) (k : K) : Option (Node D) :=
  (ovRoot s.queue k).or ((s.heap.roots.get k).map Prod.fst)

/-- `get_node`: address overlay, then tables. -/
def viewNode (s : PState K D) (a : Addr) : Option (Node D) :=
  (ovNode s.queue a).or (s.heap.nodes.get a)

/-- Commit of InsertTree: validate, claim addresses, fill the overlay, queue. -/
def commitInsert (s : PState K D) (k : K) (t : NewNode D) : Except Err (PState K D) :=
  if !t.valid then .error .invalidInput
  else
    let n0 := s.heap.next
    match insRefs true (Heap.empty : Heap K D) n0 t.children with
    | (scratch, n1, as) =>
      .ok { s with heap := { s.heap with next := n1 },
                   queue := s.queue ++ [.insert k t n0 ⟨t.data, as⟩ scratch.nodes] }

def commitRef (s : PState K D) (k : K) : Except Err (PState K D) :=
  match s.variant with
  | .appendOnly => .ok { s with queue := s.queue ++ [.ref k] }   -- an empty commit is queued
  | .plain => .error .invalidInput             -- copy_to_overlay: "No Rc for column"
  | .rcRoots => .ok { s with queue := s.queue ++ [.ref k] }

def commitDeref (s : PState K D) (k : K) : Except Err (PState K D) :=
  if s.variant = .appendOnly then .error .invalidConfiguration
  else
    match viewRoot s k with
    | none => .error .invalidConfiguration
    | some r => .ok { s with queue := s.queue ++ [.deref k r.children] }

/-- `process_commits`: the oldest queued commit reaches the tables. -/
def processOne (s : PState K D) : Except Err (PState K D) :=
  match s.queue with
  | [] => .ok s
  | p :: q =>
    match p with
    | .insert k t n0 _ _ => .ok { s with heap := insertTreeAt s.variant s.heap n0 k t, queue := q }
    | .ref k =>
      match referenceTree s.variant s.heap k with
      | .ok h => .ok { s with heap := h, queue := q }
      | .error e => .error e
    | .deref k cs =>
      match derefProcess s.variant s.heap k cs with
      | .ok h => .ok { s with heap := h, queue := q }
      | .error e => .error e

def processAll : Nat → PState K D → Except Err (PState K D)
  | 0, s => .ok s
  | n + 1, s =>
    match processOne s with
    | .ok s' => processAll n s'
    | .error e => .error e

/-! ### Entry counting (`get_num_column_value_entries`) -/

/-- Largest packed size stored in a single slot: last fixed-size tier minus size field, rc field
    (ref-counted columns) and, for roots, the 26-byte partial key. -/
def maxSinglePart (v : Variant) (isRoot : Bool) : Nat :=
  Gen.MAX_ENTRY_SIZE - Gen.SIZE_SIZE - (if v = .rcRoots then Gen.REFS_SIZE else 0) -
    (if isRoot then Gen.PARTIAL_SIZE else 0)

def isMultipart (len : D → Nat) (v : Variant) (isRoot : Bool) (n : Node D) : Bool :=
  decide (Gen.packed_node_size (len n.data) (n.children.length % 256) > maxSinglePart v isRoot)

def countEntries (len : D → Nat) (s : PState K D) : Except Err Nat :=
  let ovs : List (FMap Addr (Node D)) := s.queue.filterMap (fun p => match p with
    | .insert _ _ _ _ ov => some ov
    | _ => none)
  let multi := !(s.heap.nodes.all (fun _ n => !isMultipart len s.variant false n)) ||
    ovs.any (fun ov => !(ov.all (fun _ n => !isMultipart len s.variant false n))) ||
    !(s.heap.roots.all (fun _ e => !isMultipart len s.variant true e.1))
  if multi then .error .invalidConfiguration
  else .ok (s.heap.nodes.size + (ovs.map FMap.size).sum + s.heap.roots.size)

/-! ### Driver (K = D = String) -/

abbrev DState := Option (PState String String)

/-- value token `v<len>_<seed>` -/
def tokLen (v : String) : Nat :=
  ((((v.drop 1).toString).splitOn "_").headD "").toNat!

def parsePath (s : String) : Option (String × List Nat) :=
  match s.splitOn "/" with
  | key :: idx =>
    if idx.isEmpty then none
    else (idx.mapM (fun (x : String) => x.toNat?)).map (fun is => (key, is))
  | [] => none

def resolvePath (s : PState String String) (key : String) (idx : List Nat) : Option Addr :=
  match viewRoot s key, idx with
  | some r, i :: rest =>
    rest.foldlM (fun a j => (viewNode s a).bind (fun n => n.children[j]?)) =<< r.children[i]?
  | _, _ => none

mutual
  /-- Parse one subtree from the token stream (pre-order). -/
  def parseRef (s : PState String String) : Nat → List String → Option (NRef String × List String)
    | 0, _ => none
    | _ + 1, [] => none
    | fuel + 1, tok :: rest =>
      if tok.startsWith "@" then
        match parsePath (tok.drop 1).toString with
        | some (key, idx) => (resolvePath s key idx).map (fun a => (.existing a, rest))
        | none => none
      else if tok.startsWith "n" then
        match ((tok.drop 1).toString).splitOn ":" with
        | [k, d] =>
          match k.toNat? with
          | some k => (parseRefs s fuel k rest).map (fun (cs, rest') => (.new d cs, rest'))
          | none => none
        | _ => none
      else none
  def parseRefs (s : PState String String) :
      Nat → Nat → List String → Option (NRefs String × List String)
    | 0, _, _ => none
    | _ + 1, 0, toks => some (.nil, toks)
    | fuel + 1, k + 1, toks =>
      match parseRef s fuel toks with
      | some (r, rest) => (parseRefs s fuel k rest).map (fun (rs, rest') => (.cons r rs, rest'))
      | none => none
end

def parseTree (s : PState String String) (toks : List String) : Option (NewNode String) :=
  match parseRef s (2 * toks.length + 2) toks with
  | some (.new d cs, []) => some ⟨d, cs⟩
  | _ => none

def showNode : Option (Node String) → String
  | none => "none"
  | some n => s!"some {n.data} {n.children.length}"

def renderNode (view : Addr → Option (Node String)) : Nat → Addr → String
  | 0, _ => "!"
  | fuel + 1, a =>
    match view a with
    | none => "?"
    | some n => "(" ++ n.data ++ String.join (n.children.map (fun c => " " ++ renderNode view fuel c)) ++ ")"

def renderTree (s : PState String String) (k : String) : String :=
  match viewRoot s k with
  | none => "none"
  | some r =>
    "some (" ++ r.data ++
      String.join (r.children.map (fun c => " " ++ renderNode (viewNode s) (s.heap.next + 1) c)) ++ ")"

def showRes (r : Except Err (PState String String)) (s : PState String String) :
    PState String String × String :=
  match r with
  | .ok s' => (s', "ok")
  | .error e => (s, e.show)

def parseVariant : String → Option Variant
  | "append_only" => some .appendOnly
  | "rc" => some .rcRoots
  | "plain" => some .plain
  | _ => none

def pstep (s : PState String String) : List String → PState String String × String
  | "insert" :: key :: toks =>
    match parseTree s toks with
    | some t => showRes (commitInsert s key t) s
    | none => (s, "bad-op")
  | ["ref", key] => showRes (commitRef s key) s
  | ["deref", key] => showRes (commitDeref s key) s
  | ["process"] => showRes (processOne s) s
  | ["flush"] => (s, "ok")
  | ["enact"] => (s, "ok")
  | ["clean"] => (s, "ok")
  | ["reopen"] => showRes (processAll s.queue.length s) s
  | ["root", key] => (s, showNode (viewRoot s key))
  | ["node", path] =>
    match parsePath path with
    | some (key, idx) => (s, showNode ((resolvePath s key idx).bind (viewNode s)))
    | none => (s, "bad-op")
  | ["tree", key] => (s, renderTree s key)
  | ["count"] =>
    match countEntries tokLen s with
    | .ok n => (s, toString n)
    | .error e => (s, e.show)
  | _ => (s, "bad-op")

/-- Driver entry point: `c10 <args>`. -/
def step (st : DState) (args : List String) : DState × String :=
  match args with
  | ["init", v] =>
    match parseVariant v with
    | some v => (some (PState.init v), "ok")
    | none => (st, "bad-op")
  | _ =>
    match st with
    | some s => let (s', out) := pstep s args; (some s', out)
    | none => (st, "bad-op")

end Pdb.MultiTree
