/-
C02xTx: crash and recovery of the multitree commit pipeline with MULTI-OPERATION transactions and
ADDRESS REUSE (generalisation of Model/MultiTreeCrash.lean, which is about single-operation
commits with monotone addresses).

The pipeline is the transaction model of Model/MultiTree.lean, unchanged: `TState` (`commit_changes`
with several InsertTree / ReferenceTree / DereferenceTree per commit; node slots are CLAIMED at
commit time from the LIFO free-entry stack, then from the fill mark; the tables change in
`process_commits` in the planning order of `write_plan`; a dereference walk pushes the slots it
clears on the free stack, so a later transaction reuses them).  `XState` refines it with
logged-vs-enacted:

  t          the in-memory pipeline state (`TState`): tables as of the PROCESSED commits, allocator
             (free stack, fill mark) INCLUDING the claims of queued commits, queue = commit overlay
  base       the tables on disk after the ENACTED records (`base.next` = the header's `filled`)
  baseFree   the free chain on disk (header `last_removed` + the links in the cleared slots)
  logged     the records published by `process_commits`, not yet enacted, oldest first.  A record
             (`XRec`) is the set of absolute after-images one processed commit plans:
               cs               node slots / reference counts / roots (the writes of `write_plan`;
                                enacting = `drainStep` on the tables the record was planned on)
               filled, free     the TABLE HEADER after-image that `complete_plan` appends:
                                `filled` and the free chain AS THE MEMORY ALLOCATOR HAS THEM WHEN THE
                                RECORD IS PUBLISHED - including the claims of commits that are
                                queued behind it (this is what makes finding F19 happen)
               claims (ghost)   those claims: the slots claimed by the commits queued behind it
               nq (ghost)       how many commits were queued behind it (`ClaimsInv`,
                                Proofs/C02xTxClaims.lean: `claims` = the claims of exactly these)
  flushed    how many of `logged` are in synced log files
  ghost: `H` the atomic heap of all accepted transactions (as `runT` of Proofs/C10TxDefs.lean),
  `hist` the accepted transactions with the allocator state each found, `nEn` how many of them are
  enacted, `leaked` the slots leaked by earlier crashes.

Commands (`XCmd`): commit (a whole transaction) | process (ONE commit) | flush | enact (ONE record)
| crash n (n published records intact in the log files; every flushed one survives, the unsynced
tail may be cut anywhere) followed by recovery (`xrecover`): the surviving records are replayed
oldest first over the disk tables (`snapAt`: each record overwrites node slots / counts / roots
with its after-images and the header with ITS after-image), the queue, the commit overlay, the
`to_dereference` counters and the claims of the lost commits are gone, the free stack is rebuilt
from the header chain.  Because `crash` is a command, every theorem about command lists covers
histories with earlier crashes.

Abstractions (stated, not hidden): one address space / one free stack per column (the
implementation has one per size tier, shared with root value slots); the free chain on disk is
represented by the list it encodes (the link of a cleared slot is written once, when it is pushed,
and is only read while the slot is on the stack: LIFO; byte level: C06 / R2); every record carries
a header after-image (the implementation appends it only if `filled` / `last_removed` changed since
the last one: the omitted header equals the value already on disk or in an earlier record); a
partially enacted record / partially replayed log is the location-level statement
`C02xTx_replay_absorbs` (Props/C02xTx.lean), the commands work on whole records.

The driver of this layer is Model/C02xTxDriver.lean (command word `c02xt`).
-/
import Pdb.Proofs.C10TxSim3
import Pdb.Model.MultiTreeCrash

namespace Pdb.MultiTree
set_option linter.unusedSectionVars false
variable {K D : Type} [DecidableEq K]

/-- one accepted transaction of the history (ghost): its operations and the allocator state
    (`free` stack, fill mark `next`) `commit_changes` found -/
structure TxEntry (K D : Type) where
  ops : List (Op K D)
  free : List Addr
  next : Addr

/-- a published log record -/
structure XRec (K D : Type) where
  cs : ChangeSet K D
  filled : Addr
  free : List Addr
  /-- ghost: slots claimed by the commits queued behind this one when the record was published -/
  claims : List Addr
  /-- ghost: how many commits were queued behind this one when the record was published -/
  nq : Nat

structure XState (K D : Type) where
  t : TState K D
  base : Heap K D
  baseFree : List Addr
  logged : List (XRec K D)
  flushed : Nat
  /-- ghost: atomic heap of all accepted transactions -/
  H : Heap K D
  /-- ghost: the accepted transactions, commit-return order -/
  hist : List (TxEntry K D)
  /-- ghost: how many of them are enacted -/
  nEn : Nat
  /-- ghost: claims the header on disk covers (of commits queued when it was logged) -/
  baseClaims : List Addr
  /-- ghost: slots leaked by earlier crashes -/
  leaked : List Addr
  /-- ghost: how many commits (logged or queued now) the header on disk covers -/
  baseNq : Nat

def XState.init (v : Variant) : XState K D :=
  ⟨TState.init v, Heap.empty, [], [], 0, Heap.empty, [], 0, [], [], 0⟩

inductive XCmd (K D : Type) where
  | commit (ops : List (Op K D))
  | process
  | flush
  /-- enact ONE record -/
  | enact
  /-- crash with `n` published records intact in the log files, then recovery -/
  | crash (n : Nat)

/-- the atomic specification: every transaction applied at once, in commit order, with the
    addresses the allocator handed out -/
def atomRun (v : Variant) (hist : List (TxEntry K D)) : Heap K D :=
  hist.foldl (fun H e => specTx v H e.free e.next e.ops) Heap.empty

/-- enacting / replaying ONE record on disk tables, header, (ghost) covered claims -/
def snapStep (v : Variant) (x : Heap K D × List Addr × List Addr) (r : XRec K D) :
    Heap K D × List Addr × List Addr :=
  (withNext r.filled (drainStep v x.1 r.cs), r.free, r.claims)

/-- the disk after replaying the first `i` logged records over the enacted base -/
def snapAt (v : Variant) (c : XState K D) (i : Nat) : Heap K D × List Addr × List Addr :=
  (c.logged.take i).foldl (snapStep v) (c.base, c.baseFree, c.baseClaims)

/-- how many logged records a crash with `n` intact records keeps: every flushed one, at most all -/
def kept (c : XState K D) (n : Nat) : Nat := min (max n c.flushed) c.logged.length

/-- recovery after a crash that kept `i` logged records -/
def xrecover (c : XState K D) (i : Nat) : XState K D :=
  let S := snapAt c.t.variant c i
  { t := ⟨c.t.variant, S.1, S.2.1, [], .empty⟩
    base := S.1
    baseFree := S.2.1
    logged := []
    flushed := 0
    H := atomRun c.t.variant (c.hist.take (c.nEn + i))
    hist := c.hist.take (c.nEn + i)
    nEn := c.nEn + i
    baseClaims := []
    leaked := S.2.2 ++ c.leaked
    baseNq := 0 }

def xstep (c : XState K D) : XCmd K D → XState K D
  | .commit ops =>
    match c.t.commit ops with
    | (t', .ok ()) =>
      { c with t := t', H := specTx c.t.variant c.H c.t.free c.t.heap.next ops,
               hist := c.hist ++ [⟨ops, c.t.free, c.t.heap.next⟩] }
    | (_, .error _) => c
  | .process =>
    match c.t.queue, c.t.process with
    | cs :: _, .ok t' =>
      { c with t := t', logged := c.logged ++ [⟨cs, t'.heap.next, t'.free, queueClaimed t'.queue, t'.queue.length⟩] }
    | _, _ => c
  | .flush => { c with flushed := c.logged.length }
  | .enact =>
    match c.flushed, c.logged with
    | f + 1, r :: rs =>
      { c with base := withNext r.filled (drainStep c.t.variant c.base r.cs), baseFree := r.free,
               baseClaims := r.claims, baseNq := r.nq, logged := rs, flushed := f, nEn := c.nEn + 1 }
    | _, _ => c
  | .crash n => xrecover c (kept c n)

def xrun (c : XState K D) (cmds : List (XCmd K D)) : XState K D := cmds.foldl xstep c

/-- INPUT hypothesis of the theorems: every committed transaction is legal when it is committed,
    judged on the atomic heap of the accepted transactions (the hypotheses of C10T: `DerefApart`,
    `DerefLive`, `LegalInOrder`); nothing is assumed about process / flush / enact / crash. -/
def LegalX (v : Variant) : XState K D → List (XCmd K D) → Prop
  | _, [] => True
  | c, .commit ops :: cs =>
    (DerefApart ops ∧ DerefLive c.H ops ∧ LegalInOrder v (c.H, c.t.free, c.t.heap.next) ops) ∧
      LegalX v (xstep c (.commit ops)) cs
  | c, .process :: cs => LegalX v (xstep c .process) cs
  | c, .flush :: cs => LegalX v (xstep c .flush) cs
  | c, .enact :: cs => LegalX v (xstep c .enact) cs
  | c, .crash n :: cs => LegalX v (xstep c (.crash n)) cs

/-! ### executable mirror of the hypothesis (the driver CHECKS it on every replayed history) -/

def derefApartB : List (Op K D) → Bool
  | [] => true
  | op :: ops =>
    (!op.isDeref || ops.all (fun op' => !op'.isRef || decide (op'.key ≠ op.key))) &&
    ((!op.isInsert || ops.all (fun op' => !op'.isDeref || decide (op'.key ≠ op.key))) &&
      derefApartB ops)

def derefLiveB (H : Heap K D) (ops : List (Op K D)) : Bool :=
  ops.all (fun op => !op.isDeref || (viewOf H op.key).isSome)

def legalInOrderB (v : Variant) : Heap K D × List Addr × Addr → List (Op K D) → Bool
  | _, [] => true
  | x, op :: ops => op.legalB x.1 && legalInOrderB v (inOrderOp v x op) ops

/-- Bool mirror of the legality of ONE transaction committed in state `c` -/
def txLegalB (v : Variant) (c : XState K D) (ops : List (Op K D)) : Bool :=
  derefApartB ops && (derefLiveB c.H ops && legalInOrderB v (c.H, c.t.free, c.t.heap.next) ops)

/-- Bool mirror of `LegalX` -/
def legalXB (v : Variant) : XState K D → List (XCmd K D) → Bool
  | _, [] => true
  | c, .commit ops :: cs => txLegalB v c ops && legalXB v (xstep c (.commit ops)) cs
  | c, .process :: cs => legalXB v (xstep c .process) cs
  | c, .flush :: cs => legalXB v (xstep c .flush) cs
  | c, .enact :: cs => legalXB v (xstep c .enact) cs
  | c, .crash n :: cs => legalXB v (xstep c (.crash n)) cs

/-- the slots below the fill mark that are neither on the free stack nor hold a node nor are
    claimed by a queued commit: allocated but unreachable (executable; the driver reports them) -/
def leakedSlots (s : TState K D) : List Addr :=
  (List.range s.heap.next).filter (fun a =>
    !(s.free.contains a) && !((s.heap.nodes.get a).isSome) && !((queueClaimed s.queue).contains a))

end Pdb.MultiTree
