/-
C04 (a): the btree iterator merge machine  (src/btree/iter.rs, src/db.rs).

  `BTreeIterator::{new, seek, seek_to_first, seek_to_last, next, prev, iter_inner,
   next_backend, seek_backend, seek_backend_to_last}`, `LastKey`, `PendingBackend`,
  `CommitOverlay::{btree_next, btree_prev}`.

Keys are byte strings (`List Nat`) ordered lexicographically (`keyLt`; `Vec<u8>: Ord`).

What is modelled exactly
* `iter_inner`: the commit-overlay query by `btree_next/btree_prev(last_key)`, the
  `pending_backend` item (dropped when the column's last record id changed, used only when
  its direction equals the direction of the call, otherwise dropped), the call of
  `next_backend`, the six-way `match (next_commit_overlay, next_backend)` including the
  `continue` on removed overlay entries, and the update of `last_key`.
  The Rust `loop` is unbounded; the model runs it with fuel `overlay.length + 1` and reports
  `Outcome.outOfFuel` explicitly (proved unreachable in Proofs/C04Iter.lean).
* `next_backend`: when the record id differs from the one the cursor was built for, the
  tree is re-opened and the cursor re-positioned from `last_key`
  (`At k -> seek Exclude k`, `Seeked k -> seek Include k`, `Start -> seek Include []`,
  `End -> seek_to_last`); then one cursor step.
* `seek`, `seek_to_first` (= `seek []`), `seek_to_last`.

What is abstracted
* The backend (`BTree` + `BTreeIterState`: a stack of (LastIndex, Node)) is a sorted
  association list `List (Key × V)` plus an abstract cursor `Cur`:
    `fresh`     empty node stack (new iterator, or after a step returned `None`):
                forward starts at the first entry, backward at the last one;
    `incl k`    after `seek(Include k)`: LastIndex::Seeked (key present) or ::Before
                (absent): forward yields the first entry ≥ k, backward the last entry ≤ k;
    `excl k`    after `seek(Exclude k)` or after a step returned the entry k:
                forward first entry > k, backward last entry < k;
    `afterAll`  after `seek(Last)`: forward nothing, backward the last entry.
  A step that yields an entry e leaves the cursor at `excl e.key`; a step that yields
  nothing leaves it `fresh` (`BTreeIterState::exit` empties the stack).
  The backend content is a function of the record id (`beOf : Nat → List (Key × V)`):
  the tree seen through the log overlay changes only when a record writes the column, and
  that changes `last_record_id(col)`.  The abstract cursor is proved to be refined by the
  node-stack cursor (Props/C04b.lean), and the pipeline that produces the environments
  (overlay, record id, tree) is Pdb/Model/BTreePipe.lean with the composition theorems of
  Props/C04c.lean; the record-id rule itself ("a record that writes a value table of the column
  moves `last_record_id`") is tied to the code by the correspondence runs (harness/src/c04.rs).
* The commit overlay is a sorted association list `List (Key × Option V)`
  (`some v` = set, `none` = removed), no duplicate keys (it is a `BTreeMap`).

The model is of the PATCHED code (fixes/fix-c04-seek-to-last.diff, fix-c04-start-end.diff);
`Variant` selects the unpatched behaviour for the negation witnesses F5a / F5b.
-/
import Pdb.Gen.Consts

namespace Pdb.C04

abbrev Key := List Nat

/-- Lexicographic order on byte strings (`<[u8] as Ord>::cmp == Less`). -/
def keyLt : Key → Key → Bool
  | [], [] => false
  | [], _ :: _ => true
  | _ :: _, [] => false
  | a :: as, b :: bs => if a < b then true else if a = b then keyLt as bs else false

def keyLe (a b : Key) : Bool := !keyLt b a

/-! ### sorted association lists -/

/-- First element satisfying `p`. -/
def first {α : Type} (p : α → Bool) : List α → Option α
  | [] => none
  | x :: xs => if p x then some x else first p xs

/-- Last element satisfying `p`. -/
def last {α : Type} (p : α → Bool) : List α → Option α
  | [] => none
  | x :: xs => (last p xs).or (if p x then some x else none)

def lookup {β : Type} : List (Key × β) → Key → Option β
  | [], _ => none
  | (k', b) :: l, k => if k' = k then some b else lookup l k

/-- Insert or replace in a key-sorted association list. -/
def put {β : Type} : List (Key × β) → Key → β → List (Key × β)
  | [], k, b => [(k, b)]
  | (k', b') :: l, k, b =>
    if keyLt k k' then (k, b) :: (k', b') :: l
    else if k = k' then (k, b) :: l
    else (k', b') :: put l k b

def del {β : Type} : List (Key × β) → Key → List (Key × β)
  | [], _ => []
  | (k', b') :: l, k => if k' = k then l else (k', b') :: del l k

/-- Strictly ascending keys. -/
def Sorted {β : Type} (l : List (Key × β)) : Prop :=
  l.Pairwise (fun a b => keyLt a.1 b.1 = true)

/-! ### positions -/

inductive LastKey where
  | start
  | end_
  | at (k : Key)
  | seeked (k : Key)
deriving DecidableEq, Repr

inductive Dir where
  | fwd
  | bwd
deriving DecidableEq, Repr

/-- `k` is a forward candidate from position `L` (the ranges of `btree_next`). -/
def after : LastKey → Key → Bool
  | .start, _ => true
  | .end_, _ => false
  | .at l, k => keyLt l k
  | .seeked l, k => !keyLt k l

/-- `k` is a backward candidate from position `L` (the ranges of `btree_prev`). -/
def before : LastKey → Key → Bool
  | .start, _ => false
  | .end_, _ => true
  | .at l, k => keyLt k l
  | .seeked l, k => !keyLt l k

/-- candidates in direction `d` -/
def cand (d : Dir) (L : LastKey) (k : Key) : Bool :=
  match d with
  | .fwd => after L k
  | .bwd => before L k

/-- first candidate in travel order: first (forward) or last (backward) entry. -/
def pick {α : Type} (d : Dir) (p : α → Bool) (l : List α) : Option α :=
  match d with
  | .fwd => first p l
  | .bwd => last p l

/-- `a` comes strictly before `b` in travel order. -/
def dirLt (d : Dir) (a b : Key) : Bool :=
  match d with
  | .fwd => keyLt a b
  | .bwd => keyLt b a

variable {V : Type}

/-- `CommitOverlay::btree_next`. -/
def ovNext (ov : List (Key × Option V)) : LastKey → Option (Key × Option V)
  | .start => ov.head?
  | .end_ => none
  | .at k => first (fun e => keyLt k e.1) ov
  | .seeked k => first (fun e => !keyLt e.1 k) ov

/-- `CommitOverlay::btree_prev`. -/
def ovPrev (ov : List (Key × Option V)) : LastKey → Option (Key × Option V)
  | .end_ => ov.getLast?
  | .start => none
  | .at k => last (fun e => keyLt e.1 k) ov
  | .seeked k => last (fun e => !keyLt k e.1) ov

def ovStep (d : Dir) (ov : List (Key × Option V)) (L : LastKey) : Option (Key × Option V) :=
  match d with
  | .fwd => ovNext ov L
  | .bwd => ovPrev ov L

/-! ### backend cursor -/

inductive Cur where
  | fresh
  | incl (k : Key)
  | excl (k : Key)
  | afterAll
deriving DecidableEq, Repr

inductive SeekTo where
  | incl (k : Key)
  | excl (k : Key)
  | last

/-- `BTreeIterState::seek` / `Node::seek`. -/
def curSeek : SeekTo → Cur
  | .incl k => .incl k
  | .excl k => .excl k
  | .last => .afterAll

/-- What `BTreeIterState::next` yields from a cursor position. -/
def curAns (be : List (Key × V)) (c : Cur) (d : Dir) : Option (Key × V) :=
  match c, d with
  | .fresh, .fwd => be.head?
  | .fresh, .bwd => be.getLast?
  | .incl k, .fwd => first (fun e => !keyLt e.1 k) be
  | .incl k, .bwd => last (fun e => !keyLt k e.1) be
  | .excl k, .fwd => first (fun e => keyLt k e.1) be
  | .excl k, .bwd => last (fun e => keyLt e.1 k) be
  | .afterAll, .fwd => none
  | .afterAll, .bwd => be.getLast?

/-- Cursor position after a step that yielded `r`. -/
def curAfter (r : Option (Key × V)) : Cur :=
  match r with
  | some e => .excl e.1
  | none => .fresh

/-! ### iterator state -/

structure Pending (V : Type) where
  item : Option (Key × V)
  dir : Dir

structure IterSt (V : Type) where
  lastKey : LastKey
  pending : Option (Pending V)
  cur : Cur
  rid : Nat            -- record id the cursor (and the opened tree) belong to

/-- Which of the two fixes are applied. -/
structure Variant where
  clearOnLast : Bool   -- fix-c04-seek-to-last: `seek_to_last` clears `pending_backend`
  guardEnds : Bool     -- fix-c04-start-end: nothing before Start / after End

def patched : Variant := { clearOnLast := true, guardEnds := true }
def unpatched : Variant := { clearOnLast := false, guardEnds := false }

/-- `BTreeIterator::new` at record id `rid`. -/
def IterSt.new (rid : Nat) : IterSt V :=
  { lastKey := .start, pending := none, cur := .fresh, rid := rid }

/-- `seek_backend`: (re-open the tree if the record id changed,) position the cursor. -/
def seek (_s : IterSt V) (rid : Nat) (k : Key) : IterSt V :=
  { lastKey := .seeked k, pending := none, cur := curSeek (.incl k), rid := rid }

def seekToLast (v : Variant) (s : IterSt V) (rid : Nat) : IterSt V :=
  { lastKey := .end_, pending := if v.clearOnLast then none else s.pending,
    cur := curSeek .last, rid := rid }

/-- The re-positioning of `next_backend` after the record id changed. -/
def reseek : LastKey → Cur
  | .at k => curSeek (.excl k)
  | .seeked k => curSeek (.incl k)
  | .start => curSeek (.incl [])
  | .end_ => curSeek .last

/-- `next_backend`. -/
def nextBackend (be : List (Key × V)) (s : IterSt V) (rid : Nat) (d : Dir) :
    Option (Key × V) × IterSt V :=
  let c := if rid ≠ s.rid then reseek s.lastKey else s.cur
  let r := curAns be c d
  (r, { s with cur := curAfter r, rid := rid })

inductive Outcome (V : Type) where
  | ok (r : Option (Key × V))
  | outOfFuel
deriving DecidableEq

/-- End of `iter_inner`: set `last_key` from the result. -/
def finish (d : Dir) (s : IterSt V) (r : Option (Key × V)) : IterSt V × Outcome V :=
  ({ s with lastKey := match r with
                       | some e => .at e.1
                       | none => match d with
                                 | .bwd => .start
                                 | .fwd => .end_ }, .ok r)

/-- First half of one pass of the `loop`: the backend candidate. The cached
    `pending_backend` is dropped when the record id changed, taken, used when its direction is
    the direction of the call; otherwise `next_backend` is asked. -/
def backendItem (be : List (Key × V)) (rid : Nat) (d : Dir) (s : IterSt V) :
    Option (Key × V) × IterSt V :=
  let s := if rid ≠ s.rid then { s with pending := none } else s
  let fromPending : Option (Option (Key × V)) :=
    match s.pending with
    | some p => if p.dir = d then some p.item else none
    | none => none
  let s := { s with pending := none }
  match fromPending with
  | some item => (item, s)
  | none => nextBackend be s rid d

/-- The `loop` of `iter_inner`. `be` is the backend at record id `rid`. -/
def iterLoop (ov : List (Key × Option V)) (be : List (Key × V)) (rid : Nat) (d : Dir) :
    Nat → IterSt V → IterSt V × Outcome V
  | 0, s => (s, .outOfFuel)
  | fuel + 1, s0 =>
    let o := ovStep d ov s0.lastKey
    let bs := backendItem be rid d s0
    let s := bs.2
    match o, bs.1 with
    | some (ck, cv), some (bk, bv) =>
      if dirLt d ck bk then
        let s := { s with pending := some { item := some (bk, bv), dir := d } }
        match cv with
        | some v => finish d s (some (ck, v))
        | none => iterLoop ov be rid d fuel { s with lastKey := .at ck }
      else if dirLt d bk ck then finish d s (some (bk, bv))
      else
        match cv with
        | some v => finish d s (some (bk, v))
        | none => iterLoop ov be rid d fuel { s with lastKey := .at ck }
    | some (ck, some v), none =>
      finish d { s with pending := some { item := none, dir := d } } (some (ck, v))
    | some (ck, none), none =>
      iterLoop ov be rid d fuel
        { s with pending := some { item := none, dir := d }, lastKey := .at ck }
    | none, some e => finish d s (some e)
    | none, none => finish d { s with pending := some { item := none, dir := d } } none

/-- `iter_inner` (with the Start/End guard of fix-c04-start-end when `v.guardEnds`). -/
def iterInner (v : Variant) (ov : List (Key × Option V)) (be : List (Key × V)) (rid : Nat)
    (d : Dir) (s : IterSt V) : IterSt V × Outcome V :=
  if v.guardEnds && ((s.lastKey = .start && d = .bwd) || (s.lastKey = .end_ && d = .fwd)) then
    (s, .ok none)
  else iterLoop ov be rid d (ov.length + 1) s

/-! ### calls, runs -/

inductive Call where
  | seek (k : Key)
  | seekFirst
  | seekLast
  | next
  | prev
deriving DecidableEq, Repr

inductive Out (V : Type) where
  | unit                              -- `Ok(())` of the seek functions
  | item (r : Option (Key × V))
  | outOfFuel
deriving DecidableEq

/-- The environment of one call: the commit overlay and the column's last record id at the
    time of the call (the backend is `beOf rid`). -/
structure Env (V : Type) where
  ov : List (Key × Option V)
  rid : Nat

def outOf : Outcome V → Out V
  | .ok r => .item r
  | .outOfFuel => .outOfFuel

def stepV (v : Variant) (beOf : Nat → List (Key × V)) (s : IterSt V) (e : Env V) :
    Call → IterSt V × Out V
  | .seek k => (seek s e.rid k, .unit)
  | .seekFirst => (seek s e.rid [], .unit)
  | .seekLast => (seekToLast v s e.rid, .unit)
  | .next => let r := iterInner v e.ov (beOf e.rid) e.rid .fwd s; (r.1, outOf r.2)
  | .prev => let r := iterInner v e.ov (beOf e.rid) e.rid .bwd s; (r.1, outOf r.2)

/-- The patched code. -/
def step (beOf : Nat → List (Key × V)) (s : IterSt V) (e : Env V) (c : Call) :
    IterSt V × Out V := stepV patched beOf s e c

def runV (v : Variant) (beOf : Nat → List (Key × V)) (s : IterSt V) :
    List (Env V × Call) → IterSt V × List (Out V)
  | [] => (s, [])
  | (e, c) :: cs =>
    let r := stepV v beOf s e c
    let rs := runV v beOf r.1 cs
    (rs.1, r.2 :: rs.2)

def run (beOf : Nat → List (Key × V)) (s : IterSt V) (cs : List (Env V × Call)) :
    IterSt V × List (Out V) := runV patched beOf s cs

/-! ### specification -/

/-- The ordered map the iterator must enumerate: backend overridden by the overlay. -/
def merged (ov : List (Key × Option V)) (be : List (Key × V)) : List (Key × V) :=
  ov.foldl (fun m e => match e.2 with
                       | some v => put m e.1 v
                       | none => del m e.1) be

/-- Point read: overlay first, backend otherwise (`Db::get` on a btree column). -/
def mget (ov : List (Key × Option V)) (be : List (Key × V)) (k : Key) : Option V :=
  match lookup ov k with
  | some o => o
  | none => lookup be k

/-- Expected answer of a step in direction `d` from logical position `p` on the map `m`. -/
def specAns (d : Dir) (m : List (Key × V)) (p : LastKey) : Option (Key × V) :=
  pick d (fun e => cand d p e.1) m

def posAfter (d : Dir) (_p : LastKey) (r : Option (Key × V)) : LastKey :=
  match r with
  | some e => .at e.1
  | none => match d with
            | .fwd => .end_
            | .bwd => .start

/-- Reference semantics of one call on logical positions only. -/
def specStep (m : List (Key × V)) (p : LastKey) : Call → LastKey × Out V
  | .seek k => (.seeked k, .unit)
  | .seekFirst => (.seeked [], .unit)
  | .seekLast => (.end_, .unit)
  | .next => let r := specAns .fwd m p; (posAfter .fwd p r, .item r)
  | .prev => let r := specAns .bwd m p; (posAfter .bwd p r, .item r)

def specRun (beOf : Nat → List (Key × V)) (p : LastKey) :
    List (Env V × Call) → LastKey × List (Out V)
  | [] => (p, [])
  | (e, c) :: cs =>
    let r := specStep (merged e.ov (beOf e.rid)) p c
    let rs := specRun beOf r.1 cs
    (rs.1, r.2 :: rs.2)

end Pdb.C04
