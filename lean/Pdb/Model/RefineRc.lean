/-
R5: the PHYSICAL hash column of every logical kind (plain / preimage / ref-counted).

`Pdb/Model/Refine.lean` composes the page model of the index (Pdb/Model/Index.lean) with one
byte-level value table per size tier (Pdb/Model/ValueTable.lean) into the physical column `PCol`
of a PLAIN hash column.  This file adds what `HashColumn::write_plan` does on columns with
`preimage` and / or `ref_counted` set, on the same state type `PCol` (the value tables of a
ref-counted column carry the 4-byte counter: `tableOfTier true`).

Rust anchors
  src/column.rs  HashColumn::write_plan             -> `rWrite`
                 HashColumn::write_plan_existing +
                 Column::write_existing_value_plan  -> `rWriteExisting`
                 HashColumn::write_plan_new         -> `Refine.pWriteNew` (tier chosen with the
                                                       column's `ref_counted` flag)
  src/table.rs   ValueTable::write_inc_ref          -> `rIncRef` (`ValueTable.changeRef .. true`)
                 ValueTable::write_dec_ref          -> `changeRef .. false`, then
                                                       `write_remove_plan` (`Refine.pRemoveVal`)
                 ValueTable::query (count)          -> third component of `ValueTable.readChain`

What `write_existing_value_plan` does with a key that is PRESENT (`search_all_indexes` found it):
  Reference      ref_counted: `write_inc_ref`                       otherwise: `Skipped`
  Set            ref_counted: `write_inc_ref` (the value is NOT compared, NOT written)
                 else preimage: `Skipped` ("Replace is not supported"), whatever the new value
                 else: replace in place / move to another tier (plain column, `Refine.pWrite`)
  Dereference    ref_counted: `write_dec_ref`; if the counter would reach 0 (and is not LOCKED):
                 `write_remove_plan` + `index.write_remove_plan`
                 otherwise: `write_remove_plan` + `index.write_remove_plan`
and with a key that is ABSENT: Set inserts (`write_plan_new`, counter 1), Dereference and
Reference are `Skipped`.  The counter saturates at `LOCKED_REF` (`change_ref`).

DRIVER PROTOCOL (command `r5`, stateful; one output line per input line; it mirrors `c09`)
  r5 init <bits> <plain|preimage|rc> [purge|nopurge]   fresh column (fixed code: exact page
                                       search, growth on a move into a full page; `purge`: the
                                       crate has fix-c09-stale-index-entries, default `nopurge`;
                                       no compression)                                  -> ok
  r5 set <hexkey32> v<len>_<seed>      plan `Operation::Set` (value = `util::expand_token`) -> ok
  r5 deref <hexkey32>                  plan `Operation::Dereference`                     -> ok
  r5 ref <hexkey32>                    plan `Operation::Reference`                       -> ok
  r5 get <hexkey32>                    `HashColumn::get`      -> none | some <len>:<fnv1a64>
  r5 getrc <hexkey32>                  value and stored counter
                                                    -> none | some <len>:<fnv1a64> rc=<count>
  r5 reindex                           one `process_reindex` batch                       -> ok
  r5 mark                              end of the log record the preceding lines belong to
                                       -> ok | panic | diverge | err:Corruption | err:Panic ..
  r5 enact                             a logged `DropTable` takes effect                 -> ok
  r5 reopen                            clean close + open                                -> ok
  r5 poke <hexkey32> <count>           test surgery, not an operation of the column: the counter
                                       field of the key's slot is overwritten (the harness edits
                                       the table file of a closed database), to reach the
                                       saturation range of the 32-bit counter           -> ok
  r5 total                             TOTALITY of the model's physical run since `init`: every
                                       `rStep` (kind plain: `Refine.pStep`) returned `.ok`
                                       -> ok | err:model-panic | err:model-diverge |
                                          err:model-<WrErr> (explicit, never reset; the harness
                                          emits it at the end of every case with observed `ok`,
                                          so a reachable error outcome of `PRes` - excluded for
                                          legal inputs by `R3_total` / `R5_total` - is a
                                          disagreement of the correspondence)
  r5 stat    -> bits=<b> older=<n> prog=<p> cur=<entries in current> old=<e1,e2,..|->
  r5 slots   -> tiers=<tier:filled:lastRemoved:freeLen,..|->  (every table ever written to)
  anything malformed -> bad-op

This file imports only `Pdb.Model.*` (which import `Pdb.Gen.*` and core).
-/
import Pdb.Model.Refine

namespace Pdb.RefineRc
open Pdb.Gen Pdb.Index Pdb.ValueTable Pdb.Refine

/-! ## the column options of a logical kind -/

/-- `ColumnOptions::ref_counted` -/
def refCounted : Pdb.Kind → Bool
  | .rc => true
  | _ => false

/-- `ColumnOptions::preimage` -/
def preimage : Pdb.Kind → Bool
  | .plain => false
  | _ => true

/-- a fresh hash column of kind `kind`: empty index with `bits` bits, empty value tables (with the
counter field iff the column is ref-counted) -/
def rInit (kind : Pdb.Kind) (cfg : Cfg) (bits : Nat) : PCol :=
  ⟨cfg, Table.new bits, [], 0, tableOfTier (refCounted kind)⟩

/-! ## planned writes -/

/-- the three operations of a hash column -/
inductive ROp where
  | set (v : Bytes)
  | deref
  | ref

/-- `ValueTable::write_inc_ref` at address `a` (the Boolean outcome of `change_ref` is dropped) -/
def rIncRef (p : PCol) (a : Nat) : PCol :=
  p.setVT (Address.size_tier a)
    (changeRef (p.vt (Address.size_tier a)) (Address.offset a) true).1

/-- `write_plan_existing` / `write_existing_value_plan` for a key found at (table `j`, `sub`,
address `a`). -/
def rWriteExisting (kind : Pdb.Kind) (cmp : Bytes → Bytes) (thr : Nat) (p : PCol) (k : Key)
    (op : ROp) (j sub a : Nat) : PRes :=
  match op with
  | .ref => if refCounted kind then .ok (rIncRef p a) else .ok p
  | .set v =>
    if refCounted kind then .ok (rIncRef p a)
    else if preimage kind then .ok p
    else pWriteExisting p k (some (tierFor cmp thr false (tkey k) v)) j sub a
  | .deref =>
    if refCounted kind then
      -- write_dec_ref: `change_ref(-1)`; `false` = the entry has to go
      if (changeRef (p.vt (Address.size_tier a)) (Address.offset a) false).2 then
        .ok (p.setVT (Address.size_tier a)
          (changeRef (p.vt (Address.size_tier a)) (Address.offset a) false).1)
      else pWriteExisting p k none j sub a
    else pWriteExisting p k none j sub a

/-- `HashColumn::write_plan` -/
def rWrite (kind : Pdb.Kind) (cmp : Bytes → Bytes) (thr : Nat) (p : PCol) (k : Key) (op : ROp) :
    PRes :=
  match pSearchAll p k with
  | some (j, sub, a) => rWriteExisting kind cmp thr p k op j sub a
  | none =>
    match op with
    | .set v => pWriteNew p k (tierFor cmp thr (refCounted kind) (tkey k) v)
    | .deref => .ok p
    | .ref => .ok p

inductive RAction where
  /-- `Operation::Set(key, value)` -/
  | set (k : Key) (v : Bytes)
  /-- `Operation::Dereference(key)` -/
  | deref (k : Key)
  /-- `Operation::Reference(key)` -/
  | ref (k : Key)
  /-- one `process_reindex` batch -/
  | reindex
  /-- the logged records have been enacted (a logged `DropTable` takes effect) -/
  | enact
  /-- clean close + open, or the `open_index` part of a crash recovery -/
  | reopen
  /-- `trigger_reindex` by the validation of a rejected log record during recovery -/
  | relaunch

def rStep (kind : Pdb.Kind) (cmp : Bytes → Bytes) (thr : Nat) (p : PCol) : RAction → PRes
  | .set k v => rWrite kind cmp thr p k (.set v)
  | .deref k => rWrite kind cmp thr p k .deref
  | .ref k => rWrite kind cmp thr p k .ref
  | .reindex => liftIx p (reindexBatch p.ix)
  | .enact => .ok (p.withIx (enactDrop p.ix))
  | .reopen => .ok (p.withIx (reopen p.ix))
  | .relaunch => .ok (p.withIx (triggerReindex p.ix))

def rRun (kind : Pdb.Kind) (cmp : Bytes → Bytes) (thr : Nat) (p : PCol) : List RAction → PRes
  | [] => .ok p
  | a :: as => (rStep kind cmp thr p a).bind (fun p' => rRun kind cmp thr p' as)

/-- the P1 operations a physical action performs (maintenance actions: none) -/
def RAction.ops : RAction → List (Pdb.Op Key Bytes)
  | .set k v => [.set k v]
  | .deref k => [.deref k]
  | .ref k => [.ref k]
  | _ => []

/-! ## reads -/

/-- `HashColumn::get` + `Column::decompress` together with the stored reference counter (the third
component of `ValueTable::query`; 1 in a table without counter field): the P1 cell of the key. -/
def rGet (decomp : Bytes → Option Bytes) (p : PCol) (k : Key) : Pdb.Cell Bytes :=
  (pSearchAll p k).bind (fun r =>
    match readChain (p.vt (Address.size_tier r.2.2)) (tkey k) (Address.offset r.2.2) with
    | .ok (some (b, c, n)) => (decodeStored decomp (b, c)).map (fun v => (v, n))
    | _ => none)

/-! ## Driver -/

section Driver

def parseKind (s : String) : Option Pdb.Kind :=
  if s = "plain" then some .plain
  else if s = "preimage" then some .preimage
  else if s = "rc" then some .rc
  else none

structure DState where
  kind : Pdb.Kind
  col : PCol
  /-- a planning step of the current record failed -/
  failed : Option String

def DState.init : DState := ⟨.plain, rInit .plain ⟨true, true, false⟩ MIN_INDEX_BITS, none⟩

def resLine (d : DState) : PRes → DState × String
  | .ok p => ({ d with col := p }, "ok")
  | .panic => ({ d with failed := some "panic" }, "ok")
  | .diverge => ({ d with failed := some "diverge" }, "ok")
  | .vtErr e => ({ d with failed := some (showWrErr e) }, "ok")

def noComp (v : Bytes) : Bytes := v

def showVal (v : Bytes) : String := s!"{v.length}:{fnv v fnvInit}"

def tierLines (p : PCol) : Nat → Nat → List String
  | 0, _ => []
  | f + 1, t =>
    let x := p.vt t
    if x.filled > 1 ∨ x.lastRemoved ≠ 0 then
      s!"{t}:{x.filled}:{x.lastRemoved}:{freeLen x}" :: tierLines p f (t + 1)
    else tierLines p f (t + 1)

def slotLine (p : PCol) : String :=
  let ts := tierLines p 256 0
  s!"tiers={if ts.isEmpty then "-" else ",".intercalate ts}"

/-- `init <bits> <kind> [purge|nopurge]`: the last word says whether the crate under test has
fix-c09-stale-index-entries (default: it has not) -/
def initCmd (d : DState) (b k pu : String) : DState × String :=
  match b.toNat?, parseKind k,
      (if pu = "purge" then some true else if pu = "nopurge" then some false else none) with
  | some bits, some kind, some pg =>
    if MIN_INDEX_BITS ≤ bits ∧ bits ≤ 40 then (⟨kind, rInit kind ⟨true, true, pg⟩ bits, none⟩, "ok")
    else (d, "bad-op")
  | _, _, _ => (d, "bad-op")

def step (d : DState) (ws : List String) : DState × String :=
  match ws with
  | ["init", b, k] => initCmd d b k "nopurge"
  | ["init", b, k, pu] => initCmd d b k pu
  | ["set", k, v] =>
    match parseKey k, parseValue v with
    | some key, some val =>
      if d.failed.isSome then (d, "ok")
      else resLine d (rStep d.kind noComp 0 d.col (.set key val))
    | _, _ => (d, "bad-op")
  | ["deref", k] =>
    match parseKey k with
    | some key =>
      if d.failed.isSome then (d, "ok") else resLine d (rStep d.kind noComp 0 d.col (.deref key))
    | none => (d, "bad-op")
  | ["ref", k] =>
    match parseKey k with
    | some key =>
      if d.failed.isSome then (d, "ok") else resLine d (rStep d.kind noComp 0 d.col (.ref key))
    | none => (d, "bad-op")
  | ["get", k] =>
    match parseKey k with
    | some key => (d, showOpt ((rGet some d.col key).map (fun c => showVal c.1)))
    | none => (d, "bad-op")
  | ["getrc", k] =>
    match parseKey k with
    | some key => (d, showOpt ((rGet some d.col key).map (fun c => s!"{showVal c.1} rc={c.2}")))
    | none => (d, "bad-op")
  | ["reindex"] =>
    if d.failed.isSome then (d, "ok") else resLine d (rStep d.kind noComp 0 d.col .reindex)
  | ["mark"] =>
    match d.failed with
    | some f => (d, f)
    | none => (d, "ok")
  | ["enact"] => resLine d (rStep d.kind noComp 0 d.col .enact)
  | ["reopen"] => resLine d (rStep d.kind noComp 0 d.col .reopen)
  | ["poke", k, n] =>
    match parseKey k, n.toNat? with
    | some key, some cnt =>
      match pSearchAll d.col key with
      | some (_, _, a) =>
        let t := d.col.vt (Address.size_tier a)
        let b := t.slots (Address.offset a)
        let o := if (decide (t.multipart = true ∧ isMulti b) : Bool) then SIZE_SIZE + INDEX_SIZE else SIZE_SIZE
        let b' := b.take o ++ leBytes REFS_SIZE cnt ++ b.drop (o + REFS_SIZE)
        ({ d with col := d.col.setVT (Address.size_tier a) (t.setSlot (Address.offset a) b') }, "ok")
      | none => (d, "err:absent")
    | _, _ => (d, "bad-op")
  | ["total"] =>
    match d.failed with
    | some f => (d, s!"err:model-{f}")
    | none => (d, "ok")
  | ["stat"] => (d, stat d.col.ix)
  | ["slots"] => (d, slotLine d.col)
  | _ => (d, "bad-op")

end Driver

end Pdb.RefineRc
