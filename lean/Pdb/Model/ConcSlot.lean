/-
ConcSlot: SLOT-LEVEL model of a point read of one plain hash column racing with the
background workers (property C05, mechanisms "value entries carry the key tail" and "table
bytes being rewritten are shadowed by the log overlay").

`Pdb.CRd` (Model/ConcRead.lean, Part 1) is key-level: one table cell per key.  Here a key is
found through an INDEX CHUNK (`chunkOf k`) whose entry gives an ADDRESS (size tier, offset) of a
VALUE SLOT that stores the key next to the value; slots are freed when a value moves to another
size tier or is removed, freed slots are reused (most recently freed first) by later records.

  files      `files.chunk c` (index file), `files.slot a` (value tables; `none` = free/tombstone)
  allocator  per tier a free stack and a fill mark (planner state, changed when a record is
             planned, i.e. at `publish`)
  record     `SRec`: id + ordered list of LOCATION writes (`Loc.chunk c content` |
             `Loc.slot a content`): absolute after-images
  log overlay  `logged`: published, not yet ended records; a lookup returns the LAST write of the
             LAST logged record covering the location (`ovBy`); `sview` = overlay over files
  commit overlay / queue / in-flight commit / ghost history: exactly as in `CRd.CSt`

Atomic actions (a disabled action is a no-op, so all interleavings = all action lists):
  commit tx | pop | publish (plan the in-flight commit against the view, `end_record`) |
  cleanOverlay | flush | enactWrite (ONE location of the oldest flushed record) | endRead |
  reader t:  rBegin k | rOverlay | rIdxLog | rIdxFile | rValLog | rValFile | rEnd
The index lookup and the value lookup, and inside each the (log overlay, file) pair, are separate
actions: other actions may come between them (src/index.rs `IndexTable::get`: `log.with_index`
then the mmap; src/table.rs `for_parts`: `log.value_ref` then `file.slice_at`).

`Cfg` selects the code variant:
  discipline  true: the reader holds `commit_overlay.read()` from rBegin to rEnd (src/db.rs
              `DbInner::get`); false: the guard is dropped right after the overlay miss
  keyCheck    true: the value lookup compares the stored key with the wanted key
              (src/table.rs `for_parts`, `TableKeyQuery::Check`); false: no comparison
  exactEnd    true: `Log::end_read` removes exactly the index-overlay entries tagged with the ended
              record (`==`); false: also entries of LATER records for the same chunk (`>=`,
              the seeded change /verif/seeded/C05-c05a)

Simplifications (see Props/C05Slot.lean for the discussion): index entries carry the whole key
(no partial-key false positives: a reader has ONE candidate entry), chunks are unbounded lists
(no reindex), a value occupies one slot (no multipart chains), one column, plain kind only.
-/
import Pdb.Model.ConcRead

namespace Pdb
namespace CSlot

/-- (size tier, offset) -/
abbrev Addr := Nat × Nat

/-- the column kind of every key of this model: a plain hash column -/
def plainK {K : Type} : K → Kind := fun _ => .plain

variable {K V : Type}

/-- A location write of a log record: an index chunk or a value slot, absolute after-image. -/
inductive Loc (K V : Type) where
  | chunk (c : Nat) (x : List (K × Addr))
  | slot (a : Addr) (x : Option (K × V))

/-- A published log record. -/
structure SRec (K V : Type) where
  id : Nat
  writes : List (Loc K V)

/-- Contents of every index chunk and every value slot (the files, or a view of them). -/
structure PV (K V : Type) where
  chunk : Nat → List (K × Addr)
  slot : Addr → Option (K × V)

def PV.empty : PV K V := { chunk := fun _ => [], slot := fun _ => none }

/-- `TableFile::write_at` of one location. -/
def PV.apply (pv : PV K V) : Loc K V → PV K V
  | .chunk c x => { pv with chunk := fun c' => if c' = c then x else pv.chunk c' }
  | .slot a x => { pv with slot := fun a' => if a' = a then x else pv.slot a' }

def applyLocs (pv : PV K V) (ws : List (Loc K V)) : PV K V := ws.foldl PV.apply pv

def Loc.chunkAt (c : Nat) : Loc K V → Option (List (K × Addr))
  | .chunk c' x => if c' = c then some x else none
  | .slot _ _ => none

def Loc.slotAt (a : Addr) : Loc K V → Option (Option (K × V))
  | .slot a' x => if a' = a then some x else none
  | .chunk _ _ => none

/-- last write selected by `f` in a list of location writes (later writes win) -/
def lastBy {C : Type} (f : Loc K V → Option C) : List (Loc K V) → Option C
  | [] => none
  | w :: ws => (lastBy f ws).or (f w)

/-- log-overlay lookup: the newest logged record with a write selected by `f` -/
def ovBy {C : Type} (f : Loc K V → Option C) : List (SRec K V) → Option C
  | [] => none
  | r :: rs => (ovBy f rs).or (lastBy f r.writes)

def ovChunk (logged : List (SRec K V)) (c : Nat) : Option (List (K × Addr)) :=
  ovBy (Loc.chunkAt c) logged

def ovSlot (logged : List (SRec K V)) (a : Addr) : Option (Option (K × V)) :=
  ovBy (Loc.slotAt a) logged

/-- The per-tier allocator of the value tables (`ValueTable::next_free` / `write_remove_plan`). -/
structure Alloc where
  free : Nat → List Nat      -- free stack, top first
  filled : Nat → Nat         -- fill mark

def Alloc.init : Alloc := { free := fun _ => [], filled := fun _ => 0 }

/-- Allocate one slot in tier `t`: most recently freed first, else extend the table. -/
def Alloc.take (al : Alloc) (t : Nat) : Addr × Alloc :=
  match al.free t with
  | o :: rest => ((t, o), { al with free := fun x => if x = t then rest else al.free x })
  | [] => ((t, al.filled t),
           { al with filled := fun x => if x = t then al.filled t + 1 else al.filled x })

def Alloc.release (al : Alloc) (a : Addr) : Alloc :=
  { al with free := fun x => if x = a.1 then a.2 :: al.free x else al.free x }

/-- program counter of a reader thread -/
inductive RPc (K V : Type) where
  | idle
  | started (k : K) (seq : Nat)
  | missedOv (k : K) (seq : Nat)                 -- commit overlay missed
  | missedIdx (k : K) (seq : Nat)                -- the chunk is not in the log overlay
  | gotAddr (k : K) (seq : Nat) (a : Addr)       -- index entry found
  | missedVal (k : K) (seq : Nat) (a : Addr)     -- the slot is not in the log overlay
  | done (k : K) (seq : Nat) (res : Option V) (src : Option Addr) (stored : Option (K × V))

def RPc.isIdle : RPc K V → Bool
  | .idle => true
  | _ => false

/-- A completed read (ghost). `slot` / `stored`: where the value lookup went and the raw slot
    content it saw (`none` if the read ended in the commit overlay or without an index entry). -/
structure ReadEvt (K V : Type) where
  tid : Nat
  key : K
  result : Option V
  startSeq : Nat
  endSeq : Nat
  slot : Option Addr
  stored : Option (K × V)
deriving DecidableEq, Repr

structure Cfg where
  discipline : Bool
  keyCheck : Bool
  exactEnd : Bool
deriving DecidableEq, Repr

/-- the code as it is -/
def Cfg.real : Cfg := { discipline := true, keyCheck := true, exactEnd := true }

/-- Does a reader at this point hold the commit-overlay read lock? -/
def holds (cfg : Cfg) : RPc K V → Bool
  | .idle => false
  | .started _ _ => true
  | _ => cfg.discipline

structure SSt (K V : Type) where
  nextId : Nat
  overlay : K → Option (Nat × Option V)
  queue : List (Commit K V)
  inflight : Option (Commit K V × Bool)
  logged : List (SRec K V)          -- published, not yet ended; oldest first
  flushed : Nat
  enactPos : Nat                    -- writes of the oldest record already in `files`
  files : PV K V
  alloc : Alloc
  nextRec : Nat
  -- ghost
  pub : PV K V                      -- every published record applied, in order, to empty files
  npub : Nat                        -- number of published records = commits planned
  hist : List (List (Op K V))
  readers : Nat → RPc K V
  reads : List (ReadEvt K V)

def SSt.init : SSt K V :=
  { nextId := 0, overlay := fun _ => none, queue := [], inflight := none, logged := [],
    flushed := 0, enactPos := 0, files := PV.empty, alloc := Alloc.init, nextRec := 0,
    pub := PV.empty, npub := 0, hist := [], readers := fun _ => .idle, reads := [] }

inductive SAct (K V : Type) where
  | commit (tx : List (Op K V))
  | pop
  | publish
  | cleanOverlay
  | flush
  | enactWrite
  | endRead
  | rBegin (t : Nat) (k : K)
  | rOverlay (t : Nat)
  | rIdxLog (t : Nat)
  | rIdxFile (t : Nat)
  | rValLog (t : Nat)
  | rValFile (t : Nat)
  | rEnd (t : Nat)

/-- What planner and readers see: log overlay over files. -/
def sview (s : SSt K V) : PV K V :=
  { chunk := fun c => (ovChunk s.logged c).getD (s.files.chunk c),
    slot := fun a => (ovSlot s.logged a).getD (s.files.slot a) }

def inside (cfg : Cfg) (N : Nat) (s : SSt K V) : Bool :=
  (List.range N).any (fun t => holds cfg (s.readers t))

def setReader (s : SSt K V) (t : Nat) (pc : RPc K V) : SSt K V :=
  { s with readers := fun x => if x = t then pc else s.readers x }

section
variable [DecidableEq K]

/-- the address of `k`'s entry in an index chunk -/
def findA (k : K) : List (K × Addr) → Option Addr
  | [] => none
  | e :: l => if e.1 = k then some e.2 else findA k l

def removeA (k : K) (l : List (K × Addr)) : List (K × Addr) :=
  l.filter (fun e => !decide (e.1 = k))

def replaceA (k : K) (a : Addr) (l : List (K × Addr)) : List (K × Addr) :=
  l.map (fun e => if e.1 = k then (k, a) else e)

/-- `Column::write_plan` for one operation on a plain column, against the planner's view:
    the location writes it logs and the new allocator state.
      set, key present, same tier   `write_replace_plan`: the slot is rewritten in place
      set, key present, other tier  new slot in the new tier, old slot freed, entry replaced
      set, key absent               new slot, new entry
      deref, key present            slot freed, entry removed
      otherwise                     nothing -/
def planOp (tier : V → Nat) (chunkOf : K → Nat) (pv : PV K V) (al : Alloc) :
    Op K V → List (Loc K V) × Alloc
  | .set k v =>
    match findA k (pv.chunk (chunkOf k)) with
    | some a =>
      if a.1 = tier v then ([.slot a (some (k, v))], al)
      else
        ([.slot (al.take (tier v)).1 (some (k, v)), .slot a none,
          .chunk (chunkOf k) (replaceA k (al.take (tier v)).1 (pv.chunk (chunkOf k)))],
         (al.take (tier v)).2.release a)
    | none =>
      ([.slot (al.take (tier v)).1 (some (k, v)),
        .chunk (chunkOf k) (pv.chunk (chunkOf k) ++ [(k, (al.take (tier v)).1)])],
       (al.take (tier v)).2)
  | .deref k =>
    match findA k (pv.chunk (chunkOf k)) with
    | some a => ([.slot a none, .chunk (chunkOf k) (removeA k (pv.chunk (chunkOf k)))],
                 al.release a)
    | none => ([], al)
  | .ref _ => ([], al)

/-- Plan a whole change-set: every operation sees the writes of the previous ones
    (the log writer's local overlay). -/
def planOps (tier : V → Nat) (chunkOf : K → Nat) :
    PV K V → Alloc → List (Op K V) → List (Loc K V) × Alloc
  | _, al, [] => ([], al)
  | pv, al, op :: ops =>
    ((planOp tier chunkOf pv al op).1 ++
       (planOps tier chunkOf (applyLocs pv (planOp tier chunkOf pv al op).1)
          (planOp tier chunkOf pv al op).2 ops).1,
     (planOps tier chunkOf (applyLocs pv (planOp tier chunkOf pv al op).1)
          (planOp tier chunkOf pv al op).2 ops).2)

/-- Does record `r` write chunk `c`? -/
def coversChunk (r : SRec K V) (c : Nat) : Bool := (lastBy (Loc.chunkAt c) r.writes).isSome

/-- `Log::end_read`: with `exactEnd` only the ended record leaves the overlay; without it the
    index-overlay entries of later records for the chunks of the ended record go too. -/
def dropEnded (cfg : Cfg) (r : SRec K V) (rs : List (SRec K V)) : List (SRec K V) :=
  if cfg.exactEnd then rs
  else rs.map (fun r' => { r' with writes := r'.writes.filter (fun w =>
    match w with
    | .chunk c _ => !coversChunk r c
    | .slot _ _ => true) })

/-- the value lookup's acceptance test for the stored key -/
def accepts (cfg : Cfg) (k k' : K) : Bool := !cfg.keyCheck || decide (k' = k)

/-- what the value lookup returns for the raw slot content `x` -/
def valResult (cfg : Cfg) (k : K) (x : Option (K × V)) : Option V :=
  match x with
  | some (k', v) => if accepts cfg k k' then some v else none
  | none => none

/-- index lookup result: continue to the value lookup, or report absent -/
def afterIdx (k : K) (q : Nat) (content : List (K × Addr)) : RPc K V :=
  match findA k content with
  | some a => .gotAddr k q a
  | none => .done k q none none none

def sstep (cfg : Cfg) (tier : V → Nat) (chunkOf : K → Nat) (N : Nat) (s : SSt K V) :
    SAct K V → SSt K V
  | .commit tx =>
    if inside cfg N s then s
    else if !tx.all (opValid plainK) then s
    else
      { s with nextId := s.nextId + 1,
               overlay := tx.foldl (ovOp plainK (s.nextId + 1)) s.overlay,
               queue := s.queue ++ [{ id := s.nextId + 1, ops := tx }],
               hist := s.hist ++ [tx] }
  | .pop =>
    match s.inflight, s.queue with
    | none, c :: q => { s with inflight := some (c, false), queue := q }
    | _, _ => s
  | .publish =>
    match s.inflight with
    | some (c, false) =>
      { s with inflight := some (c, true),
               logged := s.logged ++
                 [{ id := s.nextRec + 1,
                    writes := (planOps tier chunkOf (sview s) s.alloc c.ops).1 }],
               nextRec := s.nextRec + 1,
               alloc := (planOps tier chunkOf (sview s) s.alloc c.ops).2,
               pub := applyLocs s.pub (planOps tier chunkOf (sview s) s.alloc c.ops).1,
               npub := s.npub + 1 }
    | _ => s
  | .cleanOverlay =>
    if inside cfg N s then s
    else
      match s.inflight with
      | some (c, true) =>
        { s with inflight := none, overlay := c.ops.foldl (cleanOp c.id) s.overlay }
      | _ => s
  | .flush => { s with flushed := s.logged.length }
  | .enactWrite =>
    match s.flushed, s.logged with
    | _ + 1, r :: _ =>
      match r.writes[s.enactPos]? with
      | some w => { s with files := s.files.apply w, enactPos := s.enactPos + 1 }
      | none => s
    | _, _ => s
  | .endRead =>
    match s.flushed, s.logged with
    | f + 1, r :: rs =>
      if s.enactPos = r.writes.length then
        { s with logged := dropEnded cfg r rs, flushed := f, enactPos := 0 }
      else s
    | _, _ => s
  | .rBegin t k =>
    if t < N ∧ (s.readers t).isIdle then setReader s t (.started k s.hist.length) else s
  | .rOverlay t =>
    match s.readers t with
    | .started k q =>
      match s.overlay k with
      | some (_, v) => setReader s t (.done k q v none none)
      | none => setReader s t (.missedOv k q)
    | _ => s
  | .rIdxLog t =>
    match s.readers t with
    | .missedOv k q =>
      match ovChunk s.logged (chunkOf k) with
      | some content => setReader s t (afterIdx k q content)
      | none => setReader s t (.missedIdx k q)
    | _ => s
  | .rIdxFile t =>
    match s.readers t with
    | .missedIdx k q => setReader s t (afterIdx k q (s.files.chunk (chunkOf k)))
    | _ => s
  | .rValLog t =>
    match s.readers t with
    | .gotAddr k q a =>
      match ovSlot s.logged a with
      | some x => setReader s t (.done k q (valResult cfg k x) (some a) x)
      | none => setReader s t (.missedVal k q a)
    | _ => s
  | .rValFile t =>
    match s.readers t with
    | .missedVal k q a =>
      setReader s t (.done k q (valResult cfg k (s.files.slot a)) (some a) (s.files.slot a))
    | _ => s
  | .rEnd t =>
    match s.readers t with
    | .done k q res a x =>
      { setReader s t .idle with
        reads := s.reads ++ [{ tid := t, key := k, result := res, startSeq := q,
                               endSeq := s.hist.length, slot := a, stored := x }] }
    | _ => s

def srun (cfg : Cfg) (tier : V → Nat) (chunkOf : K → Nat) (N : Nat) (s : SSt K V)
    (as : List (SAct K V)) : SSt K V :=
  as.foldl (sstep cfg tier chunkOf N) s

/-- the atomic key lookup through a `PV` (index entry, then slot with key check) -/
def slookup (chunkOf : K → Nat) (pv : PV K V) (k : K) : Option V :=
  match findA k (pv.chunk (chunkOf k)) with
  | some a =>
    match pv.slot a with
    | some (k', v) => if k' = k then some v else none
    | none => none
  | none => none

end
end CSlot
end Pdb
