/-
Operation / column compatibility: `DbInner::validate_change` (src/db.rs), the side-effect
free check that `commit_changes` runs over the whole transaction before it assembles,
claims or publishes anything.

Driver command `c08`:
  c08 validate <ncols> <col> <btree> <multitree> <rc> <append_only> <op> [arg]
    op ∈ set | del | ref | instree <max fan-out> | reftree | dereftree <root exists 0/1>
    -> ok | err:InvalidInput | err:InvalidConfiguration
-/
namespace Pdb.Validate

structure ColOpts where
  btree : Bool
  multitree : Bool
  refCounted : Bool
  appendOnly : Bool
deriving DecidableEq, Repr

inductive OpKind where
  | set
  | deref
  | ref
  | insertTree (maxFanout : Nat)   -- largest number of children of any node of the new tree
  | refTree
  | derefTree (rootExists : Bool)
deriving DecidableEq, Repr

inductive Verdict where
  | ok
  | invalidInput
  | invalidConfiguration
deriving DecidableEq, Repr

/-- `validate_change` for a column that exists. -/
def validateChange (o : ColOpts) (op : OpKind) : Verdict :=
  let multitree := o.multitree && !o.btree
  match op with
  | .set | .deref => if multitree then .invalidConfiguration else .ok
  | .ref =>
    if multitree then .invalidConfiguration
    else if !o.refCounted then .invalidInput else .ok
  | .insertTree f =>
    if !multitree then .invalidInput
    else if f > 255 then .invalidInput else .ok
  | .refTree =>
    if !multitree then .invalidInput
    else if !o.appendOnly && !o.refCounted then .invalidInput else .ok
  | .derefTree e =>
    if !multitree then .invalidInput
    else if o.appendOnly then .invalidConfiguration
    else if !e then .invalidConfiguration else .ok

/-- With the column lookup: an out-of-range column id is `InvalidInput`. -/
def validateAt (cols : List ColOpts) (col : Nat) (op : OpKind) : Verdict :=
  match cols[col]? with
  | none => .invalidInput
  | some o => validateChange o op

/-- `commit_changes`, first phase: the verdict of the first operation that is not ok. -/
def validateTx (cols : List ColOpts) : List (Nat × OpKind) → Verdict
  | [] => .ok
  | (c, op) :: rest =>
    match validateAt cols c op with
    | .ok => validateTx cols rest
    | v => v

def showVerdict : Verdict → String
  | .ok => "ok"
  | .invalidInput => "err:InvalidInput"
  | .invalidConfiguration => "err:InvalidConfiguration"

def b (s : String) : Option Bool :=
  match s with
  | "0" => some false
  | "1" => some true
  | _ => none

def driverLine (args : List String) : String :=
  match args with
  | "validate" :: n :: c :: bt :: mt :: rc :: ao :: rest =>
    match n.toNat?, c.toNat?, b bt, b mt, b rc, b ao with
    | some n, some c, some bt, some mt, some rc, some ao =>
      let o : ColOpts := { btree := bt, multitree := mt, refCounted := rc, appendOnly := ao }
      -- the column under test sits at index c of a list of n equal columns
      let cols := List.replicate n o
      let op : Option OpKind :=
        match rest with
        | ["set"] => some .set
        | ["del"] => some .deref
        | ["ref"] => some .ref
        | ["instree", f] => f.toNat?.map .insertTree
        | ["reftree"] => some .refTree
        | ["dereftree", e] => (b e).map .derefTree
        | _ => none
      match op with
      | some op => showVerdict (validateAt cols c op)
      | none => "bad-op"
    | _, _, _, _, _, _ => "bad-op"
  | _ => "bad-op"

end Pdb.Validate
