/-
R7, the DROP_TABLE action of a reindex batch record: `Column::drop_index` removes the table at the
FRONT of the reindex queue if it is the named one (`Wal.frontIs` / `Wal.dropFront`); naming a table
that is not (or no longer) there is a no-op (legal since fix dfcb873: `drop_file` of a table whose
file is gone is `Ok`).  A record with a drop is `(writes, some bits)`; `enactD` = validation pass,
apply pass, then the drop.
-/
import Pdb.Model.PhysRecV

namespace Pdb.PhysRec
open Pdb.Gen Pdb.Index Pdb.ValueTable Pdb.Refine

/-- `drop_index(id)` for the index table with `b` bits -/
def dropTable (p : PCol) (b : Nat) : PCol :=
  match p.older with
  | t :: ts => if t.bits = b then { p with older := ts } else p
  | [] => p

/-- a record: location writes and, for the last batch of a reindex, the dropped table -/
abbrev RecD := List Write × Option Nat

def enactD (q : PCol) (r : RecD) : PCol :=
  match r.2 with
  | some b => dropTable (enact q r.1) b
  | none => enact q r.1

/-! ## driver: `stepD` = `stepV` with the DROP_TABLE action of a record taken into account

  physrec rec ... D<table id>     the record carries DROP_TABLE of the index table `id % 256` bits:
                                  remembered for the next `torn` / `enact` line (answer as before)
  physrec torn <j>                after such a record: crash in the apply pass after `j` writes,
        replay with `enactD` (writes + drop); then the record replayed ONCE MORE over the state in
        which the table is gone; both must read like the state after the record on the written
        locations and have its tables minus the dropped one                       -> ok | DIFF
  physrec enact                   after such a record: as before (`Index.enactDrop`), and the
        tables must be those `dropTable` leaves                                   -> ok | DIFF-drop
-/

structure VState where
  d : DState := DState.init
  lastDrop : Option Nat := none

def dropOfWords (ws : List String) : Option Nat :=
  ws.findSome? (fun w => if w.startsWith "D" then ((w.drop 1).toString.toNat?).map (· % 256) else none)

def tornCmdD (d : DState) (b j : Nat) : String :=
  match d.last with
  | none => "ok"
  | some (p, ws, p') =>
    let crash := applyWrites (validate p ws) (ws.take j)
    let q := enactD crash (ws, some b)
    let q2 := enactD q (ws, some b)
    let cs := ws.map (·.1)
    let want := (shape p').filter (fun x => x != b)
    if cs.all (fun l => decide (mem q l = mem p' l) && decide (mem q2 l = mem p' l)) &&
        decide (shape q = want) && decide (shape q2 = want) then "ok"
    else "DIFF"

def stepD (v : VState) (ws : List String) : VState × String :=
  match ws with
  | "rec" :: words =>
    let r := stepV v.d ws
    ({ d := r.1, lastDrop := dropOfWords words }, r.2)
  | ["torn", j] =>
    match v.lastDrop, j.toNat? with
    | some b, some j => (v, tornCmdD v.d b j)
    | _, _ => let r := stepV v.d ws; ({ v with d := r.1 }, r.2)
  | ["enact"] =>
    let r := stepV v.d ws
    match v.lastDrop with
    | some b =>
      if shape r.1.col = shape (dropTable v.d.col b) then ({ d := r.1, lastDrop := none }, r.2)
      else ({ d := r.1, lastDrop := none }, "DIFF-drop")
    | none => ({ v with d := r.1 }, r.2)
  | _ => let r := stepV v.d ws; ({ v with d := r.1 }, r.2)

end Pdb.PhysRec
