/-
C04 (a'), GAP 1: the REAL backend cursor of the btree iterator.

Rust anchors: src/btree/iter.rs `BTreeIterState::{new, seek, seek_to_last, next, exit}`,
`node_start`, `LastIndex`; src/btree/node.rs `Node::seek`.

`Pdb/Model/BTreeIter.lean` abstracts the backend cursor as a position `Cur` in the sorted
backend list (`curSeek`, `curAns`, `curAfter`).  Here the cursor is what the code has: a
stack `Vec<(LastIndex, Node)>` of nodes on the path from the root, each with the index of
the separator / child the walk is at.  The model keeps the stack as a list with the TOP (the
last element of the `Vec`) at the head.  `Node` is the node of `Pdb/Model/BTree.lean`
(separators carry the value; the address indirection is Pdb/Proofs/C04BatchAddr.lean).

What is modelled exactly
* `Node::seek`: the loop descending by `position` (or to the last child for `SeekTo::Last`),
  pushing `Descend(i)` for every internal node passed, ending with `Seeked(i)` / `At(i)` on a
  hit (Include / Exclude) or `Before(i)` in the leaf; the countdown `depth` is the fuel of
  the descent; a missing child is `Error::Corruption`.
* `BTreeIterState::next`: the empty-stack start (`node_start` of the root), the `loop` with
  all thirteen arms of `match (direction, &state.0)` including the `ORDER` guards, the `At` /
  `Descend` handling (`separator_address(at)`, `fetch_child`, `node_start` of the child,
  `is_leaf` / `is_child_leaf` computed from `depth` and the stack length), and `exit`
  (pop; `Descend(child)` becomes `Before(child)` unless the parent has nothing more in the
  direction of travel, in which case it is popped as well).
  The Rust `loop` is unbounded; the model runs it on fuel `depth + 2` and reports
  `CurOut.outOfFuel` explicitly (proved unreachable under TreeInv: Proofs/C04Cursor*.lean).
* A step that finds nothing leaves the stack empty; a step that yields leaves `At(i)` on top.

Proved (Props/C04b.lean `C04b_cursor_refines`): on every tree satisfying TreeInv, for every
sequence of `seek (Include k | Exclude k | Last)` / step forward / step backward calls, the
stack cursor returns exactly what the abstract cursor returns on `toList tree`.
-/
import Pdb.Model.BTree

namespace Pdb.C04

variable {V : Type}

inductive LastIndex where
  | seeked (i : Nat)
  | at (i : Nat)
  | before (i : Nat)
  | descend (i : Nat)
deriving DecidableEq, Repr

/-- `Vec<(LastIndex, Node)>`, head = last element of the `Vec`. -/
abbrev Stack (V : Type) := List (LastIndex × Node V)

/-- `node_start`: `last_separator_index().map(|i| i + 1).unwrap_or(0)` is the number of
    separators. -/
def nodeStart (n : Node V) (d : Dir) (isLeaf : Bool) : LastIndex :=
  let ix := match d with
            | .fwd => 0
            | .bwd => n.seps.length
  if isLeaf then .before ix else .descend ix

/-- `BTreeIterState::exit`; the `bool` is "the stack is empty". -/
def exitC (d : Dir) : Stack V → Stack V × Bool
  | [] => ([], true)
  | [_] => ([], true)
  | _ :: (ix, node) :: rest =>
    match ix with
    | .descend child =>
      if (d = .bwd ∧ child = 0) ∨ (d = .fwd ∧ (child = ORDER ∨ node.seps[child]? = none)) then
        exitC d ((ix, node) :: rest)                  -- `continue`: pop this one as well
      else ((.before child, node) :: rest, false)
    | _ => ([], false)                                -- `self.state.clear()` ("unreachable")

/-- What one pass of the `loop` of `next` does with the top of the stack. -/
inductive Act (V : Type) where
  | exit                                         -- the arms calling `self.exit(direction)`
  | yield (at_ : Nat) (e : Key × V)              -- `LastIndex::At(at)` with a separator there
  | push (childIx : Nat) (child : Node V)        -- `LastIndex::Descend(child_ix)` with a child

/-- The `match (direction, &state.0)` producing `next`, and the `match next`.
    `len` is `self.state.len()`. -/
def action (depth : Nat) (d : Dir) (len : Nat) (ix : LastIndex) (node : Node V) : Act V :=
  let isLeaf : Bool := depth + 1 == len
  let atArm (at_ : Nat) : Act V :=
    match node.seps[at_]? with                   -- `separator_address(at)`
    | some e => .yield at_ e
    | none => .exit
  let descArm (c : Nat) : Act V :=
    match node.children[c]? with                 -- `fetch_child(child_ix)`
    | some child => .push c child
    | none => .exit
  match d, ix with
  | _, .descend sep => descArm sep
  | _, .seeked sep => atArm sep
  | .fwd, .at sep =>
    if isLeaf && sep + 1 == ORDER then .exit
    else if isLeaf then atArm (sep + 1)
    else descArm (sep + 1)
  | .fwd, .before sep => if sep == ORDER then .exit else atArm sep
  | .bwd, .at sep =>
    if isLeaf && sep == 0 then .exit
    else if isLeaf then atArm (sep - 1)
    else descArm sep
  | .bwd, .before sep => if sep == 0 then .exit else atArm (sep - 1)

inductive CurOut (V : Type) where
  | ok (r : Option (Key × V))
  | outOfFuel
deriving DecidableEq

/-- The `loop` of `BTreeIterState::next`. -/
def nextLoop (depth : Nat) (d : Dir) : Nat → Stack V → Stack V × CurOut V
  | 0, st => (st, .outOfFuel)
  | _ + 1, [] => ([], .ok none)                                   -- `else { break }`
  | fuel + 1, (ix, node) :: rest =>
    match action depth d (rest.length + 1) ix node with
    | .exit =>
      let e := exitC d ((ix, node) :: rest)
      if e.2 then (e.1, .ok none) else nextLoop depth d fuel e.1
    | .yield at_ e => ((.at at_, node) :: rest, .ok (some e))
    | .push c child =>
      -- `is_child_leaf = btree.depth as usize == self.state.len()`
      nextLoop depth d fuel
        ((nodeStart child d (depth == rest.length + 1), child) :: (.descend c, node) :: rest)

/-- `BTreeIterState::next(btree, .., direction)`. -/
def nextC (t : Tree V) (d : Dir) (st : Stack V) : Stack V × CurOut V :=
  let st := if st.isEmpty then [(nodeStart t.root d (t.depth == 0), t.root)] else st
  nextLoop t.depth d (t.depth + 2) st

/-- `Node::seek(self, seek_to, .., depth, stack)`; `none` = `Error::Corruption` (missing child). -/
def seekNode (to : SeekTo) : Nat → Node V → Stack V → Option (Stack V)
  | depth, from_, stack =>
    let p : Bool × Nat :=
      match to with
      | .incl k => position from_.seps k
      | .excl k => position from_.seps k
      | .last => (false, from_.seps.length)
    if p.1 then
      some ((match to with
             | .excl _ => .at p.2
             | _ => .seeked p.2, from_) :: stack)
    else
      match depth with
      | 0 => some ((.before p.2, from_) :: stack)
      | d + 1 =>
        match from_.children[p.2]? with
        | some child => seekNode to d child ((.descend p.2, from_) :: stack)
        | none => none

/-- `BTreeIterState::seek` / `seek_to_last`: clear the stack, `Node::seek` from the root. -/
def seekC (t : Tree V) (to : SeekTo) : Option (Stack V) := seekNode to t.depth t.root []

/-- the `SeekTo` of the re-positioning in `next_backend` (after the record id changed):
    `At k -> Exclude k`, `Seeked k -> Include k`, `Start -> Include []`, `End -> Last`. -/
def reseekTo : LastKey → SeekTo
  | .at k => .excl k
  | .seeked k => .incl k
  | .start => .incl []
  | .end_ => .last

/-! ### call sequences on the cursor alone -/

inductive CCall where
  | seek (to : SeekTo)
  | step (d : Dir)

inductive COut (V : Type) where
  | unit                                  -- `Ok(())` of seek
  | item (r : Option (Key × V))
  | corrupt                               -- `Error::Corruption`
  | outOfFuel
deriving DecidableEq

/-- One call on the real cursor. -/
def stepC (t : Tree V) (st : Stack V) : CCall → Stack V × COut V
  | .seek to =>
    match seekC t to with
    | some st' => (st', .unit)
    | none => ([], .corrupt)
  | .step d =>
    let r := nextC t d st
    (r.1, match r.2 with
          | .ok x => .item x
          | .outOfFuel => .outOfFuel)

def runC (t : Tree V) (st : Stack V) : List CCall → Stack V × List (COut V)
  | [] => (st, [])
  | c :: cs =>
    let r := stepC t st c
    let rs := runC t r.1 cs
    (rs.1, r.2 :: rs.2)

/-- One call on the abstract cursor of `Pdb/Model/BTreeIter.lean` over the list `be`. -/
def stepA (be : List (Key × V)) (c : Cur) : CCall → Cur × COut V
  | .seek to => (curSeek to, .unit)
  | .step d => let r := curAns be c d; (curAfter r, .item r)

def runA (be : List (Key × V)) (c : Cur) : List CCall → Cur × List (COut V)
  | [] => (c, [])
  | x :: xs =>
    let r := stepA be c x
    let rs := runA be r.1 xs
    (rs.1, r.2 :: rs.2)

end Pdb.C04
