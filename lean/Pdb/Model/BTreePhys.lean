/-
C04 / C14 / C06 (R8): the PHYSICAL btree column.

A btree column keeps its header, its nodes AND its values in the value tables of the column
(src/btree/mod.rs `BTreeTable { tables : Vec<ValueTable> }`): one byte-level table per size tier
(`Pdb.ValueTable.VT`, the model of src/table.rs that C06 proves things about), entries without
key tail (`TableKey::NoHash`), addresses = `Address::new(offset, tier)` (generated
`Pdb.Gen.Address.*`).

Rust item                                         -> Lean definition
  btree/mod.rs `HEADER_ADDRESS = Address::new(1, 0)`  -> `HEADER_ADDRESS`           (TODO-GEN)
  column.rs `Column::get_value(Check(NoHash) | Fetch(None), address, ..)`
                                                   -> `entryAt` (stored bytes + compressed flag),
                                                      `valueAt` (after `compression.decompress`)
  btree/mod.rs `BTreeTable::btree_header`          -> `physHeader`   (root u64 LE, depth u32 LE)
  btree/mod.rs `BTreeTable::get_encoded_entry` + node.rs `Node::from_encoded`
               (= `BTree::fetch_root`, `Node::fetch_child`)  -> `fetchNode` (`C04.decodeNode`)
  btree/node.rs `Node::get`                        -> `physNodeGet`
  btree/mod.rs `BTreeTable::get` / btree.rs `BTree::get`  -> `physGetAddr`, `physGetRaw`, `physGet`
  column.rs `Column::write_new_value_plan`         -> `physWriteNew`
  column.rs `Column::write_existing_value_plan` (`Operation::Set`, `ref_counted = false`)
                                                   -> `physWriteExisting`
  column.rs `Column::write_existing_value_plan` (`Operation::Dereference`, `ref_counted = false`)
                                                   -> `physRemove`
  btree/mod.rs `write_node_plan` (the part after the encoding loop, `NO_COMPRESSION`)
                                                   -> `physWriteNode`
  btree/mod.rs `write_plan_remove_node`            -> `physFreeNode`
  btree/node.rs value writes (`write_existing_value_plan` / `write_new_value_plan` with the
               column's compression)               -> `physWriteValue`
  btree/mod.rs `BTreeChangeSet::write_plan` (header rewrite, `Entry::write_header`)
                                                   -> `physSetHeader`
  btree/node.rs `Node::change` / `Node::insert` on a PRESENT key (descent, `create_separator(..,
               existing)`, `set_separator`) + `write_node_plan` of that node, as run by
               `BTreeChangeSet::write_plan` for the one-change transaction `Set(k, v)`
                                                   -> `physFind`, `physSetExisting`

Tie (none of these definitions is generated; every one is RUN AGAINST THE REAL CRATE by the harness
module harness/src/c04phys.rs through the driver command `c04b phys`, on columns rebuilt from the
raw slots of the real table files):
  `entryAt`, `valueAt`, `physHeader`, `fetchNode`, `physNodeGet`, `physGetAddr`, `physGetRaw`
      `c04b phys header` against the header the crate decoded, `c04b phys get` against `Db::get` for
      every key of the case's pool (present and absent) and mutated keys;
  `absNode`, `absTree`, `reachNodes`, `rootNodes`, `owners`, `chainOf`, `tierChains`, `jointCheck`
      `c04b phys inv` against the harness's own classification of every slot of the real tables;
  `physWriteExisting` (both branches), `physRemove`, `physWriteNew`, `physWriteValue (some _)`,
  `physWriteNode (some _)`, `physFind`, `physSetExisting`
      `c04b phys put` + `c04b phys digest`: one real transaction `Set(present key, value)` driven to
      the files, the model's tables compared with the real ones table by table (fill mark, free-list
      head, FNV of all slot prefixes), then `inv` and `get` on the model's column;
  `physPath`, `writeBack`, `finishRoot`, `physInsertAbsent`, `physRemoveLeafKey`, `physInsertSplitLeaf`
  (with them `physWriteValue none`, `physWriteNode none`, `physSetHeader`, `physRemove` of a value)
      `c04b phys ins` / `del` / `split` + `c04b phys digest`: three more real transactions per case
      (absent key without split, leaf key removed without rebalance, absent key with one leaf split),
      model tables against the real files after each, then `get` and `inv`;
  `physFreeNode`
      one-line compositions of the tied `physWriteNew` / `physRemove` / `physWriteExisting`
      a one-line composition of the tied `physRemove` (`R8_plan_functions`); not replayed as such (it
      occurs in merges and root removal, whose write-back is not modelled).

Modelling decisions
* `PCol.tables : Nat → VT`, tier `i` is `tables i`; `tables.len() = SIZE_TIERS` (256): an
  address whose tier is not below that indexes out of bounds (`PErr.panic`).
* `TableKeyQuery::Fetch(None)` and `Check(&TableKey::NoHash)` read no key bytes and compare
  nothing: both are `readChain t .noHash`.
* The log overlay is not modelled (as in ValueTable.lean: state = file + overlay).
* `Node::get` has no depth argument: it descends until a child slot is empty.  `physNodeGet` does
  the same on a fuel; `physGetAddr` supplies `max (depth + 1) (all used slots + 1)`, so exhaustion
  (`PErr.diverge`) means the descent revisited a slot (the Rust recursion does not end).
* Compression is a parameter (`Cmp` for writes, `decomp` for reads: A-compress of C06).
* Ref-counted btree columns: the tables carry the 4 counter bytes (`VT.refCounted`), reads are
  modelled; `physWriteExisting` / `physRemove` model the calls with `ref_counted = false` (the
  ones the btree code makes for nodes and the header).

Abstraction (R8_abs): `absNode` decodes every node reachable from an address down to the header
depth into the tree model `C04.Node Nat` (separators carry value ADDRESSES: the tree of
`C04b_address_indirection`), `reachNodes` lists the node addresses, `absTree` starts at the header.
`owners` = header address, node addresses, value addresses; `tierChains` their slot chains in one
tier; `jointCheck` evaluates the joint invariant (TreeInv of the abstraction and `SlotInv` of every
tier with exactly these chains as the live ones).

Driver (`c04b phys ...`, stateful, `step`): the column is REBUILT FROM RAW SLOTS of the real value
tables (hooks `Db::verif_table_state` / `verif_table_entry`), see the protocol at `step`.
-/
import Pdb.Gen.Bits
import Pdb.Model.ValueTable
import Pdb.Model.BTreeNode

namespace Pdb.BTreePhys
open Pdb.Gen
open Pdb.ValueTable (VT Bytes TKey readChain writeChain removePlan storedForm tierOfLen tableOfTier
  tableSizes SlotInv freeListOf walk WrErr RdErr)

-- TODO-GEN: `const HEADER_ADDRESS: Address = Address::new(1, 0)` and `NULL_ADDRESS` (src/btree/mod.rs)
def HEADER_ADDRESS : Nat := Address.new 1 0
def NULL_ADDRESS : Nat := 0

abbrev Key := C04.Key

inductive PErr where
  | corruption      -- `Error::Corruption`
  | diverge         -- the Rust loop / recursion does not terminate
  | panic           -- index out of bounds, `assert!`
deriving DecidableEq, Repr

def ofRd : RdErr → PErr
  | .corruption => .corruption
  | .diverge => .diverge

def ofWr : WrErr → PErr
  | .panic => .panic
  | .corruption => .corruption
  | .diverge => .diverge

/-- The value tables of one btree column. -/
structure PCol where
  rc : Bool
  tables : Nat → VT

/-- number of value tables of a column: `SIZE_TIERS` (the tiers of `SIZES` + the multipart table,
`tableSizes.length`, see `C06Tier.tableSizes_length`) -/
def NTABLES : Nat := SIZE_TIERS

def PCol.empty (rc : Bool) : PCol := ⟨rc, tableOfTier rc⟩

def PCol.setTbl (c : PCol) (tier : Nat) (t : VT) : PCol :=
  { c with tables := fun j => if j = tier then t else c.tables j }

/-! ## reads -/

/-- `Column::get_value` before decompression: `tables[size_tier].query(NoHash, offset)`. -/
def entryAt (c : PCol) (a : Nat) : Except PErr (Option (Bytes × Bool)) :=
  if NTABLES ≤ Address.size_tier a then .error .panic
  else
    match readChain (c.tables (Address.size_tier a)) .noHash (Address.offset a) with
    | .ok (some (v, comp, _)) => .ok (some (v, comp))
    | .ok none => .ok none
    | .error e => .error (ofRd e)

/-- `if compressed { decompress(&value)? } else { value }` -/
def decodeEntry (decomp : Bytes → Option Bytes) : Option (Bytes × Bool) → Except PErr (Option Bytes)
  | none => .ok none
  | some (v, false) => .ok (some v)
  | some (v, true) =>
    match decomp v with
    | some x => .ok (some x)
    | none => .error .corruption

/-- `Column::get_value` -/
def valueAt (decomp : Bytes → Option Bytes) (c : PCol) (a : Nat) : Except PErr (Option Bytes) :=
  match entryAt c a with
  | .ok e => decodeEntry decomp e
  | .error e => .error e

/-- `BTreeTable::btree_header`: `(root, depth)`; a missing header entry reads as `(0, 0)`. -/
def physHeader (decomp : Bytes → Option Bytes) (c : PCol) : Except PErr (Nat × Nat) :=
  match valueAt decomp c HEADER_ADDRESS with
  | .error e => .error e
  | .ok none => .ok (NULL_ADDRESS, 0)
  | .ok (some b) =>
    if b.length < BTREE_HEADER_SIZE then .error .corruption
    else .ok (C04.fromLe (b.take 8), C04.fromLe ((b.drop 8).take 4))

/-- `get_encoded_entry(at)` then `Node::from_encoded`. -/
def fetchNode (decomp : Bytes → Option Bytes) (c : PCol) (a : Nat) : Except PErr C04.RawNode :=
  match valueAt decomp c a with
  | .error e => .error e
  | .ok none => .error .corruption            -- "Missing btree entry at {at}"
  | .ok (some b) =>
    match C04.decodeNode b with
    | .ok n => .ok n
    | .corrupt => .error .corruption
    | .outOfFuel => .error .diverge            -- unreachable (`C04.decodeNode_ne_outOfFuel`)

/-- one level of `Node::get`: `position`, then the separator's value address, or nothing below an
empty child slot, or the same in the fetched child (`sub`) -/
def getStep (n : C04.RawNode) (k : Key) (fetch : Nat → Except PErr C04.RawNode)
    (sub : C04.RawNode → Except PErr (Option Nat)) : Except PErr (Option Nat) :=
  if (C04.position n.seps k).1 = true then .ok ((n.seps[(C04.position n.seps k).2]?).map (·.2))
  else if n.slot (C04.position n.seps k).2 = 0 then .ok none
  else
    match fetch (n.slot (C04.position n.seps k).2) with
    | .error e => .error e
    | .ok ch => sub ch

/-- `Node::get`: the value address of `k` below the (already fetched) node `n`. -/
def physNodeGet (decomp : Bytes → Option Bytes) (c : PCol) : Nat → C04.RawNode → Key →
    Except PErr (Option Nat)
  | 0, _, _ => .error .diverge
  | f + 1, n, k => getStep n k (fetchNode decomp c) (fun ch => physNodeGet decomp c f ch k)

/-- slots ever used in the column -/
def totalFilled (c : PCol) : Nat :=
  (List.range NTABLES).foldl (fun s i => s + (c.tables i).filled) 0

def getFuel (c : PCol) (depth : Nat) : Nat := max (depth + 1) (totalFilled c + 1)

/-- `BTreeTable::get` up to the value address. -/
def physGetAddr (decomp : Bytes → Option Bytes) (c : PCol) (k : Key) : Except PErr (Option Nat) :=
  match physHeader decomp c with
  | .error e => .error e
  | .ok (root, depth) =>
    if root = NULL_ADDRESS then .ok none
    else
      match fetchNode decomp c root with
      | .error e => .error e
      | .ok n => physNodeGet decomp c (getFuel c depth) n k

/-- `BTreeTable::get` with the value still in its stored form (bytes, compressed flag). -/
def physGetRaw (decomp : Bytes → Option Bytes) (c : PCol) (k : Key) :
    Except PErr (Option (Bytes × Bool)) :=
  match physGetAddr decomp c k with
  | .error e => .error e
  | .ok none => .ok none
  | .ok (some a) => entryAt c a

/-- `BTreeTable::get`. -/
def physGet (decomp : Bytes → Option Bytes) (c : PCol) (k : Key) : Except PErr (Option Bytes) :=
  match physGetAddr decomp c k with
  | .error e => .error e
  | .ok none => .ok none
  | .ok (some a) => valueAt decomp c a

/-! ## writes -/

/-- `Compress` : compressor and threshold -/
structure Cmp where
  cmp : Bytes → Bytes
  threshold : Nat

/-- `compress::NO_COMPRESSION` (threshold `u32::MAX`; nothing is ever kept compressed) -/
def noCompression : Cmp := ⟨id, 2 ^ 32 - 1⟩

/-- `Column::write_new_value_plan(&TableKey::NoHash, ..)`: the new column and the address. -/
def physWriteNew (cp : Cmp) (c : PCol) (v : Bytes) : Except PErr (PCol × Nat) :=
  let sf := storedForm cp.cmp cp.threshold v
  let tier := tierOfLen c.rc .noHash sf.1.length
  match writeChain (c.tables tier) .noHash sf.1 none sf.2 with
  | .ok r => .ok (c.setTbl tier r.table, Address.new r.addr tier)
  | .error e => .error (ofWr e)

/-- `write_existing_value_plan(.., Operation::Dereference, .., ref_counted = false)` -/
def physRemove (c : PCol) (a : Nat) : Except PErr PCol :=
  if NTABLES ≤ Address.size_tier a then .error .panic
  else
    match removePlan (c.tables (Address.size_tier a)) (Address.offset a) with
    | .ok (t, _) => .ok (c.setTbl (Address.size_tier a) t)
    | .error e => .error (ofWr e)

/-- `write_existing_value_plan(.., Operation::Set, .., ref_counted = false)`: in place when the
tier stays (`none`), else removed and inserted into the new tier (`some new_address`). -/
def physWriteExisting (cp : Cmp) (c : PCol) (a : Nat) (v : Bytes) : Except PErr (PCol × Option Nat) :=
  let sf := storedForm cp.cmp cp.threshold v
  let target := tierOfLen c.rc .noHash sf.1.length
  if NTABLES ≤ Address.size_tier a then .error .panic
  else if Address.size_tier a = target then
    match writeChain (c.tables target) .noHash sf.1 (some (Address.offset a)) sf.2 with
    | .ok r => .ok (c.setTbl target r.table, none)
    | .error e => .error (ofWr e)
  else
    match physRemove c a with
    | .error e => .error e
    | .ok c1 =>
      match physWriteNew cp c1 v with
      | .ok (c2, na) => .ok (c2, some na)
      | .error e => .error e

/-- the tail of `write_node_plan`: the encoded node goes to its old address or to a new entry -/
def physWriteNode (c : PCol) (n : C04.RawNode) (at_ : Option Nat) : Except PErr (PCol × Option Nat) :=
  match at_ with
  | some a => physWriteExisting noCompression c a (C04.encodeNode n)
  | none =>
    match physWriteNew noCompression c (C04.encodeNode n) with
    | .ok (c1, na) => .ok (c1, some na)
    | .error e => .error e

/-- `write_plan_remove_node` -/
def physFreeNode (c : PCol) (a : Nat) : Except PErr PCol := physRemove c a

/-- a value of a separator: rewritten at its address or written to a new entry -/
def physWriteValue (cp : Cmp) (c : PCol) (at_ : Option Nat) (v : Bytes) :
    Except PErr (PCol × Option Nat) :=
  match at_ with
  | some a => physWriteExisting cp c a v
  | none =>
    match physWriteNew cp c v with
    | .ok (c1, na) => .ok (c1, some na)
    | .error e => .error e

/-- `Entry::write_header` -/
def headerBytes (root depth : Nat) : Bytes := C04.leBytes 8 root ++ C04.leBytes 4 depth

/-- the header rewrite at the end of `BTreeChangeSet::write_plan` -/
def physSetHeader (cp : Cmp) (c : PCol) (root depth : Nat) : Except PErr (PCol × Option Nat) :=
  physWriteExisting cp c HEADER_ADDRESS (headerBytes root depth)

/-! ## one whole (small) transaction: `Set(k, v)` on a key that is present -/

/-- one level of the descent to the node that holds `k` -/
def findStep (a : Nat) (n : C04.RawNode) (k : Key) (fetch : Nat → Except PErr C04.RawNode)
    (sub : Nat → C04.RawNode → Except PErr (Option (Nat × C04.RawNode × Nat))) :
    Except PErr (Option (Nat × C04.RawNode × Nat)) :=
  if (C04.position n.seps k).1 = true then .ok (some (a, n, (C04.position n.seps k).2))
  else if n.slot (C04.position n.seps k).2 = 0 then .ok none
  else
    match fetch (n.slot (C04.position n.seps k).2) with
    | .error e => .error e
    | .ok ch => sub (n.slot (C04.position n.seps k).2) ch

/-- the descent of `Node::change` for a key that is present: address of the node holding the
separator, the node, the separator index -/
def physFind (decomp : Bytes → Option Bytes) (c : PCol) : Nat → Nat → C04.RawNode → Key →
    Except PErr (Option (Nat × C04.RawNode × Nat))
  | 0, _, _, _ => .error .diverge
  | f + 1, a, n, k => findStep a n k (fetchNode decomp c) (fun ca ch => physFind decomp c f ca ch k)

/-- `BTreeChangeSet::write_plan` for the single change `Set(k, v)` when `k` is present (column not
ref-counted): `Node::insert` finds the separator, `create_separator(.., existing)` rewrites the
value entry (`write_existing_value_plan`, new address if the tier changes), `set_separator` marks
the node changed, `write_node_plan` rewrites the node at its address; the header is unchanged.
`none`: the key is absent or the node entry itself moved (parents would have to be rewritten):
outside this function.  Result: the column and whether the value moved. -/
def physSetExisting (decomp : Bytes → Option Bytes) (cp : Cmp) (c : PCol) (k : Key) (v : Bytes) :
    Except PErr (Option (PCol × Bool)) :=
  match physHeader decomp c with
  | .error e => .error e
  | .ok (root, depth) =>
    if root = NULL_ADDRESS then .ok none
    else
      match fetchNode decomp c root with
      | .error e => .error e
      | .ok rn =>
        match physFind decomp c (getFuel c depth) root rn k with
        | .error e => .error e
        | .ok none => .ok none
        | .ok (some (na, n, i)) =>
          match n.seps[i]? with
          | none => .ok none
          | some (key, va) =>
            match physWriteValue cp c (some va) v with
            | .error e => .error e
            | .ok (c1, moved) =>
              let n' : C04.RawNode := { n with seps := n.seps.set i (key, moved.getD va) }
              match physWriteNode c1 n' (some na) with
              | .error e => .error e
              | .ok (c2, none) => .ok (some (c2, moved.isSome))
              | .ok (_, some _) => .ok none

/-! ## two more whole transactions: `Set(k, v)` on an ABSENT key that fits its leaf (no split),
`Dereference(k)` of a key held by a leaf that keeps `ORDER/2` separators (no rebalance).

WRITE-BACK ORDER, modelled literally (it decides which free slot every entry gets):
`Node::change` descends with the node of every level in memory; the value entry is written or
removed at the leaf (`create_separator` / `write_existing_value_plan`); on the way back every
parent runs `write_child`: the child is written by `write_node_plan` at its address iff it is
`changed`, and only if that write returned a NEW address (the entry changed tier) the parent
records it and becomes `changed` itself; the root is written at the end of
`write_sorted_changes`, the header entry is rewritten by `write_plan` iff root address or depth
changed.  So: value, leaf, [parent, [grand-parent ...]] (each only if its child moved), header. -/

/-- The descent of `Node::change` for `k` from the node `n` at address `a`, `d` levels above the
leaves: the visited `(address, node, index)` root first, and whether the last one HOLDS the key
(otherwise it is the leaf and the index is the insertion position).  `none`: an empty child slot
on the way (`fetch_child` = `None`: the Rust code then does nothing). -/
def physPath (decomp : Bytes → Option Bytes) (c : PCol) : Nat → Nat → C04.RawNode → Key →
    Except PErr (Option (List (Nat × C04.RawNode × Nat) × Bool))
  | 0, a, n, k => .ok (some ([(a, n, (C04.position n.seps k).2)], (C04.position n.seps k).1))
  | d + 1, a, n, k =>
    if (C04.position n.seps k).1 = true then .ok (some ([(a, n, (C04.position n.seps k).2)], true))
    else if n.slot (C04.position n.seps k).2 = 0 then .ok none
    else
      match fetchNode decomp c (n.slot (C04.position n.seps k).2) with
      | .error e => .error e
      | .ok ch =>
        match physPath decomp c d (n.slot (C04.position n.seps k).2) ch k with
        | .error e => .error e
        | .ok none => .ok none
        | .ok (some (l, f)) => .ok (some ((a, n, (C04.position n.seps k).2) :: l, f))

/-- `write_child` up the path (nearest parent first): the changed node `n` is written at `a`; if
its entry moved, the parent gets the new child address and is written in turn.  Result: the
column and the new address of the topmost node if IT moved. -/
def writeBack (c : PCol) (a : Nat) (n : C04.RawNode) :
    List (Nat × C04.RawNode × Nat) → Except PErr (PCol × Option Nat)
  | [] => physWriteNode c n (some a)
  | (pa, pn, pi) :: up =>
    match physWriteNode c n (some a) with
    | .error e => .error e
    | .ok (c1, none) => .ok (c1, none)
    | .ok (c1, some a') => writeBack c1 pa { pn with children := pn.children.set pi a' } up

/-- the end of `write_plan`: the header is rewritten iff the root address changed -/
def finishRoot (cp : Cmp) (c : PCol) (depth : Nat) : Option Nat → Except PErr PCol
  | none => .ok c
  | some r =>
    match physSetHeader cp c r depth with
    | .ok (c1, _) => .ok c1
    | .error e => .error e

def insertAtL {α : Type} (l : List α) (i : Nat) (x : α) : List α := l.take i ++ x :: l.drop i

/-- `write_plan` of the transaction `Set(k, v)`, `k` absent, the leaf not full.  `none`: not of
that shape (empty tree, key present, full leaf, missing child). -/
def physInsertAbsent (decomp : Bytes → Option Bytes) (cp : Cmp) (c : PCol) (k : Key) (v : Bytes) :
    Except PErr (Option PCol) :=
  match physHeader decomp c with
  | .error e => .error e
  | .ok (root, depth) =>
    if root = NULL_ADDRESS then .ok none
    else
      match fetchNode decomp c root with
      | .error e => .error e
      | .ok rn =>
        match physPath decomp c depth root rn k with
        | .error e => .error e
        | .ok none => .ok none
        | .ok (some (path, found)) =>
          match path.reverse with
          | [] => .ok none
          | (la, ln, i) :: up =>
            if found = true ∨ C04.ORDER ≤ ln.seps.length ∨ path.length ≠ depth + 1 then .ok none
            else
              match physWriteValue cp c none v with
              | .error e => .error e
              | .ok (_, none) => .ok none
              | .ok (c1, some va) =>
                match writeBack c1 la { ln with seps := insertAtL ln.seps i (k, va) } up with
                | .error e => .error e
                | .ok (c2, r) =>
                  match finishRoot cp c2 depth r with
                  | .error e => .error e
                  | .ok c3 => .ok (some c3)

/-- `write_plan` of the transaction `Dereference(k)` (column not ref-counted), `k` held by a LEAF
that keeps at least `ORDER/2` separators.  `none`: not of that shape. -/
def physRemoveLeafKey (decomp : Bytes → Option Bytes) (cp : Cmp) (c : PCol) (k : Key) :
    Except PErr (Option PCol) :=
  match physHeader decomp c with
  | .error e => .error e
  | .ok (root, depth) =>
    if root = NULL_ADDRESS then .ok none
    else
      match fetchNode decomp c root with
      | .error e => .error e
      | .ok rn =>
        match physPath decomp c depth root rn k with
        | .error e => .error e
        | .ok none => .ok none
        | .ok (some (path, found)) =>
          match path.reverse with
          | [] => .ok none
          | (la, ln, i) :: up =>
            if found = false ∨ ln.seps.length ≤ C04.MIDDLE ∨ path.length ≠ depth + 1 then .ok none
            else
              match ln.seps[i]? with
              | none => .ok none
              | some (_, va) =>
                match physRemove c va with
                | .error e => .error e
                | .ok c1 =>
                  match writeBack c1 la { ln with seps := ln.seps.eraseIdx i } up with
                  | .error e => .error e
                  | .ok (c2, r) =>
                    match finishRoot cp c2 depth r with
                    | .error e => .error e
                    | .ok c3 => .ok (some c3)

/-- `write_plan` of the transaction `Set(k, v)`, `k` absent, the LEAF IS FULL and its parent has
room (tree of depth >= 1): `Node::insert` writes the value (`create_separator`), splits the leaf
(`split`: with the new separator inserted, the first `ORDER/2` separators stay, the next one moves
up, the rest form the right node), writes the RIGHT node as a new entry (`write_split_child`), returns
to the parent, whose `write_child` writes the LEFT node at the leaf's address (or a new one if it
changes tier), then `insert_node` puts the separator and the right child into the parent, which is
written back like any changed node (`writeBack`), the header last.  `none`: not of that shape. -/
def physInsertSplitLeaf (decomp : Bytes → Option Bytes) (cp : Cmp) (c : PCol) (k : Key) (v : Bytes) :
    Except PErr (Option PCol) :=
  match physHeader decomp c with
  | .error e => .error e
  | .ok (root, depth) =>
    if root = NULL_ADDRESS then .ok none
    else
      match fetchNode decomp c root with
      | .error e => .error e
      | .ok rn =>
        match physPath decomp c depth root rn k with
        | .error e => .error e
        | .ok none => .ok none
        | .ok (some (path, found)) =>
          match path.reverse with
          | (la, ln, i) :: (pa, pn, pi) :: up =>
            if found = true ∨ ln.seps.length ≠ C04.ORDER ∨ C04.ORDER ≤ pn.seps.length ∨
                path.length ≠ depth + 1 then .ok none
            else
              match physWriteValue cp c none v with
              | .error e => .error e
              | .ok (_, none) => .ok none
              | .ok (c1, some va) =>
                let s' := insertAtL ln.seps i (k, va)
                match s'[C04.MIDDLE]? with
                | none => .ok none
                | some sep =>
                  match physWriteNode c1 ⟨s'.drop (C04.MIDDLE + 1), []⟩ none with
                  | .error e => .error e
                  | .ok (_, none) => .ok none
                  | .ok (c2, some ra) =>
                    match physWriteNode c2 ⟨s'.take C04.MIDDLE, []⟩ (some la) with
                    | .error e => .error e
                    | .ok (c3, lr) =>
                      let pn' : C04.RawNode :=
                        { seps := insertAtL pn.seps pi sep,
                          children := insertAtL (pn.children.set pi (lr.getD la)) (pi + 1) ra }
                      match writeBack c3 pa pn' up with
                      | .error e => .error e
                      | .ok (c4, r) =>
                        match finishRoot cp c4 depth r with
                        | .error e => .error e
                        | .ok c5 => .ok (some c5)
          | _ => .ok none

/-! ## abstraction -/

/-- `some` of all elements, or `none` -/
def optList {α : Type} : List (Option α) → Option (List α)
  | [] => some []
  | none :: _ => none
  | some x :: r => (optList r).map (x :: ·)

/-- one level of the abstraction: a leaf has only empty child slots, an internal node only set
ones, each of which must decode (`sub`) -/
def absStep (leaf : Bool) (sub : Nat → Option (C04.Node Nat)) (r : Except PErr C04.RawNode) :
    Option (C04.Node Nat) :=
  match r with
  | .ok n =>
    if leaf = true then
      (if n.children.all (fun x => x == 0) = true then some (C04.Node.mk n.seps []) else none)
    else if n.children.all (fun x => x != 0) = true then
      (optList (n.children.map sub)).map (C04.Node.mk n.seps)
    else none
  | .error _ => none

/-- The node at address `a` with everything below it, `d` levels above the leaves. -/
def absNode (decomp : Bytes → Option Bytes) (c : PCol) : Nat → Nat → Option (C04.Node Nat)
  | 0, a => absStep true (fun _ => none) (fetchNode decomp c a)
  | d + 1, a => absStep false (absNode decomp c d) (fetchNode decomp c a)

def reachStep (a : Nat) (sub : Nat → List Nat) (r : Except PErr C04.RawNode) : List Nat :=
  match r with
  | .ok n => a :: (n.children.map sub).flatten
  | .error _ => [a]

/-- addresses of the nodes `absNode` decodes -/
def reachNodes (decomp : Bytes → Option Bytes) (c : PCol) : Nat → Nat → List Nat
  | 0, a => [a]
  | d + 1, a => reachStep a (reachNodes decomp c d) (fetchNode decomp c a)

/-- R8_abs: the address-indirected tree the column stores. -/
def absTree (decomp : Bytes → Option Bytes) (c : PCol) : Option (C04.Tree Nat) :=
  match physHeader decomp c with
  | .error _ => none
  | .ok (root, depth) =>
    if root = NULL_ADDRESS then some ⟨.empty, depth⟩
    else (absNode decomp c depth root).map (fun n => ⟨n, depth⟩)

def rootNodes (decomp : Bytes → Option Bytes) (c : PCol) : List Nat :=
  match physHeader decomp c with
  | .error _ => []
  | .ok (root, depth) => if root = NULL_ADDRESS then [] else reachNodes decomp c depth root

/-- value addresses of a tree -/
def valAddrs (t : C04.Tree Nat) : List Nat := t.toList.map (·.2)

/-- Every address that owns slots: the header, the reachable nodes, the referenced values. -/
def owners (decomp : Bytes → Option Bytes) (c : PCol) (t : C04.Tree Nat) : List Nat :=
  HEADER_ADDRESS :: (rootNodes decomp c ++ valAddrs t)

/-- the slots of the entry that starts at slot `i` -/
def chainOf (t : VT) (i : Nat) : List Nat := (walk t t.filled i).1

/-- the slot chains of the owners that live in `tier` -/
def tierChains (c : PCol) (own : List Nat) (tier : Nat) : List (List Nat) :=
  (own.filter (fun a => Address.size_tier a == tier)).map
    (fun a => chainOf (c.tables tier) (Address.offset a))

def freeOf (t : VT) : List Nat := (freeListOf t t.filled t.lastRemoved).getD []

/-- Joint invariant for the tree `t`: it is the abstraction, it satisfies TreeInv (`treeInvB`), no
owner lies outside the tables, and in every tier the free list and the chains of the owners
partition the used slots (`SlotInv`): every slot below the fill mark is a part of the header, of
exactly one reachable node, of exactly one referenced value, or a free-list member. -/
def JointInv (decomp : Bytes → Option Bytes) (c : PCol) (t : C04.Tree Nat) : Prop :=
  absTree decomp c = some t ∧ C04.treeInvB t = true ∧
  (∀ a ∈ owners decomp c t, Address.size_tier a < NTABLES) ∧
  ∀ tier, tier < NTABLES →
    ∃ F, SlotInv (c.tables tier) F (tierChains c (owners decomp c t) tier)

/-- executable form (free list := the walk `check_free_refs` does) -/
def tierCheck (c : PCol) (own : List Nat) (tier : Nat) : Bool :=
  decide (SlotInv (c.tables tier) (freeOf (c.tables tier)) (tierChains c own tier))

def jointCheck (decomp : Bytes → Option Bytes) (c : PCol) : Bool :=
  match absTree decomp c with
  | none => false
  | some t =>
    C04.treeInvB t && (owners decomp c t).all (fun a => decide (Address.size_tier a < NTABLES)) &&
      (List.range NTABLES).all (tierCheck c (owners decomp c t))

/-! ## driver: `c04b phys ...`

  c04b phys reset <rc 0/1>                                         -> `ok`
  c04b phys table <tier> <entry_size> <multipart 0/1> <filled> <last_removed>
                                                                   -> `ok`   (declares a table)
  c04b phys slots <tier> <first index> <hex> <hex> ...             -> `ok <n>` (raw slots of the file,
                                     cut to the prefix the code reads: 10 bytes for a tombstone,
                                     2 + size for a sized entry, entry_size for a part with a link)
  c04b phys header                                                 -> `<root> <depth>`
  c04b phys get <keyhex>                                           -> `none` | `some <len> <compressed
                                     0/1> <fnv of the stored bytes>` | `err:<Kind>`
  c04b phys put <keyhex> <valuehex> <threshold> <compressed hex | none>
                  -> `ok moved=<0/1>` | `unsupported` | `err:<Kind>`: `physSetExisting` (the whole
                     `write_plan` of the transaction `Set(key, value)` on a present key) with the
                     compressor "returns <compressed hex>" (`none`: the column does not compress)
  c04b phys ins <keyhex> <valuehex> <threshold> <compressed hex | none>
                  -> `ok` | `unsupported` | `err:<Kind>`: `physInsertAbsent` (the whole `write_plan` of
                     `Set(key, value)`, key ABSENT, leaf not full: value entry, leaf, the parents whose
                     child moved, header if the root moved)
  c04b phys split <keyhex> <valuehex> <threshold> <compressed hex | none>
                  -> `ok` | `unsupported` | `err:<Kind>`: `physInsertSplitLeaf` (`Set(key, value)`, key absent,
                     the leaf is FULL and its parent has room: value, right node (new), left node, parent,
                     ancestors whose child moved, header)
  c04b phys del <keyhex> <threshold>
                  -> `ok` | `unsupported` | `err:<Kind>`: `physRemoveLeafKey` (the whole `write_plan` of
                     `Dereference(key)`, key in a leaf that keeps ORDER/2 separators)
  c04b phys digest -> `<tier>:<filled>:<last_removed>:<fnv of the slot prefixes 1..filled-1> ...` for
                     every table that was ever written
  c04b phys inv   -> `ok slots=<classified> header=<parts> nodes=<n>/<parts> values=<n>/<parts>
                      free=<n> mpnodes=<n> mpvalues=<n>` | `violated <what>`
-/

section Driver

structure RawTable where
  tier : Nat
  entrySize : Nat
  multipart : Bool
  filled : Nat
  lastRemoved : Nat
  slots : Array Bytes

structure State where
  rc : Bool := false
  raws : List RawTable := []
  /-- the column after a `put` (otherwise it is rebuilt from `raws`) -/
  cur : Option PCol := none

def RawTable.toVT (rc : Bool) (r : RawTable) : VT :=
  { entrySize := r.entrySize, multipart := r.multipart, refCounted := rc,
    slots := fun i => (r.slots[i]?).getD [], filled := r.filled, lastRemoved := r.lastRemoved }

def State.col0 (s : State) : PCol :=
  let vts : Array (Option VT) :=
    s.raws.foldl (fun a r => if r.tier < a.size then a.set! r.tier (some (r.toVT s.rc)) else a)
      (Array.replicate NTABLES none)
  { rc := s.rc, tables := fun i => ((vts[i]?).getD none).getD (tableOfTier s.rc i) }

def State.col (s : State) : PCol := s.cur.getD s.col0

/-- reads never decompress a node in the driver: a node flagged compressed is an error -/
def noDecomp : Bytes → Option Bytes := fun _ => none

def showErr : PErr → String
  | .corruption => "err:Corruption"
  | .diverge => "err:Diverge"
  | .panic => "err:Panic"

def putSlots (a : Array Bytes) (i : Nat) : List Bytes → Array Bytes
  | [] => a
  | b :: r =>
    let a := if i < a.size then a.set! i b else (a ++ Array.replicate (i - a.size) []).push b
    putSlots a (i + 1) r

def sumLen (l : List (List Nat)) : Nat := l.foldl (fun s x => s + x.length) 0

def invLine (c : PCol) : String :=
  match absTree noDecomp c with
  | none => "violated abstraction"
  | some t =>
    if C04.treeInvB t = false then "violated TreeInv"
    else
      let own := owners noDecomp c t
      if own.all (fun a => decide (Address.size_tier a < NTABLES)) = false then "violated owner-tier"
      else
        match (List.range NTABLES).find? (fun tier => !tierCheck c own tier) with
        | some tier => s!"violated SlotInv tier={tier}"
        | none =>
          let chainsOf := fun (as : List Nat) =>
            as.map (fun a => chainOf (c.tables (Address.size_tier a)) (Address.offset a))
          let hd := chainsOf [HEADER_ADDRESS]
          let nd := chainsOf (rootNodes noDecomp c)
          let vl := chainsOf (valAddrs t)
          let free := (List.range NTABLES).foldl (fun s i => s + (freeOf (c.tables i)).length) 0
          let total := sumLen hd + sumLen nd + sumLen vl + free
          s!"ok slots={total} header={sumLen hd} nodes={nd.length}/{sumLen nd} " ++
            s!"values={vl.length}/{sumLen vl} free={free} " ++
            s!"mpnodes={(nd.filter (fun x => decide (1 < x.length))).length} " ++
            s!"mpvalues={(vl.filter (fun x => decide (1 < x.length))).length}"

def step (s : State) (args : List String) : State × String :=
  match args with
  | ["reset", rc] =>
    match ValueTable.parseBool rc with
    | some rc => ({ rc := rc, raws := [], cur := none }, "ok")
    | none => (s, "bad-op")
  | ["table", tier, es, mp, filled, lr] =>
    match tier.toNat?, es.toNat?, ValueTable.parseBool mp, filled.toNat?, lr.toNat? with
    | some tier, some es, some mp, some filled, some lr =>
      ({ s with raws := ⟨tier, es, mp, filled, lr, #[]⟩ :: s.raws.filter (fun r => r.tier ≠ tier) }, "ok")
    | _, _, _, _, _ => (s, "bad-op")
  | "slots" :: tier :: first :: hexes =>
    match tier.toNat?, first.toNat?, hexes.mapM ValueTable.unhex with
    | some tier, some first, some bs =>
      match s.raws.find? (fun r => r.tier = tier) with
      | some r =>
        let r' := { r with slots := putSlots r.slots first bs }
        ({ s with raws := r' :: s.raws.filter (fun r => r.tier ≠ tier) }, s!"ok {bs.length}")
      | none => (s, "bad-op")
    | _, _, _ => (s, "bad-op")
  | ["header"] =>
    match physHeader noDecomp s.col with
    | .ok (root, depth) => (s, s!"{root} {depth}")
    | .error e => (s, showErr e)
  | ["get", k] =>
    match C04.unhex k with
    | some k =>
      match physGetRaw noDecomp s.col k with
      | .ok none => (s, "none")
      | .ok (some (v, comp)) =>
        (s, s!"some {v.length} {if comp then 1 else 0} {ValueTable.fnv v ValueTable.fnvInit}")
      | .error e => (s, showErr e)
    | none => (s, "bad-op")
  | ["inv"] => (s, invLine s.col)
  | ["put", k, v, thr, cv] =>
    match C04.unhex k, ValueTable.unhex v, thr.toNat?, (if cv = "none" then some none else (ValueTable.unhex cv).map some) with
    | some k, some v, some thr, some cv =>
      let cp : Cmp := ⟨fun x => cv.getD x, thr⟩
      match physSetExisting noDecomp cp s.col k v with
      | .ok (some (c', moved)) => ({ s with cur := some c' }, s!"ok moved={if moved then 1 else 0}")
      | .ok none => (s, "unsupported")
      | .error e => (s, showErr e)
    | _, _, _, _ => (s, "bad-op")
  | ["ins", k, v, thr, cv] =>
    match C04.unhex k, ValueTable.unhex v, thr.toNat?, (if cv = "none" then some none else (ValueTable.unhex cv).map some) with
    | some k, some v, some thr, some cv =>
      let cp : Cmp := ⟨fun x => cv.getD x, thr⟩
      match physInsertAbsent noDecomp cp s.col k v with
      | .ok (some c') => ({ s with cur := some c' }, "ok")
      | .ok none => (s, "unsupported")
      | .error e => (s, showErr e)
    | _, _, _, _ => (s, "bad-op")
  | ["split", k, v, thr, cv] =>
    match C04.unhex k, ValueTable.unhex v, thr.toNat?, (if cv = "none" then some none else (ValueTable.unhex cv).map some) with
    | some k, some v, some thr, some cv =>
      let cp : Cmp := ⟨fun x => cv.getD x, thr⟩
      match physInsertSplitLeaf noDecomp cp s.col k v with
      | .ok (some c') => ({ s with cur := some c' }, "ok")
      | .ok none => (s, "unsupported")
      | .error e => (s, showErr e)
    | _, _, _, _ => (s, "bad-op")
  | ["del", k, thr] =>
    match C04.unhex k, thr.toNat? with
    | some k, some thr =>
      match physRemoveLeafKey noDecomp ⟨id, thr⟩ s.col k with
      | .ok (some c') => ({ s with cur := some c' }, "ok")
      | .ok none => (s, "unsupported")
      | .error e => (s, showErr e)
    | _, _ => (s, "bad-op")
  | ["digest"] =>
    let c := s.col
    let parts := (List.range NTABLES).filterMap fun tier =>
      let t := c.tables tier
      if t.filled ≤ 1 ∧ t.lastRemoved = 0 then none
      else
        let h := (List.range' 1 (t.filled - 1)).foldl (fun h i => ValueTable.fnv (t.slots i) h)
          ValueTable.fnvInit
        some s!"{tier}:{t.filled}:{t.lastRemoved}:{h}"
    (s, if parts.isEmpty then "-" else " ".intercalate parts)
  | _ => (s, "bad-op")

end Driver

end Pdb.BTreePhys
