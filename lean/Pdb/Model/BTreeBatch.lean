/-
C04 (c'), GAP 2: the BATCHED descent of `Node::change` / `BTree::write_sorted_changes`.

Rust anchors: src/btree/node.rs `Node::{change, insert, on_existing}`, src/btree/btree.rs
`BTree::write_sorted_changes`.

`Pdb/Model/BTree.lean` applies ONE change per descent from the root (`applyList`).  The Rust
code keeps one slice `changes: &mut &[Operation]` for the whole transaction and every
`Node::change` call, at every level, runs a loop over it:

    loop {
      if changes.len() > 1 && changes[0].key() == changes[1].key() { changes = &changes[1..]; continue }
      r = insert(..) / on_existing(..)        // changes[0]; may descend: child.change(Some((self, i)), depth - 1, changes)
      if r.0.is_some() || r.1 { return r }    // split or underflow: handled by the caller; changes[0] = last applied
      if changes.len() == 1 { break }
      if let Some((parent, p)) = parent {
        key = changes[1].key();
        (at, i) = self.position(key);   if at || i < self.number_separator() { changes = &changes[1..]; continue }
        (at, i) = parent.position(key); if !at && i == p && i < parent.number_separator() { changes = &changes[1..]; continue }
      }
      break
    }
    Ok((None, false))

and `write_sorted_changes` does `*changes = &changes[1..]` after every call of
`root.change(None, ..)`.  So at return `changes[0]` is always the LAST APPLIED change, the
root itself (no parent) handles one of its own `insert` / `on_existing` per call, and every
non-root node keeps consuming changes as long as the next key is (a) not above the last
separator of the node as it is NOW (after the changes already applied to it), or (b) below
the parent's separator to the right of this child (the parent as it was when the child was
fetched; the parent is not modified while the child runs).  A split or an underflow ends the
run at once and is handled by the parent (`insert_node` / `rebalance`), whose own loop then
goes on with the modified node.

The model below is that control flow literally: `changeB` returns the node, the result and
the REMAINING SLICE (head = last applied change).  Everything that happens inside one node
(`insertSep`, `afterChild`, `rebalance`, `removeLast`, `need_remove_root`) is shared with
`Pdb/Model/BTree.lean`.  Loops run on fuel = length of the slice (every pass consumes one
change); running out of fuel and the slice being empty (`changes[0]` would panic) are the
explicit outcome `Res.stuck`, proved unreachable.

Proved (Proofs/C04Batch*.lean, Props/C04b.lean): on every tree satisfying TreeInv and every
change list sorted by key, `writeSortedB` returns EXACTLY the tree of the one-change-per-
descent model (`applyList` after `dedupLast`): the same nodes, not only the same `toList`.
Hence `C04_change_refines` transfers.  The driver (`c04b`) prints the tree node by node
(key digests), compared with the dumped implementation tree after every processed commit.
-/
import Pdb.Model.BTree
import Pdb.Model.BTreeNode

namespace Pdb.C04

variable {V : Type}

/-- `parent: Option<(&mut Self, usize)>`: the parent's separators (all `position` needs) and
    the index of the child slot the current node was fetched from. -/
abbrev Parent (V : Type) := Option (List (Key × V) × Nat)

/-- Result of one `Node::change` call: node, result, remaining slice. -/
abbrev RetB (V : Type) := Node V × Res V × List (Op V)

/-- The test at the end of the loop of `Node::change`: does the change with key `k` still
    belong to the node `n` (child number `p` of `parent`)? -/
def stays (parent : Parent V) (n : Node V) (k : Key) : Bool :=
  match parent with
  | none => false
  | some (pseps, p) =>
    let q := position n.seps k
    if q.1 || decide (q.2 < n.seps.length) then true
    else
      let r := position pseps k
      !r.1 && decide (r.2 = p) && decide (r.2 < pseps.length)

/-- `insert` (Set) / `on_existing` (Dereference) for `changes[0] = op`, `cs` = the whole slice;
    `cc` is `child.change(Some((self, i)), depth - 1, changes, ..)`. -/
def opB (depth : Nat) (cc : Parent V → Node V → List (Op V) → RetB V)
    (n : Node V) (op : Op V) (cs : List (Op V)) : RetB V :=
  let p := position n.seps op.key
  let i := p.2
  match op, p.1 with
  | .set k v, true => (.mk (n.seps.set i (k, v)) n.children, .ok, cs)
  | .set k v, false =>
    (match depth with
     | 0 => let r := insertSep n i (k, v) none; (r.1, r.2, cs)
     | _ + 1 =>
       match n.children[i]? with
       | none => (n, .ok, cs)
       | some child =>
         let cr := cc (some (n.seps, i)) child cs
         let r := afterChild (.mk n.seps (n.children.set i cr.1)) i cr.2.1
         (r.1, r.2, cr.2.2))
  | .del _, true =>
    (match depth with
     | 0 =>
       let n' := Node.mk (n.seps.eraseIdx i) n.children
       (n', if needRebalance n' then .underflow else .ok, cs)
     | d + 1 =>
       match n.children[i]? with
       | none => (n, .stuck, cs)
       | some child =>
         match removeLast d child with
         | (_, _, none) => (n, .stuck, cs)
         | (child', r, some sep) =>
           let n1 := Node.mk (n.seps.set i sep) (n.children.set i child')
           match r with
           | .underflow =>
             (match rebalance n1 i with
              | some n2 => (n2, if needRebalance n2 then .underflow else .ok, cs)
              | none => (n1, .stuck, cs))
           | .stuck => (n1, .stuck, cs)
           | _ => (n1, if needRebalance n1 then .underflow else .ok, cs))
  | .del _, false =>
    (match depth with
     | 0 => (n, .ok, cs)
     | _ + 1 =>
       match n.children[i]? with
       | none => (n, .ok, cs)
       | some child =>
         let cr := cc (some (n.seps, i)) child cs
         let r := afterChild (.mk n.seps (n.children.set i cr.1)) i cr.2.1
         (r.1, r.2, cr.2.2))

/-- Head of the loop: `changes.len() > 1 && changes[0].key() == changes[1].key()` (on a column
    without reference counting): the earlier operation on a key is dropped. -/
def skipDup (a : Op V) (rest : List (Op V)) : Bool :=
  match rest with
  | b :: _ => decide (a.key = b.key)
  | [] => false

/-- The `loop` of `Node::change`. -/
def loopB (depth : Nat) (cc : Parent V → Node V → List (Op V) → RetB V) (parent : Parent V) :
    Nat → Node V → List (Op V) → RetB V
  | 0, n, cs => (n, .stuck, cs)                    -- out of fuel
  | _ + 1, n, [] => (n, .stuck, [])                -- `changes[0]` on an empty slice
  | fuel + 1, n, a :: rest =>
    if skipDup a rest then loopB depth cc parent fuel n rest
    else
      let r := opB depth cc n a (a :: rest)
      match r.2.1 with
      | .ok =>
        (match r.2.2 with
         | x :: nxt :: rest' =>
           if stays parent r.1 nxt.key then loopB depth cc parent fuel r.1 (nxt :: rest')
           else (r.1, .ok, x :: nxt :: rest')
         | cs' => (r.1, .ok, cs'))
      | res => (r.1, res, r.2.2)

/-- `Node::change(parent, depth, changes, ..)`. -/
def changeB : Nat → Parent V → Node V → List (Op V) → RetB V
  | 0, parent, n, cs => loopB 0 (fun _ n cs => (n, .stuck, cs)) parent cs.length n cs
  | d + 1, parent, n, cs => loopB (d + 1) (changeB d) parent cs.length n cs

/-- The `match` of `write_sorted_changes` on the result of `root.change`: add one level,
    `need_remove_root`, or nothing. -/
def finishRoot (depth : Nat) (root' : Node V) (r : Res V) : Tree V × Bool :=
  match r with
  | .split sep right => ({ root := .mk [sep] [root', right], depth := depth + 1 }, true)
  | .underflow =>
    (if root'.seps.length = 0 then
      match root'.children[0]? with
      | some c => { root := c, depth := depth - 1 }
      | none => { root := root', depth := depth }
    else { root := root', depth := depth }, true)
  | .ok => ({ root := root', depth := depth }, true)
  | .stuck => ({ root := root', depth := depth }, false)

/-- `while !changes.is_empty() { root.change(None, depth, changes); ..; *changes = &changes[1..] }` -/
def writeSortedLoop : Nat → Tree V → List (Op V) → Tree V × Bool
  | _, t, [] => (t, true)
  | 0, t, _ :: _ => (t, false)                     -- out of fuel
  | fuel + 1, t, a :: rest =>
    let r := changeB t.depth none t.root (a :: rest)
    let f := finishRoot t.depth r.1 r.2.1
    if f.2 then writeSortedLoop fuel f.1 r.2.2.tail else f

/-- `BTree::write_sorted_changes` on the sorted slice. -/
def writeSortedB (t : Tree V) (cs : List (Op V)) : Tree V × Bool :=
  writeSortedLoop cs.length t cs

/-- `BTreeChangeSet::write_plan`: `changes.sort()`, then `write_sorted_changes` (the
    de-duplication happens inside the loops). -/
def applyChangesB (t : Tree V) (cs : List (Op V)) : Tree V × Bool :=
  writeSortedB t (stableSort cs)

/-! ## GAP 3: separators carry value-table ADDRESSES

In the code a separator is `(key, Address)`; the value lives in a value table (C06).
`Node::create_separator` obtains the address: `write_new_value_plan` for a new key (a fresh
slot), `write_existing_value_plan(existing, Set)` for a key that is present (the value is
rewritten in place, or moved to another slot and the old slot freed: `.1.unwrap_or(address)`);
`on_existing` frees the slot of a removed key (`write_existing_value_plan(.., Dereference)`
returning `.0 == None`).

The tree algorithms never look at the value component of a separator, so the address-carrying
tree is the SAME model instantiated at `V := Addr`; what has to be modelled is the store.
`applyOneA` is one change at the address level: the presence test (`position` hitting the key
during the descent) is taken from the enumeration (`lookup toList k`), the allocator is an
arbitrary pair of functions constrained only by freshness (`AllocOK`), the released
addresses are recorded.  Proved (Proofs/C04BatchAddr.lean, `C04b_address_indirection`):
dereferencing the address tree through the store gives the enumeration of the value-carrying
model after the same changes; every referenced address is live, no address is referenced
twice, every live address is referenced (nothing leaks), and a change releases exactly the
address that was referenced before it and is not referenced after it.  Proofs/C04BatchNat.lean:
the update is natural in the value type (`applyList_map`), so the address-carrying tree has
node by node the keys of the value-carrying tree (`C04b_address_shape`). -/

abbrev Addr := Nat

/-- value tables: the live slots and their values -/
abbrev Store (V : Type) := Addr → Option V

def Store.set (σ : Store V) (a : Addr) (o : Option V) : Store V := fun x => if x = a then o else σ x

/-- free the slot `old` (if there is one) -/
def Store.clear (σ : Store V) (old : Option Addr) : Store V :=
  match old with
  | some a => σ.set a none
  | none => σ

/-- the allocator: which slot a new value gets, and where a rewritten value ends up -/
structure Alloc (V : Type) where
  fresh : Store V → V → Addr
  rewrite : Store V → Addr → V → Addr

/-- a new value gets a free slot; a rewritten value stays where it is or gets a free slot
    (as long as the store has a free slot at all: the tables can grow, and the live slots
    are finitely many because each is referenced by a separator) -/
def AllocOK (al : Alloc V) : Prop :=
  (∀ (σ : Store V) (v : V), (∃ x, σ x = none) → σ (al.fresh σ v) = none) ∧
  (∀ (σ : Store V) (a : Addr) (v : V), (∃ x, σ x = none) →
      al.rewrite σ a v = a ∨ σ (al.rewrite σ a v) = none)

/-- `create_separator`: the slot of the value of a Set, `old` being the slot the key has now -/
def Alloc.slot (al : Alloc V) (σ : Store V) (old : Option Addr) (v : V) : Addr :=
  match old with
  | some a => al.rewrite σ a v
  | none => al.fresh σ v

/-- the slot a Set releases: the old one if the value moved -/
def relOnSet (old : Option Addr) (a' : Addr) : List Addr :=
  match old with
  | some a => if a' = a then [] else [a]
  | none => []

structure AState (V : Type) where
  tree : Tree Addr
  store : Store V
  released : List Addr      -- slots freed so far
  ok : Bool

/-- one change on the address-carrying tree and the store -/
def applyOneA (al : Alloc V) (s : AState V) (op : Op V) : AState V :=
  match op with
  | .set k v =>
    let old := lookup s.tree.toList k
    let a' := al.slot s.store old v
    let r := applyOne s.tree (.set k a')
    { tree := r.1, store := (s.store.clear old).set a' (some v),
      released := relOnSet old a' ++ s.released,
      ok := s.ok && r.2 }
  | .del k =>
    let old := lookup s.tree.toList k
    let r := applyOne s.tree (.del k)
    { tree := r.1, store := s.store.clear old,
      released := old.toList ++ s.released, ok := s.ok && r.2 }

def applyListA (al : Alloc V) (s : AState V) (ops : List (Op V)) : AState V :=
  ops.foldl (applyOneA al) s

/-- the enumeration of the address tree seen through the store -/
def derefList (σ : Store V) (m : List (Key × Addr)) : List (Key × Option V) :=
  m.map (fun e => (e.1, σ e.2))

/-! ## driver (command word `c04b`, stateful)

`c04b init`              empty tree
`c04b apply <op>..`      one processed commit (`set:<hexkey>:<tok>` / `del:<hexkey>`), applied
                         by the batched model; answers `ok` or `stuck`
`c04b tree`              `d=<depth> <nodes>`: a leaf is `[t t ..]`, an internal node
                         `(child t child t .. child)`, `t` = `<key length>.<fnv1a-64 of the key>`
`c04b same`              `yes` / `no`: is the batched tree equal, node by node, to the tree of
                         the one-change-per-descent model fed with the same commits
`c04b node <hexbytes>`   stateless: `Node::from_encoded` on raw node bytes (Model/BTreeNode.lean) -/

def fnv64 (k : Key) : UInt64 :=
  k.foldl (fun h b => (h ^^^ b.toUInt64) * 1099511628211) 14695981039346656037

def hexU64 (x : UInt64) : String :=
  String.ofList ((List.range 16).reverse.map (fun i => hexChar ((x.toNat / 16 ^ i) % 16)))

def keyTag (k : Key) : String := toString k.length ++ "." ++ hexU64 (fnv64 k)

/-- node-by-node rendering with the separators -/
def shapeX : Nat → Node String → String
  | 0, n => "[" ++ " ".intercalate (n.seps.map (fun s => keyTag s.1)) ++ "]"
  | d + 1, n =>
    "(" ++ " ".intercalate (interleave (n.children.map (fun c => [shapeX d c]))
      (n.seps.map (fun s => keyTag s.1))) ++ ")"

def nodeBEq : Nat → Node String → Node String → Bool
  | 0, a, b => a.seps == b.seps && a.children.isEmpty && b.children.isEmpty
  | d + 1, a, b =>
    a.seps == b.seps && a.children.length == b.children.length &&
      (a.children.zip b.children).all (fun p => nodeBEq d p.1 p.2)

structure DrvB where
  tree : Tree String          -- batched model
  ref : Tree String           -- one change per descent
  stuck : Bool

def DrvB.init : DrvB := { tree := Tree.empty, ref := Tree.empty, stuck := false }

def DrvB.step (s : DrvB) (ws : List String) : DrvB × String :=
  match ws with
  | "apply" :: ops =>
    (match ops.mapM parseOp with
     | some ops =>
       let r := applyChangesB s.tree ops
       let r1 := applyChanges s.ref ops
       ({ tree := r.1, ref := r1.1, stuck := s.stuck || !r.2 || !r1.2 },
         if r.2 then "ok" else "stuck")
     | none => (s, "bad-op"))
  | ["tree"] => (s, s!"d={s.tree.depth} {shapeX s.tree.depth s.tree.root}")
  | ["same"] =>
    (s, if s.tree.depth = s.ref.depth && nodeBEq s.tree.depth s.tree.root s.ref.root && !s.stuck
        then "yes" else "no")
  | _ => (s, "bad-op")

/-- Entry point for `Driver/Main.lean`: `c04b init` (re)creates the state. -/
def driverStepB (st : Option DrvB) (ws : List String) : Option DrvB × String :=
  match ws with
  | ["init"] => (some DrvB.init, "ok")
  | "node" :: rest => (st, nodeLine rest)   -- stateless: `c04b node <hexbytes>` (Model/BTreeNode.lean)
  | _ =>
    match st with
    | some s => let r := s.step ws; (some r.1, r.2)
    | none => (none, "bad-op")

end Pdb.C04
