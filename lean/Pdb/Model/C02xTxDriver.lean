/-
C02xTx driver: the crash model of ONE multitree column with multi-operation transactions and
address reuse, executable (command word `c02xt`, harness harness/src/c02x.rs, cases `tx`).

Every state change is made by the definitions the theorems of Props/C02xTx.lean talk about:
`xstep` (commit / process / flush / enact / crash) of Model/MultiTreeCrashTx.lean on an
`XState String String`; the hypothesis of the theorems (`LegalX`) is EVALUATED on the replayed history
through its Bool mirror `txLegalB` (`legalXB_iff`) and reported at every crash.

The recovered prefix is NOT supplied by the harness: at a crash point the harness reports the log
FILES of the crash image (file number -> ids of the complete records, read from the image); the
driver runs the REAL recovery algorithm of Model/Recover.lean on them (`realAccepted`: replay queue
sorted by first record id, start at first id - 1, accept consecutive ids, stop at the first gap),
maps the accepted record ids to its own published records (it assigns the ids itself, by the rule
of `Log`: consecutive from 1; after a recovery that found log files, from the last accepted id + 1)
and recovers by `xstep (.crash kept)`.  It answers the length of the recovered prefix and the number
of LEAKED slots it predicts (finding F19: `C02xTx_leak_exactly_F19`), which the harness compares with
what the real database shows (its own forest oracle; `get_num_column_value_entries`).

Protocol (one output line per input line)
  c02xt init <mt_rc|mt_plain|mt_append>   -> ok
  c02xt commit <tok>...                   -> ok | err:InvalidInput | err:InvalidConfiguration
        0:insert:<key>:<n> followed by n tokens of the c10 tree encoding | 0:reftree:<key> |
        0:dereftree:<key>; ALL operations of the line are ONE transaction
  c02xt process                           -> ok            ONE commit reaches the log
  c02xt flush                             -> ok            (a new log file if anything was published)
  c02xt enact                             -> ok records=<k>   the oldest flushed log FILE
  c02xt stages                            -> queued=<q> logged=<l> flushed=<f> enacted=<e>
  c02xt files <num>:<id,id..|-> ...       -> prefix=<m> leaked=<n> | err:...
        crash + recovery from these log files; m = transactions in the recovered prefix (counted
        over the whole case), n = slots allocated but unreachable after recovery (cumulative)
  c02xt tree 0 <key>                      -> none | some (<data> <child>...)
  c02xt count 0                           -> <n> | err:InvalidConfiguration
        `get_num_column_value_entries`: table nodes + claimed slots of queued commits + roots
        + the leaked slots
-/
import Pdb.Model.MultiTreeCrashTx
import Pdb.Model.Recover

namespace Pdb.C02xTxDriver
open Pdb.MultiTree

abbrev XS := XState String String

structure DSt where
  v : Variant
  c : XS
  /-- the hypothesis `LegalX` of the theorems, evaluated so far -/
  legal : Bool
  /-- id the next published record gets -/
  nextId : Nat
  /-- ids of `c.logged`, oldest first -/
  ids : List Nat
  /-- ids of the records enacted since the last open (their files may still exist) -/
  enactedIds : List Nat
  /-- records per flushed, not yet enacted log file (oldest first) -/
  files : List Nat

abbrev State := Option DSt

def parseVariant : String → Option Variant
  | "mt_append" => some .appendOnly
  | "mt_rc" => some .rcRoots
  | "mt_plain" => some .plain
  | _ => none

def iterN {α : Type} (f : α → α) : Nat → α → α
  | 0, a => a
  | n + 1, a => iterN f n (f a)

/-- parse the operations of one transaction; `@` paths are resolved as readable before the call -/
def parseOps (t : TS) : Nat → List String → Option (List (MultiTree.Op String String))
  | 0, _ => none
  | _ + 1, [] => some []
  | fuel + 1, w :: rest =>
    match w.splitOn ":" with
    | [_, "reftree", k] => (parseOps t fuel rest).map (fun l => MultiTree.Op.reference k :: l)
    | [_, "dereftree", k] => (parseOps t fuel rest).map (fun l => MultiTree.Op.dereference k :: l)
    | [_, "insert", k, n] =>
      match n.toNat? with
      | some n =>
        if rest.length < n then none
        else
          match parseTreeV t.resolve (rest.take n) with
          | none => none
          | some tr => (parseOps t fuel (rest.drop n)).map (fun l => MultiTree.Op.insert k tr :: l)
      | none => none
    | _ => none

def doCommit (d : DSt) (ws : List String) : DSt × String :=
  match parseOps d.c.t (ws.length + 1) ws with
  | none => (d, "bad-op")
  | some ops =>
    match (d.c.t.commit ops).2 with
    | .ok () =>
      ({ d with c := xstep d.c (.commit ops), legal := d.legal && txLegalB d.v d.c ops }, "ok")
    | .error e => (d, e.show)

def doProcess (d : DSt) : DSt :=
  let c' := xstep d.c .process
  if c'.logged.length = d.c.logged.length + 1 then
    { d with c := c', ids := d.ids ++ [d.nextId], nextId := d.nextId + 1 }
  else { d with c := c' }

def doFlush (d : DSt) : DSt :=
  let fresh := d.c.logged.length - d.c.flushed
  { d with c := xstep d.c .flush, files := if fresh > 0 then d.files ++ [fresh] else d.files }

def enactRec (d : DSt) : DSt :=
  match d.c.flushed, d.ids with
  | _ + 1, i :: rest => { d with c := xstep d.c .enact, ids := rest, enactedIds := d.enactedIds ++ [i] }
  | _, _ => d

def parseFile (tok : String) : Option (LFile Nat) :=
  match tok.splitOn ":" with
  | [n, ids] =>
    match n.toNat? with
    | none => none
    | some n =>
      if ids = "-" then some ⟨n, []⟩
      else ((ids.splitOn ",").mapM String.toNat?).map (fun l => ⟨n, l.map (fun i => (i, i))⟩)
  | _ => none

/-- longest prefix of `ids` that lies in `acc` -/
def keptOf (acc : List Nat) : List Nat → Nat
  | [] => 0
  | i :: rest => if acc.contains i then keptOf acc rest + 1 else 0

def doFiles (d : DSt) (toks : List String) : DSt × String :=
  match toks.mapM parseFile with
  | none => (d, "bad-op")
  | some fs =>
    let acc : List Nat := realAccepted fs
    if !(acc.all (fun i => d.ids.contains i || d.enactedIds.contains i)) then
      (d, "err:unknown-record-id")
    else
      let i := keptOf acc d.ids
      if i < d.c.flushed then (d, s!"err:synced-record-lost kept={i} flushed={d.c.flushed}")
      else if !d.legal then (d, "err:history-not-legal")
      else
        let r := xstep d.c (.crash i)
        let withRecs := fs.filter (fun f => !f.recs.isEmpty)
        let nextId :=
          if withRecs.isEmpty then 1
          else startId (replayOrder LFile.firstId fs) + acc.length + 1
        -- the prediction of `C02xTx_leak_exactly_F19`, cross-checked by evaluation
        if (leakedSlots r.t).length != r.leaked.length then (d, "err:model-leak-accounting")
        else
          ({ d with c := r, nextId := nextId, ids := [], enactedIds := [], files := [] },
            s!"prefix={r.hist.length} leaked={r.leaked.length}")

def dstep (d : DSt) : List String → DSt × String
  | "commit" :: ws => doCommit d ws
  | ["process"] => (doProcess d, "ok")
  | ["flush"] => (doFlush d, "ok")
  | ["enact"] =>
    match d.files with
    | [] => (d, "ok records=0")
    | k :: fs => ({ iterN enactRec k d with files := fs }, s!"ok records={k}")
  | ["stages"] =>
    (d, s!"queued={d.c.t.queue.length} logged={d.c.logged.length} flushed={d.c.flushed} enacted={d.c.nEn}")
  | "files" :: toks => doFiles d toks
  | ["tree", _, k] =>
    let s := d.c.t
    (d, renderTreeV s.viewRoot s.viewNode
      (s.heap.nodes.size + (s.queue.map (fun cs => cs.nodeChanges.length)).sum + 1) k)
  | ["count", _] =>
    match d.c.t.countEntries tokLen with
    | .ok n => (d, toString (n + d.c.leaked.length))
    | .error e => (d, e.show)
  | _ => (d, "bad-op")

/-- Driver entry point: `c02xt <args>`. -/
def step (st : State) (args : List String) : State × String :=
  match args with
  | ["init", kind] =>
    match parseVariant kind with
    | some v => (some ⟨v, XState.init v, true, 1, [], [], []⟩, "ok")
    | none => (st, "bad-op")
  | _ =>
    match st with
    | some d => let (d', out) := dstep d args; (some d', out)
    | none => (st, "bad-op")

end Pdb.C02xTxDriver
