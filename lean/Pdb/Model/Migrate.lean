/-
C20  "Migration copies every key, value and reference count"     (src/migration.rs)

Two layers.

(a) Bit level: how `HashColumn::iter_index_internal` (src/column.rs) rebuilds the 32-byte
    hashed key of an index entry:
        let mut key = source.recover_key_prefix(c, *entry);   // src/index.rs
        key[6..].copy_from_slice(&pk);                         // pk = 26-byte tail stored with the value
    `recoverKey ib chunk entry tail`.  The shift expressions are the GENERATED
    `Pdb.Gen.recover_partial_key / recover_k / recover_index_key / chunk_index / Entry.*`.

(b) Logical level: `migrate` (src/migration.rs) walks the index of every selected source
    column (`iter_column_index_while` -> `HashColumn::iter_index`), and for every reported
    `(key, rc, value)` pushes `rc` times `Operation::Set(key, value)` into raw commits of
    `COMMIT_SIZE` operations (`Db::commit_raw`) of the destination, whose semantics is the
    logical pipeline `Pdb.applyCell kind` / `Pdb.spec` (Model/Pipeline.lean, tied to the code by
    C01 / C07).  Keys are HASHED keys: `migrate` copies the salt and the theorem requires equal
    `uniform` flags, so source and destination hash user keys identically.
      migrateCol        : the walk visits the queued older index tables too (fix F10) and every
                          Set carries the value (fix F6)
      migrateColBuggy   : the code before the fixes: only the newest index table is walked
                          (F10) and `std::mem::take(&mut value)` inside `for _ in 0..rc` leaves the
                          EMPTY value in every Set after the first (F6)
    The source column's physical index state is (keys of the newest table `tables.index`,
    keys of the queued older tables `reindex.queue`, value-table cells).

Driver command `c20` (stateless, `driverLine`):
  c20 recover <ib> <chunk> <entry_u64> <hex tail26>   -> hex of the 32-byte key
  c20 prefix  <ib> <chunk> <entry_u64>                -> hex of `recover_key_prefix` (32 bytes)
  c20 migrate <srckind> <dstkind> <n> (<hexkey> <valtoken> <rc>)*n [older <m> (<hexkey> <valtoken> <rc>)*m]
        -> destination content, sorted by key: `key=val*count ...` ("-" if empty);
           the first n triples are the entries of the newest index table, the optional m
           triples those of queued older tables (fixed code: `migrateCol`)
  c20 migratebuggy ... same syntax               -> the same for `migrateColBuggy` (empty value = v0_0)
  c20 plan <overwrite 0|1> <n> <col>*n <m> <col>*m <force: c1,c2,..|->
        -> ok | err:Migration | panic        (col = <kind>:u<0|1>:c<0..2>:b<0|1>)
-/
import Pdb.Gen.Consts
import Pdb.Gen.Bits
import Pdb.Model.Pipeline

namespace Pdb.Migrate
open Pdb Pdb.Gen

/-! ## (a) key recovery -/

-- TODO-GEN src/column.rs `iter_index_internal`: `key[6..].copy_from_slice(&pk)`, and
-- src/table.rs `key::partial_key`: `&hash[6..]` (the literal 6)
def TAIL_START : Nat := 6

/-- `copy_from_slice` needs equal lengths: `KEY_SIZE - 6 = PARTIAL_SIZE` (else the Rust panics). -/
theorem tail_fits : TAIL_START + PARTIAL_SIZE = KEY_SIZE := rfl

/-- `u64::to_be_bytes`. -/
def beBytes8 (x : Nat) : List Nat :=
  [(x >>> 56) % 256, (x >>> 48) % 256, (x >>> 40) % 256, (x >>> 32) % 256,
   (x >>> 24) % 256, (x >>> 16) % 256, (x >>> 8) % 256, x % 256]

/-- `TableKey::index_from_partial`: `u64::from_be_bytes(key[0..8])`. -/
def keyPrefix (k : List Nat) : Nat := (k.take 8).foldl (fun a b => a * 256 + b) 0

/-- `IndexTable::recover_key_prefix`: a zeroed key whose first 8 bytes are `index_key` big-endian. -/
def recoverKeyPrefix (ib chunk entry : Nat) : List Nat :=
  beBytes8 (recover_index_key ib chunk entry) ++ List.replicate (KEY_SIZE - 8) 0

/-- The key reported by `iter_index_internal`: bytes `6..` overwritten by the stored tail. -/
def recoverKey (ib chunk entry : Nat) (tail : List Nat) : List Nat :=
  (recoverKeyPrefix ib chunk entry).take TAIL_START ++ tail

/-! ## (b) migration of one column -/

section
variable {K V : Type} [DecidableEq K]

/-- Physical index state of a source hash column. -/
structure SrcCol (K V : Type) where
  /-- keys with an entry in the newest index table `tables.index`, in walk order -/
  top : List K
  /-- keys with an entry in the older index tables still queued in `reindex.queue`, oldest first -/
  older : List (List K)
  /-- the value-table cell an entry of that key addresses: value and reference count -/
  cell : K → Cell V

/-- Some index table holds an entry for `k`. -/
def SrcCol.indexed (s : SrcCol K V) (k : K) : Bool := decide (k ∈ s.top) || decide (k ∈ s.older.flatten)

/-- What `HashColumn::get` returns: the newest table is searched first, then the queue. -/
def SrcCol.content (s : SrcCol K V) : Tbl K V := fun k => if s.indexed k then s.cell k else none

/-- Well-formed column: no duplicate entries in the newest table; every index entry addresses a
live value (otherwise `iter_index` fails with `Corruption`); counts are positive and not the
saturated / locked value `u32::MAX`. -/
structure SrcCol.WF (s : SrcCol K V) : Prop where
  cell_some : ∀ k, s.indexed k = true → (s.cell k).isSome = true
  count_ok : ∀ k v n, s.cell k = some (v, n) → 1 ≤ n ∧ n < LOCKED

/-- One reported index entry: `IterState { key, rc, value }`. -/
abbrev Item (K V : Type) := K × Nat × V

def itemOf (s : SrcCol K V) (k : K) : Option (Item K V) := (s.cell k).map (fun c => (k, c.2, c.1))

/-- The walk of the code before fix F10: only `tables.index`, chunk by chunk. -/
def iterIndex (s : SrcCol K V) : List (Item K V) := s.top.filterMap (itemOf s)

/-- First occurrences, in order. -/
def dedup : List K → List K
  | [] => []
  | k :: ks => k :: (dedup ks).filter (fun x => decide (x ≠ k))

/-- The walk after fix F10: queued older tables oldest first, then the newest table; an entry
is reported from the oldest table that holds it. -/
def iterIndexAll (s : SrcCol K V) : List (Item K V) :=
  (dedup (s.older.flatten ++ s.top)).filterMap (itemOf s)

/-- Fixed loop body: `rc` times `Set(key, value)`. -/
def setsOf (e : Item K V) : List (Op K V) := List.replicate e.2.1 (.set e.1 e.2.2)

/-- Loop body before fix F6: `std::mem::take(&mut value)` inside the loop, so the first Set
carries the value and every later one the empty value. -/
def setsOfBuggy (empty : V) (e : Item K V) : List (Op K V) :=
  match e.2.1 with
  | 0 => []
  | n + 1 => .set e.1 e.2.2 :: List.replicate n (.set e.1 empty)

/-- `nb_commit += 1; if nb_commit == COMMIT_SIZE { commit_raw(take(commit)); nb_commit = 0 }`,
and the final `dest.commit_raw(commit)` (possibly empty). -/
def batch {α : Type} (size : Nat) : List α → List α → Nat → List (List α)
  | [], cur, _ => [cur]
  | x :: xs, cur, nb =>
    if nb + 1 = size then (cur ++ [x]) :: batch size xs [] 0
    else batch size xs (cur ++ [x]) (nb + 1)

def commitsOf (ops : List (Op K V)) : List (List (Op K V)) := batch COMMIT_SIZE ops [] 0

/-- Destination column after migrating with a given walk and loop body into a fresh column of
kind `dstKind`: the specification of the committed transactions (C01 / C07). -/
def migrateWith (walk : List (Item K V)) (sets : Item K V → List (Op K V)) (dstKind : Kind) :
    Tbl K V :=
  spec (fun _ => dstKind) (commitsOf (walk.flatMap sets))

/-- After fixes F6 and F10. -/
def migrateCol (dstKind : Kind) (s : SrcCol K V) : Tbl K V :=
  migrateWith (iterIndexAll s) setsOf dstKind

/-- After fix F6 only (walk of the newest table). -/
def migrateColTopOnly (dstKind : Kind) (s : SrcCol K V) : Tbl K V :=
  migrateWith (iterIndex s) setsOf dstKind

/-- The code before the fixes. -/
def migrateColBuggy (empty : V) (dstKind : Kind) (s : SrcCol K V) : Tbl K V :=
  migrateWith (iterIndex s) (setsOfBuggy empty) dstKind

/-! Executable form (association list, newest binding first).  `Pdb.applyOp` stacks closures
whose lookups re-evaluate the older table twice per layer (exponential when compiled); the
driver runs this form instead, `migrateExec_get` (Proofs/C20.lean) proves it equal. -/

def alGet (al : List (K × Cell V)) (k : K) : Cell V :=
  match al.find? (fun p => decide (p.1 = k)) with
  | some p => p.2
  | none => none

def alApplyOp (kd : Kind) (al : List (K × Cell V)) (op : Op K V) : List (K × Cell V) :=
  (op.key, applyCell kd op (alGet al op.key)) :: al

def migrateExec (walk : List (Item K V)) (sets : Item K V → List (Op K V)) (dstKind : Kind) :
    List (K × Cell V) :=
  (commitsOf (walk.flatMap sets)).flatten.foldl (alApplyOp dstKind) []

/-- What the destination is expected to hold for a source cell: the same value; the same count
on a reference-counted destination, count 1 otherwise. -/
def expectCell (dstKind : Kind) : Cell V → Cell V
  | none => none
  | some (v, n) => some (v, if dstKind = .rc then n else 1)

end

/-! ## column options, column selection, the whole database -/

/-- `ColumnOptions` (the fields that matter here). -/
structure ColOpts where
  preimage : Bool
  uniform : Bool
  refCounted : Bool
  compression : Nat
  btree : Bool
deriving DecidableEq, Repr

/-- `ColumnOptions::is_valid`: reference counting needs `preimage`. -/
def ColOpts.valid (o : ColOpts) : Bool := !o.refCounted || o.preimage

def ColOpts.kind (o : ColOpts) : Kind :=
  if o.refCounted then .rc else if o.preimage then .preimage else .plain

/-- Source and destination hash user keys alike: `migrate` copies the salt
(`to.salt = Some(source_meta.salt)`), so only the `uniform` flag can differ. -/
def SameHashing (o₁ o₂ : ColOpts) : Prop := o₁.uniform = o₂.uniform

inductive Plan where
  | ok (selected : List Nat)
  | errMigration
  | panic          -- `source_options.columns[c]` with a forced column id out of range
deriving DecidableEq, Repr

/-- Column selection of `migrate`: forced columns, plus every column whose options differ;
refusal when the column counts differ or a selected column is btree-indexed on either side. -/
def plan (src dst : List ColOpts) (force : List Nat) : Plan :=
  if src.length ≠ dst.length then .errMigration
  else if force.any (fun c => decide (src.length ≤ c)) then .panic
  else
    let sel := (List.range src.length).filter
      (fun c => decide (c ∈ force) || decide (src[c]? ≠ dst[c]?))
    if sel.any (fun c => ((src[c]?.map (·.btree)).getD false) || ((dst[c]?.map (·.btree)).getD false))
    then .errMigration else .ok sel

section
variable {K V : Type} [DecidableEq K]

/-- A database: options and physical state per column (for a btree column the state is opaque
to `migrate`). -/
abbrev DbSt (K V : Type) := List (ColOpts × SrcCol K V)

/-- The freshly populated destination column: every entry sits in the newest index table. -/
def populated (o : ColOpts) (s : SrcCol K V) : SrcCol K V :=
  { top := (iterIndexAll s).map (·.1), older := [], cell := migrateCol o.kind s }

def emptyCol : SrcCol K V := { top := [], older := [], cell := fun _ => none }

/-- Column by column, starting at column id `c`: re-populated if selected, else as it was. -/
def migrateCols (sel : List Nat) : Nat → DbSt K V → List ColOpts → DbSt K V
  | _, [], _ => []
  | _, _, [] => []
  | c, so :: src, o :: dst =>
    (if c ∈ sel then (o, populated o so.2) else so) :: migrateCols sel (c + 1) src dst

inductive Outcome (K V : Type) where
  | ok (dest : DbSt K V) (source : DbSt K V)
  | errMigration
  | panic

/-- `migrate(from, to, overwrite, force)`.  Without overwrite the destination directory gets
the selected columns re-populated and every other column as a file copy (`copy_column`);
with overwrite each re-populated column is moved over the source column (`move_column`) and
the source metadata is rewritten, the directory named in `to` keeps empty columns. -/
def migrateDb (src : DbSt K V) (dst : List ColOpts) (overwrite : Bool) (force : List Nat) :
    Outcome K V :=
  match plan (src.map (·.1)) dst force with
  | .errMigration => .errMigration
  | .panic => .panic
  | .ok sel =>
    let migrated : DbSt K V := migrateCols sel 0 src dst
    if overwrite then
      .ok (dst.map (fun o => (o, emptyCol))) migrated
    else
      .ok migrated src

/-- The database that holds the result. -/
def Outcome.result : Outcome K V → Bool → Option (DbSt K V)
  | .ok dest source, overwrite => some (if overwrite then source else dest)
  | _, _ => none

end

/-! ## driver -/

def hexDigit (d : Nat) : Char :=
  if d < 10 then Char.ofNat (48 + d) else Char.ofNat (87 + d)

def hexOf (bs : List Nat) : String :=
  if bs.isEmpty then "-" else String.ofList (bs.flatMap (fun b => [hexDigit (b / 16 % 16), hexDigit (b % 16)]))

def hexVal (c : Char) : Option Nat :=
  if '0' ≤ c ∧ c ≤ '9' then some (c.toNat - 48)
  else if 'a' ≤ c ∧ c ≤ 'f' then some (c.toNat - 87)
  else none

def unhexChars : List Char → Option (List Nat)
  | [] => some []
  | [_] => none
  | a :: b :: rest =>
    match hexVal a, hexVal b, unhexChars rest with
    | some x, some y, some r => some ((x * 16 + y) :: r)
    | _, _, _ => none

def unhex (s : String) : Option (List Nat) := if s = "-" then some [] else unhexChars s.toList

def parseKind : String → Option Kind
  | "plain" => some .plain
  | "preimage" => some .preimage
  | "rc" => some .rc
  | _ => none

/-- `<kind>:u<0|1>:c<n>:b<0|1>` -/
def parseCol (w : String) : Option ColOpts :=
  match w.splitOn ":" with
  | [k, u, c, b] =>
    match parseKind k, (c.drop 1).toString.toNat? with
    | some kd, some cn =>
      some { preimage := kd ≠ .plain, refCounted := kd = .rc, uniform := u = "u1",
             compression := cn, btree := b = "b1" }
    | _, _ => none
  | _ => none

def parseTriples : Nat → List String → Option (List (String × String × Nat) × List String)
  | 0, rest => some ([], rest)
  | n + 1, k :: v :: rc :: rest =>
    match rc.toNat?, parseTriples n rest with
    | some r, some (ts, rest') => some ((k, v, r) :: ts, rest')
    | _, _ => none
  | _ + 1, _ => none

def lookupTriple (ts : List (String × String × Nat)) (k : String) : Cell String :=
  match ts.find? (fun t => t.1 = k) with
  | some t => some (t.2.1, t.2.2)
  | none => none

def insertSorted (k : String) : List String → List String
  | [] => [k]
  | x :: xs => if k < x then k :: x :: xs else if k = x then x :: xs else x :: insertSorted k xs

def renderTbl (keys : List String) (t : String → Cell String) : String :=
  let sorted := keys.foldl (fun acc k => insertSorted k acc) []
  let parts := sorted.filterMap (fun k => (t k).map (fun c => k ++ "=" ++ c.1 ++ "*" ++ toString c.2))
  if parts.isEmpty then "-" else " ".intercalate parts

def migrateLine (buggy : Bool) (args : List String) : String :=
  match args with
  | sk :: dk :: n :: rest =>
    match parseKind sk, parseKind dk, n.toNat? with
    | some _, some dkind, some n =>
      match parseTriples n rest with
      | some (tops, rest') =>
        let olders : Option (List (String × String × Nat)) :=
          match rest' with
          | [] => some []
          | "older" :: m :: more =>
            match m.toNat? with
            | some m =>
              match parseTriples m more with
              | some (os, []) => some os
              | _ => none
            | none => none
          | _ => none
        match olders with
        | some os =>
          let all := tops ++ os
          let s : SrcCol String String :=
            { top := tops.map (·.1), older := if os.isEmpty then [] else [os.map (·.1)],
              cell := lookupTriple all }
          -- = migrateColBuggy "v0_0" dkind s / migrateCol dkind s  (migrateExec_get)
          let al := if buggy then migrateExec (iterIndex s) (setsOfBuggy "v0_0") dkind
                    else migrateExec (iterIndexAll s) setsOf dkind
          renderTbl (all.map (·.1)) (alGet al)
        | none => "bad-op"
      | none => "bad-op"
    | _, _, _ => "bad-op"
  | _ => "bad-op"

def parseCols : Nat → List String → Option (List ColOpts × List String)
  | 0, rest => some ([], rest)
  | n + 1, w :: rest =>
    match parseCol w, parseCols n rest with
    | some c, some (cs, rest') => some (c :: cs, rest')
    | _, _ => none
  | _ + 1, [] => none

def planLine (args : List String) : String :=
  match args with
  | _ow :: n :: rest =>
    match n.toNat? with
    | some n =>
      match parseCols n rest with
      | some (src, m :: rest') =>
        match m.toNat? with
        | some m =>
          match parseCols m rest' with
          | some (dst, [f]) =>
            let force := if f = "-" then some [] else (f.splitOn ",").mapM (·.toNat?)
            match force with
            | some force =>
              match plan src dst force with
              | .ok _ => "ok"
              | .errMigration => "err:Migration"
              | .panic => "panic"
            | none => "bad-op"
          | _ => "bad-op"
        | none => "bad-op"
      | _ => "bad-op"
    | none => "bad-op"
  | _ => "bad-op"

def driverLine (args : List String) : String :=
  match args with
  | ["recover", ib, chunk, entry, tail] =>
    match ib.toNat?, chunk.toNat?, entry.toNat?, unhex tail with
    | some ib, some chunk, some entry, some tail =>
      if tail.length = PARTIAL_SIZE then hexOf (recoverKey ib chunk entry tail) else "panic"
    | _, _, _, _ => "bad-op"
  | ["prefix", ib, chunk, entry] =>
    match ib.toNat?, chunk.toNat?, entry.toNat? with
    | some ib, some chunk, some entry => hexOf (recoverKeyPrefix ib chunk entry)
    | _, _, _ => "bad-op"
  | "migrate" :: rest => migrateLine false rest
  | "migratebuggy" :: rest => migrateLine true rest
  | "plan" :: rest => planLine rest
  | _ => "bad-op"

end Pdb.Migrate
