import Pdb.Gen.Prim
import Pdb.Gen.Consts
import Pdb.Gen.Bits
import Pdb.Model.Pipeline
