#!/bin/bash
# sweep_reverts.sh <hash:property ...> : revert one fix commit of /repo at a time in the repository under test ($PDB_REPO,
# default /repo; working tree only), run the quick check of the property the fix was recorded for, undo.  A fixed finding
# suppresses nothing: the check must report the violation again.
cd "$(dirname "$0")/.."
repo=${PDB_REPO:-/repo}
for hp in "$@"; do
  h=${hp%%:*}; p=${hp##*:}
  git -C $repo diff $h $h~1 -- src > /tmp/revert_$h.diff 2>/dev/null
  if ! git -C $repo apply --check /tmp/revert_$h.diff 2>/dev/null; then echo "$h $p: REVERT-DOES-NOT-APPLY (later commits changed the same lines)"; continue; fi
  git -C $repo apply /tmp/revert_$h.diff
  r=$(./check $p --tier quick 2>&1 | grep -E "VIOLATION" | head -1 | cut -c1-130)
  git -C $repo checkout -- .
  echo "$h $p: ${r:-no violation reported}"
done
