#!/bin/bash
# confirm_seed2.sh <tag> <PropertyId> [check ids...] : like confirm_seed.sh, but our checks run in a private copy of /verif
# (/dev/shm/vseed) against a private worktree of /repo (/dev/shm/vseed-repo, PDB_REPO), so that /repo and /verif stay untouched
# while other builds use them.  Confirms: lib tests pass with the patch, demo fails with it and passes without; runs the quick
# checks; stores the seed under /verif/seeded/<PropertyId>-<tag>/ ; removes the agent's worktree.
tag=$1; pid=$2; shift 2; checks=${@:-$pid}
base=/tmp/mut-$tag; wt=$base/wt; out=$base/out
export CARGO_TARGET_DIR=/dev/shm/seedtarget-$tag CARGO_NET_OFFLINE=true TMPDIR=/dev/shm
cd $wt || exit 2
git diff -- src > $base/confirm.diff
[ -s $base/confirm.diff ] || { echo "empty diff"; exit 2; }
lib=$(timeout 1500 cargo test --offline --lib 2>&1 | grep "^test result" | head -1)
demo_with=$(timeout 1500 cargo test --offline --features instrumentation --test demo_$tag 2>&1 | grep "^test result" | head -1)
git checkout -q -- src
demo_without=$(timeout 1500 cargo test --offline --features instrumentation --test demo_$tag 2>&1 | grep "^test result" | head -1)
git apply $base/confirm.diff
echo "lib(with patch): $lib"; echo "demo(with patch): $demo_with"; echo "demo(without): $demo_without"
# private copy of the machinery + private worktree of /repo
V=/dev/shm/vseed-$tag; R=/dev/shm/vseed-repo-$tag
rm -rf $V; mkdir -p $V; rsync -a --exclude evidence/replays --exclude seeded --exclude fixes /verif/ $V/
git -C /repo worktree add --detach $R HEAD >/dev/null 2>&1 || { echo "worktree failed"; exit 3; }
git -C $R apply $base/confirm.diff || { echo "patch does not apply to /repo HEAD"; git -C /repo worktree remove --force $R; exit 3; }
res=""
for c in $checks; do
  r=$(cd $V && PDB_REPO=$R timeout 3000 ./check $c --tier quick 2>&1 | grep -E "VIOLATION" | head -2 | cut -c1-220 | tr '\n' ' ')
  res="$res$c: ${r:-no violation reported} ; "
done
echo "checks: $res"
git -C /repo worktree remove --force $R; rm -rf $V
d=/verif/seeded/$pid-$tag; mkdir -p $d
cp $base/confirm.diff $d/patch.diff; cp $wt/tests/demo_$tag.rs $d/demo.rs 2>/dev/null || cp $out/demo.rs $d/demo.rs
python3 - "$d" "$out/meta.json" "$lib" "$demo_with" "$demo_without" "$res" "$pid" <<'PY'
import json,sys
d,meta,lib,dw,dwo,res,pid=sys.argv[1:8]
try: m=json.load(open(meta))
except Exception: m={}
m.update({"property":pid,"confirmed":{"lib_tests_with_patch":lib,"demo_with_patch":dw,"demo_without_patch":dwo},"our_checks_with_patch":res,
 "ran":"cargo test --offline --lib (patched); cargo test --offline --features instrumentation --test demo (patched, then with src reverted); patch applied to a private worktree of /repo HEAD, ./check <id> --tier quick in a private copy of /verif with PDB_REPO pointing at it (equivalent to git -C /repo apply / check / git -C /repo checkout -- ., without disturbing concurrent builds)"})
json.dump(m,open(d+"/meta.json","w"),indent=1)
PY
git -C /repo worktree remove --force $wt; rm -rf $base/target /dev/shm/seedtarget-$tag
echo "stored $d"
