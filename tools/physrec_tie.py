import sys,subprocess
trace=sys.argv[1]
ops=[];obs=[];stats={}
for line in open(trace):
    line=line.rstrip('\n')
    if line.startswith('#STAT'):
        p=line.split(); 
        if len(p)>=3: stats[p[1]]=p[2]
    if not line or line[0] in '#!' or '\t' not in line: continue
    o,e=line.split('\t',1)
    ops.append(o);obs.append(e)
ops.append('physrec stats')
r=subprocess.run(['/verif/lean/.lake/build/bin/pdbdriver'],input='\n'.join(ops)+'\n',capture_output=True,text=True)
out=r.stdout.split('\n')
bad=0;n={}
for i,(o,e) in enumerate(zip(ops,obs)):
    g=out[i] if i<len(out) else '<none>'
    k=o.split()[1]; n[k]=n.get(k,0)+1
    if g!=e:
        bad+=1
        if bad<=5: print('DIFF',i,o[:120],'| expected',e,'| got',g)
print('ops',len(obs),n,'diffs',bad)
print('driver:',out[len(obs)])
for k in ['cases','rec.compared','rec.bytes','rec.index_bits_not_16','rec.with_D_token','torn.images','torn.mismatch','values.multipart','oracle_failures','rec.tokens.index','rec.index_entries','rec.tokens.value','rec.tokens.header']:
    print(k,stats.get(k))
