#!/bin/bash
# confirm_seed.sh <tag> <PropertyId> : confirm a seeded change delivered under /tmp/mut-<tag>
# (lib tests pass with it, demo fails with it and passes without), run our check against it,
# store it under /verif/seeded/<PropertyId>-<tag>/ and remove the scratch worktree.
tag=$1; pid=$2; base=/tmp/mut-$tag; wt=$base/wt; out=$base/out
export CARGO_TARGET_DIR=/dev/shm/seedtarget-$tag CARGO_NET_OFFLINE=true
cd $wt || exit 2
git diff -- src > $base/confirm.diff
if ! diff -q <(grep '^[+-]' $base/confirm.diff) <(grep '^[+-]' $out/patch.diff) >/dev/null; then echo "NOTE: worktree diff differs from out/patch.diff (using worktree diff)"; fi
lib=$(timeout 1200 cargo test --offline --lib 2>&1 | grep "^test result" | head -1)
demo_with=$(timeout 1200 cargo test --offline --features instrumentation --test demo_$tag 2>&1 | grep "^test result" | head -1)
git checkout -q -- src
demo_without=$(timeout 1200 cargo test --offline --features instrumentation --test demo_$tag 2>&1 | grep "^test result" | head -1)
git apply $base/confirm.diff
echo "lib(with patch): $lib"; echo "demo(with patch): $demo_with"; echo "demo(without): $demo_without"
# our checks against it
git -C /repo apply $base/confirm.diff || { echo "patch does not apply to /repo"; exit 3; }
cd /verif
checks=${3:-$pid}
res=""
for c in $checks; do r=$(./check $c --tier quick 2>&1 | grep -E "VIOLATION" | head -2 | cut -c1-200); res="$res$c: ${r:-no violation reported} ; "; done
git -C /repo checkout -- .
echo "checks: $res"
d=/verif/seeded/$pid-$tag; mkdir -p $d
cp $base/confirm.diff $d/patch.diff; cp $wt/tests/demo_$tag.rs $d/demo.rs 2>/dev/null || cp $out/demo.rs $d/demo.rs
python3 - "$d" "$out/meta.json" "$lib" "$demo_with" "$demo_without" "$res" "$pid" <<'PY'
import json,sys
d,meta,lib,dw,dwo,res,pid=sys.argv[1:8]
try: m=json.load(open(meta))
except Exception: m={}
m.update({"property":pid,"confirmed":{"lib_tests_with_patch":lib,"demo_with_patch":dw,"demo_without_patch":dwo},"our_checks_with_patch":res,
 "ran":"cargo test --offline --lib (patched); cargo test --offline --features instrumentation --test demo (patched, then with src stashed); git -C /repo apply patch.diff; ./check <id> --tier quick; git -C /repo checkout -- ."})
json.dump(m,open(d+"/meta.json","w"),indent=1)
PY
git -C /repo worktree remove --force $wt; rm -rf $base/target /dev/shm/seedtarget-$tag
# restore evidence of the unchanged tree
for c in $checks; do ./check $c --tier quick >/dev/null 2>&1; done
echo "stored $d"
