#!/usr/bin/env python3
"""mkseedprompt.py <tag> <PropertyId> [focus hint] : write /tmp/mut-<tag>/PROMPT.txt for a mutation sub-agent.
The prompt contains ONLY the property text (title, statement, quantifier, anchor files) and generic facts about the crate's
public testing API; nothing about /verif."""
import json, sys, os
tag, pid = sys.argv[1], sys.argv[2]
focus = sys.argv[3] if len(sys.argv) > 3 else ""
prop = [json.loads(l) for l in open('/verif/properties.jsonl') if json.loads(l)['id'] == pid][0]
base = f"/tmp/mut-{tag}"
os.makedirs(base + "/out", exist_ok=True)
files = ", ".join(prop['anchors']['files'])
txt = f"""You are a software engineer testing the robustness of a verification effort by seeding a realistic defect. You work ONLY inside your own scratch area {base} and must not read or write anything under /verif, and must not modify /repo itself (the only permitted interaction with /repo is `git -C /repo worktree add --detach {base}/wt HEAD` at the start; do NOT remove the worktree at the end — leave it in place for review, but delete its build output: remove {base}/target when you are done).

The repository (Rust crate parity-db, an embedded persistent key-value store with a write-ahead log, hash and btree indexes, reference-counted values, multitree columns and a background commit pipeline; sources under src/) is supposed to satisfy this property:

  {pid} — {prop['title']}
  {prop['statement']}
  (It is meant to hold for: {prop['quantifier']['text']})

YOUR TASK: produce ONE change to the crate's source (under {base}/wt/src) that BREAKS this property while the crate still compiles and its existing test suite still passes (`cd {base}/wt && CARGO_TARGET_DIR={base}/target cargo test --offline --lib 2>&1 | tail -5` must report 36 passed, 0 failed — run it). The change must look like a plausible slip a maintainer could make (an off-by-one, a wrong comparison, a dropped or reordered call, a missing lock or flag, a stale cache, an early return, swapped arguments, a boundary constant, a wrong variable of the same type...), NOT an obvious sabotage and NOT something ordinary use would expose at once: it must need something SPECIFIC to manifest — e.g. a particular interleaving of pipeline stages, a crash or fault at a particular point, a multi-step sequence of operations, an unusual input size or key, a particular column configuration, or two cooperating sites that each look fine alone. {focus} Prefer changes in the code the property is anchored in ({files}). Do not use `git stash` (to test the unpatched state copy the patched file aside and `git checkout -- src`, then copy it back). Do not touch tests, Cargo files, or any `#[cfg(pdb_verif)]` / `verif` hook code. Keep the diff small (1-15 lines).

Useful facts: building with `--features instrumentation` gives `Options::with_background_thread` (set false to drive the pipeline by hand) and the stepping API on `Db`: `process_commits()` (writes ONE queued commit to the log), `flush_logs()`, `enact_logs()` (applies one flushed log file to the tables), `clean_logs()`, `process_reindex()`; `parity_db::set_number_of_allowed_io_operations(n)` makes the n-th file operation (and all later ones) fail. A crash can be simulated by copying the database directory while the handle is alive and opening the copy. A uniform-key column with Options::salt = Some([0u8; 32]) makes the hash the identity on 32-byte keys under the instrumentation feature. Look at src/db.rs tests (mod tests) for usage examples. There is NO network; all crates needed are already vendored in the cargo cache; always pass --offline. Put scratch databases under /dev/shm (TMPDIR=/dev/shm) and wrap every test run in `timeout 600`.

DELIVERABLES in {base}/out/ :
  1. patch.diff — `git -C {base}/wt diff -- src` of your source change ONLY (not the demo).
  2. demo.rs — a self-contained demonstration, written as an integration test file to be placed at `tests/demo_{tag}.rs` of the crate (it may use `parity_db::*` public API incl. the instrumentation stepping API and tempfile from dev-dependencies), that FAILS (assertion or panic, not a hang: use a watchdog if the defect is a hang) with your change applied and PASSES on the unchanged tree. Verify BOTH yourself: run `CARGO_TARGET_DIR={base}/target cargo test --offline --features instrumentation --test demo_{tag}` with the patch (must fail) and after reverting src (must pass); restore the patch afterwards so that the worktree ends in the PATCHED state with the demo file present under tests/.
  3. meta.json — {{"property": "{pid}", "summary": "<one line: what was changed>", "needs": "<what specific situation makes it manifest>", "verified": "<the exact commands you ran and their outcomes: lib tests 36 passed with patch; demo fails with patch; demo passes without>"}}.
Your final message: the summary, the diff, and the verification outcomes."""
open(base + "/PROMPT.txt", "w").write(txt)
os.makedirs('/verif/seeded/prompts', exist_ok=True)
open(f'/verif/seeded/prompts/prompt_{tag}.txt', 'w').write(txt)
print(base + "/PROMPT.txt")
