#!/bin/bash
# run every claimed check (quick) on the current tree; print id, rc, wall time
cd "$(dirname "$0")/.."
for p in $(python3 -c "import json;print(' '.join(c['property_id'] for c in json.load(open('MANIFEST.json'))['checks']))"); do
  s=$(date +%s); out=$(./check $p --tier ${1:-quick} 2>&1 | grep -E "VIOLATION|KNOWN-FINDING" | cut -c1-160); rc=${PIPESTATUS[0]}
  e=$(date +%s); echo "$p $((e-s))s ${out:-ok}"
done
