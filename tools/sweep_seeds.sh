#!/bin/bash
# sweep_seeds.sh <seed dir names...> : for each stored seeded change apply it to the repository under test
# ($PDB_REPO, default /repo), run the quick check of its property, undo.  Meant for `vp run --with-repo`
# (PDB_REPO=$VP_RUN_REPO) so that several sweeps can run side by side on private snapshots.
cd "$(dirname "$0")/.."
repo=${PDB_REPO:-/repo}
for n in "$@"; do
  d=$PWD/seeded/$n; p=${n%%-*}
  git -C $repo apply --check $d/patch.diff 2>/dev/null || { echo "$n: PATCH-DOES-NOT-APPLY"; continue; }
  git -C $repo apply $d/patch.diff
  r=$(./check $p --tier quick 2>&1 | grep -E "VIOLATION" | head -1 | cut -c1-120)
  git -C $repo checkout -- .
  echo "$n: ${r:-no violation reported}"
done
