"""Per-property configuration of the check driver (what to build, what to run)."""

TRUSTED_BASE = [
    "Lean 4.33.0 kernel (thorough tier: leanchecker re-check of the property module)",
    "axioms per theorem as listed under coverage.theorems (subset of propext, Classical.choice, Quot.sound)",
    "tools/rs2lean.py (constants + bit functions regenerated from /repo/src on every run)",
    "correspondence harness /verif/harness (generators, canonicalisation, independent oracles)",
]

A_HASH = "A-hash: hash_key (salted Blake2b / SipHash) is injective on the keys of a history (checked dynamically: distinct generated keys never collide in the runs)"
A_COMPRESS = "A-compress: decompress(compress v) = v for lz4 / snappy (exercised by every round trip in the runs)"
P2_GAP = "physical layers below the logical pipeline (index pages, value-table chains, WAL bytes) are tied to the P1 model by correspondence, not by a refinement proof"

P1_RULE = ("histories generated from one SplitMix64 state: commits of 1..6 ops over 1..3 columns and a small key pool "
           "(repeated keys, removals, invalid ops ~3%), interleaved with process / flush / enactall / clean / reindex / "
           "reopen (and crash for C02/C03/C07); distinct = by SHA-1 of the op list; non-trivial = the history had data "
           "in at least two different pipeline stages at some observation point")

HOOK_COMMITS = ["39fa7aa verif hook: expose both index page searches (cfg pdb_verif)"]
NOT_APPLICABLE = {}

PROPS = {
    "C01": {
        "level_text": ("Lean theorem C01_get_eq_spec: for every list of actions (commits, every interleaving of process / flush / "
                       "enact / clean / reindex steps, clean reopens, crashes) a read of a plain hash-column key returns the latest "
                       "committed write and get_size its length; proved by an invariant over the logical pipeline model (P1). The model "
                       "is tied to the code by differential runs of the compiled model against the real Db on generated histories and by "
                       "an independent BTreeMap oracle."),
        "level_note": ("Trusted: Lean kernel; the P1 model abstracts storage below the log-record level (tied by correspondence only); "
                       "hash injectivity (A-hash); compression round trip (A-compress); harness generators."),
        "lean": ["Pdb.Props.C01"],
        "harness": [{"cmd": "p1", "quick": 300, "thorough": 20000}],
        "rule": P1_RULE,
        "assumptions": [A_HASH, A_COMPRESS, P2_GAP],
    },
    "C19": {
        "level_text": ("Lean theorems C19_sse2_result / never_before_p / never_empty / finds_if_base_finds / eq_base / base_result: for "
                       "every page content, key prefix, start position and index size <= 49 bits the SSE2 search (lane-level model of "
                       "the seven intrinsics) returns the first slot at or after p agreeing on the compared bits, never an empty slot, "
                       "never 'absent' when the scalar search finds a match, and equals the scalar search from 18 index bits on. The "
                       "shift / partial-key expressions and constants are regenerated from src/index.rs on every run, so the proofs are "
                       "re-checked against the code's current expressions; loop structure and intrinsic semantics are tied by "
                       "differential runs against the real functions (hook)."),
        "level_note": ("Trusted: Lean kernel; hand-written lane semantics of the SSE2 intrinsics; the hook calling the two private "
                       "functions; index sizes above 49 bits are outside the theorem (address_bits = 64 overflows the u64 shift)."),
        "lean": ["Pdb.Props.C19"],
        "harness": [{"cmd": "c19", "quick": 20000, "thorough": 300000, "max_search": 600000}],
        "rule": ("synthetic 64-entry pages from one SplitMix64 state in six styles (empty, sparse exact matches, near misses in the "
                 "dropped / lowest partial-key bits, zero partial keys on non-empty entries, dense random, duplicates), index bits "
                 "16..49, start 0..64, key prefixes incl. zero partial key; distinct by SHA-1 of the op line; non-trivial = a search "
                 "found something or the page holds near-miss / zero-key entries"),
        "assumptions": ["SSE2 intrinsic semantics as modelled in Pdb/Model/IndexPage.lean (validated against the hardware by the runs)"],
        "trusted": ["hook index.rs verif_find_entries (cfg pdb_verif)"],
    },
}
